(** Extraction of the executable model. Only ExtrOcamlBasic is used: bool, option, unit, list,
    prod, sumbool, sumor map to OCaml's; andb/orb inlined. N, positive, Z, nat stay inductive. *)
From Coq Require Import ExtrOcamlBasic.
From BL Require Import Extract.Api.
Extraction Language OCaml.
Extraction "model.ml" Api.api Api.api_queue Api.api_session Api.api_session_state Api.site_source Api.api_mser.
