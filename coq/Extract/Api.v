(** Entry points of the executable model used by the correspondence driver (ocaml/modeldrv.ml).
    Every entry point maps a list of byte strings (the case's arguments) to one line of text. *)
From Coq Require Import List NArith ZArith Bool String.
From BL Require Import Base.Bytes Reader.Entry Reader.SegMap Reader.EventStream Reader.Filter Render.Pretty Render.Time Render.Message Queue.QueueModel Session.SessionModel Mser.Types Mser.Encode Mser.Tag Mser.Visit.
From BL Require Mser.Decode.
From BL Require Render.FloatG Recovery.Recover Recovery.ImageProofs.
Import ListNotations.
Local Open Scope N_scope.

Definition hexdigit (n : N) : N := if n <? 10 then 48 + n else 87 + n.
Fixpoint hex (l : bytes) : bytes :=
  match l with [] => [] | b :: r => hexdigit (b / 16) :: hexdigit (b mod 16) :: hex r end.

Fixpoint beq_bytes (a b : bytes) : bool :=
  match a, b with
  | [], [] => true
  | x :: a', y :: b' => (x =? y) && beq_bytes a' b'
  | _, _ => false
  end.

Fixpoint parse_dec_aux (l : bytes) (acc : N) : N :=
  match l with [] => acc | c :: r => parse_dec_aux r (acc * 10 + (c - 48)) end.
Definition parse_dec (l : bytes) : N := parse_dec_aux l 0.

Definition sp : bytes := [32].
Fixpoint join (sep : bytes) (ls : list bytes) : bytes :=
  match ls with [] => [] | [x] => x | x :: r => x ++ sep ++ join sep r end.

Definition err_token (e : errk) : bytes :=
  match e with
  | ESizeHdr _ => str "hdr"
  | EPayload _ _ => str "payload"
  | EUnknownSource id => str "src:" ++ dec id
  | _ => str "other"
  end.
Definition end_token (st : endst) : bytes :=
  match st with EndOk => str "ok" | EndErr e => str "err:" ++ err_token e end.

(** stage-1 stand-ins; replaced by Render.Message / Render.Time when present *)
(** %.16g is not modelled yet: floating point leaves print as a marker the generators avoid *)
Definition float_stub (a : aty) (raw : N) : bytes := FloatG.float_text a raw.
Definition stub_msg (local : bool) (tfmt : bytes) (v : view) : bytes * bool := (str "<m>", true).
(** the code as it is now: floor (D3), non-negative %y (D4), wide abs (D5) *)
Definition cfg_now := mkTC true true true.
Definition model_time (local : bool) (tfmt : bytes) (cs : clocksync) (clock : N) : bytes := fst (render_clock cfg_now local tfmt cs clock).

Definition the_render (fmt tfmt : bytes) : view -> bytes * bool := print_event (render_message float_stub cfg_now) model_time fmt tfmt.

Definition api_print (fmt tfmt log : bytes) : bytes :=
  let (t, st) := print_events (the_render fmt tfmt) log in end_token st ++ sp ++ hex t.

Definition api_sorted (flush : bool) (fmt tfmt log : bytes) : bytes :=
  let (t, st) := print_sorted (the_render fmt tfmt) flush log in end_token st ++ sp ++ hex t.

Definition api_tos (fmt tfmt : bytes) (chunks : list bytes) : bytes :=
  join sp (map (fun r => end_token (snd r) ++ str "=" ++ hex (fst r)) (tos_writes (the_render fmt tfmt) rs_init chunks)).

(** predicates over sources: kind + parameter *)
Definition mk_pred (kind param : bytes) : source -> bool :=
  if beq_bytes kind (str "sevge") then (fun s => parse_dec param <=? s_sev s)
  else if beq_bytes kind (str "cateq") then (fun s => beq_bytes (s_category s) param)
  else if beq_bytes kind (str "fneq") then (fun s => beq_bytes (s_function s) param)
  else if beq_bytes kind (str "linelt") then (fun s => s_line s <? parse_dec param)
  else if beq_bytes kind (str "idodd") then (fun s => N.odd (s_id s))
  else if beq_bytes kind (str "none") then (fun _ => false)
  else (fun _ => true).

Definition sumlen (ws : list bytes) : N := fold_left (fun a w => a + lenN w) ws 0.

Definition api_filter (erase : bool) (kind param : bytes) (chunks : list bytes) : bytes :=
  join sp (map (fun r => end_token (snd r) ++ str "=" ++ dec (sumlen (fst r)) ++ str "=" ++ join (str ",") (map hex (fst r)))
               (write_allowed_chunks (mk_pred kind param) erase [] chunks)).

Definition src_text (s : source) : bytes :=
  join (str ",") [dec (s_id s); dec (s_sev s); hex (s_category s); hex (s_function s); hex (s_file s);
                  dec (s_line s); hex (s_format s); hex (s_argtags s)].
Definition view_text (v : view) : bytes :=
  str "E(" ++ join (str ";") [src_text (v_src v);
     join (str ",") [dec (wp_id (v_wp v)); hex (wp_name (v_wp v)); dec (wp_batch (v_wp v))];
     join (str ",") [dec (cs_clock (v_cs v)); dec (cs_freq (v_cs v)); dec (cs_ns (v_cs v)); dec (cs_tz (v_cs v)); hex (cs_tzname (v_cs v))];
     dec (v_clock v); hex (v_args v)] ++ str ")".
Definition outcome_text (o : outcome) : bytes :=
  match o with ONone => [] | OEvent v => view_text v | OErr e => str "X:" ++ err_token e end.

(** nextEvent in a loop over a RangeEntryStream, continuing after event-level errors *)
Definition api_events (log : bytes) : bytes :=
  let (ps, e) := scan log in
  let (os, _) := events_fold rs_init ps in
  join sp (map outcome_text os ++ [end_token (match ps, e with _, e => end_of_scan e end)]).

(** SegmentedMap alone: emplace keys (value = sequence number), then look up probes *)
Definition api_segmap (keys probes : list N) : bytes :=
  let m := fold_left (fun (acc : segmap N * N) k => (sm_emplace (fst acc) k (snd acc), snd acc + 1)) keys (sm_empty, 0) in
  join sp (map (fun k => match sm_find (fst m) k with Some v => dec v | None => str "-" end) probes).

(** the resume protocol of C12: pieces arrive one by one; after each, everything available is printed;
    reports status, text and the stream position (bytes consumed so far) *)
Fixpoint api_resume_loop (render : view -> bytes * bool) (rs : rstate) (pending : bytes) (consumed : N) (pieces : list bytes) : list bytes :=
  match pieces with
  | [] => []
  | d :: r =>
    let data := pending ++ d in
    let (ps, e) := scan data in
    match read_fold render rs ps (end_of_scan e) with
    | (ls, part, st, rs') =>
      let pending' := pending_of e in
      let consumed' := consumed + lenN data - lenN pending' in
      (end_token st ++ str "=" ++ hex (List.concat (map snd ls) ++ part) ++ str "=" ++ dec consumed')
        :: api_resume_loop render rs' pending' consumed' r
    end
  end.
Definition api_resume (fmt tfmt : bytes) (pieces : list bytes) : bytes :=
  join sp (api_resume_loop (the_render fmt tfmt) rs_init [] 0 pieces).

(** mserialize::visit on an arbitrary tag and arbitrary bytes: callbacks (plain visitor) and text (ToStringVisitor) *)
Definition vcb_text (c : cb) : bytes :=
  match c with
  | CArith l raw => str "A" ++ [l] ++ dec (if N.eqb l 68 then N.modulo raw (2 ^ 80) else raw)
  | CSeqBegin n t => str "[" ++ dec n ++ str ":" ++ hex t
  | CSeqEnd => str "]"
  | CSeqChars cs => str "C" ++ hex cs
  | CTupleBegin t => str "(" ++ hex t
  | CTupleEnd => str ")"
  | CVariantBegin d t => str "<" ++ dec d ++ str ":" ++ hex t
  | CVariantEnd => str ">"
  | CNull => str "0"
  | CEnum n e u h => str "E" ++ hex n ++ str ":" ++ hex e ++ str ":" ++ [u] ++ str ":" ++ hex h
  | CStructBegin n t => str "{" ++ hex n ++ str ":" ++ hex t
  | CStructEnd => str "}"
  | CFieldBegin n t => str "F" ++ hex n ++ str ":" ++ hex t
  | CFieldEnd => str "f"
  | CRepeatBegin n t => str "R" ++ dec n
  | CRepeatEnd n t => str "r" ++ dec n
  | CSpecial t => str "S" ++ hex t
  end.
Definition no_special0 (n t i : bytes) : option (option (bytes * bytes)) := None.
Definition api_visit (tg bs : bytes) : bytes :=
  (match visit false no_special0 2048 tg tg bs with
   | VOk (cbs, rest) => str "ok " ++ join (str ",") (map vcb_text cbs) ++ str ";" ++ dec (lenN rest)
   | VErr _ partial => str "err " ++ join (str ",") (map vcb_text partial)
   end) ++
  (match visit true no_special0 2048 tg tg bs with
   | VOk (cbs, _) => str " ok " ++ hex (snd (tostring float_stub ts_init cbs))
   | VErr _ partial => str " err " ++ hex (snd (tostring float_stub ts_init partial))
   end).

Definition nth_arg (args : list bytes) (i : nat) : bytes := nth i args [].

Definition api (mode : bytes) (args : list bytes) : bytes :=
  if beq_bytes mode (str "print") then api_print (nth_arg args 0) (nth_arg args 1) (nth_arg args 2)
  else if beq_bytes mode (str "sorted") then api_sorted true (nth_arg args 0) (nth_arg args 1) (nth_arg args 2)
  else if beq_bytes mode (str "sorted_noflush") then api_sorted false (nth_arg args 0) (nth_arg args 1) (nth_arg args 2)
  else if beq_bytes mode (str "tos") then api_tos (nth_arg args 0) (nth_arg args 1) (skipn 2 args)
  else if beq_bytes mode (str "filter") then api_filter true (nth_arg args 0) (nth_arg args 1) (skipn 2 args)
  else if beq_bytes mode (str "filter_noerase") then api_filter false (nth_arg args 0) (nth_arg args 1) (skipn 2 args)
  else if beq_bytes mode (str "recover") then hex (Recovery.Recover.recover (nth_arg args 0))
  else if beq_bytes mode (str "visit") then api_visit (nth_arg args 0) (nth_arg args 1)
  else if beq_bytes mode (str "resume") then api_resume (nth_arg args 0) (nth_arg args 1) (skipn 2 args)
  else if beq_bytes mode (str "events") then api_events (nth_arg args 0)
  else if beq_bytes mode (str "segmap") then
    api_segmap (map le_dec (match payloads_of (nth_arg args 0) with Some l => l | None => [] end))
               (map le_dec (match payloads_of (nth_arg args 1) with Some l => l | None => [] end))
  else str "unknown-mode".

(** * the queue: one token per operation: <output>/<w>,<r>,<dataEnd>,<writePos>,<writeEnd> *)
Definition qstate_text (s : qstate) : bytes :=
  join (str ",") [decZ (sv (w_new s)); decZ (sv (r_new s)); decZ (dataEnd s); decZ (wpos s); decZ (wend s)].
Definition qout_text (o : qout) : bytes :=
  match o with
  | OutGrant true => str "g1" | OutGrant false => str "g0"
  | OutBatch p1 p2 => str "B" ++ hex p1 ++ str "," ++ hex p2
  | OutNone => str "-"
  end.
Fixpoint api_queue_loop (s : qstate) (ops : list qop) : list bytes :=
  match ops with
  | [] => []
  | o :: r => let (s', out) := qstep s o in (qout_text out ++ str "/" ++ qstate_text s') :: api_queue_loop s' r
  end.
Definition api_queue (c : Z) (ops : list qop) : bytes := join sp (api_queue_loop (init c) ops).

(** * the session: one token per operation *)
Definition fixed_cs : clocksync := mkCS 0 1000000000 0 0 (str "UTC").
Definition sout_text (o : sout) : bytes :=
  match o with
  | SoNone => str "-"
  | SoBool true => str "b1" | SoBool false => str "b0"
  | SoId id => str "i" ++ dec id
  | SoWrites ws r => str "W" ++ join (str ",") (map hex ws) ++ str ";" ++
      join (str ",") [dec (cr_bytes r); dec (cr_total r); dec (cr_polled r); dec (cr_removed r)]
  end.
Definition api_session (fence : bool) (ops : list sop) : bytes :=
  join sp (map sout_text (snd (srun fence (sess_init fixed_cs) ops))).
(** the memory of the session after a history, as the recovery theorems describe it (C08 state tie): clock-sync buffer, sources buffer,
    then the committed-but-unreleased bytes of every channel *)
Definition hex_or_dash (b : bytes) : bytes := match b with [] => str "-" | _ => hex b end.
Definition api_session_state (cs0 : clocksync) (ops : list sop) : bytes :=
  let s := fst (srun true (sess_init cs0) ops) in
  join sp (hex_or_dash (cs_buf s) :: hex_or_dash (src_buf s) :: map (fun ch => hex_or_dash (Recovery.ImageProofs.unreleased (ch_q ch))) (channels s)).
(** a source derived from a small number, the same way the driver builds it *)
Definition site_source (n sev : N) : source :=
  mkSource 0 sev (str "cat" ++ dec n) (str "fn" ++ dec n) (str "file" ++ dec n ++ str ".cpp") (100 + n) (str "msg " ++ dec n ++ str " {}") (str "i").

(** * mserialize: one line per (type, value) *)
Fixpoint deser_ok (t : ty) : bool :=
  match t with
  | TArith _ | TEnum _ _ _ | TUnit => true
  | TSeq _ e => deser_ok e
  | TOpt e => deser_ok e
  | TTuple ts => forallb deser_ok ts
  | TStruct _ fs => forallb (fun f => deser_ok (snd f)) fs
  | TVariant _ => false
  end.
Fixpoint all_prefixes_fail (t : ty) (e : bytes) (n : nat) : bool :=
  match n with
  | O => true
  | S k => (match Mser.Decode.dec t (firstn k e) with Mser.Decode.DErr _ => true | Mser.Decode.DOk _ => false end) && all_prefixes_fail t e k
  end.
Definition cb_text (c : cb) : bytes :=
  match c with
  | CArith l raw => str "A" ++ [l] ++ dec (if N.eqb l 68 then N.modulo raw (2 ^ 80) else raw)
  | CSeqBegin n t => str "[" ++ dec n ++ str ":" ++ hex t
  | CSeqEnd => str "]"
  | CSeqChars cs => str "C" ++ hex cs
  | CTupleBegin t => str "(" ++ hex t
  | CTupleEnd => str ")"
  | CVariantBegin d t => str "<" ++ dec d ++ str ":" ++ hex t
  | CVariantEnd => str ">"
  | CNull => str "0"
  | CEnum n e u h => str "E" ++ hex n ++ str ":" ++ hex e ++ str ":" ++ [u] ++ str ":" ++ hex h
  | CStructBegin n t => str "{" ++ hex n ++ str ":" ++ hex t
  | CStructEnd => str "}"
  | CFieldBegin n t => str "F" ++ hex n ++ str ":" ++ hex t
  | CFieldEnd => str "f"
  | CRepeatBegin n t => str "R" ++ dec n
  | CRepeatEnd n t => str "r" ++ dec n
  | CSpecial t => str "S" ++ hex t
  end.
Definition no_special (n t i : bytes) : option (option (bytes * bytes)) := None.
Definition api_mser (t : ty) (v : val) : bytes :=
  let e := enc t v in
  let tg := tag t in
  join sp [str "wt=" ++ (if wt t v then str "1" else str "0");
           str "size=" ++ dec (size_of t v);
           str "bytes=" ++ hex e;
           str "tag=" ++ hex tg;
           str "rt=" ++ (if deser_ok t then match Mser.Decode.dec t e with Mser.Decode.DOk (v', []) => if beq_bytes (enc t v') e then str "ok" else str "bad" | _ => str "bad" end else str "na");
           str "trunc=" ++ (if deser_ok t then (if all_prefixes_fail t e (List.length e) then str "ok" else str "bad") else str "na");
           str "visit=" ++ (match visit false no_special 2048 tg tg e with
                            | VOk (cbs, rest) => join (str ",") (map cb_text cbs) ++ str ";" ++ dec (lenN rest)
                            | VErr _ _ => str "err" end);
           str "text=" ++ (match visit true no_special 2048 tg tg e with
                           | VOk (cbs, _) => hex (snd (tostring float_stub ts_init cbs))
                           | VErr _ _ => str "err" end)].
