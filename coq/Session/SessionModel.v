(** M6: Session.hpp / SessionWriter.hpp / create_source_and_event(_if).hpp.
    Channels hold the queue model of C01 (with its reads-from choices). The consumer's [consume] holds the
    session mutex from start to end, so operations that take the mutex (createChannel, addEventSource,
    setClockSync, setters, replaceChannel) are atomic with respect to it; the lock-free writer actions
    (addEvent on the fast path, dropping the channel reference) can happen at any point INSIDE consume:
    the [plan] of a consume lists, per polled channel, the writer actions that happen before the closed
    test and between the closed test and the poll. Definitions only. *)
From Coq Require Import List ZArith NArith Bool.
From BL Require Import Base.Bytes Reader.Entry Queue.QueueModel.
Import ListNotations.
Local Open Scope N_scope.

Record chan := mkChan {
  ch_uid : N;                   (* identity of the Channel object *)
  ch_q : qstate;
  ch_wid : N; ch_wname : bytes; ch_batch : N;     (* writerProp *)
  ch_owner : option N           (* the writer holding the other reference, None = closed (use_count()==1) *)
}.

Record sess := mkSess {
  channels : list chan;         (* _channels, in creation order *)
  cs_buf : bytes;               (* _clockSync: every clock-sync entry ever set *)
  consume_cs : bool;            (* _consumeClockSync *)
  src_buf : bytes;              (* _sources *)
  src_pos : N;                  (* _sourcesConsumePos *)
  next_sid : N;                 (* _nextSourceId *)
  total_bytes : N;              (* _totalConsumedBytes *)
  min_sev : N;                  (* _minSeverity *)
  next_uid : N;
  writers : list (N * N);       (* writer -> uid of its current channel *)
  sites : list (N * N)          (* log statement (static _binlog_sid) -> source id, 0/absent = not registered *)
}.

Definition sess_init (cs : clocksync) : sess :=
  mkSess [] (entry_special tag_cs (enc_cs cs)) true [] 0 1 0 32 0 [] [].

Fixpoint assoc (k : N) (l : list (N * N)) : option N :=
  match l with [] => None | (a, b) :: r => if a =? k then Some b else assoc k r end.
Definition set_assoc (k v : N) (l : list (N * N)) : list (N * N) := (k, v) :: filter (fun p => negb (fst p =? k)) l.

Definition upd_chan (uid : N) (f : chan -> chan) (cs : list chan) : list chan :=
  map (fun c => if ch_uid c =? uid then f c else c) cs.
Fixpoint find_chan (uid : N) (cs : list chan) : option chan :=
  match cs with [] => None | c :: r => if ch_uid c =? uid then Some c else find_chan uid r end.

Definition set_channels (s : sess) (cs : list chan) : sess :=
  mkSess cs (cs_buf s) (consume_cs s) (src_buf s) (src_pos s) (next_sid s) (total_bytes s) (min_sev s) (next_uid s) (writers s) (sites s).

(** Session::createChannel, for writer [w] *)
Definition create_channel (s : sess) (w : N) (capacity : Z) (wid : N) (wname : bytes) : sess :=
  let c := mkChan (next_uid s) (init capacity) wid wname 0 (Some w) in
  mkSess (channels s ++ [c]) (cs_buf s) (consume_cs s) (src_buf s) (src_pos s) (next_sid s) (total_bytes s) (min_sev s)
         (next_uid s + 1) (set_assoc w (next_uid s) (writers s)) (sites s).

(** the writer drops its reference (destruction, or replacement of the channel) *)
Definition close_chan (uid : N) (cs : list chan) : list chan :=
  upd_chan uid (fun c => mkChan (ch_uid c) (ch_q c) (ch_wid c) (ch_wname c) (ch_batch c) None) cs.

Definition event_entry (payload : bytes) : bytes := frame payload.

(** SessionWriter::addEvent with payload = id ++ clock ++ serialized arguments.
    [k1], [k2]: reads-from choices of the (at most two) loads of the read index.
    Returns the new session and whether the fast path sufficed. *)
Definition add_event (s : sess) (w : N) (k : nat) (payload : bytes) : sess * bool :=
  match assoc w (writers s) with
  | None => (s, false)
  | Some uid =>
    match find_chan uid (channels s) with
    | None => (s, false)
    | Some c =>
      let entry := event_entry payload in
      let (q1, ok) := pbegin k (Z.of_nat (length entry)) (ch_q c) in
      if ok then
        (set_channels s (upd_chan uid (fun c => mkChan (ch_uid c) (pcommit entry q1) (ch_wid c) (ch_wname c) (ch_batch c) (ch_owner c)) (channels s)), true)
      else
        (* replaceChannel(totalSize): capacity max(old, 2*total); a new channel is created (appended), the writer
           switches to it and drops its reference to the old one; the entry goes into the new, empty queue *)
        let newcap := Z.max (cap (ch_q c)) (2 * Z.of_nat (length entry)) in
        let olds := close_chan uid (upd_chan uid (fun c => mkChan (ch_uid c) q1 (ch_wid c) (ch_wname c) (ch_batch c) (ch_owner c)) (channels s)) in
        let qn := pcommit entry (fst (pbegin 0 (Z.of_nat (length entry)) (init newcap))) in
        let cnew := mkChan (next_uid s) qn (ch_wid c) (ch_wname c) 0 (Some w) in
        (mkSess (olds ++ [cnew]) (cs_buf s) (consume_cs s) (src_buf s) (src_pos s) (next_sid s) (total_bytes s) (min_sev s)
                (next_uid s + 1) (set_assoc w (next_uid s) (writers s)) (sites s), false)
    end
  end.

(** the first half of addEvent when the request does not fit and the mutex is held by the consumer:
    beginWrite (with its load of the read index) has happened, replaceChannel is blocked *)
Definition add_event_probe (s : sess) (w : N) (k : nat) (payload : bytes) : sess * bool :=
  match assoc w (writers s) with
  | None => (s, false)
  | Some uid =>
    match find_chan uid (channels s) with
    | None => (s, false)
    | Some c =>
      let (q1, ok) := pbegin k (Z.of_nat (length (event_entry payload))) (ch_q c) in
      (set_channels s (upd_chan uid (fun c => mkChan (ch_uid c) q1 (ch_wid c) (ch_wname c) (ch_batch c) (ch_owner c)) (channels s)), ok)
    end
  end.

Definition close_writer (s : sess) (w : N) : sess :=
  match assoc w (writers s) with
  | None => s
  | Some uid => mkSess (close_chan uid (channels s)) (cs_buf s) (consume_cs s) (src_buf s) (src_pos s) (next_sid s) (total_bytes s)
                       (min_sev s) (next_uid s) (filter (fun p => negb (fst p =? w)) (writers s)) (sites s)
  end.

Definition set_writer_id (s : sess) (w : N) (id : N) : sess :=
  match assoc w (writers s) with
  | None => s
  | Some uid => set_channels s (upd_chan uid (fun c => mkChan (ch_uid c) (ch_q c) id (ch_wname c) (ch_batch c) (ch_owner c)) (channels s))
  end.
Definition set_writer_name (s : sess) (w : N) (name : bytes) : sess :=
  match assoc w (writers s) with
  | None => s
  | Some uid => set_channels s (upd_chan uid (fun c => mkChan (ch_uid c) (ch_q c) (ch_wid c) name (ch_batch c) (ch_owner c)) (channels s))
  end.

(** Session::addEventSource: the id is assigned under the mutex; returns the id *)
Definition add_source (s : sess) (src : source) : sess * N :=
  let id := next_sid s in
  let e := entry_special tag_source (enc_source (mkSource id (s_sev src) (s_category src) (s_function src) (s_file src) (s_line src) (s_format src) (s_argtags src))) in
  (mkSess (channels s) (cs_buf s) (consume_cs s) (src_buf s ++ e) (src_pos s) (id + 1) (total_bytes s) (min_sev s) (next_uid s) (writers s) (sites s), id).

Definition set_clock_sync (s : sess) (cs : clocksync) : sess :=
  mkSess (channels s) (cs_buf s ++ entry_special tag_cs (enc_cs cs)) true (src_buf s) (src_pos s) (next_sid s) (total_bytes s) (min_sev s) (next_uid s) (writers s) (sites s).

Definition set_min_sev (s : sess) (sev : N) : sess :=
  mkSess (channels s) (cs_buf s) (consume_cs s) (src_buf s) (src_pos s) (next_sid s) (total_bytes s) sev (next_uid s) (writers s) (sites s).

(** lock-free writer actions that may happen inside a consume *)
Inductive wact := WAdd (w : N) (k : nat) (payload : bytes) | WClose (w : N).

(** a WAdd that does not fit is blocked in createChannel until consume ends: it is returned as deferred, and so is
    everything the same (blocked) writer thread would do afterwards *)
Definition wact_writer (a : wact) : N := match a with WAdd w _ _ => w | WClose w => w end.
Definition is_blocked (w : N) (d : list wact) : bool := existsb (fun a => wact_writer a =? w) d.

Fixpoint run_wacts (s : sess) (d : list wact) (acts : list wact) : sess * list wact :=
  match acts with
  | [] => (s, d)
  | a :: r =>
    if is_blocked (wact_writer a) d then run_wacts s (d ++ [match a with WAdd w _ p => WAdd w 0 p | _ => a end]) r
    else match a with
    | WClose w => run_wacts (close_writer s w) d r
    | WAdd w k p =>
      let (s1, ok) := add_event_probe s w k p in
      if ok then let (s2, _) := add_event s1 w 0 p in run_wacts s2 d r
      else run_wacts s1 (d ++ [WAdd w 0 p]) r
    end
  end.

Record cplan := mkPlan { pl_before : list wact; pl_between : list wact; pl_k : nat }.
Definition plan_nth (plans : list cplan) (i : nat) : cplan := nth i plans (mkPlan [] [] 1000).

Definition wp_entry (c : chan) (batch : N) : bytes := entry_special tag_wp (enc_wp (mkWP (ch_wid c) (ch_wname c) batch)).

(** the channel loop of consume. Processes channels by position; returns the out.write calls, the
    number of channels removed, and the deferred writer actions. A closed channel is polled with the newest
    store: the acquire fence after use_count()==1 synchronizes with the release decrement of the writer that
    dropped its reference, which is sequenced after its last commit ([fence] = false models the tree
    without the fence: the stale reads-from choice stays available). *)
Fixpoint consume_loop (fence : bool) (s : sess) (d : list wact) (idx : nat) (n : nat) (plans : list cplan) : sess * list bytes * N * list wact :=
  match n with
  | O => (s, [], 0, d)
  | S n' =>
    let pl := plan_nth plans idx in
    let (s1, d1) := run_wacts s d (pl_before pl) in
    match nth_error (channels s1) idx with
    | None => (s1, [], 0, d1)
    | Some c0 =>
      let closed := match ch_owner c0 with None => true | Some _ => false end in
      let (s2, d2) := run_wacts s1 d1 (pl_between pl) in
      match nth_error (channels s2) idx with
      | None => (s2, [], 0, d2)
      | Some c =>
        let k := if closed && fence then length (Wpend (ch_q c)) else pl_k pl in
        let '(q1, (p1, p2)) := cread k (ch_q c) in
        let size := lenN p1 + lenN p2 in
        let '(c', writes) :=
          if size =? 0 then (mkChan (ch_uid c) q1 (ch_wid c) (ch_wname c) (ch_batch c) (ch_owner c), [])
          else (mkChan (ch_uid c) (cend q1) (ch_wid c) (ch_wname c) size (ch_owner c),
                wp_entry c size :: p1 :: (match p2 with [] => [] | _ => [p2] end)) in
        let c'' := if closed then mkChan (ch_uid c') (ch_q c') (ch_wid c') (ch_wname c') (ch_batch c') (Some 18446744073709551615) (* marker: reset *) else c' in
        let s3 := set_channels s2 (upd_chan (ch_uid c) (fun _ => c'') (channels s2)) in
        let '(s4, ws, removed, d3) := consume_loop fence s3 d2 (S idx) n' plans in
        (s4, writes ++ ws, (if closed then 1 else 0) + removed, d3)
      end
    end
  end.

Definition reset_marker : option N := Some 18446744073709551615.
Definition is_reset (c : chan) : bool := match ch_owner c with Some x => x =? 18446744073709551615 | None => false end.

Record cresult := mkCR { cr_bytes : N; cr_total : N; cr_polled : N; cr_removed : N }.

(** Session::consume *)
Definition consume (fence : bool) (s : sess) (plans : list cplan) : sess * list bytes * cresult :=
  let w1 := if consume_cs s then [cs_buf s] else [] in
  let srcs := snd (match takeN (src_pos s) (src_buf s) with Some p => p | None => ([], []) end) in
  let s1 := mkSess (channels s) (cs_buf s) false (src_buf s) (lenN (src_buf s)) (next_sid s) (total_bytes s) (min_sev s) (next_uid s) (writers s) (sites s) in
  let n := length (channels s1) in
  let '(s2, ws, removed, deferred) := consume_loop fence s1 [] 0 n plans in
  let s3 := set_channels s2 (filter (fun c => negb (is_reset c)) (channels s2)) in
  let writes := w1 ++ [srcs] ++ ws in
  let bytes := fold_left (fun a w => a + lenN w) writes 0 in
  let s4 := mkSess (channels s3) (cs_buf s3) (consume_cs s3) (src_buf s3) (src_pos s3) (next_sid s3) (total_bytes s3 + bytes) (min_sev s3) (next_uid s3) (writers s3) (sites s3) in
  (* writer actions that were blocked on the mutex run now *)
  let s5 := fold_left (fun st a => match a with WAdd w k p => fst (add_event st w k p) | WClose w => close_writer st w end) deferred s4 in
  (s5, writes, mkCR bytes (total_bytes s4) (N.of_nat n) removed).

(** Session::reconsumeMetadata *)
Definition reconsume (s : sess) : sess * list bytes * cresult :=
  let srcs := fst (match takeN (src_pos s) (src_buf s) with Some p => p | None => ([], []) end) in
  let writes := [cs_buf s; srcs] in
  let bytes := lenN (cs_buf s) + lenN srcs in
  (mkSess (channels s) (cs_buf s) (consume_cs s) (src_buf s) (src_pos s) (next_sid s) (total_bytes s + bytes) (min_sev s) (next_uid s) (writers s) (sites s),
   writes, mkCR bytes (total_bytes s + bytes) 0 0).

(** a log statement: BINLOG_CREATE_SOURCE_AND_EVENT_IF. [args_eval] counts argument evaluations (C19). *)
Record logstmt := mkLog { lg_site : N; lg_sev : N; lg_src : source; lg_clock : N; lg_args : bytes }.

Definition log_stmt (s : sess) (w : N) (k : nat) (l : logstmt) : sess * bool (* arguments evaluated *) :=
  if min_sev s <=? lg_sev l then
    let '(s1, sid) :=
      match assoc (lg_site l) (sites s) with
      | Some sid => (s, sid)
      | None => let (s', sid) := add_source s (lg_src l) in
                (mkSess (channels s') (cs_buf s') (consume_cs s') (src_buf s') (src_pos s') (next_sid s') (total_bytes s') (min_sev s') (next_uid s') (writers s') (set_assoc (lg_site l) sid (sites s')), sid)
      end in
    (fst (add_event s1 w k (le_enc 8 sid ++ le_enc 8 (lg_clock l) ++ lg_args l)), true)
  else (s, false).

Inductive sop :=
| SNewWriter (w : N) (capacity : Z) (id : N) (name : bytes)
| SSetId (w id : N) | SSetName (w : N) (name : bytes)
| SAddEvent (w : N) (k : nat) (payload : bytes)
| SLog (w : N) (k : nat) (l : logstmt)
| SClose (w : N)
| SAddSource (src : source)
| SSetClockSync (cs : clocksync)
| SSetMinSev (sev : N)
| SConsume (plans : list cplan)
| SReconsume.

Inductive sout := SoNone | SoBool (b : bool) | SoId (id : N) | SoWrites (ws : list bytes) (r : cresult).

Definition sstep (fence : bool) (s : sess) (o : sop) : sess * sout :=
  match o with
  | SNewWriter w capacity id name =>
      let s1 := create_channel s w capacity 0 [] in
      let s2 := if id =? 0 then s1 else set_writer_id s1 w id in
      ((match name with [] => s2 | _ => set_writer_name s2 w name end), SoNone)
  | SSetId w id => (set_writer_id s w id, SoNone)
  | SSetName w name => (set_writer_name s w name, SoNone)
  | SAddEvent w k p => let (s', fast) := add_event s w k p in (s', SoBool true)
  | SLog w k l => let (s', ev) := log_stmt s w k l in (s', SoBool ev)
  | SClose w => (close_writer s w, SoNone)
  | SAddSource src => let (s', id) := add_source s src in (s', SoId id)
  | SSetClockSync cs => (set_clock_sync s cs, SoNone)
  | SSetMinSev sev => (set_min_sev s sev, SoNone)
  | SConsume plans => let '(s', ws, r) := consume fence s plans in (s', SoWrites ws r)
  | SReconsume => let '(s', ws, r) := reconsume s in (s', SoWrites ws r)
  end.

Fixpoint srun (fence : bool) (s : sess) (ops : list sop) : sess * list sout :=
  match ops with
  | [] => (s, [])
  | o :: r => let (s1, out) := sstep fence s o in let (s2, outs) := srun fence s1 r in (s2, out :: outs)
  end.
