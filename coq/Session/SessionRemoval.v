(** C02, at the level of the session: a channel leaves the session only after everything ever committed to it has been handed to the
    output. For EVERY history and every consume - whatever lock-free writer actions happen inside it - each channel the consume removes
    has released offset = committed length. With the per-channel FIFO refinement (C01) this is "no accepted event is lost". *)
From Coq Require Import List ZArith NArith Bool Lia.
From BL Require Import Base.Bytes Reader.Entry Queue.QueueModel Queue.QueueInv Session.SessionModel Session.SessionInv Session.SessionProps.
Import ListNotations.
Local Open Scope N_scope.

Definition marker : N := 18446744073709551615.
Definition Dd (c : chan) : Prop := is_reset c = true -> all_delivered (ch_q c).
Definition unmarked (c : chan) : Prop := is_reset c = false.

Record WInv (s : sess) : Prop := mkWInv {
  W_nodup : NoDup (map ch_uid (channels s));
  W_lt : Forall (fun c => ch_uid c < next_uid s) (channels s);
  W_wlt : Forall (fun p => snd p < next_uid s) (writers s);
  W_keys : Forall (fun p => fst p <> marker) (writers s);
  W_own : forall w uid c, assoc w (writers s) = Some uid -> In c (channels s) -> ch_uid c = uid -> ch_owner c = Some w
}.

(** * association lists *)
Lemma assoc_in k l v : assoc k l = Some v -> In (k, v) l.
Proof. induction l as [|[a b] r IH]; cbn; [discriminate|]. destruct (N.eqb_spec a k) as [->|H]; [intros E; inversion E; now left|intros E; right; auto]. Qed.
Lemma assoc_filter_other k w l : k <> w -> assoc k (filter (fun p => negb (fst p =? w)) l) = assoc k l.
Proof.
  intros H. induction l as [|[a b] r IH]; [reflexivity|]. cbn [filter fst]. destruct (N.eqb_spec a w) as [->|Ha]; cbn [negb assoc].
  - destruct (N.eqb_spec w k); [congruence|exact IH].
  - destruct (a =? k); [reflexivity|exact IH].
Qed.
Lemma assoc_filter_same w l : assoc w (filter (fun p => negb (fst p =? w)) l) = None.
Proof.
  induction l as [|[a b] r IH]; [reflexivity|]. cbn [filter fst]. destruct (N.eqb_spec a w) as [->|Ha]; cbn [negb assoc]; [exact IH|].
  destruct (N.eqb_spec a w); [congruence|exact IH].
Qed.
Lemma assoc_set_assoc k w v l : assoc k (set_assoc w v l) = if w =? k then Some v else assoc k l.
Proof.
  unfold set_assoc. cbn [assoc]. destruct (N.eqb_spec w k) as [->|H]; [reflexivity|]. apply assoc_filter_other. congruence.
Qed.
Lemma forall_filter {A} (P : A -> Prop) f (l : list A) : Forall P l -> Forall P (filter f l).
Proof. induction 1 as [|x l Hx _ IH]; [constructor|]. cbn [filter]. destruct (f x); [constructor; auto|auto]. Qed.

(** * updating channels by uid *)
Lemma map_uid_upd uid f cs : (forall c, ch_uid (f c) = ch_uid c) -> map ch_uid (upd_chan uid f cs) = map ch_uid cs.
Proof. intros H. unfold upd_chan. rewrite map_map. apply map_ext. intros c. destruct (ch_uid c =? uid); [apply H|reflexivity]. Qed.
Lemma in_upd uid f cs c' : In c' (upd_chan uid f cs) -> exists c, In c cs /\ c' = (if ch_uid c =? uid then f c else c).
Proof. unfold upd_chan. intros H. apply in_map_iff in H. destruct H as (c & E & Hin). exists c. split; [exact Hin|now symmetry]. Qed.
Lemma nth_upd uid f cs i : nth_error (upd_chan uid f cs) i = option_map (fun c => if ch_uid c =? uid then f c else c) (nth_error cs i).
Proof. unfold upd_chan. apply nth_error_map. Qed.

Lemma is_reset_owner c : is_reset c = true <-> ch_owner c = Some marker.
Proof.
  unfold is_reset, marker. destruct (ch_owner c) as [x|]; [|split; discriminate].
  destruct (N.eqb_spec x 18446744073709551615) as [->|H]; split; auto; try discriminate. intros E. inversion E. congruence.
Qed.

Lemma nodup_snoc {A} (l : list A) x : NoDup l -> ~ In x l -> NoDup (l ++ [x]).
Proof.
  induction 1 as [|y l Hy Hl IH]; intros Hx; cbn [app]; [constructor; [intros []|constructor]|].
  constructor.
  - intros H. apply in_app_or in H. destruct H as [H|[H|[]]]; [now apply Hy|]. subst. apply Hx. now left.
  - apply IH. intros H. apply Hx. now right.
Qed.

(** * the invariant through the operations *)
Lemma winv_upd s uid f : WInv s -> (forall c, ch_uid (f c) = ch_uid c) -> (forall c, ch_owner (f c) = ch_owner c) ->
  WInv (set_channels s (upd_chan uid f (channels s))).
Proof.
  intros [H1 H2 H3 H4 H5] Hu Ho. constructor; cbn [set_channels channels next_uid writers]; auto.
  - now rewrite map_uid_upd.
  - apply forall_upd_chan; [exact H2|]. intros c Hc. now rewrite Hu.
  - intros w u c' Ha Hin Hc. apply in_upd in Hin. destruct Hin as (c & Hin & ->).
    assert (ch_uid c = u) by (destruct (ch_uid c =? uid); [now rewrite Hu in Hc|exact Hc]).
    pose proof (H5 w u c Ha Hin H) as E. destruct (ch_uid c =? uid); [now rewrite Ho|exact E].
Qed.

Lemma winv_new s w cnew : WInv s -> w <> marker -> ch_uid cnew = next_uid s -> ch_owner cnew = Some w ->
  WInv (mkSess (channels s ++ [cnew]) (cs_buf s) (consume_cs s) (src_buf s) (src_pos s) (next_sid s) (total_bytes s) (min_sev s)
               (next_uid s + 1) (set_assoc w (next_uid s) (writers s)) (sites s)).
Proof.
  intros [H1 H2 H3 H4 H5] Hw Hu Ho. constructor; cbn [channels next_uid writers].
  - rewrite map_app. cbn [map]. apply nodup_snoc; [exact H1|]. rewrite Hu. intros Hin. apply in_map_iff in Hin. destruct Hin as (c & E & Hin).
    rewrite Forall_forall in H2. specialize (H2 c Hin). lia.
  - apply Forall_app. split; [eapply Forall_impl; [|exact H2]; cbn; intros; lia|constructor; [lia|constructor]].
  - unfold set_assoc. constructor; [cbn; lia|]. apply forall_filter. eapply Forall_impl; [|exact H3]. cbn. intros; lia.
  - unfold set_assoc. constructor; [exact Hw|]. now apply forall_filter.
  - intros w' u c Ha Hin Hc. rewrite assoc_set_assoc in Ha. apply in_app_or in Hin.
    destruct (N.eqb_spec w w') as [->|Hne].
    + inversion Ha; subst u. destruct Hin as [Hin|[<-|[]]]; [|exact Ho]. rewrite Forall_forall in H2. specialize (H2 c Hin). lia.
    + destruct Hin as [Hin|[<-|[]]]; [exact (H5 w' u c Ha Hin Hc)|].
      apply assoc_in in Ha. rewrite Forall_forall in H3. specialize (H3 _ Ha). cbn in H3. lia.
Qed.

Lemma winv_create_channel s w cap wid wname : WInv s -> w <> marker -> WInv (create_channel s w cap wid wname).
Proof. intros HW Hw. unfold create_channel. now apply winv_new. Qed.

Lemma in_closed_uid uid g cs c : (forall c, ch_uid (g c) = ch_uid c) -> In c (close_chan uid (upd_chan uid g cs)) -> exists c0, In c0 cs /\ ch_uid c = ch_uid c0.
Proof.
  intros Hg Hin. unfold close_chan in Hin. apply in_upd in Hin. destruct Hin as (c1 & Hin & ->). apply in_upd in Hin. destruct Hin as (c0 & Hin & ->).
  exists c0. split; [exact Hin|]. destruct (ch_uid c0 =? uid); [destruct (ch_uid (g c0) =? uid); cbn [ch_uid]; apply Hg|destruct (ch_uid c0 =? uid); reflexivity].
Qed.

(** closing the channels of a writer-owned uid, seen from the other writers *)
Lemma own_after_close s w uid g w' u c : WInv s -> assoc w (writers s) = Some uid -> (forall c, ch_uid (g c) = ch_uid c) -> w' <> w ->
  assoc w' (writers s) = Some u -> In c (close_chan uid (upd_chan uid g (channels s))) -> ch_uid c = u -> ch_owner c = Some w'.
Proof.
  intros HW Ha Hg Hne Ha' Hin Hc. unfold close_chan in Hin. apply in_upd in Hin. destruct Hin as (c1 & Hin & ->).
  apply in_upd in Hin. destruct Hin as (c0 & Hin & ->).
  destruct (N.eqb_spec (ch_uid c0) uid) as [E|E].
  - exfalso. assert (Hc1 : ch_uid (g c0) = uid) by (rewrite Hg; exact E).
    rewrite Hc1, N.eqb_refl in Hc. cbn [ch_uid] in Hc.
    pose proof (W_own s HW w uid c0 Ha Hin E) as O1. assert (E' : ch_uid c0 = u) by congruence.
    pose proof (W_own s HW w' u c0 Ha' Hin E') as O2. congruence.
  - apply N.eqb_neq in E. rewrite E in *. apply (W_own s HW w' u c0 Ha' Hin Hc).
Qed.

Lemma winv_close_writer s w : WInv s -> WInv (close_writer s w).
Proof.
  intros HW. unfold close_writer. destruct (assoc w (writers s)) as [uid|] eqn:Ea; [|exact HW].
  pose proof HW as [H1 H2 H3 H4 H5]. constructor; cbn [channels next_uid writers].
  - unfold close_chan. now rewrite map_uid_upd.
  - unfold close_chan. apply forall_upd_chan; [exact H2|]. intros c Hc. exact Hc.
  - now apply forall_filter.
  - now apply forall_filter.
  - intros w' u c Ha Hin Hc. destruct (N.eqb_spec w' w) as [->|Hne]; [rewrite assoc_filter_same in Ha; discriminate|].
    rewrite assoc_filter_other in Ha by exact Hne.
    apply (own_after_close s w uid (fun c => c) w' u c HW Ea ltac:(reflexivity) Hne Ha); [|exact Hc].
    replace (upd_chan uid (fun c0 => c0) (channels s)) with (channels s); [exact Hin|].
    unfold upd_chan. rewrite <- (map_id (channels s)) at 1. apply map_ext. intros c0. now destruct (ch_uid c0 =? uid).
Qed.

Lemma winv_add_event s w k p : WInv s -> WInv (fst (add_event s w k p)).
Proof.
  intros HW. unfold add_event. destruct (assoc w (writers s)) as [uid|] eqn:Ea; [|exact HW].
  destruct (find_chan uid (channels s)) as [c|] eqn:Ef; [|exact HW].
  destruct (pbegin k _ (ch_q c)) as [q1 ok]. destruct ok; cbn [fst].
  - apply winv_upd; [exact HW|reflexivity|reflexivity].
  - pose proof HW as [H1 H2 H3 H4 H5].
    assert (Hw : w <> marker) by (apply assoc_in in Ea; rewrite Forall_forall in H4; exact (H4 _ Ea)).
    set (g := fun c0 : chan => mkChan (ch_uid c0) q1 (ch_wid c0) (ch_wname c0) (ch_batch c0) (ch_owner c0)).
    constructor; cbn [channels next_uid writers].
    + rewrite map_app. cbn [map ch_uid]. unfold close_chan. rewrite !map_uid_upd by reflexivity. apply nodup_snoc; [exact H1|].
      intros Hin. apply in_map_iff in Hin. destruct Hin as (c0 & E & Hin). rewrite Forall_forall in H2. specialize (H2 c0 Hin). lia.
    + apply Forall_app. split; [|constructor; [cbn; lia|constructor]].
      unfold close_chan. apply forall_upd_chan; [|intros c0 Hc0; exact Hc0]. apply forall_upd_chan; [|intros c0 Hc0; exact Hc0].
      eapply Forall_impl; [|exact H2]. cbn. intros; lia.
    + unfold set_assoc. constructor; [cbn; lia|]. apply forall_filter. eapply Forall_impl; [|exact H3]. cbn. intros; lia.
    + unfold set_assoc. constructor; [exact Hw|]. now apply forall_filter.
    + intros w' u c' Ha Hin Hc. rewrite assoc_set_assoc in Ha. apply in_app_or in Hin.
      destruct (N.eqb_spec w w') as [->|Hne].
      * injection Ha as Hu. destruct Hin as [Hin|[<-|[]]]; [|reflexivity].
        exfalso. destruct (in_closed_uid uid g (channels s) c' ltac:(reflexivity) Hin) as (c0 & Hin0 & E0).
        rewrite Forall_forall in H2. specialize (H2 c0 Hin0). lia.
      * destruct Hin as [Hin|[<-|[]]].
        -- apply (own_after_close s w uid g w' u c' HW Ea ltac:(reflexivity) ltac:(congruence) Ha Hin Hc).
        -- cbn [ch_uid] in Hc. apply assoc_in in Ha. rewrite Forall_forall in H3. specialize (H3 _ Ha). cbn in H3. lia.
Qed.

Lemma winv_add_event_probe s w k p : WInv s -> WInv (fst (add_event_probe s w k p)).
Proof.
  intros HW. unfold add_event_probe. destruct (assoc w (writers s)) as [uid|]; [|exact HW].
  destruct (find_chan uid (channels s)) as [c|]; [|exact HW].
  destruct (pbegin k _ (ch_q c)) as [q1 ok]. cbn [fst]. apply winv_upd; [exact HW|reflexivity|reflexivity].
Qed.

(** * what a lock-free writer action does to the channel list *)
Definition wstep_shape (s s' : sess) : Prop :=
  channels s' = channels s \/
  exists w uid h extra, assoc w (writers s) = Some uid /\ channels s' = map h (channels s) ++ extra /\
    (forall c, ch_uid c <> uid -> h c = c) /\ (forall c, In c (channels s) -> ch_uid c = uid -> is_reset (h c) = false) /\
    Forall (fun c => is_reset c = false) extra.

Lemma owner_not_reset c w : ch_owner c = Some w -> w <> marker -> is_reset c = false.
Proof. intros Ho Hw. destruct (is_reset c) eqn:E; [|reflexivity]. apply is_reset_owner in E. congruence. Qed.
Lemma closed_not_reset c : ch_owner c = None -> is_reset c = false.
Proof. intros Ho. unfold is_reset. now rewrite Ho. Qed.

Lemma writer_not_marker s w uid : WInv s -> assoc w (writers s) = Some uid -> w <> marker.
Proof. intros HW Ea. apply assoc_in in Ea. pose proof (W_keys s HW) as H. rewrite Forall_forall in H. exact (H _ Ea). Qed.

Lemma upd_as_map uid f cs : upd_chan uid f cs = map (fun c => if ch_uid c =? uid then f c else c) cs.
Proof. reflexivity. Qed.

Lemma shape_add_event_probe s w k p : WInv s -> wstep_shape s (fst (add_event_probe s w k p)).
Proof.
  intros HW. unfold add_event_probe. destruct (assoc w (writers s)) as [uid|] eqn:Ea; [|now left].
  destruct (find_chan uid (channels s)) as [c|] eqn:Ef; [|now left].
  destruct (pbegin k _ (ch_q c)) as [q1 ok]. cbn [fst set_channels channels]. right.
  exists w, uid, (fun c0 => if ch_uid c0 =? uid then mkChan (ch_uid c0) q1 (ch_wid c0) (ch_wname c0) (ch_batch c0) (ch_owner c0) else c0), [].
  split; [exact Ea|]. split; [now rewrite app_nil_r|]. split; [|split; [|constructor]].
  - intros c0 Hc. apply N.eqb_neq in Hc. now rewrite Hc.
  - intros c0 Hin Hc. rewrite Hc, N.eqb_refl. apply (owner_not_reset _ w); [cbn [ch_owner]; exact (W_own s HW w uid c0 Ea Hin Hc)|eapply writer_not_marker; eauto].
Qed.

Lemma shape_close_writer s w : WInv s -> wstep_shape s (close_writer s w).
Proof.
  intros HW. unfold close_writer. destruct (assoc w (writers s)) as [uid|] eqn:Ea; [|now left].
  cbn [channels]. right.
  exists w, uid, (fun c0 => if ch_uid c0 =? uid then mkChan (ch_uid c0) (ch_q c0) (ch_wid c0) (ch_wname c0) (ch_batch c0) None else c0), [].
  split; [exact Ea|]. split; [now rewrite app_nil_r|]. split; [|split; [|constructor]].
  - intros c0 Hc. apply N.eqb_neq in Hc. now rewrite Hc.
  - intros c0 Hin Hc. rewrite Hc, N.eqb_refl. now apply closed_not_reset.
Qed.

Lemma shape_add_event s w k p : WInv s -> wstep_shape s (fst (add_event s w k p)).
Proof.
  intros HW. unfold add_event. destruct (assoc w (writers s)) as [uid|] eqn:Ea; [|now left].
  destruct (find_chan uid (channels s)) as [c|] eqn:Ef; [|now left].
  pose proof (writer_not_marker s w uid HW Ea) as Hw.
  destruct (pbegin k _ (ch_q c)) as [q1 ok]. destruct ok; unfold wstep_shape; cbn [fst set_channels channels]; right.
  - exists w, uid, (fun c0 => if ch_uid c0 =? uid then mkChan (ch_uid c0) (pcommit (event_entry p) q1) (ch_wid c0) (ch_wname c0) (ch_batch c0) (ch_owner c0) else c0), [].
    split; [exact Ea|]. split; [now rewrite app_nil_r|]. split; [|split; [|constructor]].
    + intros c0 Hc. apply N.eqb_neq in Hc. now rewrite Hc.
    + intros c0 Hin Hc. rewrite Hc, N.eqb_refl. apply (owner_not_reset _ w); [cbn [ch_owner]; exact (W_own s HW w uid c0 Ea Hin Hc)|exact Hw].
  - match goal with |- context [?olds ++ [?cn]] => set (cnew := cn) end.
    exists w, uid, (fun c0 => if ch_uid c0 =? uid then mkChan (ch_uid c0) q1 (ch_wid c0) (ch_wname c0) (ch_batch c0) None else c0), [cnew].
    split; [exact Ea|]. split; [|split; [|split]].
    + f_equal. unfold close_chan. rewrite !upd_as_map, map_map. apply map_ext. intros c0.
      destruct (ch_uid c0 =? uid) eqn:E; cbn [ch_uid]; rewrite E; reflexivity.
    + intros c0 Hc. apply N.eqb_neq in Hc. now rewrite Hc.
    + intros c0 Hin Hc. rewrite Hc, N.eqb_refl. now apply closed_not_reset.
    + constructor; [|constructor]. apply (owner_not_reset _ w); [reflexivity|exact Hw].
Qed.

Lemma dd_shape s s' : wstep_shape s s' -> Forall Dd (channels s) -> Forall Dd (channels s').
Proof.
  intros [E|(w & uid & h & extra & Ea & E & Hn & Hy & Hx)] HD; [now rewrite E|]. rewrite E. apply Forall_app. split.
  - rewrite Forall_forall in *. intros c' Hin. apply in_map_iff in Hin. destruct Hin as (c & <- & Hin).
    destruct (N.eq_dec (ch_uid c) uid) as [Hc|Hc]; [intros Hr; rewrite (Hy c Hin Hc) in Hr; discriminate|rewrite (Hn c Hc); now apply HD].
  - eapply Forall_impl; [|exact Hx]. intros c Hc Hr. congruence.
Qed.
Lemma closed_shape s s' i c : WInv s -> wstep_shape s s' -> nth_error (channels s) i = Some c -> ch_owner c = None -> nth_error (channels s') i = Some c.
Proof.
  intros HW [E|(w & uid & h & extra & Ea & E & Hn & Hy & Hx)] Hi Ho; [now rewrite E|]. rewrite E.
  rewrite nth_error_app1 by (rewrite map_length; apply nth_error_Some; congruence).
  rewrite nth_error_map, Hi. cbn [option_map]. f_equal. apply Hn. intros Hc.
  pose proof (W_own s HW w uid c Ea (nth_error_In _ _ Hi) Hc). congruence.
Qed.

Lemma run_wacts_removal acts : forall s d, WInv s -> Forall Dd (channels s) ->
  let s' := fst (run_wacts s d acts) in
  WInv s' /\ Forall Dd (channels s') /\ (forall i c, nth_error (channels s) i = Some c -> ch_owner c = None -> nth_error (channels s') i = Some c).
Proof.
  induction acts as [|a acts IH]; intros s d HW HD; [cbn; auto|]. cbn [run_wacts].
  destruct (is_blocked (wact_writer a) d); [now apply IH|].
  destruct a as [w k p|w].
  - pose proof (winv_add_event_probe s w k p HW) as W1. pose proof (shape_add_event_probe s w k p HW) as S1.
    destruct (add_event_probe s w k p) as [s1 ok]. cbn [fst] in W1, S1.
    pose proof (dd_shape _ _ S1 HD) as D1.
    destruct ok.
    + pose proof (winv_add_event s1 w 0 p W1) as W2. pose proof (shape_add_event s1 w 0 p W1) as S2.
      destruct (add_event s1 w 0 p) as [s2 f]. cbn [fst] in W2, S2. pose proof (dd_shape _ _ S2 D1) as D2.
      destruct (IH s2 d W2 D2) as (A & B & C). split; [exact A|]. split; [exact B|].
      intros i c Hi Ho. apply C; [|exact Ho]. apply (closed_shape s1 s2 i c W1 S2); [|exact Ho]. exact (closed_shape s s1 i c HW S1 Hi Ho).
    + destruct (IH s1 (d ++ [WAdd w 0 p]) W1 D1) as (A & B & C). split; [exact A|]. split; [exact B|].
      intros i c Hi Ho. apply C; [|exact Ho]. exact (closed_shape s s1 i c HW S1 Hi Ho).
  - pose proof (winv_close_writer s w HW) as W1. pose proof (shape_close_writer s w HW) as S1. pose proof (dd_shape _ _ S1 HD) as D1.
    destruct (IH (close_writer s w) d W1 D1) as (A & B & C). split; [exact A|]. split; [exact B|].
    intros i c Hi Ho. apply C; [|exact Ho]. exact (closed_shape s _ i c HW S1 Hi Ho).
Qed.

(** * replacing the channel that was polled *)
Lemma nodup_uid_eq cs a b : NoDup (map ch_uid cs) -> In a cs -> In b cs -> ch_uid a = ch_uid b -> a = b.
Proof.
  induction cs as [|x cs IH]; intros Hn Ha Hb E; [destruct Ha|]. cbn [map] in Hn. inversion Hn as [|? ? Hx Hn']; subst.
  destruct Ha as [<-|Ha], Hb as [<-|Hb]; auto.
  - exfalso. apply Hx. rewrite E. now apply in_map.
  - exfalso. apply Hx. rewrite <- E. now apply in_map.
Qed.

Lemma winv_replace s c c2 : WInv s -> In c (channels s) -> ch_uid c2 = ch_uid c ->
  (forall w, assoc w (writers s) = Some (ch_uid c) -> ch_owner c2 = Some w) ->
  WInv (set_channels s (upd_chan (ch_uid c) (fun _ => c2) (channels s))).
Proof.
  intros [H1 H2 H3 H4 H5] Hin Hu Ho. constructor; cbn [set_channels channels next_uid writers]; auto.
  - rewrite upd_as_map, map_map. erewrite map_ext; [exact H1|]. intros c0. cbv beta. destruct (N.eqb_spec (ch_uid c0) (ch_uid c)); congruence.
  - apply Forall_forall. intros c' Hc'. apply in_upd in Hc'. destruct Hc' as (c0 & Hin0 & ->). rewrite Forall_forall in H2.
    destruct (N.eqb_spec (ch_uid c0) (ch_uid c)) as [E|E]; [rewrite Hu, <- E|]; now apply H2.
  - intros w u c' Ha Hc' Hcu. apply in_upd in Hc'. destruct Hc' as (c0 & Hin0 & ->).
    destruct (N.eqb_spec (ch_uid c0) (ch_uid c)) as [E|E]; [|exact (H5 w u c0 Ha Hin0 Hcu)].
    apply Ho. congruence.
Qed.

Lemma all_delivered_poll q k q1 p1 p2 : Inv q -> all_delivered q -> cread k q = (q1, (p1, p2)) ->
  lenN p1 + lenN p2 = 0 /\ all_delivered q1.
Proof.
  intros HI HA E. destruct (cread_batch k q q1 p1 p2 HI E) as (HI' & Hst & Hrn & Hcu & Hin & Hle & Hnew & m & Hm & Hmc & HT & H0 & Hp1 & Hp2).
  unfold all_delivered in *. split.
  - subst p1 p2. unfold lenN, slice. rewrite !firstn_length. lia.
  - rewrite Hrn. unfold lenS. now rewrite Hst.
Qed.

Lemma dd_replace cs uid c2 : Forall Dd cs -> Dd c2 -> Forall Dd (upd_chan uid (fun _ => c2) cs).
Proof.
  intros H H2. apply Forall_forall. intros c' Hin. apply in_upd in Hin. destruct Hin as (c0 & Hin & ->).
  destruct (ch_uid c0 =? uid); [exact H2|]. rewrite Forall_forall in H. now apply H.
Qed.

(** * polling order = creation order: the uids increase along the channel list, so the channel a writer switches to when its queue is
      replaced - created with the next uid and appended - is polled after the one it replaces (and after every older channel), in every
      consume, for as long as both exist *)
Definition USorted (s : sess) : Prop := Sorted.StronglySorted N.lt (map ch_uid (channels s)).

Lemma ssorted_snoc l x : Sorted.StronglySorted N.lt l -> Forall (fun y => y < x) l -> Sorted.StronglySorted N.lt (l ++ [x]).
Proof.
  induction 1 as [|y l Hl IH Hy]; intros Hx; cbn [app]; [constructor; constructor|]. inversion Hx; subst.
  constructor; [now apply IH|]. apply Forall_app. split; [exact Hy|constructor; [assumption|constructor]].
Qed.
Lemma ssorted_filter {A} (g : A -> N) f (l : list A) : Sorted.StronglySorted N.lt (map g l) -> Sorted.StronglySorted N.lt (map g (filter f l)).
Proof.
  induction l as [|x l IH]; intros H; [constructor|]. cbn [map filter] in *. inversion H as [|? ? Hl Hx]; subst.
  destruct (f x); [|now apply IH]. cbn [map]. constructor; [now apply IH|].
  rewrite Forall_forall in *. intros y Hy. apply Hx. apply in_map_iff in Hy. destruct Hy as (z & <- & Hz). apply filter_In in Hz. apply in_map. tauto.
Qed.

Lemma usorted_shape_ops s w k p : WInv s -> USorted s ->
  USorted (fst (add_event s w k p)) /\ USorted (fst (add_event_probe s w k p)) /\ USorted (close_writer s w).
Proof.
  intros HW HU. unfold USorted in *. split; [|split].
  - unfold add_event. destruct (assoc w (writers s)) as [uid|]; [|exact HU]. destruct (find_chan uid (channels s)) as [c|]; [|exact HU].
    destruct (pbegin k _ (ch_q c)) as [q1 ok]. destruct ok; cbn [fst set_channels channels].
    + now rewrite map_uid_upd.
    + rewrite map_app. cbn [map ch_uid]. unfold close_chan. rewrite !map_uid_upd by reflexivity. apply ssorted_snoc; [exact HU|].
      pose proof (W_lt s HW) as H. rewrite Forall_forall in *. intros y Hy. apply in_map_iff in Hy. destruct Hy as (c0 & <- & Hc0). now apply H.
  - unfold add_event_probe. destruct (assoc w (writers s)) as [uid|]; [|exact HU]. destruct (find_chan uid (channels s)) as [c|]; [|exact HU].
    destruct (pbegin k _ (ch_q c)) as [q1 ok]. cbn [fst set_channels channels]. now rewrite map_uid_upd.
  - unfold close_writer. destruct (assoc w (writers s)) as [uid|]; [|exact HU]. cbn [channels]. unfold close_chan. now rewrite map_uid_upd.
Qed.

Lemma usorted_run_wacts acts : forall s d, WInv s -> USorted s -> USorted (fst (run_wacts s d acts)).
Proof.
  induction acts as [|a acts IH]; intros s d HW HU; [exact HU|]. cbn [run_wacts].
  destruct (is_blocked (wact_writer a) d); [now apply IH|].
  destruct a as [w k p|w].
  - pose proof (winv_add_event_probe s w k p HW) as W1. destruct (usorted_shape_ops s w k p HW HU) as (_ & U1 & _).
    destruct (add_event_probe s w k p) as [s1 ok]. cbn [fst] in W1, U1. destruct ok; [|now apply IH].
    pose proof (winv_add_event s1 w 0 p W1) as W2. destruct (usorted_shape_ops s1 w 0 p W1 U1) as (U2 & _ & _).
    destruct (add_event s1 w 0 p) as [s2 f]. cbn [fst] in W2, U2. now apply IH.
  - apply IH; [now apply winv_close_writer|]. destruct (usorted_shape_ops s w 0 [] HW HU) as (_ & _ & U). exact U.
Qed.

Lemma usorted_replace s c c2 : USorted s -> ch_uid c2 = ch_uid c -> USorted (set_channels s (upd_chan (ch_uid c) (fun _ => c2) (channels s))).
Proof.
  unfold USorted. intros HU Hu. cbn [set_channels channels]. rewrite upd_as_map, map_map. erewrite map_ext; [exact HU|].
  intros c0. cbv beta. destruct (N.eqb_spec (ch_uid c0) (ch_uid c)); congruence.
Qed.


(** * the channel loop of consume: whatever it marks for removal has been delivered completely *)
Lemma loop_removal n : forall s d idx plans s' ws removed d',
  WInv s -> SInv s -> Forall Dd (channels s) -> USorted s ->
  consume_loop true s d idx n plans = (s', ws, removed, d') -> WInv s' /\ Forall Dd (channels s') /\ USorted s'.
Proof.
  induction n as [|n IH]; intros s d idx plans s' ws removed d' HW HS HD HU E; cbn [consume_loop] in E.
  - inversion E; subst. auto.
  - destruct (run_wacts_removal (pl_before (plan_nth plans idx)) s d HW HD) as (W1 & D1 & C1).
    pose proof (sinv_run_wacts (pl_before (plan_nth plans idx)) s d HS) as S1.
    pose proof (usorted_run_wacts (pl_before (plan_nth plans idx)) s d HW HU) as U1.
    destruct (run_wacts s d (pl_before (plan_nth plans idx))) as [s1 d1]. cbn [fst] in W1, D1, C1, S1, U1.
    destruct (nth_error (channels s1) idx) as [c0|] eqn:E0; [|inversion E; subst; auto].
    destruct (run_wacts_removal (pl_between (plan_nth plans idx)) s1 d1 W1 D1) as (W2 & D2 & C2).
    pose proof (sinv_run_wacts (pl_between (plan_nth plans idx)) s1 d1 S1) as S2.
    pose proof (usorted_run_wacts (pl_between (plan_nth plans idx)) s1 d1 W1 U1) as U2.
    destruct (run_wacts s1 d1 (pl_between (plan_nth plans idx))) as [s2 d2]. cbn [fst] in W2, D2, C2, S2, U2.
    destruct (nth_error (channels s2) idx) as [c|] eqn:E2; [|inversion E; subst; auto].
    pose proof (nth_error_chan_ok s2 idx c S2 E2) as Hc. unfold chan_ok in Hc. pose proof Hc as [HI _].
    pose proof (nth_error_In _ _ E2) as Hin.
    assert (Dc : Dd c) by (rewrite Forall_forall in D2; now apply D2).
    (* the final state of the polled channel, in each of the four cases *)
    assert (G : forall c2, ch_uid c2 = ch_uid c -> (forall w, assoc w (writers s2) = Some (ch_uid c) -> ch_owner c2 = Some w) -> Dd c2 -> chan_ok c2 ->
                let s3 := set_channels s2 (upd_chan (ch_uid c) (fun _ => c2) (channels s2)) in WInv s3 /\ SInv s3 /\ Forall Dd (channels s3) /\ USorted s3).
    { intros c2 Hu Ho Hd Hok s3. split; [now apply winv_replace|]. split; [|split].
      - apply sinv_set_channels; [exact S2|]. apply forall_upd_chan; [exact (SI_chans s2 S2)|]. intros _ _. exact Hok.
      - cbn [set_channels channels]. now apply dd_replace.
      - now apply usorted_replace. }
    destruct (ch_owner c0) as [x|] eqn:Eo0.
    + (* not found closed *)
      cbn [andb] in E. destruct (cread (pl_k (plan_nth plans idx)) (ch_q c)) as [q1 [p1 p2]] eqn:Er.
      destruct (q_ok_cread _ _ _ _ _ Hc Er) as (Hq1 & _ & _).
      assert (Hown : forall q' b w, assoc w (writers s2) = Some (ch_uid c) -> ch_owner (mkChan (ch_uid c) q' (ch_wid c) (ch_wname c) b (ch_owner c)) = Some w)
        by (intros q' b w Ha; cbn [ch_owner]; exact (W_own s2 W2 w _ c Ha Hin eq_refl)).
      assert (Hdd : forall q' b, (is_reset c = true -> all_delivered q') -> Dd (mkChan (ch_uid c) q' (ch_wid c) (ch_wname c) b (ch_owner c)))
        by (intros q' b H Hr; cbn [ch_q]; apply H; apply is_reset_owner; apply is_reset_owner in Hr; exact Hr).
      destruct (N.eqb_spec (lenN p1 + lenN p2) 0) as [Hz|Hnz]; cbv zeta iota beta in E;
        (match type of E with context [consume_loop true ?st d2 (S idx) n plans] => set (s3 := st) in E end).
      * destruct (G (mkChan (ch_uid c) q1 (ch_wid c) (ch_wname c) (ch_batch c) (ch_owner c)) eq_refl (Hown _ _)
                   (Hdd _ _ (fun Hr => proj2 (all_delivered_poll _ _ _ _ _ HI (Dc Hr) Er))) Hq1) as (W3 & S3 & D3 & U3).
        fold s3 in W3, S3, D3, U3. destruct (consume_loop true s3 d2 (S idx) n plans) as [[[s4 ws4] rem4] d4] eqn:E4.
        destruct (IH _ _ _ _ _ _ _ _ W3 S3 D3 U3 E4) as (A & B & C). inversion E; subst. auto.
      * destruct (G (mkChan (ch_uid c) (cend q1) (ch_wid c) (ch_wname c) (lenN p1 + lenN p2) (ch_owner c)) eq_refl (Hown _ _)
                   (Hdd _ _ (fun Hr => False_ind _ (Hnz (proj1 (all_delivered_poll _ _ _ _ _ HI (Dc Hr) Er))))) (q_ok_cend _ Hq1)) as (W3 & S3 & D3 & U3).
        fold s3 in W3, S3, D3, U3. destruct (consume_loop true s3 d2 (S idx) n plans) as [[[s4 ws4] rem4] d4] eqn:E4.
        destruct (IH _ _ _ _ _ _ _ _ W3 S3 D3 U3 E4) as (A & B & C). inversion E; subst. auto.
    + (* found closed: the same channel is still there, nobody can have written to it, and the poll reads the newest store *)
      cbn [andb] in E. pose proof (C2 idx c0 E0 Eo0) as E2'. rewrite E2 in E2'. inversion E2'; subst c0. clear E2'.
      destruct (cread (length (Wpend (ch_q c))) (ch_q c)) as [q1 [p1 p2]] eqn:Er.
      destruct (q_ok_cread _ _ _ _ _ Hc Er) as (Hq1 & _ & _).
      destruct (closed_channel_drained _ _ _ _ HI Er) as (_ & Hnz' & Hz').
      assert (Hown : forall c2, forall w, assoc w (writers s2) = Some (ch_uid c) -> ch_owner c2 = Some w)
        by (intros c2 w Ha; pose proof (W_own s2 W2 w _ c Ha Hin eq_refl); congruence).
      destruct (N.eqb_spec (lenN p1 + lenN p2) 0) as [Hz|Hnz]; cbv zeta iota beta in E;
        (match type of E with context [consume_loop true ?st d2 (S idx) n plans] => set (s3 := st) in E end).
      * destruct (G (mkChan (ch_uid c) q1 (ch_wid c) (ch_wname c) (ch_batch c) (Some 18446744073709551615)) eq_refl (Hown _)
                   (fun _ => proj2 (all_delivered_poll _ _ _ _ _ HI (Hz' Hz) Er)) Hq1) as (W3 & S3 & D3 & U3).
        fold s3 in W3, S3, D3, U3. destruct (consume_loop true s3 d2 (S idx) n plans) as [[[s4 ws4] rem4] d4] eqn:E4.
        destruct (IH _ _ _ _ _ _ _ _ W3 S3 D3 U3 E4) as (A & B & C). inversion E; subst. auto.
      * destruct (G (mkChan (ch_uid c) (cend q1) (ch_wid c) (ch_wname c) (lenN p1 + lenN p2) (Some 18446744073709551615)) eq_refl (Hown _)
                   (fun _ => Hnz' Hnz) (q_ok_cend _ Hq1)) as (W3 & S3 & D3 & U3).
        fold s3 in W3, S3, D3, U3. destruct (consume_loop true s3 d2 (S idx) n plans) as [[[s4 ws4] rem4] d4] eqn:E4.
        destruct (IH _ _ _ _ _ _ _ _ W3 S3 D3 U3 E4) as (A & B & C). inversion E; subst. auto.
Qed.

(** * between operations no channel carries the removal mark *)
Definition Um (s : sess) : Prop := Forall (fun c => is_reset c = false) (channels s).

Lemma um_dd s : Um s -> Forall Dd (channels s).
Proof. intros H. eapply Forall_impl; [|exact H]. intros c Hc Hr. congruence. Qed.
Lemma um_shape s s' : wstep_shape s s' -> Um s -> Um s'.
Proof.
  unfold Um. intros [E|(w & uid & h & extra & Ea & E & Hn & Hy & Hx)] HU; [now rewrite E|]. rewrite E. apply Forall_app. split; [|exact Hx].
  rewrite Forall_forall in *. intros c' Hin. apply in_map_iff in Hin. destruct Hin as (c & <- & Hin).
  destruct (N.eq_dec (ch_uid c) uid) as [Hc|Hc]; [exact (Hy c Hin Hc)|rewrite (Hn c Hc); now apply HU].
Qed.
Lemma winv_same s s' : WInv s -> channels s' = channels s -> next_uid s' = next_uid s -> writers s' = writers s -> WInv s'.
Proof. intros [H1 H2 H3 H4 H5] E1 E2 E3. constructor; rewrite ?E1, ?E2, ?E3; auto. Qed.
Lemma um_upd s uid f : Um s -> (forall c, ch_owner (f c) = ch_owner c) -> Um (set_channels s (upd_chan uid f (channels s))).
Proof.
  unfold Um. intros H Ho. cbn [set_channels channels]. apply forall_upd_chan; [exact H|]. intros c Hc.
  unfold is_reset in *. now rewrite Ho.
Qed.
Lemma nodup_map_filter {A B} (g : A -> B) f (l : list A) : NoDup (map g l) -> NoDup (map g (filter f l)).
Proof.
  induction l as [|x l IH]; intros H; [constructor|]. cbn [map filter] in *. inversion H as [|? ? Hx Hl]; subst.
  destruct (f x); [|now apply IH]. cbn [map]. constructor; [|now apply IH].
  intros Hin. apply Hx. apply in_map_iff in Hin. destruct Hin as (y & E & Hy). apply filter_In in Hy. apply in_map_iff. exists y. tauto.
Qed.

Lemma fold_deferred_removal d : forall s, WInv s -> Um s -> USorted s ->
  let s' := fold_left (fun st a => match a with WAdd w k p => fst (add_event st w k p) | WClose w => close_writer st w end) d s in WInv s' /\ Um s' /\ USorted s'.
Proof.
  induction d as [|a d IH]; intros s HW HU HO; [cbn; auto|]. cbn [fold_left]. destruct a as [w k p|w].
  - apply IH; [now apply winv_add_event| |exact (proj1 (usorted_shape_ops s w k p HW HO))]. eapply um_shape; [apply shape_add_event; exact HW|exact HU].
  - apply IH; [now apply winv_close_writer| |exact (proj2 (proj2 (usorted_shape_ops s w 0%nat [] HW HO)))]. eapply um_shape; [apply shape_close_writer; exact HW|exact HU].
Qed.

(** the channels a consume removes: those marked at the end of its channel loop (the definition repeats the first lines of [consume]) *)
Definition consume_removed (s : sess) (plans : list cplan) : list chan :=
  let s1 := mkSess (channels s) (cs_buf s) false (src_buf s) (lenN (src_buf s)) (next_sid s) (total_bytes s) (min_sev s) (next_uid s) (writers s) (sites s) in
  let '(s2, _, _, _) := consume_loop true s1 [] 0 (length (channels s1)) plans in
  filter is_reset (channels s2).

Theorem consume_removes_only_drained s plans : WInv s -> SInv s -> Um s -> USorted s ->
  Forall (fun c => all_delivered (ch_q c)) (consume_removed s plans) /\
  WInv (fst (fst (consume true s plans))) /\ Um (fst (fst (consume true s plans))) /\ USorted (fst (fst (consume true s plans))).
Proof.
  intros HW HS HU HO. unfold consume_removed, consume.
  set (s1 := mkSess (channels s) (cs_buf s) false (src_buf s) (lenN (src_buf s)) _ _ _ _ _ _).
  assert (W1 : WInv s1) by (apply (winv_same s); auto).
  assert (S1 : SInv s1).
  { destruct HS as [A (a & b & Eb & Ep) C]. constructor; [exact A| |exact C]. unfold src_ok. cbn [src_buf src_pos s1].
    exists (a ++ b), []. rewrite ReaderLemmas.stream_of_app. split; [now rewrite Eb, app_nil_r|now rewrite Eb]. }
  assert (D1 : Forall Dd (channels s1)) by (apply (um_dd s); exact HU).
  destruct (consume_loop true s1 [] 0 (length (channels s1)) plans) as [[[s2 wsl] removed] deferred] eqn:El.
  destruct (loop_removal _ _ _ _ _ _ _ _ _ W1 S1 D1 HO El) as (W2 & D2 & O2).
  split.
  - apply Forall_forall. intros c Hc. apply filter_In in Hc. destruct Hc as [Hin Hr]. rewrite Forall_forall in D2. exact (D2 c Hin Hr).
  - cbn [fst]. apply fold_deferred_removal; [| |unfold USorted; cbn [set_channels channels]; now apply ssorted_filter].
    + destruct W2 as [A B C D E]. constructor; cbn [set_channels channels next_uid writers]; auto.
      * now apply nodup_map_filter.
      * now apply forall_filter.
      * intros w u c Ha Hin Hc. apply filter_In in Hin. exact (E w u c Ha (proj1 Hin) Hc).
    + unfold Um. cbn [set_channels channels]. apply Forall_forall. intros c Hc. apply filter_In in Hc. destruct Hc as [_ Hr].
      now destruct (is_reset c).
Qed.

(** * every reachable state *)
Definition sop_rm (o : sop) : Prop := match o with SNewWriter w c _ _ => (0 <= c)%Z /\ w <> marker | _ => True end.

Lemma um_sess_init cs : Um (sess_init cs) /\ WInv (sess_init cs).
Proof. split; [constructor|]. constructor; cbn; try constructor. intros w u c H. discriminate. Qed.

Lemma removal_sstep s o : WInv s -> SInv s -> Um s -> USorted s -> sop_rm o -> WInv (fst (sstep true s o)) /\ Um (fst (sstep true s o)).
Proof.
  intros HW HS HU HO Ho. destruct o; cbn [sstep sop_rm] in *.
  - destruct Ho as [Hc Hw]. cbn [fst].
    assert (A : WInv (create_channel s w capacity 0 []) /\ Um (create_channel s w capacity 0 [])).
    { split; [now apply winv_create_channel|]. unfold Um, create_channel. cbn [channels]. apply Forall_app. split; [exact HU|].
      constructor; [|constructor]. apply (owner_not_reset _ w); [reflexivity|exact Hw]. }
    assert (B : forall s0 id0, WInv s0 /\ Um s0 -> WInv (set_writer_id s0 w id0) /\ Um (set_writer_id s0 w id0)).
    { intros s0 id0 [X Y]. unfold set_writer_id. destruct (assoc w (writers s0)); [|auto]. split; [apply winv_upd; auto|apply um_upd; auto]. }
    assert (C : forall s0 nm, WInv s0 /\ Um s0 -> WInv (set_writer_name s0 w nm) /\ Um (set_writer_name s0 w nm)).
    { intros s0 nm [X Y]. unfold set_writer_name. destruct (assoc w (writers s0)); [|auto]. split; [apply winv_upd; auto|apply um_upd; auto]. }
    destruct name; [|apply C]; (destruct (id =? 0); [exact A|apply B; exact A]).
  - unfold set_writer_id. destruct (assoc w (writers s)); [|auto]. cbn [fst]. split; [apply winv_upd; auto|apply um_upd; auto].
  - unfold set_writer_name. destruct (assoc w (writers s)); [|auto]. cbn [fst]. split; [apply winv_upd; auto|apply um_upd; auto].
  - pose proof (winv_add_event s w k payload HW) as A. pose proof (um_shape _ _ (shape_add_event s w k payload HW) HU) as B.
    destruct (add_event s w k payload). cbn [fst] in *. auto.
  - unfold log_stmt. destruct (min_sev s <=? lg_sev l); [|auto].
    destruct (assoc (lg_site l) (sites s)) as [sid|].
    + cbn [fst]. split; [now apply winv_add_event|]. eapply um_shape; [apply shape_add_event; exact HW|exact HU].
    + unfold add_source. cbn [fst].
      match goal with |- WInv (fst (add_event ?st _ _ _)) /\ _ => set (s1 := st) end.
      assert (W1 : WInv s1) by (apply (winv_same s); auto).
      assert (U1 : Um s1) by exact HU.
      split; [now apply winv_add_event|]. eapply um_shape; [apply shape_add_event; exact W1|exact U1].
  - cbn [fst]. split; [now apply winv_close_writer|]. eapply um_shape; [apply shape_close_writer; exact HW|exact HU].
  - unfold add_source. cbn [fst]. split; [apply (winv_same s); auto|exact HU].
  - cbn [fst]. split; [apply (winv_same s); auto|exact HU].
  - cbn [fst]. split; [apply (winv_same s); auto|exact HU].
  - destruct (consume_removes_only_drained s plans HW HS HU HO) as (_ & A & B & _). destruct (consume true s plans) as [[s' ws] r]. cbn [fst] in *. auto.
  - unfold reconsume. cbn [fst]. split; [apply (winv_same s); auto|exact HU].
Qed.

Lemma usorted_sstep s o : WInv s -> SInv s -> Um s -> USorted s -> sop_rm o -> USorted (fst (sstep true s o)).
Proof.
  intros HW HS HU HO Ho. destruct o; cbn [sstep sop_rm] in *.
  - cbn [fst].
    assert (A : USorted (create_channel s w capacity 0 [])).
    { unfold USorted, create_channel. cbn [channels]. rewrite map_app. cbn [map ch_uid]. apply ssorted_snoc; [exact HO|].
      pose proof (W_lt s HW) as H. rewrite Forall_forall in *. intros y Hy. apply in_map_iff in Hy. destruct Hy as (c0 & <- & Hc0). now apply H. }
    assert (B : forall s0 id0, USorted s0 -> USorted (set_writer_id s0 w id0)).
    { intros s0 id0 X. unfold set_writer_id. destruct (assoc w (writers s0)); [|auto]. unfold USorted. cbn [set_channels channels]. now rewrite map_uid_upd. }
    assert (C : forall s0 nm, USorted s0 -> USorted (set_writer_name s0 w nm)).
    { intros s0 nm X. unfold set_writer_name. destruct (assoc w (writers s0)); [|auto]. unfold USorted. cbn [set_channels channels]. now rewrite map_uid_upd. }
    destruct name; [|apply C]; (destruct (id =? 0); [exact A|apply B; exact A]).
  - unfold set_writer_id. destruct (assoc w (writers s)); [|auto]. cbn [fst]. unfold USorted. cbn [set_channels channels]. now rewrite map_uid_upd.
  - unfold set_writer_name. destruct (assoc w (writers s)); [|auto]. cbn [fst]. unfold USorted. cbn [set_channels channels]. now rewrite map_uid_upd.
  - pose proof (proj1 (usorted_shape_ops s w k payload HW HO)) as A. destruct (add_event s w k payload). exact A.
  - unfold log_stmt. destruct (min_sev s <=? lg_sev l); [|exact HO].
    destruct (assoc (lg_site l) (sites s)) as [sid|].
    + cbn [fst]. exact (proj1 (usorted_shape_ops s w k _ HW HO)).
    + unfold add_source. cbn [fst].
      match goal with |- USorted (fst (add_event ?st _ _ _)) => set (s1 := st) end.
      assert (W1 : WInv s1) by (apply (winv_same s); auto).
      exact (proj1 (usorted_shape_ops s1 w k _ W1 HO)).
  - cbn [fst]. exact (proj2 (proj2 (usorted_shape_ops s w 0%nat [] HW HO))).
  - unfold add_source. cbn [fst]. exact HO.
  - cbn [fst]. exact HO.
  - cbn [fst]. exact HO.
  - destruct (consume_removes_only_drained s plans HW HS HU HO) as (_ & _ & _ & A). destruct (consume true s plans) as [[s' ws] r]. exact A.
  - unfold reconsume. cbn [fst]. exact HO.
Qed.

Lemma sop_rm_ok o : sop_rm o -> sop_ok o. Proof. destruct o; cbn; tauto. Qed.

(** the invariants of every reachable state *)
Lemma removal_invariants_reachable cs ops : Forall sop_rm ops ->
  let s := fst (srun true (sess_init cs) ops) in WInv s /\ SInv s /\ Um s /\ USorted s.
Proof.
  intros Hops.
  assert (G : forall ops s0, WInv s0 -> SInv s0 -> Um s0 -> USorted s0 -> Forall sop_rm ops ->
            WInv (fst (srun true s0 ops)) /\ SInv (fst (srun true s0 ops)) /\ Um (fst (srun true s0 ops)) /\ USorted (fst (srun true s0 ops))).
  { induction ops0 as [|o r IH]; intros s0 HW HS HU HO Hr; [cbn; auto|]. inversion Hr as [|? ? Ho Hr']; subst. cbn [srun].
    destruct (removal_sstep s0 o HW HS HU HO Ho) as [W1 U1]. pose proof (sinv_sstep true s0 o HS (sop_rm_ok o Ho)) as S1.
    pose proof (usorted_sstep s0 o HW HS HU HO Ho) as O1.
    destruct (sstep true s0 o) as [s1 out]. cbn [fst] in *. specialize (IH s1 W1 S1 U1 O1 Hr'). destruct (srun true s1 r). exact IH. }
  destruct (um_sess_init cs) as [U0 W0].
  apply G; auto using sinv_init. constructor.
Qed.



(** C02: in EVERY reachable state, whatever the next consume does, it removes only channels whose every committed byte has been handed out *)
Theorem no_event_lost_at_removal cs ops plans : Forall sop_rm ops ->
  let s := fst (srun true (sess_init cs) ops) in Forall (fun c => all_delivered (ch_q c)) (consume_removed s plans).
Proof.
  intros Hops s. destruct (removal_invariants_reachable cs ops Hops) as (W & S & U & O). fold s in W, S, U, O.
  exact (proj1 (consume_removes_only_drained s plans W S U O)).
Qed.

(** * C02, timeliness: a consume during which no writer acts hands out everything that was committed before it started *)
Lemma drained_k k q q' p1 p2 : Inv q -> (length (Wpend q) <= k)%nat -> cread k q = (q', (p1, p2)) ->
  (lenN p1 + lenN p2 <> 0 -> all_delivered (cend q')) /\ (lenN p1 + lenN p2 = 0 -> all_delivered q').
Proof.
  intros HI Hk E.
  pose proof (quiescent_delivers_all _ q q' p1 p2 HI Hk E) as Hq.
  destruct (cread_batch _ q q' p1 p2 HI E) as (HI' & Hst & Hrn & Hcu & Hin & Hle & Hnew & m & Hm & Hmc & HT & H0 & Hp1 & Hp2).
  specialize (Hnew Hk). split.
  - intros _. unfold all_delivered, cend, r_new, last_of, lenS. cbn [Rcur Rpend strm]. rewrite last_last. cbn [sT].
    rewrite Hnew, Hst. apply (I_T q HI).
  - intros Hz. assert (Hl : length (p1 ++ p2) = 0%nat) by (rewrite app_length; unfold lenN in Hz; lia).
    rewrite Hq in Hl. unfold slice in Hl. rewrite firstn_length, skipn_length in Hl.
    unfold all_delivered. rewrite Hrn. unfold lenS in *. rewrite Hst.
    pose proof (rec_ok_of q (r_new q) HI (chain_in_R q _ (r_new_in q))) as (_ & _ & _ & _ & _).
    lia.
Qed.

Definition quiet (plans : list cplan) : Prop := forall i, pl_before (plan_nth plans i) = [] /\ pl_between (plan_nth plans i) = [].

Lemma nth_upd_other cs c c2 i j : NoDup (map ch_uid cs) -> nth_error cs i = Some c -> i <> j ->
  nth_error (upd_chan (ch_uid c) (fun _ => c2) cs) j = nth_error cs j.
Proof.
  intros Hn Hi Hij. rewrite nth_upd. destruct (nth_error cs j) as [b|] eqn:Ej; [|reflexivity]. cbn [option_map]. f_equal.
  destruct (N.eqb_spec (ch_uid b) (ch_uid c)) as [E|E]; [|reflexivity]. exfalso. apply Hij.
  apply (proj1 (NoDup_nth_error (map ch_uid cs)) Hn i j).
  - rewrite map_length. apply nth_error_Some. congruence.
  - rewrite !nth_error_map, Hi, Ej. cbn. now rewrite E.
Qed.
Lemma nth_upd_same cs c c2 i : nth_error cs i = Some c -> nth_error (upd_chan (ch_uid c) (fun _ => c2) cs) i = Some c2.
Proof. intros Hi. rewrite nth_upd, Hi. cbn [option_map]. now rewrite N.eqb_refl. Qed.

Lemma quiet_step s idx c c2 : WInv s -> SInv s -> nth_error (channels s) idx = Some c -> ch_uid c2 = ch_uid c ->
  (forall w, assoc w (writers s) = Some (ch_uid c) -> ch_owner c2 = Some w) -> chan_ok c2 -> all_delivered (ch_q c2) ->
  (forall j b, (j < idx)%nat -> nth_error (channels s) j = Some b -> all_delivered (ch_q b)) ->
  let s3 := set_channels s (upd_chan (ch_uid c) (fun _ => c2) (channels s)) in
  WInv s3 /\ SInv s3 /\ length (channels s3) = length (channels s) /\
  (forall j b, (j < S idx)%nat -> nth_error (channels s3) j = Some b -> all_delivered (ch_q b)) /\
  (forall j, (idx < j)%nat -> nth_error (channels s3) j = nth_error (channels s) j).
Proof.
  intros HW HS Hi Hu Ho Hok Had Hdone s3. pose proof (nth_error_In _ _ Hi) as Hin.
  split; [now apply winv_replace|]. split; [|split; [|split]].
  - apply sinv_set_channels; [exact HS|]. apply forall_upd_chan; [exact (SI_chans s HS)|]. intros _ _. exact Hok.
  - unfold s3. cbn [set_channels channels]. unfold upd_chan. apply map_length.
  - intros j b Hj Hb. unfold s3 in Hb. cbn [set_channels channels] in Hb. destruct (Nat.eq_dec j idx) as [->|Hne].
    + rewrite (nth_upd_same _ _ _ _ Hi) in Hb. inversion Hb; subst. exact Had.
    + rewrite (nth_upd_other _ _ _ idx j (W_nodup s HW) Hi ltac:(lia)) in Hb. apply (Hdone j b); [lia|exact Hb].
  - intros j Hj. unfold s3. cbn [set_channels channels]. apply (nth_upd_other _ _ _ idx j (W_nodup s HW) Hi). lia.
Qed.

Lemma quiet_loop n : forall s d idx plans s' ws removed d',
  WInv s -> SInv s -> quiet plans -> (idx + n = length (channels s))%nat ->
  (forall j b, (idx <= j)%nat -> nth_error (channels s) j = Some b -> (length (Wpend (ch_q b)) <= pl_k (plan_nth plans j))%nat) ->
  (forall j b, (j < idx)%nat -> nth_error (channels s) j = Some b -> all_delivered (ch_q b)) ->
  consume_loop true s d idx n plans = (s', ws, removed, d') ->
  d' = d /\ forall c, In c (channels s') -> all_delivered (ch_q c).
Proof.
  induction n as [|n IH]; intros s d idx plans s' ws removed d' HW HS HQ Hlen Hk Hdone E; cbn [consume_loop] in E.
  - inversion E; subst. split; [reflexivity|]. intros c Hin. apply In_nth_error in Hin. destruct Hin as [j Hj].
    apply (Hdone j c); [|exact Hj]. assert (j < length (channels s'))%nat by (apply nth_error_Some; congruence). lia.
  - destruct (HQ idx) as (Hb & Hw). rewrite Hb, Hw in E. cbn [run_wacts] in E.
    destruct (nth_error (channels s) idx) as [c|] eqn:E2.
    2:{ exfalso. apply nth_error_None in E2. lia. }
    pose proof (nth_error_chan_ok s idx c HS E2) as Hc. unfold chan_ok in Hc. pose proof Hc as [HI _].
    pose proof (nth_error_In _ _ E2) as Hin.
    pose proof (Hk idx c (le_n _) E2) as Hkc.
    assert (Hnext : forall s3, length (channels s3) = length (channels s) -> (forall j, (idx < j)%nat -> nth_error (channels s3) j = nth_error (channels s) j) ->
              (S idx + n = length (channels s3))%nat /\
              (forall j b, (S idx <= j)%nat -> nth_error (channels s3) j = Some b -> (length (Wpend (ch_q b)) <= pl_k (plan_nth plans j))%nat)).
    { intros s3 Hl Hsame. split; [lia|]. intros j b Hj Hjb. rewrite Hsame in Hjb by lia. apply (Hk j b); [lia|exact Hjb]. }
    destruct (ch_owner c) as [x|] eqn:Eo.
    + cbn [andb] in E. destruct (cread (pl_k (plan_nth plans idx)) (ch_q c)) as [q1 [p1 p2]] eqn:Er.
      destruct (q_ok_cread _ _ _ _ _ Hc Er) as (Hq1 & _ & _). destruct (drained_k _ _ _ _ _ HI Hkc Er) as [Hnz' Hz'].
      assert (Hown : forall q' b w, assoc w (writers s) = Some (ch_uid c) -> ch_owner (mkChan (ch_uid c) q' (ch_wid c) (ch_wname c) b (Some x)) = Some w)
        by (intros q' b w Ha; cbn [ch_owner]; rewrite <- Eo; exact (W_own s HW w _ c Ha Hin eq_refl)).
      destruct (N.eqb_spec (lenN p1 + lenN p2) 0) as [Hz|Hnz]; cbv zeta iota beta in E;
        (match type of E with context [consume_loop true ?st d (S idx) n plans] => set (s3 := st) in E end).
      * destruct (quiet_step s idx c (mkChan (ch_uid c) q1 (ch_wid c) (ch_wname c) (ch_batch c) (Some x)) HW HS E2 eq_refl (Hown _ _) Hq1 (Hz' Hz) Hdone) as (W3 & S3 & L3 & D3 & O3).
        fold s3 in W3, S3, L3, D3, O3. destruct (Hnext s3 L3 O3) as [N1 N2].
        destruct (consume_loop true s3 d (S idx) n plans) as [[[s4 ws4] rem4] d4] eqn:E4.
        destruct (IH _ _ _ _ _ _ _ _ W3 S3 HQ N1 N2 D3 E4) as [A B]. inversion E; subst. auto.
      * destruct (quiet_step s idx c (mkChan (ch_uid c) (cend q1) (ch_wid c) (ch_wname c) (lenN p1 + lenN p2) (Some x)) HW HS E2 eq_refl (Hown _ _) (q_ok_cend _ Hq1) (Hnz' Hnz) Hdone) as (W3 & S3 & L3 & D3 & O3).
        fold s3 in W3, S3, L3, D3, O3. destruct (Hnext s3 L3 O3) as [N1 N2].
        destruct (consume_loop true s3 d (S idx) n plans) as [[[s4 ws4] rem4] d4] eqn:E4.
        destruct (IH _ _ _ _ _ _ _ _ W3 S3 HQ N1 N2 D3 E4) as [A B]. inversion E; subst. auto.
    + cbn [andb] in E. destruct (cread (length (Wpend (ch_q c))) (ch_q c)) as [q1 [p1 p2]] eqn:Er.
      destruct (q_ok_cread _ _ _ _ _ Hc Er) as (Hq1 & _ & _). destruct (drained_k _ _ _ _ _ HI (le_n _) Er) as [Hnz' Hz'].
      assert (Hown : forall c2, forall w, assoc w (writers s) = Some (ch_uid c) -> ch_owner c2 = Some w)
        by (intros c2 w Ha; pose proof (W_own s HW w _ c Ha Hin eq_refl); congruence).
      destruct (N.eqb_spec (lenN p1 + lenN p2) 0) as [Hz|Hnz]; cbv zeta iota beta in E;
        (match type of E with context [consume_loop true ?st d (S idx) n plans] => set (s3 := st) in E end).
      * destruct (quiet_step s idx c (mkChan (ch_uid c) q1 (ch_wid c) (ch_wname c) (ch_batch c) (Some 18446744073709551615)) HW HS E2 eq_refl (Hown _) Hq1 (Hz' Hz) Hdone) as (W3 & S3 & L3 & D3 & O3).
        fold s3 in W3, S3, L3, D3, O3. destruct (Hnext s3 L3 O3) as [N1 N2].
        destruct (consume_loop true s3 d (S idx) n plans) as [[[s4 ws4] rem4] d4] eqn:E4.
        destruct (IH _ _ _ _ _ _ _ _ W3 S3 HQ N1 N2 D3 E4) as [A B]. inversion E; subst. auto.
      * destruct (quiet_step s idx c (mkChan (ch_uid c) (cend q1) (ch_wid c) (ch_wname c) (lenN p1 + lenN p2) (Some 18446744073709551615)) HW HS E2 eq_refl (Hown _) (q_ok_cend _ Hq1) (Hnz' Hnz) Hdone) as (W3 & S3 & L3 & D3 & O3).
        fold s3 in W3, S3, L3, D3, O3. destruct (Hnext s3 L3 O3) as [N1 N2].
        destruct (consume_loop true s3 d (S idx) n plans) as [[[s4 ws4] rem4] d4] eqn:E4.
        destruct (IH _ _ _ _ _ _ _ _ W3 S3 HQ N1 N2 D3 E4) as [A B]. inversion E; subst. auto.
Qed.

Theorem quiet_consume_drains s plans : WInv s -> SInv s -> quiet plans ->
  (forall j b, nth_error (channels s) j = Some b -> (length (Wpend (ch_q b)) <= pl_k (plan_nth plans j))%nat) ->
  forall c, In c (channels (fst (fst (consume true s plans)))) -> all_delivered (ch_q c).
Proof.
  intros HW HS HQ Hk. unfold consume.
  set (s1 := mkSess (channels s) (cs_buf s) false (src_buf s) (lenN (src_buf s)) _ _ _ _ _ _).
  assert (W1 : WInv s1) by (apply (winv_same s); auto).
  assert (S1 : SInv s1).
  { destruct HS as [A (a & b & Eb & Ep) C]. constructor; [exact A| |exact C]. unfold src_ok. cbn [src_buf src_pos s1].
    exists (a ++ b), []. rewrite ReaderLemmas.stream_of_app. split; [now rewrite Eb, app_nil_r|now rewrite Eb]. }
  destruct (consume_loop true s1 [] 0 (length (channels s1)) plans) as [[[s2 wsl] removed] deferred] eqn:El.
  destruct (quiet_loop (length (channels s1)) s1 [] 0%nat plans s2 wsl removed deferred W1 S1 HQ eq_refl (fun j b _ Hb => Hk j b Hb) (fun j b Hj _ => False_ind _ (Nat.nlt_0_r j Hj)) El) as [-> Hall].
  cbn [fst fold_left set_channels channels]. intros c Hc. apply filter_In in Hc. apply Hall. exact (proj1 Hc).
Qed.

(** C02: in EVERY reachable state, a consume during which no writer acts (and which sees the writers' latest commits, as it does when it
    starts after their calls returned) leaves nothing undelivered in any channel *)
Theorem timely_delivery cs ops plans : Forall sop_rm ops -> quiet plans ->
  let s := fst (srun true (sess_init cs) ops) in
  (forall j b, nth_error (channels s) j = Some b -> (length (Wpend (ch_q b)) <= pl_k (plan_nth plans j))%nat) ->
  forall c, In c (channels (fst (fst (consume true s plans)))) -> all_delivered (ch_q c).
Proof.
  intros Hops HQ s Hk. destruct (removal_invariants_reachable cs ops Hops) as (W & S & U & O). fold s in W, S, U, O.
  now apply quiet_consume_drains.
Qed.

(** C02, order: in EVERY reachable state the channels are listed - and therefore polled by every consume - in the order of their creation
    (strictly increasing uid). A writer whose queue is replaced continues on a channel created at that moment: it is polled after the
    replaced one, and after every channel that existed before, for as long as they are in the session. *)
Theorem channels_polled_in_creation_order cs ops : Forall sop_rm ops ->
  Sorted.StronglySorted N.lt (map ch_uid (channels (fst (srun true (sess_init cs) ops)))).
Proof. intros Hops. exact (proj2 (proj2 (proj2 (removal_invariants_reachable cs ops Hops)))). Qed.
Theorem replacement_channel_is_last s w k p : WInv s -> snd (add_event s w k p) = false ->
  assoc w (writers s) <> None -> (exists c, find_chan (match assoc w (writers s) with Some u => u | None => 0 end) (channels s) = Some c) ->
  exists olds cnew, channels (fst (add_event s w k p)) = olds ++ [cnew] /\ map ch_uid olds = map ch_uid (channels s) /\
    ch_uid cnew = next_uid s /\ ch_owner cnew = Some w /\ assoc w (writers (fst (add_event s w k p))) = Some (next_uid s).
Proof.
  intros HW Hslow Ha [c Hc]. unfold add_event in *. destruct (assoc w (writers s)) as [uid|]; [|congruence]. rewrite Hc in *.
  destruct (pbegin k _ (ch_q c)) as [q1 ok]. destruct ok; [discriminate|]. cbn [fst channels writers].
  eexists _, _. split; [reflexivity|]. split; [unfold close_chan; now rewrite !map_uid_upd|]. split; [reflexivity|]. split; [reflexivity|].
  rewrite assoc_set_assoc. now rewrite N.eqb_refl.
Qed.

(** non-vacuity: a writer logs twice and is destroyed at once; a second writer's queue is replaced; the consume that follows removes the
    closed channels and leaves nothing undelivered *)
Definition rm_ops : list sop :=
  [SNewWriter 1 64 0 []; SAddEvent 1 0 (le_enc 8 1 ++ le_enc 8 5); SAddEvent 1 0 (le_enc 8 1 ++ le_enc 8 6); SClose 1;
   SNewWriter 2 24 0 []; SAddEvent 2 0 (le_enc 8 1 ++ le_enc 8 7); SAddEvent 2 0 (le_enc 8 1 ++ le_enc 8 8)].
Example rm_nonvacuous :
  Forall sop_rm rm_ops /\
  let s := fst (srun true (sess_init default_cs) rm_ops) in
  length (channels s) = 3%nat /\ length (consume_removed s []) = 2%nat /\ length (channels (fst (fst (consume true s [])))) = 1%nat.
Proof. split; [repeat constructor; try discriminate; cbn; lia|]. vm_compute. repeat split. Qed.

