(** C02, order across a queue replacement: a channel that is closed when a consume starts (the writer was destroyed, or moved on to a
    larger queue) is found closed by that consume whatever lock-free writer actions happen inside it, is polled with the newest
    store, is marked for removal, and has delivered everything ever committed to it when the channel loop ends. With the polling
    order (creation order, replacement channel last) this gives: every event a writer committed to the queue it abandoned is
    written before any event it committed to the replacement, and the abandoned queue is gone after the first consume. *)
From Coq Require Import List ZArith NArith Bool Lia.
From BL Require Import Base.Bytes Reader.Entry Queue.QueueModel Queue.QueueInv Session.SessionModel Session.SessionInv Session.SessionProps Session.SessionRemoval.
Import ListNotations.
Local Open Scope N_scope.

(** channels no writer action can touch: closed ones and ones already marked *)
Definition stays (c : chan) : Prop := ch_owner c = None \/ is_reset c = true.

Lemma stay_shape s s' i c : WInv s -> wstep_shape s s' -> nth_error (channels s) i = Some c -> stays c -> nth_error (channels s') i = Some c.
Proof.
  intros HW [E|(w & uid & h & extra & Ea & E & Hn & Hy & Hx)] Hi Ho; [now rewrite E|]. rewrite E.
  rewrite nth_error_app1 by (rewrite map_length; apply nth_error_Some; congruence).
  rewrite nth_error_map, Hi. cbn [option_map]. f_equal. apply Hn. intros Hc.
  pose proof (W_own s HW w uid c Ea (nth_error_In _ _ Hi) Hc) as Hown.
  destruct Ho as [Ho|Ho]; [congruence|]. apply is_reset_owner in Ho. rewrite Ho in Hown. inversion Hown as [Hm].
  exact (writer_not_marker s w uid HW Ea (eq_sym Hm)).
Qed.

Lemma run_wacts_stay acts : forall s d, WInv s ->
  forall i c, nth_error (channels s) i = Some c -> stays c -> nth_error (channels (fst (run_wacts s d acts))) i = Some c.
Proof.
  induction acts as [|a acts IH]; intros s d HW i c Hi Ho; [exact Hi|]. cbn [run_wacts].
  destruct (is_blocked (wact_writer a) d); [now apply IH|].
  destruct a as [w k p|w].
  - pose proof (winv_add_event_probe s w k p HW) as W1. pose proof (shape_add_event_probe s w k p HW) as S1.
    destruct (add_event_probe s w k p) as [s1 ok]. cbn [fst] in W1, S1.
    pose proof (stay_shape s s1 i c HW S1 Hi Ho) as H1.
    destruct ok.
    + pose proof (winv_add_event s1 w 0 p W1) as W2. pose proof (shape_add_event s1 w 0 p W1) as S2.
      destruct (add_event s1 w 0 p) as [s2 f]. cbn [fst] in W2, S2.
      apply IH; [exact W2| |exact Ho]. exact (stay_shape s1 s2 i c W1 S2 H1 Ho).
    + apply IH; [exact W1|exact H1|exact Ho].
  - pose proof (winv_close_writer s w HW) as W1. pose proof (shape_close_writer s w HW) as S1.
    apply IH; [exact W1| |exact Ho]. exact (stay_shape s _ i c HW S1 Hi Ho).
Qed.

Lemma is_reset_marked u q a b n : is_reset (mkChan u q a b n (Some 18446744073709551615)) = true.
Proof. reflexivity. Qed.

(** * the channel loop marks every channel that is closed when it gets to it, and a mark stays *)
Lemma loop_marks_closed n : forall s d idx plans s' ws removed d',
  WInv s -> SInv s -> Forall Dd (channels s) -> USorted s ->
  consume_loop true s d idx n plans = (s', ws, removed, d') ->
  forall i c, nth_error (channels s) i = Some c ->
    (ch_owner c = None /\ (idx <= i < idx + n)%nat) \/ is_reset c = true ->
    exists c', nth_error (channels s') i = Some c' /\ ch_uid c' = ch_uid c /\ is_reset c' = true.
Proof.
  induction n as [|n IH]; intros s d idx plans s' ws removed d' HW HS HD HU E i ci Hi Hd; cbn [consume_loop] in E.
  - inversion E; subst. destruct Hd as [[_ Hr]|Hr]; [lia|]. exists ci. auto.
  - assert (Hst : stays ci) by (destruct Hd as [[Ho _]|Hr]; [now left|now right]).
    assert (Hnone : forall st, nth_error (channels st) i = Some ci -> nth_error (channels st) idx = None ->
              exists c', nth_error (channels st) i = Some c' /\ ch_uid c' = ch_uid ci /\ is_reset c' = true).
    { intros st Hci Hn. destruct Hd as [[_ Hr]|Hr]; [|exists ci; auto]. exfalso. apply nth_error_None in Hn.
      assert (i < length (channels st))%nat by (apply nth_error_Some; congruence). lia. }
    destruct (run_wacts_removal (pl_before (plan_nth plans idx)) s d HW HD) as (W1 & D1 & C1).
    pose proof (sinv_run_wacts (pl_before (plan_nth plans idx)) s d HS) as S1.
    pose proof (usorted_run_wacts (pl_before (plan_nth plans idx)) s d HW HU) as U1.
    pose proof (run_wacts_stay (pl_before (plan_nth plans idx)) s d HW i ci Hi Hst) as Hi1.
    destruct (run_wacts s d (pl_before (plan_nth plans idx))) as [s1 d1]. cbn [fst] in W1, D1, C1, S1, U1, Hi1.
    destruct (nth_error (channels s1) idx) as [c0|] eqn:E0; [|inversion E; subst; now apply Hnone].
    destruct (run_wacts_removal (pl_between (plan_nth plans idx)) s1 d1 W1 D1) as (W2 & D2 & C2).
    pose proof (sinv_run_wacts (pl_between (plan_nth plans idx)) s1 d1 S1) as S2.
    pose proof (usorted_run_wacts (pl_between (plan_nth plans idx)) s1 d1 W1 U1) as U2.
    pose proof (run_wacts_stay (pl_between (plan_nth plans idx)) s1 d1 W1 i ci Hi1 Hst) as Hi2.
    destruct (run_wacts s1 d1 (pl_between (plan_nth plans idx))) as [s2 d2]. cbn [fst] in W2, D2, C2, S2, U2, Hi2.
    destruct (nth_error (channels s2) idx) as [c|] eqn:E2; [|inversion E; subst; now apply Hnone].
    pose proof (nth_error_chan_ok s2 idx c S2 E2) as Hc. unfold chan_ok in Hc. pose proof Hc as [HI _].
    pose proof (nth_error_In _ _ E2) as Hin.
    assert (Dc : Dd c) by (rewrite Forall_forall in D2; now apply D2).
    assert (G : forall c2, ch_uid c2 = ch_uid c -> (forall w, assoc w (writers s2) = Some (ch_uid c) -> ch_owner c2 = Some w) -> Dd c2 -> chan_ok c2 ->
                let s3 := set_channels s2 (upd_chan (ch_uid c) (fun _ => c2) (channels s2)) in WInv s3 /\ SInv s3 /\ Forall Dd (channels s3) /\ USorted s3).
    { intros c2 Hu Ho Hd2 Hok s3. split; [now apply winv_replace|]. split; [|split].
      - apply sinv_set_channels; [exact S2|]. apply forall_upd_chan; [exact (SI_chans s2 S2)|]. intros _ _. exact Hok.
      - cbn [set_channels channels]. now apply dd_replace.
      - now apply usorted_replace. }
    (* what the rest of the loop does to position i, for any final state c2 of the polled channel *)
    assert (K : forall c2 s4 ws4 rem4 d4, ch_uid c2 = ch_uid c -> (i = idx -> is_reset c2 = true) ->
                let s3 := set_channels s2 (upd_chan (ch_uid c) (fun _ => c2) (channels s2)) in
                WInv s3 -> SInv s3 -> Forall Dd (channels s3) -> USorted s3 ->
                consume_loop true s3 d2 (S idx) n plans = (s4, ws4, rem4, d4) ->
                exists c', nth_error (channels s4) i = Some c' /\ ch_uid c' = ch_uid ci /\ is_reset c' = true).
    { intros c2 s4 ws4 rem4 d4 Hu Hr s3 W3 S3 D3 U3 E4. destruct (Nat.eq_dec i idx) as [Ei|Ei].
      - subst i. assert (c = ci) by congruence. subst ci.
        assert (H3 : nth_error (channels s3) idx = Some c2) by (unfold s3; cbn [set_channels channels]; now apply nth_upd_same).
        destruct (IH _ _ _ _ _ _ _ _ W3 S3 D3 U3 E4 idx c2 H3 (or_intror (Hr eq_refl))) as (c' & A & B & C).
        exists c'. split; [exact A|]. split; [congruence|exact C].
      - assert (H3 : nth_error (channels s3) i = Some ci).
        { unfold s3. cbn [set_channels channels]. rewrite (nth_upd_other (channels s2) c c2 idx i (W_nodup s2 W2) E2); [exact Hi2|congruence]. }
        apply (IH _ _ _ _ _ _ _ _ W3 S3 D3 U3 E4 i ci H3).
        destruct Hd as [[Ho Hr']|Hr']; [left; split; [exact Ho|lia]|now right]. }
    destruct (ch_owner c0) as [x|] eqn:Eo0.
    + (* not found closed *)
      cbn [andb] in E. destruct (cread (pl_k (plan_nth plans idx)) (ch_q c)) as [q1 [p1 p2]] eqn:Er.
      destruct (q_ok_cread _ _ _ _ _ Hc Er) as (Hq1 & _ & _).
      assert (Hown : forall q' b w, assoc w (writers s2) = Some (ch_uid c) -> ch_owner (mkChan (ch_uid c) q' (ch_wid c) (ch_wname c) b (ch_owner c)) = Some w)
        by (intros q' b w Ha; cbn [ch_owner]; exact (W_own s2 W2 w _ c Ha Hin eq_refl)).
      assert (Hdd : forall q' b, (is_reset c = true -> all_delivered q') -> Dd (mkChan (ch_uid c) q' (ch_wid c) (ch_wname c) b (ch_owner c)))
        by (intros q' b H Hr; cbn [ch_q]; apply H; apply is_reset_owner; apply is_reset_owner in Hr; exact Hr).
      assert (Hrs : forall q' b, i = idx -> is_reset (mkChan (ch_uid c) q' (ch_wid c) (ch_wname c) b (ch_owner c)) = true).
      { intros q' b Ei. subst i. assert (c0 = ci) by congruence. assert (c = ci) by congruence. subst c0 c.
        destruct Hd as [[Ho _]|Hr]; [congruence|]. unfold is_reset in *. cbn [ch_owner]. exact Hr. }
      destruct (N.eqb_spec (lenN p1 + lenN p2) 0) as [Hz|Hnz]; cbv zeta iota beta in E;
        (match type of E with context [consume_loop true ?st d2 (S idx) n plans] => set (s3 := st) in E end).
      * destruct (G (mkChan (ch_uid c) q1 (ch_wid c) (ch_wname c) (ch_batch c) (ch_owner c)) eq_refl (Hown _ _)
                   (Hdd _ _ (fun Hr => proj2 (all_delivered_poll _ _ _ _ _ HI (Dc Hr) Er))) Hq1) as (W3 & S3 & D3 & U3).
        fold s3 in W3, S3, D3, U3. destruct (consume_loop true s3 d2 (S idx) n plans) as [[[s4 ws4] rem4] d4] eqn:E4.
        inversion E; subst s'. refine (K _ _ _ _ _ _ (Hrs _ _) W3 S3 D3 U3 E4); reflexivity.
      * destruct (G (mkChan (ch_uid c) (cend q1) (ch_wid c) (ch_wname c) (lenN p1 + lenN p2) (ch_owner c)) eq_refl (Hown _ _)
                   (Hdd _ _ (fun Hr => False_ind _ (Hnz (proj1 (all_delivered_poll _ _ _ _ _ HI (Dc Hr) Er))))) (q_ok_cend _ Hq1)) as (W3 & S3 & D3 & U3).
        fold s3 in W3, S3, D3, U3. destruct (consume_loop true s3 d2 (S idx) n plans) as [[[s4 ws4] rem4] d4] eqn:E4.
        inversion E; subst s'. refine (K _ _ _ _ _ _ (Hrs _ _) W3 S3 D3 U3 E4); reflexivity.
    + (* found closed *)
      cbn [andb] in E. pose proof (C2 idx c0 E0 Eo0) as E2'. rewrite E2 in E2'. inversion E2'; subst c0. clear E2'.
      destruct (cread (length (Wpend (ch_q c))) (ch_q c)) as [q1 [p1 p2]] eqn:Er.
      destruct (q_ok_cread _ _ _ _ _ Hc Er) as (Hq1 & _ & _).
      destruct (closed_channel_drained _ _ _ _ HI Er) as (_ & Hnz' & Hz').
      assert (Hown : forall c2, forall w, assoc w (writers s2) = Some (ch_uid c) -> ch_owner c2 = Some w)
        by (intros c2 w Ha; pose proof (W_own s2 W2 w _ c Ha Hin eq_refl); congruence).
      destruct (N.eqb_spec (lenN p1 + lenN p2) 0) as [Hz|Hnz]; cbv zeta iota beta in E;
        (match type of E with context [consume_loop true ?st d2 (S idx) n plans] => set (s3 := st) in E end).
      * destruct (G (mkChan (ch_uid c) q1 (ch_wid c) (ch_wname c) (ch_batch c) (Some 18446744073709551615)) eq_refl (Hown _)
                   (fun _ => proj2 (all_delivered_poll _ _ _ _ _ HI (Hz' Hz) Er)) Hq1) as (W3 & S3 & D3 & U3).
        fold s3 in W3, S3, D3, U3. destruct (consume_loop true s3 d2 (S idx) n plans) as [[[s4 ws4] rem4] d4] eqn:E4.
        inversion E; subst s'. refine (K _ _ _ _ _ _ (fun _ => is_reset_marked _ _ _ _ _) W3 S3 D3 U3 E4); reflexivity.
      * destruct (G (mkChan (ch_uid c) (cend q1) (ch_wid c) (ch_wname c) (lenN p1 + lenN p2) (Some 18446744073709551615)) eq_refl (Hown _)
                   (fun _ => Hnz' Hnz) (q_ok_cend _ Hq1)) as (W3 & S3 & D3 & U3).
        fold s3 in W3, S3, D3, U3. destruct (consume_loop true s3 d2 (S idx) n plans) as [[[s4 ws4] rem4] d4] eqn:E4.
        inversion E; subst s'. refine (K _ _ _ _ _ _ (fun _ => is_reset_marked _ _ _ _ _) W3 S3 D3 U3 E4); reflexivity.
Qed.

(** the channels as the channel loop of a consume leaves them (before the marked ones are erased) *)
Definition consume_marked (s : sess) (plans : list cplan) : list chan :=
  let s1 := mkSess (channels s) (cs_buf s) false (src_buf s) (lenN (src_buf s)) (next_sid s) (total_bytes s) (min_sev s) (next_uid s) (writers s) (sites s) in
  let '(s2, _, _, _) := consume_loop true s1 [] 0 (length (channels s1)) plans in channels s2.

Lemma consume_removed_marked s plans : consume_removed s plans = filter is_reset (consume_marked s plans).
Proof.
  unfold consume_removed, consume_marked.
  destruct (consume_loop true _ [] 0 _ plans) as [[[s2 ws] rm] df]. reflexivity.
Qed.

Theorem closed_channel_removed_by_next_consume s plans : WInv s -> SInv s -> Um s -> USorted s ->
  forall i c, nth_error (channels s) i = Some c -> ch_owner c = None ->
  exists c', nth_error (consume_marked s plans) i = Some c' /\ ch_uid c' = ch_uid c /\
             In c' (consume_removed s plans) /\ all_delivered (ch_q c').
Proof.
  intros HW HS HU HO i c Hi Ho.
  pose proof (proj1 (consume_removes_only_drained s plans HW HS HU HO)) as Hall.
  rewrite consume_removed_marked in *. unfold consume_marked in *.
  set (s1 := mkSess (channels s) (cs_buf s) false (src_buf s) (lenN (src_buf s)) _ _ _ _ _ _) in *.
  assert (W1 : WInv s1) by (apply (winv_same s); auto).
  assert (S1 : SInv s1).
  { destruct HS as [A (a & b & Eb & Ep) C]. constructor; [exact A| |exact C]. unfold src_ok. cbn [src_buf src_pos s1].
    exists (a ++ b), []. rewrite ReaderLemmas.stream_of_app. split; [now rewrite Eb, app_nil_r|now rewrite Eb]. }
  assert (D1 : Forall Dd (channels s1)) by (apply (um_dd s); exact HU).
  destruct (consume_loop true s1 [] 0 (length (channels s1)) plans) as [[[s2 wsl] removed] deferred] eqn:El.
  assert (Hrange : (0 <= i < 0 + length (channels s1))%nat).
  { split; [lia|]. cbn [plus]. apply nth_error_Some. cbn [channels s1]. congruence. }
  destruct (loop_marks_closed _ _ _ _ _ _ _ _ _ W1 S1 D1 HO El i c Hi (or_introl (conj Ho Hrange))) as (c' & A & B & C).
  exists c'. split; [exact A|]. split; [exact B|].
  assert (Hin : In c' (filter is_reset (channels s2))) by (apply filter_In; split; [exact (nth_error_In _ _ A)|exact C]).
  split; [exact Hin|]. rewrite Forall_forall in Hall. exact (Hall c' Hin).
Qed.

(** for every history: *)
Theorem abandoned_queue_drained_by_next_consume cs ops plans : Forall sop_rm ops ->
  let s := fst (srun true (sess_init cs) ops) in
  forall i c, nth_error (channels s) i = Some c -> ch_owner c = None ->
  exists c', nth_error (consume_marked s plans) i = Some c' /\ ch_uid c' = ch_uid c /\
             In c' (consume_removed s plans) /\ all_delivered (ch_q c').
Proof.
  intros Hops s. destruct (removal_invariants_reachable cs ops Hops) as (HW & HS & HU & HO).
  now apply closed_channel_removed_by_next_consume.
Qed.

(** * ... and the abandoned queue is not in the session afterwards *)
Definition gone (u : N) (s : sess) : Prop := ~ In u (map ch_uid (channels s)) /\ u < next_uid s.

Lemma gone_add_event u s w k p : gone u s -> gone u (fst (add_event s w k p)).
Proof.
  intros [Hn Hl]. unfold gone, add_event. destruct (assoc w (writers s)) as [uid|]; [|now split]. destruct (find_chan uid (channels s)) as [c|]; [|now split].
  destruct (pbegin k _ (ch_q c)) as [q1 ok]. destruct ok; cbn [fst set_channels channels next_uid].
  - rewrite map_uid_upd by reflexivity. now split.
  - rewrite map_app. cbn [map ch_uid]. unfold close_chan. rewrite !map_uid_upd by reflexivity. split; [|lia].
    intros Hin. apply in_app_or in Hin. destruct Hin as [Hin|[Hin|[]]]; [now apply Hn|lia].
Qed.
Lemma gone_close_writer u s w : gone u s -> gone u (close_writer s w).
Proof.
  intros [Hn Hl]. unfold gone, close_writer. destruct (assoc w (writers s)) as [uid|]; [|now split]. cbn [channels next_uid].
  unfold close_chan. rewrite map_uid_upd by reflexivity. now split.
Qed.
Lemma gone_fold d : forall s u, gone u s ->
  gone u (fold_left (fun st a => match a with WAdd w k p => fst (add_event st w k p) | WClose w => close_writer st w end) d s).
Proof.
  induction d as [|a d IH]; intros s u H; [exact H|]. cbn [fold_left]. apply IH. destruct a as [w k p|w]; [now apply gone_add_event|now apply gone_close_writer].
Qed.

Lemma loop_next_uid_ge n : forall s d idx plans s' ws removed d', WInv s -> SInv s -> Forall Dd (channels s) -> USorted s ->
  consume_loop true s d idx n plans = (s', ws, removed, d') -> WInv s'.
Proof. intros s d idx plans s' ws removed d' HW HS HD HU E. exact (proj1 (loop_removal n _ _ _ _ _ _ _ _ HW HS HD HU E)). Qed.

Theorem closed_channel_gone_after_consume s plans : WInv s -> SInv s -> Um s -> USorted s ->
  forall c, In c (channels s) -> ch_owner c = None -> ~ In (ch_uid c) (map ch_uid (channels (fst (fst (consume true s plans))))).
Proof.
  intros HW HS HU HO c Hin Ho. destruct (In_nth_error _ _ Hin) as [i Hi].
  unfold consume.
  set (s1 := mkSess (channels s) (cs_buf s) false (src_buf s) (lenN (src_buf s)) _ _ _ _ _ _).
  assert (W1 : WInv s1) by (apply (winv_same s); auto).
  assert (S1 : SInv s1).
  { destruct HS as [A (a & b & Eb & Ep) C]. constructor; [exact A| |exact C]. unfold src_ok. cbn [src_buf src_pos s1].
    exists (a ++ b), []. rewrite ReaderLemmas.stream_of_app. split; [now rewrite Eb, app_nil_r|now rewrite Eb]. }
  assert (D1 : Forall Dd (channels s1)) by (apply (um_dd s); exact HU).
  destruct (consume_loop true s1 [] 0 (length (channels s1)) plans) as [[[s2 wsl] removed] deferred] eqn:El.
  assert (Hrange : (0 <= i < 0 + length (channels s1))%nat).
  { split; [lia|]. cbn [plus]. apply nth_error_Some. cbn [channels s1]. congruence. }
  destruct (loop_marks_closed _ _ _ _ _ _ _ _ _ W1 S1 D1 HO El i c Hi (or_introl (conj Ho Hrange))) as (c' & A & B & C).
  pose proof (loop_next_uid_ge _ _ _ _ _ _ _ _ _ W1 S1 D1 HO El) as W2.
  cbn [fst]. apply gone_fold. split; cbn [channels next_uid set_channels].
  - intros Hx. apply in_map_iff in Hx. destruct Hx as (b & Eb & Hb). apply filter_In in Hb. destruct Hb as [Hb Hr].
    assert (b = c') by (apply (nodup_uid_eq (channels s2)); [exact (W_nodup s2 W2)|exact Hb|exact (nth_error_In _ _ A)|congruence]).
    subst b. rewrite C in Hr. discriminate.
  - pose proof (W_lt s2 W2) as Hlt. rewrite Forall_forall in Hlt. rewrite <- B. exact (Hlt c' (nth_error_In _ _ A)).
Qed.

Theorem abandoned_queue_gone_after_next_consume cs ops plans : Forall sop_rm ops ->
  let s := fst (srun true (sess_init cs) ops) in
  forall c, In c (channels s) -> ch_owner c = None -> ~ In (ch_uid c) (map ch_uid (channels (fst (fst (consume true s plans))))).
Proof.
  intros Hops s. destruct (removal_invariants_reachable cs ops Hops) as (HW & HS & HU & HO).
  now apply closed_channel_gone_after_consume.
Qed.

(** non-vacuity: writer 2's first queue (24 bytes) is replaced by its second event; the abandoned queue is closed, drained by the next
    consume and gone afterwards, while the replacement stays *)
Example replace_nonvacuous :
  let s := fst (srun true (sess_init default_cs) rm_ops) in
  map (fun c => match ch_owner c with None => true | _ => false end) (channels s) = [true; true; false] /\
  map is_reset (consume_marked s []) = [true; true; false] /\
  map ch_uid (channels (fst (fst (consume true s [])))) = [2].
Proof. vm_compute. repeat split. Qed.
