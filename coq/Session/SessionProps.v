(** C02, C03, C13, C19 on the session model. *)
From Coq Require Import List ZArith NArith Bool Lia.
From BL Require Import Base.Bytes Reader.Entry Reader.ReaderLemmas Queue.QueueModel Queue.QueueInv Session.SessionModel Session.SessionInv.
Import ListNotations.
Local Open Scope N_scope.

(** * C19: severity control *)
Theorem disabled_statement_is_noop s w k l : lg_sev l < min_sev s -> log_stmt s w k l = (s, false).
Proof. intros H. unfold log_stmt. destruct (N.leb_spec (min_sev s) (lg_sev l)); [lia|reflexivity]. Qed.

(** an enabled statement evaluates its arguments and adds exactly one event (one call of addEvent), registering its
    source first iff this is the first execution of the statement; the id it uses is the one registered *)
Theorem enabled_statement_one_event s w k l : min_sev s <= lg_sev l ->
  exists s1 sid, log_stmt s w k l = (fst (add_event s1 w k (le_enc 8 sid ++ le_enc 8 (lg_clock l) ++ lg_args l)), true) /\
    ((assoc (lg_site l) (sites s) = Some sid /\ s1 = s) \/
     (assoc (lg_site l) (sites s) = None /\ sid = next_sid s /\ next_sid s1 = next_sid s + 1 /\
      assoc (lg_site l) (sites s1) = Some sid /\ channels s1 = channels s /\ min_sev s1 = min_sev s)).
Proof.
  intros H. unfold log_stmt. destruct (N.leb_spec (min_sev s) (lg_sev l)); [|lia].
  destruct (assoc (lg_site l) (sites s)) as [sid|] eqn:E.
  - exists s, sid. split; [reflexivity|]. left. auto.
  - unfold add_source. eexists _, (next_sid s). split; [reflexivity|]. right. cbn [sites next_sid channels min_sev].
    repeat split; auto. unfold set_assoc. cbn [assoc]. now rewrite N.eqb_refl.
Qed.

Theorem min_severity_change_takes_effect s sev w k l : lg_sev l < sev -> log_stmt (set_min_sev s sev) w k l = (set_min_sev s sev, false).
Proof. intros H. now apply disabled_statement_is_noop. Qed.

(** * C03: source ids *)
Theorem source_ids_distinct s src s' id : add_source s src = (s', id) -> id = next_sid s /\ next_sid s' = id + 1.
Proof. unfold add_source. intros E. inversion E; subst. auto. Qed.

(** the metadata part of consume: [clock syncs if a new one was set] ; [the sources not yet consumed] ; channel data.
    Afterwards every source registered so far has been consumed. Nothing else touches the metadata buffers. *)
Lemma add_event_meta s w k p : let s' := fst (add_event s w k p) in
  src_buf s' = src_buf s /\ src_pos s' = src_pos s /\ cs_buf s' = cs_buf s /\ consume_cs s' = consume_cs s /\ next_sid s' = next_sid s.
Proof.
  unfold add_event. destruct (assoc w (writers s)); [|cbn; auto]. destruct (find_chan _ _); [|cbn; auto].
  destruct (pbegin _ _ _) as [q1 ok]. destruct ok; cbn; auto.
Qed.
Lemma add_event_probe_meta s w k p : let s' := fst (add_event_probe s w k p) in
  src_buf s' = src_buf s /\ src_pos s' = src_pos s /\ cs_buf s' = cs_buf s /\ consume_cs s' = consume_cs s /\ next_sid s' = next_sid s.
Proof.
  unfold add_event_probe. destruct (assoc w (writers s)); [|cbn; auto]. destruct (find_chan _ _); [|cbn; auto].
  destruct (pbegin _ _ _) as [q1 ok]. cbn; auto.
Qed.
Lemma close_writer_meta s w : let s' := close_writer s w in
  src_buf s' = src_buf s /\ src_pos s' = src_pos s /\ cs_buf s' = cs_buf s /\ consume_cs s' = consume_cs s /\ next_sid s' = next_sid s.
Proof. unfold close_writer. destruct (assoc w (writers s)); cbn; auto. Qed.

Definition meta_eq (s' s : sess) : Prop :=
  src_buf s' = src_buf s /\ src_pos s' = src_pos s /\ cs_buf s' = cs_buf s /\ consume_cs s' = consume_cs s /\ next_sid s' = next_sid s.
Lemma meta_eq_refl s : meta_eq s s. Proof. unfold meta_eq; auto. Qed.
Lemma meta_eq_trans a b c : meta_eq a b -> meta_eq b c -> meta_eq a c.
Proof. unfold meta_eq. intuition congruence. Qed.

Lemma run_wacts_meta acts : forall s d, meta_eq (fst (run_wacts s d acts)) s.
Proof.
  induction acts as [|a acts IH]; intros s d; [apply meta_eq_refl|]. cbn [run_wacts].
  destruct (is_blocked (wact_writer a) d); [apply IH|].
  destruct a as [w k p|w].
  - pose proof (add_event_probe_meta s w k p) as H1. destruct (add_event_probe s w k p) as [s1 ok]. cbn [fst] in H1. destruct ok.
    + pose proof (add_event_meta s1 w 0%nat p) as H2. destruct (add_event s1 w 0 p) as [s2 f]. cbn [fst] in H2.
      eapply meta_eq_trans; [apply IH|]. eapply meta_eq_trans; [exact H2|exact H1].
    + eapply meta_eq_trans; [apply IH|exact H1].
  - eapply meta_eq_trans; [apply IH|]. apply close_writer_meta.
Qed.

Lemma consume_loop_meta fence n : forall s d0 idx plans s' ws removed d,
  consume_loop fence s d0 idx n plans = (s', ws, removed, d) -> meta_eq s' s.
Proof.
  induction n as [|n IH]; intros s d0 idx plans s' ws removed d E; cbn [consume_loop] in E.
  - inversion E; subst. apply meta_eq_refl.
  - pose proof (run_wacts_meta (pl_before (plan_nth plans idx)) s d0) as H1.
    destruct (run_wacts s d0 (pl_before (plan_nth plans idx))) as [s1 d1]. cbn [fst] in H1.
    destruct (nth_error (channels s1) idx) as [c0|]; [|inversion E; subst; exact H1].
    pose proof (run_wacts_meta (pl_between (plan_nth plans idx)) s1 d1) as H2.
    destruct (run_wacts s1 d1 (pl_between (plan_nth plans idx))) as [s2 d2]. cbn [fst] in H2.
    destruct (nth_error (channels s2) idx) as [c|]; [|inversion E; subst; eapply meta_eq_trans; eauto].
    match type of E with context [cread ?kk (ch_q c)] => destruct (cread kk (ch_q c)) as [q1 [p1 p2]] end.
    destruct ((lenN p1 + lenN p2 =? 0)); cbv zeta iota beta in E;
      (match type of E with context [consume_loop fence ?st d2 (S idx) n plans] => set (s3 := st) in E end);
      destruct (consume_loop fence s3 d2 (S idx) n plans) as [[[s4 ws4] rem4] d4] eqn:E4;
      specialize (IH _ _ _ _ _ _ _ _ E4); inversion E; subst s' ws removed d;
      (eapply meta_eq_trans; [exact IH|]); (eapply meta_eq_trans; [|eapply meta_eq_trans; [exact H2|exact H1]]); unfold s3, meta_eq; cbn; auto.
Qed.

Lemma fold_deferred_meta d : forall s,
  meta_eq (fold_left (fun st a => match a with WAdd w k p => fst (add_event st w k p) | WClose w => close_writer st w end) d s) s.
Proof.
  induction d as [|a d IH]; intros s; [apply meta_eq_refl|]. cbn [fold_left]. eapply meta_eq_trans; [apply IH|].
  destruct a; [apply add_event_meta|apply close_writer_meta].
Qed.

Definition drop_pos (s : sess) : bytes := snd (match takeN (src_pos s) (src_buf s) with Some p => p | None => ([], []) end).
Definition take_pos (s : sess) : bytes := fst (match takeN (src_pos s) (src_buf s) with Some p => p | None => ([], []) end).

Theorem consume_metadata_first fence s plans s' ws r : consume fence s plans = (s', ws, r) ->
  exists data, ws = (if consume_cs s then [cs_buf s] else []) ++ [drop_pos s] ++ data /\
    src_buf s' = src_buf s /\ src_pos s' = lenN (src_buf s) /\ cs_buf s' = cs_buf s /\ consume_cs s' = false /\ next_sid s' = next_sid s.
Proof.
  unfold consume. intros E.
  match type of E with context [consume_loop fence ?st [] 0 ?n plans] => destruct (consume_loop fence st [] 0 n plans) as [[[s2 wsl] removed] deferred] eqn:El end.
  apply consume_loop_meta in El. destruct El as (A1 & A2 & A3 & A4 & A5). cbn [src_buf src_pos cs_buf consume_cs next_sid] in *.
  inversion E; subst s' ws r. clear E. exists wsl. split; [reflexivity|].
  match goal with |- context [fold_left ?f deferred ?st] => pose proof (fold_deferred_meta deferred st) as (B1 & B2 & B3 & B4 & B5) end.
  cbn [src_buf src_pos cs_buf consume_cs next_sid set_channels] in *.
  rewrite B1, B2, B3, B4, B5. auto.
Qed.

(** * C13: rotation. What the CURRENT output has received so far, as far as metadata goes. *)
Record otrack := mkOT { ot_src : bytes; ot_cs : bytes }.
Definition track (t : otrack) (s : sess) (o : sop) (out : sout) : otrack :=
  match o, out with
  | SReconsume, SoWrites _ _ => mkOT (take_pos s) (cs_buf s)                         (* a new output starts with reconsumeMetadata *)
  | SConsume _, SoWrites _ _ => mkOT (ot_src t ++ drop_pos s) (if consume_cs s then cs_buf s else ot_cs t)
  | _, _ => t
  end.

Definition track_ok (t : otrack) (s : sess) : Prop :=
  ot_src t = take_pos s /\ (consume_cs s = false -> ot_cs t = cs_buf s).

Lemma take_drop_pos s : SInv s -> take_pos s ++ drop_pos s = src_buf s /\ lenN (take_pos s) = src_pos s.
Proof.
  intros [_ (a & b & Eb & Ep) _]. unfold take_pos, drop_pos. rewrite Ep, Eb, takeN_exact. cbn. auto.
Qed.

Lemma take_pos_full s : src_pos s = lenN (src_buf s) -> take_pos s = src_buf s.
Proof.
  intros E. unfold take_pos. rewrite E. rewrite <- (app_nil_r (src_buf s)) at 2. now rewrite takeN_exact.
Qed.

Lemma meta_step_other fence s o : (match o with SConsume _ | SReconsume | SAddSource _ | SSetClockSync _ | SLog _ _ _ => False | _ => True end) ->
  meta_eq (fst (sstep fence s o)) s.
Proof.
  destruct o; cbn [sstep]; intros H; try contradiction; cbn [fst].
  - assert (M1 : meta_eq (create_channel s w capacity 0 []) s) by (unfold meta_eq; cbn; auto).
    assert (M2 : forall st, meta_eq (set_writer_id st w id) st) by (intros st; unfold set_writer_id; destruct (assoc w (writers st)); unfold meta_eq; cbn; auto).
    assert (M3 : forall st nm, meta_eq (set_writer_name st w nm) st) by (intros st nm; unfold set_writer_name; destruct (assoc w (writers st)); unfold meta_eq; cbn; auto).
    destruct (id =? 0); destruct name; eauto using meta_eq_trans.
  - unfold set_writer_id; destruct (assoc w (writers s)); unfold meta_eq; cbn; auto.
  - unfold set_writer_name; destruct (assoc w (writers s)); unfold meta_eq; cbn; auto.
  - pose proof (add_event_meta s w k payload). destruct (add_event s w k payload). exact H0.
  - apply close_writer_meta.
  - unfold meta_eq; cbn; auto.
Qed.

(** the tracking invariant is preserved by every operation; in particular after every consume the current output
    contains every source registered so far and every clock sync set so far (the last one being the one in force) *)
Theorem rotation_metadata_complete fence s o t : SInv s -> sop_ok o -> track_ok t s ->
  let (s', out) := sstep fence s o in
  track_ok (track t s o out) s' /\
  (match o with SConsume _ => ot_src (track t s o out) = src_buf s' /\ ot_cs (track t s o out) = cs_buf s' | _ => True end).
Proof.
  intros HS Hok [T1 T2].
  destruct (take_drop_pos s HS) as [TD1 TD2].
  assert (Hother : forall o', (match o' with SConsume _ | SReconsume | SAddSource _ | SSetClockSync _ | SLog _ _ _ => False | _ => True end) ->
            let (s', out) := sstep fence s o' in track_ok (track t s o' out) s' /\ True).
  { intros o' Ho. pose proof (meta_step_other fence s o' Ho) as (A1 & A2 & A3 & A4 & A5).
    destruct (sstep fence s o') as [s' out] eqn:Es. cbn [fst] in *. split; [|exact I].
    assert (Ht : track t s o' out = t) by (destruct o'; try contradiction; destruct out; reflexivity).
    rewrite Ht. unfold track_ok, take_pos. rewrite A1, A2, A3, A4. split; [exact T1|exact T2]. }
  destruct o.
  - exact (Hother (SNewWriter w capacity id name) I).
  - exact (Hother (SSetId w id) I).
  - exact (Hother (SSetName w name) I).
  - exact (Hother (SAddEvent w k payload) I).
  - (* log statement: may register a source; the consumed prefix does not move *)
    cbn [sstep track]. unfold log_stmt. destruct (min_sev s <=? lg_sev l); [|split; [split; [exact T1|exact T2]|exact I]].
    destruct (assoc (lg_site l) (sites s)).
    + pose proof (add_event_meta s w k (le_enc 8 n ++ le_enc 8 (lg_clock l) ++ lg_args l)) as (A1 & A2 & A3 & A4 & A5).
      destruct (add_event s w k _) as [s' f]. cbn [fst] in *. split; [|exact I]. unfold track_ok, take_pos. rewrite A1, A2, A3, A4. split; [exact T1|exact T2].
    + unfold add_source.
      match goal with |- context [add_event ?st w k ?p] => pose proof (add_event_meta st w k p) as (A1 & A2 & A3 & A4 & A5); destruct (add_event st w k p) as [s' f] end.
      cbn [fst src_buf src_pos cs_buf consume_cs next_sid] in *. split; [|exact I]. unfold track_ok, take_pos. rewrite A1, A2, A3, A4. split; [|exact T2].
      rewrite T1. destruct HS as [_ (a & b & Eb & Ep) _]. unfold take_pos. rewrite Ep, Eb, <- app_assoc, !takeN_exact. reflexivity.
  - exact (Hother (SClose w) I).
  - (* add source *) cbn [sstep track]. unfold add_source. cbn [fst]. split; [|exact I]. unfold track_ok, take_pos. cbn [src_buf src_pos cs_buf consume_cs]. split; [|exact T2].
    rewrite T1. destruct HS as [_ (a & b & Eb & Ep) _]. unfold take_pos. rewrite Ep, Eb, <- app_assoc, !takeN_exact. reflexivity.
  - (* set clock sync: the flag is raised, nothing to show for the clock sync part *)
    cbn [sstep track]. split; [|exact I]. unfold track_ok, take_pos, set_clock_sync. cbn [src_buf src_pos cs_buf consume_cs]. split; [exact T1|discriminate].
  - exact (Hother (SSetMinSev sev) I).
  - (* consume *)
    cbn [sstep track]. destruct (consume fence s plans) as [[s' ws] r] eqn:E.
    destruct (consume_metadata_first fence s plans s' ws r E) as (data & Ews & B1 & B2 & B3 & B4 & B5).
    assert (Hfull : take_pos s' = src_buf s') by (apply take_pos_full; rewrite B1; exact B2).
    cbn [ot_src ot_cs]. split; [split|split].
    + rewrite Hfull, B1, T1. exact TD1.
    + intros _. rewrite B3. destruct (consume_cs s) eqn:Ec; [reflexivity|auto].
    + rewrite B1, T1. exact TD1.
    + rewrite B3. destruct (consume_cs s) eqn:Ec; [reflexivity|auto].
  - (* reconsumeMetadata *)
    cbn [sstep track]. unfold reconsume. cbn [fst ot_src ot_cs]. split; [|exact I]. unfold track_ok, take_pos. cbn [src_buf src_pos cs_buf consume_cs]. auto.
Qed.

(** * C02: a closed channel is removed only after everything in it has been delivered *)
Definition all_delivered (q : qstate) : Prop := sT (r_new q) = lenS q.

(** the poll of a channel that was found closed, with the fence: the consumer's load reads the newest store *)
Theorem closed_channel_drained q q' p1 p2 : Inv q -> cread (length (Wpend q)) q = (q', (p1, p2)) ->
  p1 ++ p2 = slice (strm q) (sT (r_new q)) (lenS q) /\ (lenN p1 + lenN p2 <> 0 -> all_delivered (cend q')) /\
  (lenN p1 + lenN p2 = 0 -> sT (r_new q) = lenS q).
Proof.
  intros HI E.
  pose proof (quiescent_delivers_all _ q q' p1 p2 HI (le_n _) E) as Hq.
  destruct (cread_batch _ q q' p1 p2 HI E) as (HI' & Hst & Hrn & Hcu & Hin & Hle & Hnew & m & Hm & Hmc & HT & H0 & Hp1 & Hp2).
  specialize (Hnew (le_n _)).
  split; [exact Hq|]. split.
  - intros _. unfold all_delivered, cend, r_new, last_of, lenS. cbn [Rcur Rpend strm]. rewrite last_last. cbn [sT].
    rewrite Hnew, Hst. apply (I_T q HI).
  - intros Hz. assert (Hl : length (p1 ++ p2) = 0%nat) by (rewrite app_length; unfold lenN in Hz; lia).
    rewrite Hq in Hl. unfold slice in Hl. rewrite firstn_length, skipn_length in Hl. unfold lenS in *.
    pose proof (rec_ok_of q (r_new q) HI (chain_in_R q _ (r_new_in q))) as (_ & _ & _ & _ & _).
    lia.
Qed.

(** without the fence the stale reads-from choice remains available: the channel is removed with an event in it *)
Definition w02_ops : list sop :=
  [SNewWriter 1 64 0 []; SAddEvent 1 0 (le_enc 8 1 ++ le_enc 8 5); SConsume [];
   SAddEvent 1 0 (le_enc 8 1 ++ le_enc 8 6); SClose 1; SConsume [mkPlan [] [] 0]; SConsume []].
Definition delivered_events (outs : list sout) : nat :=
  fold_left (fun n o => match o with SoWrites ws _ => (n + length (filter (fun w => (lenN w =? 20)%N) ws))%nat | _ => n end) outs 0%nat.

Lemma removal_without_fence_refuted :
  delivered_events (snd (srun false (sess_init default_cs) w02_ops)) = 1%nat /\
  channels (fst (srun false (sess_init default_cs) w02_ops)) = [].
Proof. vm_compute. split; reflexivity. Qed.

Example removal_with_fence_witness :
  delivered_events (snd (srun true (sess_init default_cs) w02_ops)) = 2%nat.
Proof. vm_compute. reflexivity. Qed.
