(** C02, the output of one consume attributed to the channels: the pieces the channel loop writes, each tagged with the uid of the
    channel that was polled for it. Their concatenation IS what consume_loop writes, and their uids are strictly increasing: one
    consume writes the data of its channels in creation order. With SessionReplace (abandoned queue drained by the next consume, gone
    afterwards) and replacement_channel_is_last this closes the order of one writer's events across a queue replacement. *)
From Coq Require Import List ZArith NArith Bool Lia Sorted.
From BL Require Import Base.Bytes Reader.Entry Queue.QueueModel Queue.QueueInv Session.SessionModel Session.SessionInv Session.SessionProps Session.SessionRemoval Session.SessionReplace.
Import ListNotations.
Local Open Scope N_scope.

(** the channel loop again, returning (uid of the polled channel, what was written for it) per step; same recursion as [consume_loop] *)
Fixpoint loop_pieces (s : sess) (d : list wact) (idx : nat) (n : nat) (plans : list cplan) : list (N * list bytes) :=
  match n with
  | O => []
  | S n' =>
    let pl := plan_nth plans idx in
    let (s1, d1) := run_wacts s d (pl_before pl) in
    match nth_error (channels s1) idx with
    | None => []
    | Some c0 =>
      let closed := match ch_owner c0 with None => true | Some _ => false end in
      let (s2, d2) := run_wacts s1 d1 (pl_between pl) in
      match nth_error (channels s2) idx with
      | None => []
      | Some c =>
        let k := if closed && true then length (Wpend (ch_q c)) else pl_k pl in
        let '(q1, (p1, p2)) := cread k (ch_q c) in
        let size := lenN p1 + lenN p2 in
        let '(c', writes) :=
          if size =? 0 then (mkChan (ch_uid c) q1 (ch_wid c) (ch_wname c) (ch_batch c) (ch_owner c), [])
          else (mkChan (ch_uid c) (cend q1) (ch_wid c) (ch_wname c) size (ch_owner c),
                wp_entry c size :: p1 :: (match p2 with [] => [] | _ => [p2] end)) in
        let c'' := if closed then mkChan (ch_uid c') (ch_q c') (ch_wid c') (ch_wname c') (ch_batch c') (Some 18446744073709551615) else c' in
        let s3 := set_channels s2 (upd_chan (ch_uid c) (fun _ => c'') (channels s2)) in
        (ch_uid c, writes) :: loop_pieces s3 d2 (S idx) n' plans
      end
    end
  end.

(** the uid list of the session only grows at the end *)
Definition uext (s s' : sess) : Prop := exists ext, map ch_uid (channels s') = map ch_uid (channels s) ++ ext.
Lemma uext_refl s : uext s s. Proof. exists []. now rewrite app_nil_r. Qed.
Lemma uext_trans a b c : uext a b -> uext b c -> uext a c.
Proof. intros [x Hx] [y Hy]. exists (x ++ y). now rewrite Hy, Hx, app_assoc. Qed.
Lemma uext_eq s s' : map ch_uid (channels s') = map ch_uid (channels s) -> uext s s'.
Proof. intros E. exists []. now rewrite app_nil_r. Qed.

Lemma uext_add_event s w k p : uext s (fst (add_event s w k p)).
Proof.
  unfold add_event. destruct (assoc w (writers s)) as [uid|]; [|apply uext_refl]. destruct (find_chan uid (channels s)) as [c|]; [|apply uext_refl].
  destruct (pbegin k _ (ch_q c)) as [q1 ok]. destruct ok; cbn [fst].
  - apply uext_eq. cbn [set_channels channels]. now rewrite map_uid_upd.
  - exists [next_uid s]. cbn [channels]. rewrite map_app. cbn [map ch_uid]. unfold close_chan. now rewrite !map_uid_upd by reflexivity.
Qed.
Lemma uext_add_event_probe s w k p : uext s (fst (add_event_probe s w k p)).
Proof.
  unfold add_event_probe. destruct (assoc w (writers s)) as [uid|]; [|apply uext_refl]. destruct (find_chan uid (channels s)) as [c|]; [|apply uext_refl].
  destruct (pbegin k _ (ch_q c)) as [q1 ok]. cbn [fst]. apply uext_eq. cbn [set_channels channels]. now rewrite map_uid_upd.
Qed.
Lemma uext_close_writer s w : uext s (close_writer s w).
Proof.
  unfold close_writer. destruct (assoc w (writers s)) as [uid|]; [|apply uext_refl]. apply uext_eq. cbn [channels]. unfold close_chan. now rewrite map_uid_upd.
Qed.
Lemma uext_run_wacts acts : forall s d, uext s (fst (run_wacts s d acts)).
Proof.
  induction acts as [|a acts IH]; intros s d; [apply uext_refl|]. cbn [run_wacts].
  destruct (is_blocked (wact_writer a) d); [apply IH|].
  destruct a as [w k p|w].
  - pose proof (uext_add_event_probe s w k p) as U1. destruct (add_event_probe s w k p) as [s1 ok]. cbn [fst] in U1. destruct ok.
    + pose proof (uext_add_event s1 w 0 p) as U2. destruct (add_event s1 w 0 p) as [s2 f]. cbn [fst] in U2.
      eapply uext_trans; [exact U1|]. eapply uext_trans; [exact U2|apply IH].
    + eapply uext_trans; [exact U1|apply IH].
  - eapply uext_trans; [apply uext_close_writer|apply IH].
Qed.
Lemma uext_replace s c c2 : ch_uid c2 = ch_uid c -> uext s (set_channels s (upd_chan (ch_uid c) (fun _ => c2) (channels s))).
Proof.
  intros Hu. apply uext_eq. cbn [set_channels channels]. rewrite upd_as_map, map_map. apply map_ext.
  intros c0. cbv beta. destruct (N.eqb_spec (ch_uid c0) (ch_uid c)); congruence.
Qed.
Lemma uext_nth s s' i u : uext s s' -> nth_error (map ch_uid (channels s)) i = Some u -> nth_error (map ch_uid (channels s')) i = Some u.
Proof. intros [x Hx] Hi. rewrite Hx, nth_error_app1; [exact Hi|]. apply nth_error_Some. congruence. Qed.

Ltac loop_step E :=
  cbn [consume_loop loop_pieces] in *;
  match goal with |- context [run_wacts ?s ?d ?a] => pose proof (uext_run_wacts a s d) as U1; destruct (run_wacts s d a) as [s1 d1]; cbn [fst] in U1 end.

(** * the pieces are what the loop writes; the loop only extends the uid list; piece j belongs to position idx + j *)
Lemma loop_pieces_spec n : forall s d idx plans s' ws removed d',
  consume_loop true s d idx n plans = (s', ws, removed, d') ->
  concat (map snd (loop_pieces s d idx n plans)) = ws /\ uext s s' /\
  (forall j u, nth_error (map fst (loop_pieces s d idx n plans)) j = Some u -> nth_error (map ch_uid (channels s')) (idx + j) = Some u).
Proof.
  induction n as [|n IH]; intros s d idx plans s' ws removed d' E; cbn [consume_loop loop_pieces] in *.
  - inversion E; subst. split; [reflexivity|]. split; [apply uext_refl|]. intros j u Hj. destruct j; discriminate.
  - pose proof (uext_run_wacts (pl_before (plan_nth plans idx)) s d) as U1.
    destruct (run_wacts s d (pl_before (plan_nth plans idx))) as [s1 d1]. cbn [fst] in U1.
    destruct (nth_error (channels s1) idx) as [c0|] eqn:E0.
    2:{ inversion E; subst. split; [reflexivity|]. split; [exact U1|]. intros j u Hj. destruct j; discriminate. }
    pose proof (uext_run_wacts (pl_between (plan_nth plans idx)) s1 d1) as U2.
    destruct (run_wacts s1 d1 (pl_between (plan_nth plans idx))) as [s2 d2]. cbn [fst] in U2.
    destruct (nth_error (channels s2) idx) as [c|] eqn:E2.
    2:{ inversion E; subst. split; [reflexivity|]. split; [eapply uext_trans; eassumption|]. intros j u Hj. destruct j; discriminate. }
    set (closed := match ch_owner c0 with None => true | Some _ => false end) in *.
    destruct (cread (if closed && true then length (Wpend (ch_q c)) else pl_k (plan_nth plans idx)) (ch_q c)) as [q1 [p1 p2]].
    set (cw := if lenN p1 + lenN p2 =? 0 then (mkChan (ch_uid c) q1 (ch_wid c) (ch_wname c) (ch_batch c) (ch_owner c), [])
               else (mkChan (ch_uid c) (cend q1) (ch_wid c) (ch_wname c) (lenN p1 + lenN p2) (ch_owner c),
                     wp_entry c (lenN p1 + lenN p2) :: p1 :: (match p2 with [] => [] | _ => [p2] end))) in *.
    assert (Hcw : ch_uid (fst cw) = ch_uid c) by (unfold cw; destruct (lenN p1 + lenN p2 =? 0); reflexivity).
    destruct cw as [c' writes]. cbn [fst] in Hcw.
    set (c'' := if closed then mkChan (ch_uid c') (ch_q c') (ch_wid c') (ch_wname c') (ch_batch c') (Some 18446744073709551615) else c') in *.
    assert (Hc'' : ch_uid c'' = ch_uid c) by (unfold c''; destruct closed; exact Hcw).
    pose proof (uext_replace s2 c c'' Hc'') as U3.
    set (s3 := set_channels s2 (upd_chan (ch_uid c) (fun _ => c'') (channels s2))) in *.
    destruct (consume_loop true s3 d2 (S idx) n plans) as [[[s4 ws4] rem4] d4] eqn:E4.
    destruct (IH _ _ _ _ _ _ _ _ E4) as (A & B & C). inversion E; subst s' ws removed d'.
    split; [cbn [map snd concat]; now rewrite A|]. split; [eapply uext_trans; [exact U1|]; eapply uext_trans; [exact U2|]; eapply uext_trans; eassumption|].
    intros j u Hj. destruct j as [|j]; cbn [map fst nth_error] in Hj.
    + inversion Hj; subst u. rewrite Nat.add_0_r. apply (uext_nth s3 s4 idx _ B). apply (uext_nth s2 s3 idx _ U3).
      rewrite nth_error_map, E2. reflexivity.
    + replace (idx + S j)%nat with (S idx + j)%nat by lia. now apply C.
Qed.

Lemma ssorted_nth (l : list N) : StronglySorted N.lt l -> forall i j a b, (i < j)%nat -> nth_error l i = Some a -> nth_error l j = Some b -> a < b.
Proof.
  induction 1 as [|x l Hs IH Hall]; intros i j a b Hij Hi Hj; [destruct i; discriminate|].
  destruct j as [|j]; [lia|]. cbn [nth_error] in Hj. destruct i as [|i]; cbn [nth_error] in Hi.
  - inversion Hi; subst. rewrite Forall_forall in Hall. apply Hall. exact (nth_error_In _ _ Hj).
  - apply (IH i j); [lia|exact Hi|exact Hj].
Qed.

(** the pieces of a whole consume *)
Definition consume_pieces (s : sess) (plans : list cplan) : list (N * list bytes) :=
  let s1 := mkSess (channels s) (cs_buf s) false (src_buf s) (lenN (src_buf s)) (next_sid s) (total_bytes s) (min_sev s) (next_uid s) (writers s) (sites s) in
  loop_pieces s1 [] 0 (length (channels s1)) plans.

Theorem consume_writes_channels_in_creation_order s plans : WInv s -> SInv s -> Um s -> USorted s ->
  (exists meta, snd (fst (consume true s plans)) = meta ++ concat (map snd (consume_pieces s plans))) /\
  (forall j1 j2 u1 u2, (j1 < j2)%nat -> nth_error (map fst (consume_pieces s plans)) j1 = Some u1 ->
      nth_error (map fst (consume_pieces s plans)) j2 = Some u2 -> u1 < u2) /\
  (forall j u, nth_error (map fst (consume_pieces s plans)) j = Some u -> nth_error (map ch_uid (consume_marked s plans)) j = Some u).
Proof.
  intros HW HS HU HO. unfold consume_pieces, consume, consume_marked.
  set (s1 := mkSess (channels s) (cs_buf s) false (src_buf s) (lenN (src_buf s)) _ _ _ _ _ _).
  assert (W1 : WInv s1) by (apply (winv_same s); auto).
  assert (S1 : SInv s1).
  { destruct HS as [A (a & b & Eb & Ep) C]. constructor; [exact A| |exact C]. unfold src_ok. cbn [src_buf src_pos s1].
    exists (a ++ b), []. rewrite ReaderLemmas.stream_of_app. split; [now rewrite Eb, app_nil_r|now rewrite Eb]. }
  assert (D1 : Forall Dd (channels s1)) by (apply (um_dd s); exact HU).
  destruct (consume_loop true s1 [] 0 (length (channels s1)) plans) as [[[s2 wsl] removed] deferred] eqn:El.
  destruct (loop_removal _ _ _ _ _ _ _ _ _ W1 S1 D1 HO El) as (W2 & D2 & O2).
  destruct (loop_pieces_spec _ _ _ _ _ _ _ _ _ El) as (A & B & C).
  split; [|split].
  - cbn [fst snd]. rewrite A. eexists. rewrite app_assoc. reflexivity.
  - intros j1 j2 u1 u2 Hlt H1 H2. apply (ssorted_nth _ O2 j1 j2); [exact Hlt|exact (C j1 u1 H1)|exact (C j2 u2 H2)].
  - intros j u Hj. exact (C j u Hj).
Qed.

Theorem pieces_in_creation_order cs ops plans : Forall sop_rm ops ->
  let s := fst (srun true (sess_init cs) ops) in
  (exists meta, snd (fst (consume true s plans)) = meta ++ concat (map snd (consume_pieces s plans))) /\
  (forall j1 j2 u1 u2, (j1 < j2)%nat -> nth_error (map fst (consume_pieces s plans)) j1 = Some u1 ->
      nth_error (map fst (consume_pieces s plans)) j2 = Some u2 -> u1 < u2) /\
  (forall j u, nth_error (map fst (consume_pieces s plans)) j = Some u -> nth_error (map ch_uid (consume_marked s plans)) j = Some u).
Proof.
  intros Hops s. destruct (removal_invariants_reachable cs ops Hops) as (HW & HS & HU & HO).
  now apply consume_writes_channels_in_creation_order.
Qed.

Example pieces_nonvacuous :
  let s := fst (srun true (sess_init default_cs) rm_ops) in
  map fst (consume_pieces s []) = [0; 1; 2] /\ map (fun p => length (snd p)) (consume_pieces s []) = [2; 2; 2]%nat.
Proof. vm_compute. split; reflexivity. Qed.
