(** Session-level invariants and C11 (framing of the consumed stream). *)
From Coq Require Import List ZArith NArith Bool Lia.
From BL Require Import Base.Bytes Reader.Entry Reader.ReaderLemmas Queue.QueueModel Queue.QueueInv Session.SessionModel.
Import ListNotations.
Local Open Scope Z_scope.

(** * commit boundaries *)
Definition tot (rcs : list bytes) : Z := Z.of_nat (length (concat (rev rcs))).
Fixpoint bounds_rev (rcs : list bytes) : list Z :=
  match rcs with
  | [] => [0]
  | c :: r => (tot r + Z.of_nat (length c)) :: bounds_rev r
  end.

Lemma tot_cons c r : tot (c :: r) = tot r + Z.of_nat (length c).
Proof. unfold tot. cbn [rev]. rewrite concat_app, app_length. cbn. rewrite app_nil_r. lia. Qed.

Lemma tot_nonneg r : 0 <= tot r. Proof. unfold tot. lia. Qed.

Lemma bounds_head r : exists t, bounds_rev r = tot r :: t.
Proof. destruct r as [|c r]; cbn; [exists []; reflexivity|]. exists (bounds_rev r). now rewrite tot_cons. Qed.

Lemma bounds_range r x : In x (bounds_rev r) -> 0 <= x <= tot r.
Proof.
  induction r as [|c r IH]; cbn; intros H.
  - destruct H as [<-|[]]. unfold tot. cbn. lia.
  - rewrite tot_cons. destruct H as [<-|H]; [pose proof (tot_nonneg r); lia|]. specialize (IH H). lia.
Qed.

Lemma slice_app_left (X c : list byte) a b : 0 <= a <= b -> b <= Z.of_nat (length X) -> slice (X ++ c) a b = slice X a b.
Proof.
  intros H1 H2. unfold slice. rewrite skipn_app. rewrite firstn_app.
  replace (Z.to_nat (b - a) - length (skipn (Z.to_nat a) X))%nat with 0%nat by (rewrite skipn_length; lia).
  now rewrite firstn_O, app_nil_r.
Qed.

Lemma slice_app_right (X c : list byte) a : 0 <= a <= Z.of_nat (length X) ->
  slice (X ++ c) a (Z.of_nat (length X) + Z.of_nat (length c)) = slice X a (Z.of_nat (length X)) ++ c.
Proof.
  intros H. unfold slice. rewrite skipn_app, firstn_app, !skipn_length.
  replace (Z.to_nat a - length X)%nat with 0%nat by lia. cbn [skipn].
  rewrite (firstn_all2 (skipn (Z.to_nat a) X)) by (rewrite skipn_length; lia).
  rewrite (firstn_all2 (skipn (Z.to_nat a) X)) by (rewrite skipn_length; lia).
  f_equal. apply firstn_all2. lia.
Qed.

(** a slice between two commit boundaries is a run of whole commits *)
Lemma slice_bounds (P : bytes -> Prop) rcs : Forall P rcs -> forall a b,
  In a (bounds_rev rcs) -> In b (bounds_rev rcs) -> a <= b ->
  exists mid, slice (concat (rev rcs)) a b = concat mid /\ Forall P mid.
Proof.
  induction 1 as [|c r Hc Hr IH]; intros a b Ha Hb Hab.
  - cbn in *. destruct Ha as [<-|[]], Hb as [<-|[]]. exists []. split; [reflexivity|constructor].
  - cbn [bounds_rev rev] in *. rewrite concat_app. cbn [concat]. rewrite app_nil_r.
    fold (tot r) in *. pose proof (tot_nonneg r) as Ht.
    destruct Hb as [<-|Hb].
    + destruct Ha as [<-|Ha].
      * exists []. split; [|constructor]. unfold slice. rewrite Z.sub_diag. reflexivity.
      * pose proof (bounds_range r a Ha) as Hra.
        destruct (bounds_head r) as [t Ht']. 
        destruct (IH a (tot r) Ha ltac:(rewrite Ht'; now left) ltac:(lia)) as (mid & Hm & Hf).
        exists (mid ++ [c]). split.
        -- unfold tot at 1. rewrite slice_app_right by (fold (tot r); lia). fold (tot r). rewrite Hm, concat_app. cbn. now rewrite app_nil_r.
        -- apply Forall_app. split; [exact Hf|]. constructor; [exact Hc|constructor].
    + pose proof (bounds_range r b Hb) as Hrb.
      destruct Ha as [<-|Ha].
      * exists []. split; [|constructor]. assert (b = tot r + Z.of_nat (length c)) by lia. subst b.
        unfold slice. rewrite Z.sub_diag. reflexivity.
      * pose proof (bounds_range r a Ha) as Hra.
        destruct (IH a b Ha Hb Hab) as (mid & Hm & Hf). exists mid. split; [|exact Hf].
        rewrite slice_app_left; [exact Hm|lia|fold (tot r); lia].
Qed.

(** * channels *)
Definition is_entry (c : bytes) : Prop := exists p, c = frame p.
Definition whole (w : bytes) : Prop := exists ps, w = stream_of ps.

Lemma whole_concat mid : Forall is_entry mid -> whole (concat mid).
Proof.
  induction 1 as [|c mid [p ->] _ [ps IH]]; [exists []; reflexivity|].
  exists (p :: ps). cbn [concat]. rewrite IH. reflexivity.
Qed.
Lemma whole_nil : whole []. Proof. exists []. reflexivity. Qed.
Lemma whole_frame p : whole (frame p). Proof. exists [p]. unfold stream_of. cbn. now rewrite app_nil_r. Qed.
Lemma whole_app a b : whole a -> whole b -> whole (a ++ b).
Proof. intros [pa ->] [pb ->]. exists (pa ++ pb). now rewrite stream_of_app. Qed.

Definition q_ok (q : qstate) : Prop :=
  Inv q /\ exists rcs, strm q = concat (rev rcs) /\ cuts q = bounds_rev rcs /\ Forall is_entry rcs.
Definition chan_ok (c : chan) : Prop := q_ok (ch_q c).

Lemma strm_pmax k q : strm (pmax k q) = strm q /\ cuts (pmax k q) = cuts q.
Proof.
  unfold pmax. destruct (acquire k (Rcur q) (Rpend q)) as [rc rp]. unfold pmax0.
  destruct (_ <? _); [|destruct (_ <=? _)]; split; reflexivity.
Qed.
Lemma strm_pbegin k n q : strm (fst (pbegin k n q)) = strm q /\ cuts (fst (pbegin k n q)) = cuts q.
Proof. unfold pbegin. destruct (n <=? wend q - wpos q); cbn [fst]; [split; reflexivity|apply strm_pmax]. Qed.

Lemma q_ok_init c : 0 <= c -> q_ok (init c).
Proof. intros H. split; [now apply inv_init|]. exists []. repeat split; constructor. Qed.

Lemma q_ok_pbegin k n q : q_ok q -> q_ok (fst (pbegin k n q)).
Proof.
  intros [HI (rcs & H1 & H2 & H3)]. split; [now apply inv_pbegin|].
  destruct (strm_pbegin k n q) as [E1 E2]. exists rcs. rewrite E1, E2. auto.
Qed.

Lemma q_ok_pcommit p q : q_ok q -> Z.of_nat (length (frame p)) <= wend q - wpos q -> q_ok (pcommit (frame p) q).
Proof.
  intros [HI (rcs & H1 & H2 & H3)] Hfit. split; [now apply inv_pcommit|].
  exists (frame p :: rcs). unfold pcommit. cbn [strm cuts]. repeat split.
  - cbn [rev]. rewrite concat_app. cbn. now rewrite app_nil_r, H1.
  - cbn [bounds_rev]. unfold lenS, tot. now rewrite H1, H2.
  - constructor; [now exists p|exact H3].
Qed.

Lemma q_ok_cend q : q_ok q -> q_ok (cend q).
Proof. intros [HI (rcs & H1 & H2 & H3)]. split; [now apply inv_cend|]. exists rcs. auto. Qed.

(** beginRead on an ok queue: both pieces are whole entries, the queue stays ok *)
Lemma q_ok_cread k q q' p1 p2 : q_ok q -> cread k q = (q', (p1, p2)) -> q_ok q' /\ whole p1 /\ whole p2.
Proof.
  intros [HI (rcs & H1 & H2 & H3)] E.
  destruct (cread_batch k q q' p1 p2 HI E) as (HI' & Hst & Hrn & Hcu & Hin & Hle & _ & m & Hm & Hmc & HT & H0 & Hp1 & Hp2).
  assert (Hrnc : In (sT (r_new q)) (cuts q)).
  { pose proof (rec_ok_of q (r_new q) HI (chain_in_R q _ (r_new_in q))) as (_ & _ & _ & Hc & _). exact Hc. }
  assert (Hwc : In (sT (Wcur q')) (cuts q)).
  { assert (Hcin : In (Wcur q') (chain q)) by (unfold chain; apply in_or_app; now right).
    pose proof (rec_ok_of q _ HI Hcin) as (_ & _ & _ & Hc & _). exact Hc. }
  split; [split; [exact HI'|exists rcs; rewrite Hst, Hcu; auto]|].
  rewrite H2 in *. rewrite H1 in *.
  destruct (slice_bounds is_entry rcs H3 _ _ Hrnc Hmc ltac:(lia)) as (m1 & E1 & F1).
  destruct (slice_bounds is_entry rcs H3 _ _ Hmc Hwc ltac:(lia)) as (m2 & E2 & F2).
  subst p1 p2. pose proof (whole_concat m1 F1) as W1. pose proof (whole_concat m2 F2) as W2.
  rewrite <- E1 in W1. rewrite <- E2 in W2. split; [exact W1|exact W2].
Qed.

(** * the session *)
Definition src_ok (s : sess) : Prop :=
  exists a b, src_buf s = stream_of a ++ stream_of b /\ src_pos s = lenN (stream_of a).
Record SInv (s : sess) : Prop := mkSInv {
  SI_chans : Forall chan_ok (channels s);
  SI_src : src_ok s;
  SI_cs : whole (cs_buf s)
}.

Lemma sinv_init cs : SInv (sess_init cs).
Proof.
  constructor; unfold sess_init.
  - cbn [channels]. constructor.
  - exists [], []. split; reflexivity.
  - cbn [cs_buf]. unfold entry_special. apply whole_frame.
Qed.

Lemma forall_upd_chan (P : chan -> Prop) uid f cs : Forall P cs -> (forall c, P c -> P (f c)) -> Forall P (upd_chan uid f cs).
Proof.
  intros H Hf. unfold upd_chan. induction H as [|c cs Hc _ IH]; [constructor|].
  cbn [map]. constructor; [|exact IH]. destruct (ch_uid c =? uid)%N; auto.
Qed.

Lemma find_chan_in uid cs c : find_chan uid cs = Some c -> In c cs.
Proof. induction cs as [|x cs IH]; cbn; [discriminate|]. destruct (ch_uid x =? uid)%N; [intros E; inversion E; now left|intros E; right; auto]. Qed.

Lemma sinv_set_channels s cs : SInv s -> Forall chan_ok cs -> SInv (set_channels s cs).
Proof. intros [H1 H2 H3] H. constructor; cbn; auto. Qed.

Lemma sinv_create_channel s w c wid wname : SInv s -> 0 <= c -> SInv (create_channel s w c wid wname).
Proof.
  intros [H1 H2 H3] Hc. constructor; cbn; auto.
  apply Forall_app. split; [exact H1|]. constructor; [|constructor]. unfold chan_ok. cbn. now apply q_ok_init.
Qed.

Lemma frame_len_fits p q ok q1 k : pbegin k (Z.of_nat (length (frame p))) q = (q1, ok) -> ok = true ->
  Z.of_nat (length (frame p)) <= wend q1 - wpos q1.
Proof.
  unfold pbegin. destruct (Z.leb_spec (Z.of_nat (length (frame p))) (wend q - wpos q)).
  - intros E _. inversion E; subst. lia.
  - intros E Hok. inversion E; subst. apply Z.leb_le. exact H2.
Qed.

Lemma cap_nonneg_of q : q_ok q -> 0 <= cap q. Proof. intros [HI _]. exact (I_cap q HI). Qed.

Lemma fresh_window c n : 0 <= c -> 0 <= n <= c ->
  n <= wend (fst (pbegin 0 n (init c))) - wpos (fst (pbegin 0 n (init c))).
Proof.
  intros Hc Hn. unfold pbegin, init. cbn [wend wpos].
  destruct (Z.leb_spec n (0 - 0)); cbn [fst wend wpos]; [lia|].
  unfold pmax, pmax0, w_new, last_of, setR. cbn.
  destruct (Z.leb_spec (-1) (c - 0)); cbn; lia.
Qed.

Lemma sinv_add_event s w k p : SInv s -> SInv (fst (add_event s w k p)).
Proof.
  intros HS. unfold add_event. destruct (assoc w (writers s)) as [uid|]; [|exact HS].
  destruct (find_chan uid (channels s)) as [c|] eqn:Ef; [|exact HS].
  pose proof (find_chan_in _ _ _ Ef) as Hin.
  pose proof (SI_chans s HS) as Hch. rewrite Forall_forall in Hch. pose proof (Hch c Hin) as Hc. unfold chan_ok in Hc.
  unfold event_entry.
  destruct (pbegin k (Z.of_nat (length (frame p))) (ch_q c)) as [q1 ok] eqn:Eb.
  pose proof (q_ok_pbegin k (Z.of_nat (length (frame p))) (ch_q c) Hc) as Hq1. rewrite Eb in Hq1. cbn [fst] in Hq1.
  destruct ok; cbn [fst].
  - apply sinv_set_channels; [exact HS|]. apply forall_upd_chan; [exact (SI_chans s HS)|].
    intros c0 _. unfold chan_ok. cbn [ch_q]. apply q_ok_pcommit; [exact Hq1|]. eapply frame_len_fits; eauto.
  - (* replacement: the old channels stay ok, the new one starts from an empty queue that always has room *)
    set (newcap := Z.max (cap (ch_q c)) (2 * Z.of_nat (length (frame p)))).
    assert (Hnc : 0 <= newcap) by (unfold newcap; pose proof (cap_nonneg_of _ Hc); lia).
    destruct HS as [H1 H2 H3]. constructor; cbn [channels src_buf src_pos cs_buf]; auto.
    apply Forall_app. split.
    + unfold close_chan. apply forall_upd_chan; [|intros c0 H0; exact H0].
      apply forall_upd_chan; [exact H1|]. intros c0 _. unfold chan_ok. cbn [ch_q]. exact Hq1.
    + constructor; [|constructor]. unfold chan_ok. cbn [ch_q].
      apply q_ok_pcommit; [apply q_ok_pbegin; now apply q_ok_init|].
      apply fresh_window; [exact Hnc|]. unfold newcap. lia.
Qed.


Lemma sinv_add_event_probe s w k p : SInv s -> SInv (fst (add_event_probe s w k p)).
Proof.
  intros HS. unfold add_event_probe. destruct (assoc w (writers s)) as [uid|]; [|exact HS].
  destruct (find_chan uid (channels s)) as [c|] eqn:Ef; [|exact HS].
  pose proof (find_chan_in _ _ _ Ef) as Hin.
  pose proof (SI_chans s HS) as Hch. rewrite Forall_forall in Hch. pose proof (Hch c Hin) as Hc. unfold chan_ok in Hc.
  pose proof (q_ok_pbegin k (Z.of_nat (length (event_entry p))) (ch_q c) Hc) as Hq1.
  destruct (pbegin k (Z.of_nat (length (event_entry p))) (ch_q c)) as [q1 ok]. cbn [fst] in *.
  apply sinv_set_channels; [exact HS|]. apply forall_upd_chan; [exact (SI_chans s HS)|]. intros c0 _. exact Hq1.
Qed.

Lemma sinv_close_writer s w : SInv s -> SInv (close_writer s w).
Proof.
  intros HS. unfold close_writer. destruct (assoc w (writers s)) as [uid|]; [|exact HS].
  destruct HS as [H1 H2 H3]. constructor; cbn [channels src_buf src_pos cs_buf]; auto.
  unfold close_chan. apply forall_upd_chan; [exact H1|]. intros c0 H0. exact H0.
Qed.

Lemma sinv_set_writer_id s w id : SInv s -> SInv (set_writer_id s w id).
Proof.
  intros HS. unfold set_writer_id. destruct (assoc w (writers s)); [|exact HS].
  apply sinv_set_channels; [exact HS|]. apply forall_upd_chan; [exact (SI_chans s HS)|]. intros c0 H0. exact H0.
Qed.
Lemma sinv_set_writer_name s w nm : SInv s -> SInv (set_writer_name s w nm).
Proof.
  intros HS. unfold set_writer_name. destruct (assoc w (writers s)); [|exact HS].
  apply sinv_set_channels; [exact HS|]. apply forall_upd_chan; [exact (SI_chans s HS)|]. intros c0 H0. exact H0.
Qed.

Lemma sinv_add_source s src : SInv s -> SInv (fst (add_source s src)).
Proof.
  intros [H1 (a & b & E1 & E2) H3]. unfold add_source. cbn [fst]. constructor; cbn [channels src_buf src_pos cs_buf]; auto.
  unfold entry_special. set (pl := le_enc 8 tag_source ++ _).
  exists a, (b ++ [pl]). split; [|exact E2]. rewrite E1, stream_of_app, <- app_assoc. f_equal. f_equal.
  unfold stream_of. cbn. now rewrite app_nil_r.
Qed.

Lemma sinv_set_clock_sync s cs : SInv s -> SInv (set_clock_sync s cs).
Proof.
  intros [H1 H2 H3]. constructor; cbn [set_clock_sync channels src_buf src_pos cs_buf]; auto.
  apply whole_app; [exact H3|]. unfold entry_special. apply whole_frame.
Qed.

Lemma sinv_run_wacts acts : forall s d, SInv s -> SInv (fst (run_wacts s d acts)).
Proof.
  induction acts as [|a acts IH]; intros s d HS; [exact HS|]. cbn [run_wacts].
  destruct (is_blocked (wact_writer a) d); [now apply IH|].
  destruct a as [w k p|w].
  - pose proof (sinv_add_event_probe s w k p HS) as H1. destruct (add_event_probe s w k p) as [s1 ok]. cbn [fst] in H1.
    destruct ok.
    + pose proof (sinv_add_event s1 w 0 p H1) as H2. destruct (add_event s1 w 0 p) as [s2 f]. cbn [fst] in H2. now apply IH.
    + now apply IH.
  - apply IH. now apply sinv_close_writer.
Qed.

(** * C11: what consume writes *)
Lemma nth_error_chan_ok s i c : SInv s -> nth_error (channels s) i = Some c -> chan_ok c.
Proof. intros HS E. pose proof (SI_chans s HS) as H. rewrite Forall_forall in H. apply H. eapply nth_error_In; eauto. Qed.

(** the writes of the channel loop: for every polled channel with data, a writer description whose batch size is
    the byte length of the one or two pieces that follow it, each piece a run of whole entries *)
Inductive batches : list bytes -> Prop :=
| b_nil : batches []
| b_one wid wname p1 rest : whole p1 -> p1 <> [] -> batches rest ->
    batches (entry_special tag_wp (enc_wp (mkWP wid wname (lenN p1))) :: p1 :: rest)
| b_two wid wname p1 p2 rest : whole p1 -> whole p2 -> p2 <> [] -> batches rest ->
    batches (entry_special tag_wp (enc_wp (mkWP wid wname (lenN p1 + lenN p2))) :: p1 :: p2 :: rest).

Lemma batches_whole ws : batches ws -> Forall whole ws.
Proof.
  induction 1; [constructor| |]; repeat constructor; auto; unfold entry_special; apply whole_frame.
Qed.

Lemma consume_loop_ok fence n : forall s d0 idx plans s' ws removed d,
  SInv s -> consume_loop fence s d0 idx n plans = (s', ws, removed, d) -> SInv s' /\ batches ws.
Proof.
  induction n as [|n IH]; intros s d0 idx plans s' ws removed d HS E; cbn [consume_loop] in E.
  - inversion E; subst. split; [exact HS|constructor].
  - pose proof (sinv_run_wacts (pl_before (plan_nth plans idx)) s d0 HS) as H1.
    destruct (run_wacts s d0 (pl_before (plan_nth plans idx))) as [s1 d1]. cbn [fst] in H1.
    destruct (nth_error (channels s1) idx) as [c0|] eqn:E0; [|inversion E; subst; split; [exact H1|constructor]].
    pose proof (sinv_run_wacts (pl_between (plan_nth plans idx)) s1 d1 H1) as H2.
    destruct (run_wacts s1 d1 (pl_between (plan_nth plans idx))) as [s2 d2]. cbn [fst] in H2.
    destruct (nth_error (channels s2) idx) as [c|] eqn:E2; [|inversion E; subst; split; [exact H2|constructor]].
    pose proof (nth_error_chan_ok s2 idx c H2 E2) as Hc. unfold chan_ok in Hc.
    match type of E with context [cread ?kk (ch_q c)] => set (k := kk) in E end.
    destruct (cread k (ch_q c)) as [q1 [p1 p2]] eqn:Er.
    destruct (q_ok_cread k (ch_q c) q1 p1 p2 Hc Er) as (Hq1 & W1 & W2).
    set (size := (lenN p1 + lenN p2)%N) in E.
    destruct (N.eqb_spec size 0) as [Hz|Hnz]; cbv zeta iota beta in E;
      (match type of E with context [consume_loop fence ?st d2 (S idx) n plans] => set (s3 := st) in E end);
      (assert (H3 : SInv s3) by (unfold s3; apply sinv_set_channels; [exact H2|]; apply forall_upd_chan; [exact (SI_chans s2 H2)|];
         intros _ _; destruct (match ch_owner c0 with None => true | _ => false end); unfold chan_ok; cbn [ch_q]; auto using q_ok_cend));
      destruct (consume_loop fence s3 d2 (S idx) n plans) as [[[s4 ws4] rem4] d4] eqn:E4;
      destruct (IH _ _ _ _ _ _ _ _ H3 E4) as [H4 B4]; inversion E; subst s' ws removed d.
    + split; [exact H4|exact B4].
    + split; [exact H4|]. cbn [app]. unfold wp_entry.
      destruct p2 as [|b2 p2'].
      * replace size with (lenN p1) by (unfold size, lenN; cbn; lia).
        apply b_one; auto. intros ->. apply Hnz. reflexivity.
      * apply b_two; auto. discriminate.
Qed.

Lemma sinv_fold_deferred d : forall s, SInv s ->
  SInv (fold_left (fun st a => match a with WAdd w k p => fst (add_event st w k p) | WClose w => close_writer st w end) d s).
Proof.
  induction d as [|a d IH]; intros s HS; [exact HS|]. cbn [fold_left]. apply IH.
  destruct a; [now apply sinv_add_event|now apply sinv_close_writer].
Qed.

(** C11 for consume: every single write is a run of whole entries; the channel part consists of writer descriptions
    each immediately followed by exactly the pieces its batch size counts; the byte count reported is the sum *)
Theorem consume_framing fence s plans s' ws r : SInv s -> consume fence s plans = (s', ws, r) ->
  SInv s' /\ Forall whole ws /\
  (exists meta data, ws = meta ++ data /\ batches data /\ (length meta <= 2)%nat) /\
  cr_bytes r = fold_left (fun a w => (a + lenN w)%N) ws 0%N.
Proof.
  intros HS E. unfold consume in E.
  destruct HS as [H1 (a & b & Eb & Ep) H3].
  set (s1 := mkSess (channels s) (cs_buf s) false (src_buf s) (lenN (src_buf s)) _ _ _ _ _ _) in E.
  assert (HS1 : SInv s1).
  { unfold s1. constructor; [exact H1| |exact H3]. unfold src_ok. cbn [src_buf src_pos]. exists (a ++ b), []. rewrite stream_of_app. split; [now rewrite Eb, app_nil_r|now rewrite Eb]. }
  destruct (consume_loop fence s1 [] 0 (length (channels s1)) plans) as [[[s2 wsl] removed] deferred] eqn:El.
  destruct (consume_loop_ok fence _ _ _ _ _ _ _ _ _ HS1 El) as [HS2 Hb].
  set (srcs := snd (match takeN (src_pos s) (src_buf s) with Some p => p | None => ([], []) end)) in E.
  assert (Hsrcs : srcs = stream_of b).
  { unfold srcs. rewrite Ep, Eb, takeN_exact. reflexivity. }
  inversion E; subst s' ws r. clear E.
  split.
  - apply sinv_fold_deferred. destruct HS2 as [C1 C2 C3]. constructor; cbn [channels src_buf src_pos cs_buf set_channels]; auto.
    clear -C1. induction C1 as [|c cs Hc _ IH]; [constructor|]. cbn [filter]. destruct (negb (is_reset c)); [constructor; auto|auto].
  - split; [|split].
    + apply Forall_app. split; [destruct (consume_cs s); [constructor; [exact H3|constructor]|constructor]|].
      cbn [app]. constructor; [rewrite Hsrcs; now exists b|]. now apply batches_whole.
    + exists ((if consume_cs s then [cs_buf s] else []) ++ [srcs]), wsl. rewrite <- app_assoc. split; [reflexivity|]. split; [exact Hb|].
      destruct (consume_cs s); cbn; lia.
    + reflexivity.
Qed.

Theorem reconsume_framing s s' ws r : SInv s -> reconsume s = (s', ws, r) ->
  SInv s' /\ Forall whole ws /\ cr_bytes r = fold_left (fun a w => (a + lenN w)%N) ws 0%N.
Proof.
  intros [H1 (a & b & Eb & Ep) H3] E. unfold reconsume in E.
  assert (Hs : fst (match takeN (src_pos s) (src_buf s) with Some p => p | None => ([], []) end) = stream_of a).
  { rewrite Ep, Eb, takeN_exact. reflexivity. }
  rewrite Hs in E. inversion E; subst s' ws r. split; [|split].
  - constructor; cbn [channels src_buf src_pos cs_buf]; auto. exists a, b. auto.
  - constructor; [exact H3|]. constructor; [now exists a|constructor].
  - cbn. lia.
Qed.

Lemma sinv_log_stmt s w k l : SInv s -> SInv (fst (log_stmt s w k l)).
Proof.
  intros HS. unfold log_stmt. destruct (min_sev s <=? lg_sev l)%N; [|exact HS].
  destruct (assoc (lg_site l) (sites s)) as [sid|].
  - cbn [fst]. now apply sinv_add_event.
  - pose proof (sinv_add_source s (lg_src l) HS) as H1. destruct (add_source s (lg_src l)) as [s1 sid]. cbn [fst] in *.
    apply sinv_add_event. destruct H1 as [A B C]. constructor; cbn [channels src_buf src_pos cs_buf]; auto.
Qed.

Lemma sinv_sstep fence s o : SInv s -> (match o with SNewWriter _ c _ _ => 0 <= c | _ => True end) -> SInv (fst (sstep fence s o)).
Proof.
  intros HS Hc. destruct o; cbn [sstep].
  - cbn [fst]. pose proof (sinv_create_channel s w capacity 0%N [] HS Hc) as H1.
    assert (H2 : SInv (if (id =? 0)%N then create_channel s w capacity 0 [] else set_writer_id (create_channel s w capacity 0 []) w id))
      by (destruct (id =? 0)%N; [exact H1|now apply sinv_set_writer_id]).
    destruct name; [exact H2|now apply sinv_set_writer_name].
  - now apply sinv_set_writer_id.
  - now apply sinv_set_writer_name.
  - pose proof (sinv_add_event s w k payload HS). destruct (add_event s w k payload). exact H.
  - pose proof (sinv_log_stmt s w k l HS). destruct (log_stmt s w k l). exact H.
  - now apply sinv_close_writer.
  - pose proof (sinv_add_source s src HS). destruct (add_source s src). exact H.
  - now apply sinv_set_clock_sync.
  - destruct HS. constructor; auto.
  - destruct (consume fence s plans) as [[s' ws] r] eqn:E. cbn [fst]. now destruct (consume_framing fence s plans s' ws r HS E).
  - destruct (reconsume s) as [[s' ws] r] eqn:E. cbn [fst]. now destruct (reconsume_framing s s' ws r HS E).
Qed.

Definition sop_ok (o : sop) : Prop := match o with SNewWriter _ c _ _ => 0 <= c | _ => True end.

Theorem sinv_reachable fence cs ops : Forall sop_ok ops -> SInv (fst (srun fence (sess_init cs) ops)).
Proof.
  pose proof (sinv_init cs) as HS. revert HS. generalize (sess_init cs).
  induction ops as [|o ops IH]; intros s HS Hok; [exact HS|].
  inversion Hok; subst. cbn [srun]. pose proof (sinv_sstep fence s o HS H1) as H.
  destruct (sstep fence s o) as [s1 out]. cbn [fst] in H. specialize (IH s1 H H2). destruct (srun fence s1 ops). exact IH.
Qed.

(** C11, for every history: every write issued by every consume / reconsumeMetadata is whole entries, batches are
    exact and carry their writer's description, byte counts are what was written *)
Theorem session_framing fence cs ops : Forall sop_ok ops ->
  Forall (fun out => match out with
                     | SoWrites ws r => Forall whole ws /\ cr_bytes r = fold_left (fun a w => (a + lenN w)%N) ws 0%N /\
                                        exists meta data, ws = meta ++ data /\ batches data /\ (length meta <= 2)%nat
                     | _ => True end)
         (snd (srun fence (sess_init cs) ops)).
Proof.
  pose proof (sinv_init cs) as HS. revert HS. generalize (sess_init cs).
  induction ops as [|o ops IH]; intros s HS Hok; [constructor|].
  inversion Hok; subst. cbn [srun]. pose proof (sinv_sstep fence s o HS H1) as H.
  destruct (sstep fence s o) as [s1 out] eqn:Es. cbn [fst] in H. specialize (IH s1 H H2).
  destruct (srun fence s1 ops) as [s2 outs]. cbn [snd] in *. constructor; [|exact IH].
  destruct o; cbn [sstep] in Es; try (inversion Es; subst; exact I);
    try (destruct (add_event s w k payload); inversion Es; subst; exact I);
    try (destruct (log_stmt s w k l); inversion Es; subst; exact I);
    try (destruct (add_source s src); inversion Es; subst; exact I).
  - destruct (consume fence s plans) as [[s' ws] r] eqn:E. inversion Es; subst.
    destruct (consume_framing fence s plans s1 ws r HS E) as (_ & A & B & C). auto.
  - destruct (reconsume s) as [[s' ws] r] eqn:E. inversion Es; subst.
    destruct (reconsume_framing s s1 ws r HS E) as (_ & A & C). split; [exact A|]. split; [exact C|].
    exists ws, []. rewrite app_nil_r. split; [reflexivity|]. split; [constructor|].
    unfold reconsume in E. inversion E; subst. cbn. lia.
Qed.
