(** C02: once the abandoned queue is gone (SessionReplace), no later consume - after any further operations - writes a piece for it.
    Together with SessionPieces (pieces of one consume in uid order) and SessionReplace (drained by the first consume) this bounds
    where the abandoned queue's events can be in the concatenation of all consume outputs: in outputs up to and including the first
    consume after the replacement, and there before the replacement channel's piece. *)
From Coq Require Import List ZArith NArith Bool Lia Sorted.
From BL Require Import Base.Bytes Reader.Entry Queue.QueueModel Queue.QueueInv Session.SessionModel Session.SessionInv Session.SessionProps Session.SessionRemoval Session.SessionReplace Session.SessionPieces.
Import ListNotations.
Local Open Scope N_scope.

Lemma gone_same u s s' : map ch_uid (channels s') = map ch_uid (channels s) -> next_uid s' = next_uid s -> gone u s -> gone u s'.
Proof. intros E1 E2 [A B]. unfold gone. now rewrite E1, E2. Qed.

Lemma gone_add_event_probe u s w k p : gone u s -> gone u (fst (add_event_probe s w k p)).
Proof.
  intros H. unfold add_event_probe. destruct (assoc w (writers s)) as [uid|]; [|exact H]. destruct (find_chan uid (channels s)) as [c|]; [|exact H].
  destruct (pbegin k _ (ch_q c)) as [q1 ok]. cbn [fst]. apply (gone_same u s); [|reflexivity|exact H]. cbn [set_channels channels]. now rewrite map_uid_upd.
Qed.
Lemma gone_run_wacts u acts : forall s d, gone u s -> gone u (fst (run_wacts s d acts)).
Proof.
  induction acts as [|a acts IH]; intros s d H; [exact H|]. cbn [run_wacts].
  destruct (is_blocked (wact_writer a) d); [now apply IH|].
  destruct a as [w k p|w].
  - pose proof (gone_add_event_probe u s w k p H) as H1. destruct (add_event_probe s w k p) as [s1 ok]. cbn [fst] in H1. destruct ok; [|now apply IH].
    pose proof (gone_add_event u s1 w 0 p H1) as H2. destruct (add_event s1 w 0 p) as [s2 f]. cbn [fst] in H2. now apply IH.
  - apply IH. now apply gone_close_writer.
Qed.
Lemma gone_replace u s c c2 : ch_uid c2 = ch_uid c -> gone u s -> gone u (set_channels s (upd_chan (ch_uid c) (fun _ => c2) (channels s))).
Proof.
  intros Hu. apply gone_same; [|reflexivity]. cbn [set_channels channels]. rewrite upd_as_map, map_map. apply map_ext.
  intros c0. cbv beta. destruct (N.eqb_spec (ch_uid c0) (ch_uid c)); congruence.
Qed.

Lemma gone_loop u n : forall s d idx plans s' ws removed d',
  consume_loop true s d idx n plans = (s', ws, removed, d') -> gone u s -> gone u s'.
Proof.
  induction n as [|n IH]; intros s d idx plans s' ws removed d' E H; cbn [consume_loop] in E.
  - inversion E; subst. exact H.
  - pose proof (gone_run_wacts u (pl_before (plan_nth plans idx)) s d H) as H1.
    destruct (run_wacts s d (pl_before (plan_nth plans idx))) as [s1 d1]. cbn [fst] in H1.
    destruct (nth_error (channels s1) idx) as [c0|] eqn:E0; [|inversion E; subst; exact H1].
    pose proof (gone_run_wacts u (pl_between (plan_nth plans idx)) s1 d1 H1) as H2.
    destruct (run_wacts s1 d1 (pl_between (plan_nth plans idx))) as [s2 d2]. cbn [fst] in H2.
    destruct (nth_error (channels s2) idx) as [c|] eqn:E2; [|inversion E; subst; exact H2].
    set (closed := match ch_owner c0 with None => true | Some _ => false end) in *.
    destruct (cread (if closed && true then length (Wpend (ch_q c)) else pl_k (plan_nth plans idx)) (ch_q c)) as [q1 [p1 p2]].
    set (cw := if lenN p1 + lenN p2 =? 0 then (mkChan (ch_uid c) q1 (ch_wid c) (ch_wname c) (ch_batch c) (ch_owner c), [])
               else (mkChan (ch_uid c) (cend q1) (ch_wid c) (ch_wname c) (lenN p1 + lenN p2) (ch_owner c),
                     wp_entry c (lenN p1 + lenN p2) :: p1 :: (match p2 with [] => [] | _ => [p2] end))) in *.
    assert (Hcw : ch_uid (fst cw) = ch_uid c) by (unfold cw; destruct (lenN p1 + lenN p2 =? 0); reflexivity).
    destruct cw as [c' writes]. cbn [fst] in Hcw.
    set (c'' := if closed then mkChan (ch_uid c') (ch_q c') (ch_wid c') (ch_wname c') (ch_batch c') (Some 18446744073709551615) else c') in *.
    assert (Hc'' : ch_uid c'' = ch_uid c) by (unfold c''; destruct closed; exact Hcw).
    pose proof (gone_replace u s2 c c'' Hc'' H2) as H3.
    set (s3 := set_channels s2 (upd_chan (ch_uid c) (fun _ => c'') (channels s2))) in *.
    destruct (consume_loop true s3 d2 (S idx) n plans) as [[[s4 ws4] rem4] d4] eqn:E4.
    inversion E; subst s'. exact (IH _ _ _ _ _ _ _ _ E4 H3).
Qed.

Lemma gone_filter u s f : gone u s -> gone u (set_channels s (filter f (channels s))).
Proof.
  intros [A B]. split; [|exact B]. cbn [set_channels channels]. intros Hin. apply A. apply in_map_iff in Hin. destruct Hin as (c & E & Hc).
  apply filter_In in Hc. apply in_map_iff. exists c. tauto.
Qed.

Lemma gone_consume u s plans : gone u s -> gone u (fst (fst (consume true s plans))).
Proof.
  intros H. unfold consume.
  set (s1 := mkSess (channels s) (cs_buf s) false (src_buf s) (lenN (src_buf s)) _ _ _ _ _ _).
  assert (H1 : gone u s1) by exact H.
  destruct (consume_loop true s1 [] 0 (length (channels s1)) plans) as [[[s2 wsl] removed] deferred] eqn:El.
  pose proof (gone_loop u _ _ _ _ _ _ _ _ _ El H1) as H2. cbn [fst]. apply gone_fold.
  pose proof (gone_filter u s2 (fun c => negb (is_reset c)) H2) as H3. exact H3.
Qed.

(** a gone uid gets no piece *)
Theorem gone_has_no_piece u s plans : gone u s -> ~ In u (map fst (consume_pieces s plans)).
Proof.
  intros H Hin. unfold consume_pieces in Hin.
  set (s1 := mkSess (channels s) (cs_buf s) false (src_buf s) (lenN (src_buf s)) _ _ _ _ _ _) in *.
  assert (H1 : gone u s1) by exact H.
  destruct (consume_loop true s1 [] 0 (length (channels s1)) plans) as [[[s2 wsl] removed] deferred] eqn:El.
  destruct (loop_pieces_spec _ _ _ _ _ _ _ _ _ El) as (_ & _ & C).
  destruct (In_nth_error _ _ Hin) as [j Hj]. apply C in Hj. cbn [plus] in Hj.
  destruct (gone_loop u _ _ _ _ _ _ _ _ _ El H1) as [A _]. apply A. exact (nth_error_In _ _ Hj).
Qed.

(** every operation keeps a gone uid gone *)
Lemma gone_set_assoc_chan u s uid f : (forall c, ch_uid (f c) = ch_uid c) -> gone u s -> gone u (set_channels s (upd_chan uid f (channels s))).
Proof. intros Hf. apply gone_same; [|reflexivity]. cbn [set_channels channels]. now rewrite map_uid_upd. Qed.
Lemma gone_set_writer_id u s w id : gone u s -> gone u (set_writer_id s w id).
Proof. intros H. unfold set_writer_id. destruct (assoc w (writers s)); [|exact H]. now apply gone_set_assoc_chan. Qed.
Lemma gone_set_writer_name u s w nm : gone u s -> gone u (set_writer_name s w nm).
Proof. intros H. unfold set_writer_name. destruct (assoc w (writers s)); [|exact H]. now apply gone_set_assoc_chan. Qed.
Lemma gone_create_channel u s w cap wid wname : gone u s -> gone u (create_channel s w cap wid wname).
Proof.
  intros [A B]. unfold gone, create_channel. cbn [channels next_uid]. rewrite map_app. cbn [map ch_uid]. split; [|lia].
  intros Hin. apply in_app_or in Hin. destruct Hin as [Hin|[Hin|[]]]; [now apply A|lia].
Qed.

Lemma gone_sstep u s o : gone u s -> gone u (fst (sstep true s o)).
Proof.
  intros H. destruct o as [w capacity id name|w id|w name|w k p|w k l|w|src|cs|sev|plans|]; cbn [sstep].
  - cbn [fst]. pose proof (gone_create_channel u s w capacity 0 [] H) as H1.
    assert (H2 : gone u (if id =? 0 then create_channel s w capacity 0 [] else set_writer_id (create_channel s w capacity 0 []) w id))
      by (destruct (id =? 0); [exact H1|now apply gone_set_writer_id]).
    destruct name; [exact H2|now apply gone_set_writer_name].
  - cbn [fst]. now apply gone_set_writer_id.
  - cbn [fst]. now apply gone_set_writer_name.
  - pose proof (gone_add_event u s w k p H) as H1. destruct (add_event s w k p) as [s' f]. exact H1.
  - unfold log_stmt. destruct (min_sev s <=? lg_sev l); [|exact H].
    destruct (assoc (lg_site l) (sites s)) as [sid|].
    + pose proof (gone_add_event u s w k (le_enc 8 sid ++ le_enc 8 (lg_clock l) ++ lg_args l) H) as H1. exact H1.
    + cbn [add_source]. match goal with |- gone u (fst (fst (add_event ?st _ _ ?pp), _)) => pose proof (gone_add_event u st w k pp) as H1 end.
      apply H1. exact H.
  - cbn [fst]. now apply gone_close_writer.
  - cbn [add_source fst]. exact H.
  - cbn [fst]. exact H.
  - cbn [fst]. exact H.
  - pose proof (gone_consume u s plans H) as H1. destruct (consume true s plans) as [[s' ws] r]. exact H1.
  - cbn [reconsume fst]. exact H.
Qed.

Lemma gone_srun u ops : forall s, gone u s -> gone u (fst (srun true s ops)).
Proof.
  induction ops as [|o r IH]; intros s H; [exact H|]. cbn [srun].
  pose proof (gone_sstep u s o H) as H1. destruct (sstep true s o) as [s1 out]. cbn [fst] in H1.
  specialize (IH s1 H1). destruct (srun true s1 r). exact IH.
Qed.

(** the closed channel is [gone] after the consume (the statement of SessionReplace, with the bound on the uid) *)
Lemma closed_channel_gone s plans : WInv s -> SInv s -> Um s -> USorted s ->
  forall c, In c (channels s) -> ch_owner c = None -> gone (ch_uid c) (fst (fst (consume true s plans))).
Proof.
  intros HW HS HU HO c Hin Ho. destruct (In_nth_error _ _ Hin) as [i Hi].
  unfold consume.
  set (s1 := mkSess (channels s) (cs_buf s) false (src_buf s) (lenN (src_buf s)) _ _ _ _ _ _).
  assert (W1 : WInv s1) by (apply (winv_same s); auto).
  assert (S1 : SInv s1).
  { destruct HS as [A (a & b & Eb & Ep) C]. constructor; [exact A| |exact C]. unfold src_ok. cbn [src_buf src_pos s1].
    exists (a ++ b), []. rewrite ReaderLemmas.stream_of_app. split; [now rewrite Eb, app_nil_r|now rewrite Eb]. }
  assert (D1 : Forall Dd (channels s1)) by (apply (um_dd s); exact HU).
  destruct (consume_loop true s1 [] 0 (length (channels s1)) plans) as [[[s2 wsl] removed] deferred] eqn:El.
  assert (Hrange : (0 <= i < 0 + length (channels s1))%nat).
  { split; [lia|]. cbn [plus]. apply nth_error_Some. cbn [channels s1]. congruence. }
  destruct (loop_marks_closed _ _ _ _ _ _ _ _ _ W1 S1 D1 HO El i c Hi (or_introl (conj Ho Hrange))) as (c' & A & B & C).
  pose proof (proj1 (loop_removal _ _ _ _ _ _ _ _ _ W1 S1 D1 HO El)) as W2.
  cbn [fst]. apply gone_fold. split; cbn [channels next_uid set_channels].
  - intros Hx. apply in_map_iff in Hx. destruct Hx as (b & Eb & Hb). apply filter_In in Hb. destruct Hb as [Hb Hr].
    assert (b = c') by (apply (nodup_uid_eq (channels s2)); [exact (W_nodup s2 W2)|exact Hb|exact (nth_error_In _ _ A)|congruence]).
    subst b. rewrite C in Hr. discriminate.
  - pose proof (W_lt s2 W2) as Hlt. rewrite Forall_forall in Hlt. rewrite <- B. exact (Hlt c' (nth_error_In _ _ A)).
Qed.

(** C02: for every history [ops], every channel closed at its end (abandoned queue, destroyed writer), every schedule inside the next
    consume, every further history [ops2] and every later consume: that consume writes no piece for the channel. *)
Theorem abandoned_queue_never_written_again cs ops plans ops2 plans2 : Forall sop_rm ops ->
  let s := fst (srun true (sess_init cs) ops) in
  forall c, In c (channels s) -> ch_owner c = None ->
  ~ In (ch_uid c) (map fst (consume_pieces (fst (srun true (fst (fst (consume true s plans))) ops2)) plans2)).
Proof.
  intros Hops s c Hin Ho. destruct (removal_invariants_reachable cs ops Hops) as (HW & HS & HU & HO).
  apply gone_has_no_piece. apply gone_srun. now apply closed_channel_gone.
Qed.

Example never_again_nonvacuous :
  let s := fst (srun true (sess_init default_cs) rm_ops) in
  let s' := fst (fst (consume true s [])) in
  let s'' := fst (srun true s' [SAddEvent 2 0 (le_enc 8 1 ++ le_enc 8 9)]) in
  map fst (consume_pieces s [] ) = [0; 1; 2] /\ map fst (consume_pieces s'' []) = [2] /\ map (fun p => length (snd p)) (consume_pieces s'' []) = [2%nat].
Proof. vm_compute. repeat split. Qed.

(** * the replacement step itself *)
Lemma find_chan_in uid cs c : find_chan uid cs = Some c -> In c cs /\ ch_uid c = uid.
Proof.
  induction cs as [|a r IH]; cbn [find_chan]; [discriminate|]. destruct (N.eqb_spec (ch_uid a) uid) as [E|E].
  - intros H. inversion H; subst. split; [now left|reflexivity].
  - intros H. destruct (IH H). split; [now right|assumption].
Qed.

(** the slow path of addEvent: the writer's old channel is closed in the resulting state, its uid is below the replacement's, and the
    writer continues on the replacement *)
Theorem replacement_closes_the_old_channel s0 w k p uid c0 : WInv s0 -> snd (add_event s0 w k p) = false ->
  assoc w (writers s0) = Some uid -> find_chan uid (channels s0) = Some c0 ->
  let s := fst (add_event s0 w k p) in
  (exists c, In c (channels s) /\ ch_uid c = uid /\ ch_owner c = None) /\ uid < next_uid s0 /\
  (exists cnew, In cnew (channels s) /\ ch_uid cnew = next_uid s0 /\ ch_owner cnew = Some w) /\ assoc w (writers s) = Some (next_uid s0).
Proof.
  intros HW Hslow Ha Hf. destruct (find_chan_in _ _ _ Hf) as [Hin Hu].
  assert (Hlt : uid < next_uid s0) by (pose proof (W_lt s0 HW) as H; rewrite Forall_forall in H; rewrite <- Hu; now apply H).
  unfold add_event in *. rewrite Ha, Hf in *. destruct (pbegin k _ (ch_q c0)) as [q1 ok]. destruct ok; [discriminate|]. cbn [fst channels writers].
  split; [|split; [exact Hlt|split]].
  - eexists. split.
    + apply in_or_app. left. unfold close_chan, upd_chan. apply in_map. apply in_map. exact Hin.
    + rewrite Hu, N.eqb_refl. cbn [ch_uid]. rewrite N.eqb_refl. cbn [ch_uid ch_owner]. split; reflexivity.
  - eexists. split; [apply in_or_app; right; left; reflexivity|]. split; reflexivity.
  - rewrite assoc_set_assoc. now rewrite N.eqb_refl.
Qed.
