(** C03 for every history and every schedule inside consume: whatever a consume writes after its metadata part is writer descriptions and
    runs of whole events whose source ids were handed out before the consume started - and the sources with exactly those ids are in the
    sources buffer, which the same consume has by then written completely to the output (SessionProps.rotation_metadata_complete). *)
From Coq Require Import List ZArith NArith Bool Lia.
From BL Require Import Base.Bytes Reader.Entry Reader.ReaderLemmas Queue.QueueModel Queue.QueueInv Session.SessionModel Session.SessionInv Session.SessionProps
  Recovery.SessionCover.
Import ListNotations.
Local Open Scope N_scope.

Definition events_of (B : N) (w : bytes) : Prop := exists es, w = concat es /\ Forall (ev_ok B) es.
Definition piece_ok (B : N) (w : bytes) : Prop := (exists c size, w = wp_entry c size) \/ events_of B w.

Lemma cread_pieces B k q q' p1 p2 : q_cov B q -> cread k q = (q', (p1, p2)) -> events_of B p1 /\ events_of B p2.
Proof.
  intros (HI & _ & rcs & H1 & H2 & H3) E.
  destruct (cread_batch k q q' p1 p2 HI E) as (HI' & Hst & Hrn & Hcu & Hin & Hle & _ & m & Hm & Hmc & HT & H0 & Hp1 & Hp2).
  assert (Hrnc : In (sT (r_new q)) (cuts q)).
  { pose proof (rec_ok_of q (r_new q) HI (chain_in_R q _ (r_new_in q))) as (_ & _ & _ & Hc & _). exact Hc. }
  assert (Hwc : In (sT (Wcur q')) (cuts q)).
  { assert (Hcin : In (Wcur q') (chain q)) by (unfold chain; apply in_or_app; now right).
    pose proof (rec_ok_of q _ HI Hcin) as (_ & _ & _ & Hc & _). exact Hc. }
  rewrite H2 in *. rewrite H1 in *.
  destruct (slice_bounds (ev_ok B) rcs H3 _ _ Hrnc Hmc ltac:(lia)) as (m1 & E1 & F1).
  destruct (slice_bounds (ev_ok B) rcs H3 _ _ Hmc Hwc ltac:(lia)) as (m2 & E2 & F2).
  subst p1 p2. split; [exists m1|exists m2]; auto.
Qed.

Lemma consume_loop_out n : forall s d0 idx plans s' ws removed d,
  CInv s -> Forall (plan_cov (next_sid s)) plans -> Forall (wact_cov (next_sid s)) d0 ->
  consume_loop true s d0 idx n plans = (s', ws, removed, d) -> Forall (piece_ok (next_sid s)) ws.
Proof.
  induction n as [|n IH]; intros s d0 idx plans s' ws removed d HS Hp Hd E; cbn [consume_loop] in E.
  - inversion E; subst. constructor.
  - destruct (plan_nth_cov _ plans idx Hp) as [Pb Pw].
    pose proof (run_wacts_cov (pl_before (plan_nth plans idx)) s d0 HS Pb Hd) as (H1 & N1 & D1).
    destruct (run_wacts s d0 (pl_before (plan_nth plans idx))) as [s1 d1]. cbn [fst snd] in H1, N1, D1.
    destruct (nth_error (channels s1) idx) as [c0|] eqn:E0; [|inversion E; subst; constructor].
    rewrite <- N1 in Pw, D1.
    pose proof (run_wacts_cov (pl_between (plan_nth plans idx)) s1 d1 H1 Pw D1) as (H2 & N2 & D2).
    destruct (run_wacts s1 d1 (pl_between (plan_nth plans idx))) as [s2 d2]. cbn [fst snd] in H2, N2, D2.
    assert (N12 : next_sid s2 = next_sid s) by congruence.
    destruct (nth_error (channels s2) idx) as [c|] eqn:E2; [|inversion E; subst; constructor].
    assert (Hc : q_cov (next_sid s2) (ch_q c)).
    { pose proof (CI_chans s2 H2) as H. rewrite Forall_forall in H. apply (H c). eapply nth_error_In; eauto. }
    match type of E with context [cread ?kk (ch_q c)] => set (k := kk) in E end.
    pose proof (q_cov_cread (next_sid s2) k (ch_q c) Hc) as Hq1.
    destruct (cread k (ch_q c)) as [q1 [p1 p2]] eqn:Er. cbn [fst] in Hq1.
    destruct (cread_pieces _ _ _ _ _ _ Hc Er) as [P1 P2]. rewrite N12 in P1, P2.
    set (size := (lenN p1 + lenN p2)%N) in E.
    destruct (size =? 0); cbv zeta iota beta in E;
      (match type of E with context [consume_loop true ?st d2 (S idx) n plans] => set (s3 := st) in E end);
      (assert (H3 : CInv s3) by (unfold s3; apply cinv_set_channels; [exact H2|]; apply cov_upd_chan; [exact (CI_chans s2 H2)|];
         intros _ _; destruct (match ch_owner c0 with None => true | _ => false end); cbn [ch_q]; auto using q_cov_cend));
      (assert (N3 : next_sid s3 = next_sid s) by (unfold s3; cbn; exact N12));
      destruct (consume_loop true s3 d2 (S idx) n plans) as [[[s4 ws4] rem4] d4] eqn:E4;
      (assert (Hp3 : Forall (plan_cov (next_sid s3)) plans) by (rewrite N3; exact Hp));
      (assert (Hd3 : Forall (wact_cov (next_sid s3)) d2) by (rewrite N3, <- N1; exact D2));
      pose proof (IH _ _ _ _ _ _ _ _ H3 Hp3 Hd3 E4) as Hws; rewrite N3 in Hws; inversion E; subst s' ws removed d.
    + exact Hws.
    + cbn [app]. constructor; [left; eauto|]. constructor; [right; exact P1|].
      destruct p2; [exact Hws|constructor; [right; exact P2|exact Hws]].
Qed.

(** one consume: metadata first (the clock syncs if flagged, then every source not yet written), then writer descriptions and events whose
    ids are all below [next_sid s] - i.e. among the sources the buffer holds, all of which the output has received by then *)
Theorem consume_out_covered s plans s' ws r : CInv s -> Forall (plan_cov (next_sid s)) plans -> consume true s plans = (s', ws, r) ->
  exists data, ws = (if consume_cs s then [cs_buf s] else []) ++ [drop_pos s] ++ data /\ Forall (piece_ok (next_sid s)) data /\
    exists srcs, src_buf s = stream_of (map (fun p => src_payload (fst p) (snd p)) srcs) /\ map fst srcs = map N.of_nat (seq 1 (N.to_nat (next_sid s) - 1)).
Proof.
  intros HS Hp E. unfold consume in E.
  set (s1 := mkSess (channels s) (cs_buf s) false (src_buf s) (lenN (src_buf s)) _ _ _ _ _ _) in E.
  assert (HS1 : CInv s1) by (destruct HS as [H1 H2 H3 H4 H5]; unfold s1; constructor; cbn [channels sites next_sid src_buf cs_buf]; auto).
  destruct (consume_loop true s1 [] 0 (length (channels s1)) plans) as [[[s2 wsl] removed] deferred] eqn:El.
  pose proof (consume_loop_out _ _ _ _ _ _ _ _ _ HS1 Hp ltac:(constructor) El) as Hws.
  inversion E; subst s' ws r. exists wsl. split; [reflexivity|]. split; [exact Hws|].
  destruct (CI_src s HS) as (srcs & A & B & _). exists srcs. auto.
Qed.

(** the states, operations and outputs of a history *)
Fixpoint strace (s : sess) (ops : list sop) : list (sess * sop * sout) :=
  match ops with [] => [] | o :: r => let (s1, out) := sstep true s o in (s, o, out) :: strace s1 r end.

(** every history: each output of each consume has that shape *)
Theorem outputs_covered c ops : small (cs_payload c) -> run_cov true (sess_init c) ops ->
  Forall (fun so => match so with
                    | (s, SConsume plans, SoWrites ws _) =>
                        exists data, ws = (if consume_cs s then [cs_buf s] else []) ++ [drop_pos s] ++ data /\ Forall (piece_ok (next_sid s)) data
                    | _ => True end)
         (strace (sess_init c) ops).
Proof.
  intros Hc. pose proof (cinv_init c Hc) as HS. revert HS. generalize (sess_init c).
  induction ops as [|o ops IH]; intros s HS Hok; [constructor|]. destruct Hok as [H1 H2]. cbn [strace].
  pose proof (cinv_sstep true s o HS H1) as H. destruct (sstep true s o) as [s1 out] eqn:Es. cbn [fst] in H, H2.
  constructor; [|apply IH; assumption].
  destruct o; try exact I. destruct out; try exact I. cbn [sstep] in Es. destruct (consume true s plans) as [[s' ws0] r0] eqn:Ec.
  inversion Es; subst. destruct (consume_out_covered s plans s1 ws r HS H1 Ec) as (data & A & B & _). exists data. auto.
Qed.

(** C13 with the ids: whatever output is current (tracked by [otrack]: it restarts at reconsumeMetadata), once a consume has written its
    metadata part that output holds the whole sources buffer - one source for every id below [next_sid] - and every event the consume
    then writes carries such an id: the current output reads on its own *)
Theorem current_output_self_contained s plans t : SInv s -> CInv s -> track_ok t s -> Forall (plan_cov (next_sid s)) plans ->
  let '(s', ws, r) := consume true s plans in
  exists data srcs, ws = (if consume_cs s then [cs_buf s] else []) ++ [drop_pos s] ++ data /\
    ot_src t ++ drop_pos s = stream_of (map (fun p => src_payload (fst p) (snd p)) srcs) /\
    map fst srcs = map N.of_nat (seq 1 (N.to_nat (next_sid s) - 1)) /\
    Forall (piece_ok (next_sid s)) data.
Proof.
  intros HS HC [T1 T2] Hp. destruct (consume true s plans) as [[s' ws] r] eqn:E.
  destruct (consume_out_covered s plans s' ws r HC Hp E) as (data & A & B & srcs & C & D).
  exists data, srcs. split; [exact A|]. split; [|split; [exact D|exact B]].
  rewrite T1. destruct (take_drop_pos s HS) as [TD _]. rewrite TD. exact C.
Qed.
