(** C20: for every image, what brecovery writes is a sequence of complete entries; a queue whose indices exceed its
    capacity contributes nothing. *)
From Coq Require Import List NArith Bool Lia Permutation.
From BL Require Import Base.Bytes Recovery.Recover.
Import ListNotations.
Local Open Scope N_scope.

Inductive WE : bytes -> Prop :=
| WE_nil : WE []
| WE_cons h p rest : length h = 4%nat -> le_dec h = lenN p -> WE rest -> WE (h ++ p ++ rest).

Lemma WE_app a b : WE a -> WE b -> WE (a ++ b).
Proof. induction 1 as [|h p rest Hh Hp Hr IH]; intros Hb; [exact Hb|]. rewrite <- !app_assoc. constructor; auto. Qed.

Lemma whole_entries_aux_WE : forall fuel l, whole_entries_aux fuel l = true -> WE l.
Proof.
  induction fuel as [|f IH]; intros l H; [discriminate|]. cbn [whole_entries_aux] in H.
  destruct l as [|b l']; [constructor|]. set (l := b :: l') in *.
  unfold rd in H. destruct (take_n 4 l) as [[h r]|] eqn:Eh; [|discriminate].
  apply take_n_app in Eh. destruct Eh as [El Hh].
  destruct (takeN (le_dec h) r) as [[p rest]|] eqn:Ep; [|discriminate].
  apply takeN_app in Ep. destruct Ep as [-> Hp]. rewrite El. constructor; auto.
Qed.

Lemma WE_whole_entries_aux : forall l, WE l -> forall fuel, (length l < fuel)%nat -> whole_entries_aux fuel l = true.
Proof.
  induction 1 as [|h p rest Hh Hp Hr IH]; intros fuel Hf.
  - destruct fuel; [lia|reflexivity].
  - destruct fuel as [|f]; [lia|].
    assert (Hstep : forall l, l <> [] -> whole_entries_aux (S f) l =
              match rd 4 l with None => false | Some (n, r) => match takeN n r with Some (_, rest) => whole_entries_aux f rest | None => false end end)
      by (intros l Hl; destruct l; [contradiction|reflexivity]).
    rewrite Hstep by (destruct h; [discriminate|discriminate]).
    unfold rd. pose proof (take_n_exact h (p ++ rest)) as T. rewrite Hh in T. rewrite T, Hp, takeN_exact.
    apply IH. rewrite !app_length in Hf. lia.
Qed.

Theorem whole_entries_iff l : whole_entries l = true <-> WE l.
Proof. unfold whole_entries. split; [apply whole_entries_aux_WE | intros H; apply WE_whole_entries_aux; [exact H|lia]]. Qed.

Definition good (rb : rbuf) : Prop := WE (rb_data rb).

Lemma read_meta_good l rb rest : read_meta l = Some (rb, rest) -> good rb /\ (length rest <= length l)%nat.
Proof.
  unfold read_meta, rd. intros H.
  destruct (take_n 8 l) as [[h1 l1]|] eqn:E1; [|discriminate]. apply take_n_app in E1. destruct E1 as [-> _].
  destruct (take_n 8 l1) as [[h2 l2]|] eqn:E2; [|discriminate]. apply take_n_app in E2. destruct E2 as [-> _].
  destruct (takeN (le_dec h2) l2) as [[data r]|] eqn:E3; [|discriminate]. apply takeN_app in E3. destruct E3 as [-> _].
  destruct (whole_entries data) eqn:Ew; [|discriminate]. inversion H; subst. split.
  - apply whole_entries_iff. exact Ew.
  - rewrite !app_length. lia.
Qed.

Lemma read_data_good l rb rest : read_data l = Some (rb, rest) -> good rb /\ (length rest <= length l)%nat.
Proof.
  unfold read_data, rd. intros H.
  repeat match type of H with
  | match (match take_n 8 ?x with _ => _ end) with _ => _ end = _ =>
      let E := fresh "E" in destruct (take_n 8 x) as [[? ?]|] eqn:E; [apply take_n_app in E; destruct E as [-> _]|discriminate]
  end.
  destruct (_ || _); [discriminate|].
  match type of H with context [takeN ?c ?x] => destruct (takeN c x) as [[qbuf r]|] eqn:E3; [|discriminate] end.
  apply takeN_app in E3. destruct E3 as [-> _].
  match type of H with context [whole_entries ?d] => destruct (whole_entries d) eqn:Ew; [|discriminate] end.
  inversion H; subst. split.
  - apply whole_entries_iff. exact Ew.
  - rewrite !app_length. lia.
Qed.

Lemma scan_image_good : forall fuel l, Forall good (scan_image fuel l).
Proof.
  induction fuel as [|f IH]; intros l; [constructor|]. cbn [scan_image].
  destruct l as [|b r]; [constructor|].
  destruct (b =? first_magic_byte); [|apply IH].
  destruct (take_n 7 r) as [[m7 after]|]; [|constructor].
  destruct (beq_bytes m7 (tl magic_meta)).
  - destruct (read_meta after) as [[rb rest]|] eqn:E; [|apply IH].
    constructor; [apply (read_meta_good _ _ _ E)|apply IH].
  - destruct (beq_bytes m7 (tl magic_data)); [|apply IH].
    destruct (read_data after) as [[rb rest]|] eqn:E; [|apply IH].
    constructor; [apply (read_data_good _ _ _ E)|apply IH].
Qed.

Lemma rb_insert_perm x l : Permutation (x :: l) (rb_insert x l).
Proof.
  induction l as [|y r IH]; cbn [rb_insert]; [reflexivity|].
  destruct (rb_lt x y); [reflexivity|]. rewrite perm_swap. now constructor.
Qed.
Lemma rb_sort_perm l : Permutation l (rb_sort l).
Proof.
  unfold rb_sort. assert (G : forall l acc, Permutation (acc ++ l) (fold_left (fun a x => rb_insert x a) l acc)).
  { induction l0 as [|x r IH]; intros acc; cbn [fold_left]; [rewrite app_nil_r; reflexivity|].
    rewrite <- IH. rewrite <- (rb_insert_perm x acc). cbn [app]. symmetry. apply Permutation_middle. }
  apply (G l []).
Qed.

Lemma concat_good l : Forall good l -> WE (concat (map rb_data l)).
Proof. induction 1 as [|x r Hx Hr IH]; cbn [map concat]; [constructor|apply WE_app; assumption]. Qed.

(** whatever the image: the output is a sequence of complete entries *)
Theorem recover_whole_entries image : whole_entries (recover image) = true.
Proof.
  apply whole_entries_iff. unfold recover. apply concat_good.
  eapply Permutation_Forall; [apply rb_sort_perm|apply scan_image_good].
Qed.

(** a queue whose write index, data end or read index exceeds its capacity yields nothing *)
Theorem inconsistent_queue_rejected session w e capacity bufptr r rest :
  session < 2 ^ 64 -> w < 2 ^ 64 -> e < 2 ^ 64 -> capacity < 2 ^ 64 -> bufptr < 2 ^ 64 -> r < 2 ^ 64 ->
  capacity < w \/ capacity < e \/ capacity < r ->
  read_data (le_enc 8 session ++ le_enc 8 w ++ le_enc 8 e ++ le_enc 8 capacity ++ le_enc 8 bufptr ++ le_enc 8 r ++ rest) = None.
Proof.
  intros H1 H2 H3 H4 H5 H6 Hbad. unfold read_data.
  rewrite !rd_enc by (cbn; lia).
  replace ((capacity <? w) || (capacity <? e) || (capacity <? r)) with true; [reflexivity|].
  symmetry. rewrite !orb_true_iff, !N.ltb_lt. tauto.
Qed.

(** a metadata block whose size field exceeds what is left of the image yields nothing *)
Theorem oversized_metadata_rejected session size rest :
  session < 2 ^ 64 -> size < 2 ^ 64 -> lenN rest < size -> read_meta (le_enc 8 session ++ le_enc 8 size ++ rest) = None.
Proof.
  intros H1 H2 H3. unfold read_meta. rewrite !rd_enc by (cbn; lia).
  apply takeN_none in H3. rewrite H3. reflexivity.
Qed.
