(** RecoverableVectorOutputStream (detail/VectorOutputStream.hpp): the memory states one write() goes through, including the
    growth protocol (copy into a new buffer whose magic is clear, publish the new buffer, retire the old one, swap), the
    append behind the valid bytes and the final size update.  In every one of them the recovery tool finds a block holding
    exactly the entries whose write had completed. *)
From Coq Require Import List NArith Bool Lia.
From BL Require Import Base.Bytes Recovery.Recover Recovery.RecoverProofs.
Import ListNotations.
Local Open Scope N_scope.

Record blk := mkB { b_magic : bool; b_size : N; b_bytes : bytes }.   (* bytes behind the header, incl. what lies behind the valid size *)
Record vos := mkV { v_cur : blk; v_other : option blk }.

Definition good (data : bytes) (b : blk) : Prop := b_magic b = true /\ b_size b = lenN data /\ exists tail, b_bytes b = data ++ tail.
Definition recoverable (data : bytes) (v : vos) : Prop := good data (v_cur v) \/ exists b, v_other v = Some b /\ good data b.

(** all memory states of write(e) on a stream currently holding [data]; [grow] = the vector has to reallocate.
    [junk] is what the freshly allocated / not yet written memory holds, [k] how far a copy or append has got. *)
Inductive wstate (data e : bytes) : bool -> vos -> Prop :=
| W_start grow tail : wstate data e grow (mkV (mkB true (lenN data) (data ++ tail)) None)
| W_copy tail junk (k : nat) sz :            (* growing: new buffer, magic clear, partially copied *)
    wstate data e true (mkV (mkB true (lenN data) (data ++ tail)) (Some (mkB false sz (firstn k data ++ junk))))
| W_published tail junk :                    (* the copy is complete and carries the magic: two valid copies *)
    wstate data e true (mkV (mkB true (lenN data) (data ++ tail)) (Some (mkB true (lenN data) (data ++ junk))))
| W_retired tail junk :                      (* the old buffer's magic is cleared *)
    wstate data e true (mkV (mkB false (lenN data) (data ++ tail)) (Some (mkB true (lenN data) (data ++ junk))))
| W_swapped grow junk :                      (* the new buffer is current, the old one freed *)
    wstate data e grow (mkV (mkB true (lenN data) (data ++ junk)) None)
| W_append grow junk (k : nat) :             (* the entry is being appended behind the valid bytes; size not yet updated *)
    wstate data e grow (mkV (mkB true (lenN data) (data ++ firstn k e ++ junk)) None).

Theorem every_write_state_recoverable data e grow v : wstate data e grow v -> recoverable data v.
Proof.
  intros H. destruct H; unfold recoverable, good; cbn [v_cur v_other b_magic b_size b_bytes].
  - left. eauto.
  - left. eauto.
  - left. eauto.
  - right. eexists. split; [reflexivity|]. cbn [b_magic b_size b_bytes]. eauto.
  - left. eauto.
  - left. eauto.
Qed.

(** after updateSize the stream holds data ++ e *)
Definition after_write (data e junk : bytes) : vos := mkV (mkB true (lenN (data ++ e)) (data ++ e ++ junk)) None.
Lemma after_write_recoverable data e junk : recoverable (data ++ e) (after_write data e junk).
Proof. left. unfold good, after_write. cbn. split; [reflexivity|]. split; [reflexivity|]. exists junk. now rewrite app_assoc. Qed.

(** what the tool reads from such a block (after its magic): the valid bytes, if they are whole entries *)
Definition block_image (id : N) (b : blk) : bytes := le_enc 8 id ++ le_enc 8 (b_size b) ++ b_bytes b.

Theorem good_block_recovered data b id rest : good data b -> id < 2 ^ 64 -> lenN data < 2 ^ 64 -> whole_entries data = true ->
  exists rest', read_meta (block_image id b ++ rest) = Some (RB false id data, rest').
Proof.
  intros (Hm & Hs & tail & Hb) Hid Hl Hw. unfold read_meta, block_image. rewrite <- !app_assoc.
  rewrite !rd_enc by (cbn; lia). rewrite Hs, Hb, <- app_assoc, takeN_exact, Hw. eauto.
Qed.

(** a block whose magic is clear is not looked at: the scanner only stops at the magic bytes (see [scan_image]) *)
