(** bin/brecovery.cpp as a function from the bytes of a memory image to the bytes it writes.
    Definitions only. *)
From Coq Require Import List NArith Bool.
From BL Require Import Base.Bytes.
Import ListNotations.
Local Open Scope N_scope.

Definition magic_meta : bytes := le_enc 8 18312004912759029180.   (* 0xFE214F726E35BDBC *)
Definition magic_data : bytes := le_enc 8 18311987316261174460.   (* 0xFE213F716D34BCBC *)
Definition first_magic_byte : N := 188.

Fixpoint beq_bytes (a b : bytes) : bool :=
  match a, b with
  | [], [] => true
  | x :: a', y :: b' => (x =? y) && beq_bytes a' b'
  | _, _ => false
  end.

(** checkEntryBuffer: the buffer is a sequence of size-prefixed entries, each complete *)
Fixpoint whole_entries_aux (fuel : nat) (l : bytes) : bool :=
  match fuel with
  | O => false
  | S f =>
    match l with
    | [] => true
    | _ => match rd 4 l with
           | None => false
           | Some (n, r) => match takeN n r with
                            | Some (_, rest) => whole_entries_aux f rest
                            | None => false
                            end
           end
    end
  end.
Definition whole_entries (l : bytes) : bool := whole_entries_aux (S (length l)) l.

Inductive rbuf := RB (is_data : bool) (session : N) (data : bytes).
Definition rb_data (r : rbuf) : bytes := match r with RB _ _ d => d end.
Definition rb_session (r : rbuf) : N := match r with RB _ s _ => s end.
Definition rb_is_data (r : rbuf) : bool := match r with RB t _ _ => t end.

(** readMetadata on the input after the magic: the recovered buffer and the input after the block *)
Definition read_meta (l : bytes) : option (rbuf * bytes) :=
  match rd 8 l with
  | None => None
  | Some (session, l1) =>
    match rd 8 l1 with
    | None => None
    | Some (size, l2) =>
      match takeN size l2 with
      | None => None                                    (* "Input doesn't have {} bytes" *)
      | Some (data, rest) => if whole_entries data then Some (RB false session data, rest) else None
      end
    end
  end.

Definition slice (l : bytes) (lo hi : N) : bytes := firstn (N.to_nat (hi - lo)) (skipn (N.to_nat lo) l).

(** QueueReader::beginRead on the recovered queue: the readable bytes *)
Definition unread (w e r : N) (qbuf : bytes) : bytes :=
  if r <=? w then slice qbuf r w
  else if r <? e then slice qbuf r e ++ slice qbuf 0 w
  else slice qbuf 0 w.

(** readData: session pointer, Queue{writeIndex, dataEnd, capacity, buffer, readIndex}, then capacity bytes *)
Definition read_data (l : bytes) : option (rbuf * bytes) :=
  match rd 8 l with
  | None => None
  | Some (session, l1) =>
    match rd 8 l1 with None => None | Some (w, l2) =>
    match rd 8 l2 with None => None | Some (e, l3) =>
    match rd 8 l3 with None => None | Some (capacity, l4) =>
    match rd 8 l4 with None => None | Some (_, l5) =>
    match rd 8 l5 with None => None | Some (r, l6) =>
      if (capacity <? w) || (capacity <? e) || (capacity <? r) then None        (* checkQueueInvariants *)
      else match takeN capacity l6 with
           | None => None
           | Some (qbuf, rest) =>
             let data := unread w e r qbuf in
             if whole_entries data then Some (RB true session data, rest) else None
           end
    end end end end end
  end.

(** the scanning loop of main *)
Fixpoint scan_image (fuel : nat) (l : bytes) : list rbuf :=
  match fuel with
  | O => []
  | S f =>
    match l with
    | [] => []
    | b :: r =>
      if b =? first_magic_byte then
        match take_n 7 r with
        | None => []                                    (* fewer than 7 bytes left: the stream fails, the loop ends *)
        | Some (m7, after) =>
          if beq_bytes m7 (tl magic_meta) then
            match read_meta after with
            | Some (rb, rest) => rb :: scan_image f rest
            | None => scan_image f after                (* continue searching right after the magic *)
            end
          else if beq_bytes m7 (tl magic_data) then
            match read_data after with
            | Some (rb, rest) => rb :: scan_image f rest
            | None => scan_image f after
            end
          else scan_image f r                           (* not a magic number: seek back 7 *)
        end
      else scan_image f r
    end
  end.

(** std::sort by (session, type) with Metadata < Data; modelled as a stable insertion sort
    (the order of equal keys is unspecified in the code: the harness keeps images below libstdc++'s insertion-sort threshold) *)
Definition rb_lt (a b : rbuf) : bool :=
  if rb_session a =? rb_session b then negb (rb_is_data a) && rb_is_data b else rb_session a <? rb_session b.
Fixpoint rb_insert (x : rbuf) (l : list rbuf) : list rbuf :=
  match l with
  | [] => [x]
  | y :: r => if rb_lt x y then x :: y :: r else y :: rb_insert x r
  end.
Definition rb_sort (l : list rbuf) : list rbuf := fold_left (fun acc x => rb_insert x acc) l [].

Definition recover (image : bytes) : bytes := concat (map rb_data (rb_sort (scan_image (S (length image)) image))).
