(** C08 at the level of the session: in EVERY reachable state of the session model (any history of writers created and destroyed,
    log statements, sources, clock syncs, queue replacements, consumes with lock-free writer actions inside them) the metadata
    the session keeps in memory covers what sits in its queues: every committed-but-unreleased entry of every channel is an event
    whose source id was handed out by this session, and the entry describing that source is in the sources buffer; the clock-sync
    buffer holds at least one clock sync. With the block theorems of [SessionImage] the recovery tool therefore writes, for the
    memory of such a state, clock syncs and sources first and then the unreleased events of every channel: a log in which every
    event is readable. *)
From Coq Require Import List ZArith NArith Bool Lia.
From BL Require Import Base.Bytes Reader.Entry Reader.ReaderLemmas Queue.QueueModel Queue.QueueInv Session.SessionModel Session.SessionInv
  Recovery.Recover Recovery.RecoverProofs Recovery.ImageProofs Recovery.SessionImage.
Import ListNotations.
Local Open Scope N_scope.

Definition small (p : bytes) : Prop := lenN p < 2 ^ 32.

(** an event payload whose source id was handed out before [B] *)
Definition payload_ok (B : N) (p : bytes) : Prop := exists id rest, p = le_enc 8 id ++ rest /\ 1 <= id < B /\ small p.
Definition ev_ok (B : N) (c : bytes) : Prop := exists p, c = frame p /\ payload_ok B p.

Lemma payload_ok_mono B B' p : B <= B' -> payload_ok B p -> payload_ok B' p.
Proof. intros H (id & rest & E & Hid & Hs). exists id, rest. repeat split; auto; lia. Qed.
Lemma ev_ok_mono B B' c : B <= B' -> ev_ok B c -> ev_ok B' c.
Proof. intros H (p & E & Hp). exists p. split; [exact E|eapply payload_ok_mono; eauto]. Qed.

(** * the queue: the invariant of C01, dataEnd within the capacity, and everything ever committed is a sequence of covered events *)
Definition q_cov (B : N) (q : qstate) : Prop :=
  Inv q /\ dataEnd_ok q /\ exists rcs, strm q = concat (rev rcs) /\ cuts q = bounds_rev rcs /\ Forall (ev_ok B) rcs.

Lemma q_cov_mono B B' q : B <= B' -> q_cov B q -> q_cov B' q.
Proof.
  intros H (HI & HD & rcs & H1 & H2 & H3). split; [exact HI|]. split; [exact HD|]. exists rcs. repeat split; auto.
  eapply Forall_impl; [|exact H3]. intros c. now apply ev_ok_mono.
Qed.
Lemma q_cov_init B c : (0 <= c)%Z -> q_cov B (init c).
Proof. intros Hc. split; [now apply inv_init|]. split; [unfold dataEnd_ok; cbn; lia|]. exists []. repeat split; constructor. Qed.
Lemma q_cov_pbegin B k n q : q_cov B q -> q_cov B (fst (pbegin k n q)).
Proof.
  intros (HI & HD & rcs & H1 & H2 & H3). split; [now apply inv_pbegin|]. split.
  - pose proof (dataEnd_ok_step q (OpBegin k n) HI HD) as H. cbn [qstep] in H. destruct (pbegin k n q). exact H.
  - destruct (strm_pbegin k n q) as [E1 E2]. exists rcs. rewrite E1, E2. auto.
Qed.
Lemma q_cov_pcommit B p q : q_cov B q -> payload_ok B p -> (Z.of_nat (length (frame p)) <= wend q - wpos q)%Z -> q_cov B (pcommit (frame p) q).
Proof.
  intros (HI & HD & rcs & H1 & H2 & H3) Hp Hfit. split; [now apply inv_pcommit|]. split; [exact HD|].
  exists (frame p :: rcs). unfold pcommit. cbn [strm cuts]. repeat split.
  - cbn [rev]. rewrite concat_app. cbn. now rewrite app_nil_r, H1.
  - cbn [bounds_rev]. unfold lenS, tot. now rewrite H1, H2.
  - constructor; [now exists p|exact H3].
Qed.
Lemma q_cov_cend B q : q_cov B q -> q_cov B (cend q).
Proof. intros (HI & HD & rcs & H). split; [now apply inv_cend|]. split; [exact HD|]. exists rcs. exact H. Qed.
Lemma strm_cread k q : strm (fst (cread k q)) = strm q /\ cuts (fst (cread k q)) = cuts q.
Proof.
  unfold cread. destruct (acquire k (Wcur q) (Wpend q)) as [wc wp']. unfold cread0. cbn [setW Wcur].
  repeat match goal with |- context [if ?c then _ else _] => destruct c end; split; reflexivity.
Qed.
Lemma q_cov_cread B k q : q_cov B q -> q_cov B (fst (cread k q)).
Proof.
  intros (HI & HD & rcs & H1 & H2 & H3).
  pose proof (inv_qstep q (OpRead k) HI) as HI'. pose proof (dataEnd_ok_step q (OpRead k) HI HD) as HD'. cbn [qstep] in HI', HD'.
  destruct (strm_cread k q) as [E1 E2]. destruct (cread k q) as [q' b]. cbn [fst] in *.
  split; [exact HI'|]. split; [exact HD'|]. exists rcs. rewrite E1, E2. auto.
Qed.

(** * the session *)
Definition src_payload (id : N) (x : source) : bytes :=
  le_enc 8 tag_source ++ enc_source (mkSource id (s_sev x) (s_category x) (s_function x) (s_file x) (s_line x) (s_format x) (s_argtags x)).
Definition src_small (x : source) : Prop := forall id, small (src_payload id x).
Definition cs_payload (c : clocksync) : bytes := le_enc 8 tag_cs ++ enc_cs c.

Record CInv (s : sess) : Prop := mkCInv {
  CI_chans : Forall (fun c => q_cov (next_sid s) (ch_q c)) (channels s);
  CI_sites : Forall (fun p => 1 <= snd p < next_sid s) (sites s);
  CI_sid : 1 <= next_sid s;
  (* the sources buffer: one entry per id handed out, each a complete entry of representable size *)
  CI_src : exists srcs, src_buf s = stream_of (map (fun p => src_payload (fst p) (snd p)) srcs)
                        /\ map fst srcs = map N.of_nat (seq 1 (N.to_nat (next_sid s) - 1))
                        /\ Forall (fun p => small (src_payload (fst p) (snd p))) srcs;
  CI_cs : exists css, css <> [] /\ cs_buf s = stream_of (map cs_payload css) /\ Forall (fun c => small (cs_payload c)) css
}.

Definition wact_cov (B : N) (a : wact) : Prop := match a with WAdd _ _ p => payload_ok B p | WClose _ => True end.
Definition plan_cov (B : N) (pl : cplan) : Prop := Forall (wact_cov B) (pl_before pl) /\ Forall (wact_cov B) (pl_between pl).

(** what the histories quantified over may contain: raw events (SessionWriter::addEvent called directly, or lock-free inside a consume)
    must carry a source id this session handed out, as the log macros guarantee; sizes must fit the 32-bit size prefix *)
Definition op_cov (s : sess) (o : sop) : Prop :=
  match o with
  | SNewWriter _ c _ _ => (0 <= c)%Z
  | SAddEvent _ _ p => payload_ok (next_sid s) p
  | SLog _ _ l => src_small (lg_src l) /\ lenN (lg_args l) + 16 < 2 ^ 32
  | SAddSource x => src_small x
  | SSetClockSync c => small (cs_payload c)
  | SConsume plans => Forall (plan_cov (next_sid s)) plans
  | _ => True
  end.

Fixpoint run_cov (fence : bool) (s : sess) (ops : list sop) : Prop :=
  match ops with
  | [] => True
  | o :: r => op_cov s o /\ run_cov fence (fst (sstep fence s o)) r
  end.

Lemma cinv_init c : small (cs_payload c) -> CInv (sess_init c).
Proof.
  intros Hc. constructor; unfold sess_init; cbn [channels sites next_sid src_buf cs_buf].
  - constructor.
  - constructor.
  - lia.
  - exists []. repeat split; constructor.
  - exists [c]. split; [discriminate|]. split; [|repeat constructor; exact Hc].
    unfold stream_of, entry_special, cs_payload. cbn [map concat]. now rewrite app_nil_r.
Qed.

Lemma cov_upd_chan B uid f cs : Forall (fun c => q_cov B (ch_q c)) cs -> (forall c, q_cov B (ch_q c) -> q_cov B (ch_q (f c))) ->
  Forall (fun c => q_cov B (ch_q c)) (upd_chan uid f cs).
Proof. intros H Hf. apply (forall_upd_chan (fun c => q_cov B (ch_q c))); assumption. Qed.

Lemma cinv_set_channels s cs : CInv s -> Forall (fun c => q_cov (next_sid s) (ch_q c)) cs -> CInv (set_channels s cs).
Proof. intros [H1 H2 H3 H4 H5] H. constructor; cbn [channels sites next_sid src_buf cs_buf set_channels create_channel]; auto. Qed.

Lemma cinv_create_channel s w c wid wname : CInv s -> (0 <= c)%Z -> CInv (create_channel s w c wid wname).
Proof.
  intros [H1 H2 H3 H4 H5] Hc. constructor; cbn [channels sites next_sid src_buf cs_buf set_channels create_channel]; auto.
  apply Forall_app. split; [exact H1|]. constructor; [|constructor]. cbn. now apply q_cov_init.
Qed.

Lemma cinv_add_event s w k p : CInv s -> payload_ok (next_sid s) p -> CInv (fst (add_event s w k p)).
Proof.
  intros HS Hp. unfold add_event. destruct (assoc w (writers s)) as [uid|]; [|exact HS].
  destruct (find_chan uid (channels s)) as [c|] eqn:Ef; [|exact HS].
  pose proof (find_chan_in _ _ _ Ef) as Hin.
  pose proof (CI_chans s HS) as Hch. rewrite Forall_forall in Hch. pose proof (Hch c Hin) as Hc. cbn beta in Hc.
  unfold event_entry.
  pose proof (q_cov_pbegin (next_sid s) k (Z.of_nat (length (frame p))) (ch_q c) Hc) as Hq1.
  destruct (pbegin k (Z.of_nat (length (frame p))) (ch_q c)) as [q1 ok] eqn:Eb. cbn [fst] in Hq1.
  destruct ok; cbn [fst].
  - apply cinv_set_channels; [exact HS|]. apply cov_upd_chan; [exact (CI_chans s HS)|].
    intros c0 _. cbn [ch_q]. apply q_cov_pcommit; [exact Hq1|exact Hp|]. eapply frame_len_fits; eauto.
  - destruct HS as [H1 H2 H3 H4 H5]. constructor; cbn [channels sites next_sid src_buf cs_buf]; auto.
    apply Forall_app. split.
    + unfold close_chan. apply cov_upd_chan; [|intros c0 H0; exact H0].
      apply cov_upd_chan; [exact H1|]. intros c0 _. cbn [ch_q]. exact Hq1.
    + set (newcap := Z.max (cap (ch_q c)) (2 * Z.of_nat (length (frame p)))).
      assert (Hnc : (0 <= newcap)%Z) by (unfold newcap; destruct Hc as [HI _]; pose proof (I_cap _ HI); lia).
      constructor; [|constructor]. cbn [ch_q]. apply q_cov_pcommit; [apply q_cov_pbegin, q_cov_init; exact Hnc|exact Hp|].
      apply fresh_window; [exact Hnc|]. unfold newcap. lia.
Qed.

Lemma cinv_add_event_probe s w k p : CInv s -> CInv (fst (add_event_probe s w k p)).
Proof.
  intros HS. unfold add_event_probe. destruct (assoc w (writers s)) as [uid|]; [|exact HS].
  destruct (find_chan uid (channels s)) as [c|] eqn:Ef; [|exact HS].
  pose proof (find_chan_in _ _ _ Ef) as Hin.
  pose proof (CI_chans s HS) as Hch. rewrite Forall_forall in Hch. pose proof (Hch c Hin) as Hc. cbn beta in Hc.
  pose proof (q_cov_pbegin (next_sid s) k (Z.of_nat (length (event_entry p))) (ch_q c) Hc) as Hq1.
  destruct (pbegin k (Z.of_nat (length (event_entry p))) (ch_q c)) as [q1 ok]. cbn [fst] in *.
  apply cinv_set_channels; [exact HS|]. apply cov_upd_chan; [exact (CI_chans s HS)|]. intros c0 _. exact Hq1.
Qed.

Lemma next_sid_add_event s w k p : next_sid (fst (add_event s w k p)) = next_sid s.
Proof.
  unfold add_event. destruct (assoc w (writers s)); [|reflexivity]. destruct (find_chan _ _); [|reflexivity].
  destruct (pbegin _ _ _) as [q1 ok]. destruct ok; reflexivity.
Qed.
Lemma next_sid_add_event_probe s w k p : next_sid (fst (add_event_probe s w k p)) = next_sid s.
Proof.
  unfold add_event_probe. destruct (assoc w (writers s)); [|reflexivity]. destruct (find_chan _ _); [|reflexivity].
  destruct (pbegin _ _ _) as [q1 ok]. reflexivity.
Qed.
Lemma next_sid_close_writer s w : next_sid (close_writer s w) = next_sid s.
Proof. unfold close_writer. destruct (assoc w (writers s)); reflexivity. Qed.

Lemma cinv_close_writer s w : CInv s -> CInv (close_writer s w).
Proof.
  intros HS. unfold close_writer. destruct (assoc w (writers s)) as [uid|]; [|exact HS].
  destruct HS as [H1 H2 H3 H4 H5]. constructor; cbn [channels sites next_sid src_buf cs_buf]; auto.
  unfold close_chan. apply cov_upd_chan; [exact H1|]. intros c0 H0. exact H0.
Qed.
Lemma cinv_set_writer_id s w id : CInv s -> CInv (set_writer_id s w id).
Proof.
  intros HS. unfold set_writer_id. destruct (assoc w (writers s)); [|exact HS].
  apply cinv_set_channels; [exact HS|]. apply cov_upd_chan; [exact (CI_chans s HS)|]. intros c0 H0. exact H0.
Qed.
Lemma cinv_set_writer_name s w nm : CInv s -> CInv (set_writer_name s w nm).
Proof.
  intros HS. unfold set_writer_name. destruct (assoc w (writers s)); [|exact HS].
  apply cinv_set_channels; [exact HS|]. apply cov_upd_chan; [exact (CI_chans s HS)|]. intros c0 H0. exact H0.
Qed.

Lemma seq_snoc a n : seq a (S n) = seq a n ++ [(a + n)%nat].
Proof. revert a; induction n as [|n IH]; intros a; [cbn; now rewrite Nat.add_0_r|]. cbn [seq app] in *. f_equal. rewrite IH. cbn. now rewrite Nat.add_succ_r. Qed.

Lemma cinv_add_source s x : CInv s -> src_small x -> CInv (fst (add_source s x)) /\ next_sid (fst (add_source s x)) = next_sid s + 1.
Proof.
  intros [H1 H2 H3 (srcs & E1 & E2 & E3) H5] Hx. unfold add_source. cbn [fst]. split; [|reflexivity].
  constructor; cbn [channels sites next_sid src_buf cs_buf]; auto.
  - eapply Forall_impl; [|exact H1]. intros c. apply q_cov_mono. lia.
  - eapply Forall_impl; [|exact H2]. intros p. cbn beta. lia.
  - lia.
  - exists (srcs ++ [(next_sid s, x)]). split; [|split].
    + rewrite map_app, stream_of_app, E1. f_equal. unfold stream_of, entry_special, src_payload. cbn [map concat fst snd]. now rewrite app_nil_r.
    + rewrite map_app, E2. cbn [map fst].
      replace (N.to_nat (next_sid s + 1) - 1)%nat with (S (N.to_nat (next_sid s) - 1)) by lia.
      rewrite seq_snoc, map_app. cbn [map]. do 2 f_equal. lia.
    + apply Forall_app. split; [exact E3|]. constructor; [apply Hx|constructor].
Qed.

Lemma cinv_set_clock_sync s c : CInv s -> small (cs_payload c) -> CInv (set_clock_sync s c).
Proof.
  intros [H1 H2 H3 H4 (css & N0 & E & F)] Hc. constructor; cbn [set_clock_sync channels sites next_sid src_buf cs_buf]; auto.
  exists (css ++ [c]). split; [destruct css; discriminate|]. split.
  - rewrite map_app, stream_of_app, E. f_equal. unfold stream_of, entry_special, cs_payload. cbn [map concat]. now rewrite app_nil_r.
  - apply Forall_app. split; [exact F|repeat constructor; exact Hc].
Qed.

(** deferred writer actions keep their payloads: what is covered stays covered *)
Lemma run_wacts_cov acts : forall s d, CInv s -> Forall (wact_cov (next_sid s)) acts -> Forall (wact_cov (next_sid s)) d ->
  let r := run_wacts s d acts in CInv (fst r) /\ next_sid (fst r) = next_sid s /\ Forall (wact_cov (next_sid s)) (snd r).
Proof.
  induction acts as [|a acts IH]; intros s d HS Ha Hd; [cbn; auto|]. cbn [run_wacts].
  inversion Ha as [|? ? Ha1 Ha2]; subst.
  destruct (is_blocked (wact_writer a) d).
  - apply IH; auto. apply Forall_app. split; [exact Hd|]. constructor; [|constructor]. destruct a; exact Ha1.
  - destruct a as [w k p|w].
    + pose proof (cinv_add_event_probe s w k p HS) as H1. pose proof (next_sid_add_event_probe s w k p) as N1.
      destruct (add_event_probe s w k p) as [s1 ok]. cbn [fst] in H1, N1.
      destruct ok.
      * cbn [wact_cov] in Ha1. rewrite <- N1 in Ha1.
        pose proof (cinv_add_event s1 w 0 p H1 Ha1) as H2. pose proof (next_sid_add_event s1 w 0 p) as N2.
        destruct (add_event s1 w 0 p) as [s2 f]. cbn [fst] in H2, N2.
        assert (N3 : next_sid s2 = next_sid s) by congruence.
        specialize (IH s2 d H2). rewrite N3 in IH. apply IH; auto.
      * specialize (IH s1 (d ++ [WAdd w 0 p]) H1). rewrite N1 in IH. apply IH; auto.
        apply Forall_app. split; [exact Hd|]. constructor; [exact Ha1|constructor].
    + pose proof (cinv_close_writer s w HS) as H1. pose proof (next_sid_close_writer s w) as N1.
      specialize (IH (close_writer s w) d H1). rewrite N1 in IH. apply IH; auto.
Qed.

Lemma plan_nth_cov B plans i : Forall (plan_cov B) plans -> plan_cov B (plan_nth plans i).
Proof.
  intros H. unfold plan_nth. destruct (nth_in_or_default i plans (mkPlan [] [] 1000)) as [Hin|E].
  - rewrite Forall_forall in H. now apply H.
  - rewrite E. split; constructor.
Qed.

Lemma consume_loop_cov fence n : forall s d0 idx plans s' ws removed d,
  CInv s -> Forall (plan_cov (next_sid s)) plans -> Forall (wact_cov (next_sid s)) d0 ->
  consume_loop fence s d0 idx n plans = (s', ws, removed, d) ->
  CInv s' /\ next_sid s' = next_sid s /\ Forall (wact_cov (next_sid s)) d.
Proof.
  induction n as [|n IH]; intros s d0 idx plans s' ws removed d HS Hp Hd E; cbn [consume_loop] in E.
  - inversion E; subst. auto.
  - destruct (plan_nth_cov _ plans idx Hp) as [Pb Pw].
    pose proof (run_wacts_cov (pl_before (plan_nth plans idx)) s d0 HS Pb Hd) as (H1 & N1 & D1).
    destruct (run_wacts s d0 (pl_before (plan_nth plans idx))) as [s1 d1]. cbn [fst snd] in H1, N1, D1.
    destruct (nth_error (channels s1) idx) as [c0|] eqn:E0; [|inversion E; subst; auto].
    rewrite <- N1 in Pw, D1.
    pose proof (run_wacts_cov (pl_between (plan_nth plans idx)) s1 d1 H1 Pw D1) as (H2 & N2 & D2).
    destruct (run_wacts s1 d1 (pl_between (plan_nth plans idx))) as [s2 d2]. cbn [fst snd] in H2, N2, D2.
    assert (N12 : next_sid s2 = next_sid s) by congruence.
    destruct (nth_error (channels s2) idx) as [c|] eqn:E2; [|inversion E; subst; rewrite N1 in D2; auto].
    assert (Hc : q_cov (next_sid s2) (ch_q c)).
    { pose proof (CI_chans s2 H2) as H. rewrite Forall_forall in H. apply (H c). eapply nth_error_In; eauto. }
    match type of E with context [cread ?kk (ch_q c)] => set (k := kk) in E end.
    pose proof (q_cov_cread (next_sid s2) k (ch_q c) Hc) as Hq1.
    destruct (cread k (ch_q c)) as [q1 [p1 p2]] eqn:Er. cbn [fst] in Hq1.
    set (size := (lenN p1 + lenN p2)%N) in E.
    destruct (size =? 0); cbv zeta iota beta in E;
      (match type of E with context [consume_loop fence ?st d2 (S idx) n plans] => set (s3 := st) in E end);
      (assert (H3 : CInv s3) by (unfold s3; apply cinv_set_channels; [exact H2|]; apply cov_upd_chan; [exact (CI_chans s2 H2)|];
         intros _ _; destruct (match ch_owner c0 with None => true | _ => false end); cbn [ch_q]; auto using q_cov_cend));
      (assert (N3 : next_sid s3 = next_sid s) by (unfold s3; cbn; exact N12));
      destruct (consume_loop fence s3 d2 (S idx) n plans) as [[[s4 ws4] rem4] d4] eqn:E4;
      (assert (Hp3 : Forall (plan_cov (next_sid s3)) plans) by (rewrite N3; exact Hp));
      (assert (Hd3 : Forall (wact_cov (next_sid s3)) d2) by (rewrite N3, <- N1; exact D2));
      destruct (IH _ _ _ _ _ _ _ _ H3 Hp3 Hd3 E4) as (H4 & N4 & D4); inversion E; subst s' ws removed d;
      rewrite N3 in N4, D4; auto.
Qed.

Lemma fold_deferred_cov d : forall s, CInv s -> Forall (wact_cov (next_sid s)) d ->
  let s' := fold_left (fun st a => match a with WAdd w k p => fst (add_event st w k p) | WClose w => close_writer st w end) d s in
  CInv s' /\ next_sid s' = next_sid s.
Proof.
  induction d as [|a d IH]; intros s HS Hd; [cbn; auto|]. cbn [fold_left]. inversion Hd as [|? ? Ha Hd2]; subst.
  destruct a as [w k p|w].
  - pose proof (cinv_add_event s w k p HS Ha) as H1. pose proof (next_sid_add_event s w k p) as N1.
    specialize (IH _ H1). rewrite N1 in IH. apply IH. exact Hd2.
  - pose proof (cinv_close_writer s w HS) as H1. pose proof (next_sid_close_writer s w) as N1.
    specialize (IH _ H1). rewrite N1 in IH. apply IH. exact Hd2.
Qed.

Lemma cinv_consume fence s plans : CInv s -> Forall (plan_cov (next_sid s)) plans ->
  CInv (fst (fst (consume fence s plans))) /\ next_sid (fst (fst (consume fence s plans))) = next_sid s.
Proof.
  intros HS Hp. unfold consume.
  set (s1 := mkSess (channels s) (cs_buf s) false (src_buf s) (lenN (src_buf s)) _ _ _ _ _ _).
  assert (HS1 : CInv s1) by (destruct HS as [H1 H2 H3 H4 H5]; unfold s1; constructor; cbn [channels sites next_sid src_buf cs_buf]; auto).
  assert (N1 : next_sid s1 = next_sid s) by reflexivity.
  destruct (consume_loop fence s1 [] 0 (length (channels s1)) plans) as [[[s2 wsl] removed] deferred] eqn:El.
  destruct (consume_loop_cov fence _ _ _ _ _ _ _ _ _ HS1 Hp ltac:(constructor) El) as (HS2 & N2 & D2).
  cbn [fst].
  match goal with |- CInv (fold_left _ deferred ?st) /\ _ => set (s4 := st) end.
  assert (HS4 : CInv s4).
  { destruct HS2 as [C1 C2 C3 C4 C5]. unfold s4. constructor; cbn [channels sites next_sid src_buf cs_buf set_channels]; auto.
    clear -C1. induction C1 as [|c cs Hc _ IH]; [constructor|]. cbn [filter]. destruct (negb (is_reset c)); [constructor; auto|auto]. }
  assert (N4 : next_sid s4 = next_sid s) by (unfold s4; cbn; congruence).
  pose proof (fold_deferred_cov deferred s4 HS4) as F. rewrite N4 in F. rewrite N1 in D2. specialize (F D2). cbv zeta in F.
  destruct F as [F1 F2]. split; [exact F1|exact F2].
Qed.

Lemma cinv_reconsume s : CInv s -> CInv (fst (fst (reconsume s))).
Proof. intros [H1 H2 H3 H4 H5]. unfold reconsume. cbn [fst]. constructor; cbn [channels sites next_sid src_buf cs_buf set_channels create_channel]; auto. Qed.

Lemma cinv_log_stmt s w k l : CInv s -> src_small (lg_src l) -> lenN (lg_args l) + 16 < 2 ^ 32 -> CInv (fst (log_stmt s w k l)).
Proof.
  intros HS Hx Ha. unfold log_stmt. destruct (min_sev s <=? lg_sev l); [|exact HS].
  assert (Hpay : forall B sid, 1 <= sid < B -> payload_ok B (le_enc 8 sid ++ le_enc 8 (lg_clock l) ++ lg_args l)).
  { intros B sid Hs. exists sid, (le_enc 8 (lg_clock l) ++ lg_args l). repeat split; try lia.
    unfold small, lenN. rewrite !app_length, !le_enc_length. unfold lenN in Ha. lia. }
  destruct (assoc (lg_site l) (sites s)) as [sid|] eqn:Es.
  - cbn [fst]. apply cinv_add_event; [exact HS|]. apply Hpay.
    assert (Hin : In (lg_site l, sid) (sites s)).
    { clear -Es. induction (sites s) as [|[a b] r IH]; cbn in *; [discriminate|]. destruct (N.eqb_spec a (lg_site l)); [inversion Es; subst; now left|right; auto]. }
    pose proof (CI_sites s HS) as H. rewrite Forall_forall in H. exact (H _ Hin).
  - destruct (cinv_add_source s (lg_src l) HS Hx) as [H1 N1]. unfold add_source in *. cbn [fst] in *.
    apply cinv_add_event.
    + destruct H1 as [A B C D E]. constructor; cbn [channels sites next_sid src_buf cs_buf] in *; auto.
      pose proof (CI_sid s HS) as Hsid. unfold set_assoc. constructor; [cbn; lia|]. clear -B. induction B as [|p r Hp _ IH]; [constructor|]. cbn [filter]. destruct (negb _); [constructor; auto|auto].
    + cbn [next_sid]. apply Hpay. pose proof (CI_sid s HS). lia.
Qed.

Lemma cinv_sstep fence s o : CInv s -> op_cov s o -> CInv (fst (sstep fence s o)).
Proof.
  intros HS Hc. destruct o; cbn [sstep op_cov] in *.
  - cbn [fst]. pose proof (cinv_create_channel s w capacity 0 [] HS Hc) as H1.
    assert (H2 : CInv (if (id =? 0) then create_channel s w capacity 0 [] else set_writer_id (create_channel s w capacity 0 []) w id))
      by (destruct (id =? 0); [exact H1|now apply cinv_set_writer_id]).
    destruct name; [exact H2|now apply cinv_set_writer_name].
  - now apply cinv_set_writer_id.
  - now apply cinv_set_writer_name.
  - pose proof (cinv_add_event s w k payload HS Hc). destruct (add_event s w k payload). exact H.
  - destruct Hc as [Hx Ha]. pose proof (cinv_log_stmt s w k l HS Hx Ha). destruct (log_stmt s w k l). exact H.
  - now apply cinv_close_writer.
  - destruct (cinv_add_source s src HS Hc) as [H _]. destruct (add_source s src). exact H.
  - now apply cinv_set_clock_sync.
  - destruct HS. constructor; auto.
  - destruct (cinv_consume fence s plans HS Hc) as [H _]. destruct (consume fence s plans) as [[s' ws] r]. exact H.
  - pose proof (cinv_reconsume s HS) as H. destruct (reconsume s) as [[s' ws] r]. exact H.
Qed.

Theorem cinv_reachable fence c ops : small (cs_payload c) -> run_cov fence (sess_init c) ops -> CInv (fst (srun fence (sess_init c) ops)).
Proof.
  intros Hc. pose proof (cinv_init c Hc) as HS. revert HS. generalize (sess_init c).
  induction ops as [|o ops IH]; intros s HS Hok; [exact HS|].
  destruct Hok as [H1 H2]. cbn [srun]. pose proof (cinv_sstep fence s o HS H1) as H.
  destruct (sstep fence s o) as [s1 out]. cbn [fst] in H, H2. specialize (IH s1 H H2). destruct (srun fence s1 ops). exact IH.
Qed.

(** * what the recovery tool reads from the memory of such a state *)
Lemma stream_small_WE ps : Forall small ps -> WE (stream_of ps).
Proof.
  induction 1 as [|p ps Hp _ IH]; [constructor|]. unfold stream_of. cbn [map concat]. unfold frame at 1. rewrite <- app_assoc.
  constructor; [apply le_enc_length| |exact IH]. apply le_dec_enc. exact Hp.
Qed.
Lemma ev_ok_WE B evs : Forall (ev_ok B) evs -> WE (concat evs).
Proof.
  induction 1 as [|c evs (p & -> & (id & rest & _ & _ & Hs)) _ IH]; [constructor|]. cbn [concat]. unfold frame. rewrite <- app_assoc.
  constructor; [apply le_enc_length| |exact IH]. apply le_dec_enc. exact Hs.
Qed.

Lemma unreleased_cov B q : q_cov B q -> exists evs, unreleased q = concat evs /\ Forall (ev_ok B) evs.
Proof.
  intros (HI & _ & rcs & H1 & H2 & H3). unfold unreleased. rewrite H1.
  assert (Ha : In (sT (r_new q)) (bounds_rev rcs)).
  { rewrite <- H2. destruct (rec_ok_of q (r_new q) HI (chain_in_R q _ (r_new_in q))) as (_ & _ & _ & H & _). exact H. }
  assert (Hb : In (lenS q) (bounds_rev rcs)).
  { rewrite <- H2. destruct (rec_ok_of q (w_new q) HI (w_new_in_chain q)) as (_ & _ & _ & H & _). rewrite (I_T q HI) in H. exact H. }
  assert (Hl : lenS q = tot rcs) by (unfold lenS, tot; now rewrite H1).
  pose proof (bounds_range rcs _ Ha) as Hr.
  apply (slice_bounds (ev_ok B) rcs H3 _ _ Ha Hb). lia.
Qed.

(** the order in which the tool writes what it found: already (session, metadata-first) ordered lists are left alone *)
Fixpoint sorted_after (acc l : list rbuf) : Prop :=
  match l with [] => True | x :: r => Forall (fun y => rb_lt x y = false) acc /\ sorted_after (acc ++ [x]) r end.
Lemma rb_insert_last x l : Forall (fun y => rb_lt x y = false) l -> rb_insert x l = l ++ [x].
Proof. induction 1 as [|y l Hy _ IH]; [reflexivity|]. cbn [rb_insert app]. now rewrite Hy, IH. Qed.
Lemma fold_sorted_after l : forall acc, sorted_after acc l -> fold_left (fun a x => rb_insert x a) l acc = acc ++ l.
Proof.
  induction l as [|x r IH]; intros acc H; cbn [fold_left]; [now rewrite app_nil_r|]. destruct H as [H1 H2].
  rewrite rb_insert_last by exact H1. rewrite IH by exact H2. now rewrite <- app_assoc.
Qed.
Definition is_meta_of (sp : N) (r : rbuf) : Prop := rb_session r = sp /\ rb_is_data r = false.
Definition is_data_of (sp : N) (r : rbuf) : Prop := rb_session r = sp /\ rb_is_data r = true.
Lemma sa_data sp ds : forall acc, Forall (fun r => rb_session r = sp) acc -> Forall (is_data_of sp) ds -> sorted_after acc ds.
Proof.
  induction ds as [|x r IH]; intros acc Ha Hd; [exact I|]. inversion Hd as [|? ? [Hx1 Hx2] Hr]; subst. split.
  - eapply Forall_impl; [|exact Ha]. intros y Hy. unfold rb_lt. rewrite Hy, N.eqb_refl, Hx2. reflexivity.
  - apply IH; [|exact Hr]. apply Forall_app. split; [exact Ha|]. constructor; [reflexivity|constructor].
Qed.
Lemma sa_meta sp ms ds : forall acc, Forall (is_meta_of sp) acc -> Forall (is_meta_of sp) ms -> Forall (is_data_of sp) ds -> sorted_after acc (ms ++ ds).
Proof.
  induction ms as [|x r IH]; intros acc Ha Hm Hd.
  - apply (sa_data sp); [|exact Hd]. eapply Forall_impl; [|exact Ha]. intros y [Hy _]. exact Hy.
  - inversion Hm as [|? ? [Hx1 Hx2] Hr]; subst. cbn [app]. split.
    + eapply Forall_impl; [|exact Ha]. intros y [Hy1 Hy2]. unfold rb_lt. rewrite Hy1, N.eqb_refl, Hy2. apply andb_false_r.
    + apply IH; [|exact Hr|exact Hd]. apply Forall_app. split; [exact Ha|]. constructor; [split; [reflexivity|exact Hx2]|constructor].
Qed.
Lemma rb_sort_metas_datas sp ms ds : Forall (is_meta_of sp) ms -> Forall (is_data_of sp) ds -> rb_sort (ms ++ ds) = ms ++ ds.
Proof. intros Hm Hd. unfold rb_sort. rewrite fold_sorted_after; [reflexivity|]. apply (sa_meta sp); [constructor|exact Hm|exact Hd]. Qed.

(** the memory image of a session: its two recoverable metadata buffers and its channels, with arbitrary other memory between them *)
Definition session_blocks (sp : N) (ptr : chan -> N) (s : sess) : list seg :=
  SMeta sp (cs_buf s) :: SMeta sp (src_buf s) :: map (fun ch => SQueue sp (ptr ch) (ch_q ch)) (channels s).

Inductive weave : list seg -> list seg -> Prop :=
| wv_nil : weave [] []
| wv_junk j l b : weave l b -> weave (SJunk j :: l) b
| wv_blk g l b : weave l b -> weave (g :: l) (g :: b).

(** the scanner's hypothesis on the other memory: no byte sequence equal to a magic number starts in it *)
Fixpoint junk_ok (l : list seg) : Prop :=
  match l with
  | [] => True
  | SJunk j :: r => clean j (image_of r) /\ (image_of r = [] \/ (7 <= length (image_of r))%nat) /\ junk_ok r
  | _ :: r => junk_ok r
  end.
Definition blk_ok (g : seg) : Prop :=
  match g with
  | SJunk _ => True
  | SMeta id data => id < 2 ^ 64 /\ lenN data < 2 ^ 64 /\ whole_entries data = true
  | SQueue session ptr q => Inv q /\ (0 <= dataEnd q <= cap q)%Z /\ (cap q < 2 ^ 64)%Z /\ session < 2 ^ 64 /\ ptr < 2 ^ 64 /\ whole_entries (unreleased q) = true
  end.
Lemma weave_ok l b : weave l b -> junk_ok l -> Forall blk_ok b -> segs_ok l.
Proof.
  induction 1 as [|j l b _ IH|g l b _ IH]; intros Hj Hb; [exact I| |].
  - cbn [junk_ok] in Hj. destruct Hj as (H1 & H2 & H3). cbn [segs_ok]. split; [split; assumption|]. now apply IH.
  - inversion Hb as [|? ? Hg Hb']; subst. cbn [segs_ok]. destruct g as [j|id data|session ptr q].
    + cbn [junk_ok] in Hj. destruct Hj as (H1 & H2 & H3). split; [split; assumption|]. now apply IH.
    + split; [exact Hg|]. now apply IH.
    + split; [exact Hg|]. now apply IH.
Qed.
Lemma weave_found l b : weave l b -> concat (map seg_found l) = concat (map seg_found b).
Proof. induction 1 as [|j l b _ IH|g l b _ IH]; cbn [map concat seg_found app]; [reflexivity|exact IH|now rewrite IH]. Qed.

Lemma run_cov_sop_ok fence ops : forall s, run_cov fence s ops -> Forall sop_ok ops.
Proof.
  induction ops as [|o r IH]; intros s H; [constructor|]. destruct H as [H1 H2]. constructor; [|eapply IH; exact H2].
  destruct o; cbn [op_cov sop_ok] in *; auto.
Qed.

Lemma id_listed id B : 1 <= id < B -> In id (map N.of_nat (seq 1 (N.to_nat B - 1))).
Proof. intros H. apply in_map_iff. exists (N.to_nat id). split; [lia|]. apply in_seq. lia. Qed.

Lemma found_queues sp ptr chs :
  concat (map seg_found (map (fun ch => SQueue sp (ptr ch) (ch_q ch)) chs)) = map (fun ch => RB true sp (unreleased (ch_q ch))) chs.
Proof. induction chs as [|ch r IH]; cbn [map concat seg_found app]; [reflexivity|now rewrite IH]. Qed.

(** C08 for the session: the memory of ANY reachable state is read back as clock syncs, then sources, then the committed-but-unreleased
    events of every channel in channel order; the sources recovered describe every id an unreleased event carries. *)
Theorem session_state_recovered fence c ops sp ptr l :
  small (cs_payload c) -> run_cov fence (sess_init c) ops ->
  let s := fst (srun fence (sess_init c) ops) in
  sp < 2 ^ 64 -> (forall ch, ptr ch < 2 ^ 64) -> Forall (fun ch => (cap (ch_q ch) < 2 ^ 64)%Z) (channels s) ->
  lenN (cs_buf s) < 2 ^ 64 -> lenN (src_buf s) < 2 ^ 64 ->
  weave l (session_blocks sp ptr s) -> junk_ok l ->
  recover (image_of l) = cs_buf s ++ src_buf s ++ concat (map (fun ch => unreleased (ch_q ch)) (channels s))
  /\ (exists css, css <> [] /\ cs_buf s = stream_of (map cs_payload css))
  /\ (exists srcs, src_buf s = stream_of (map (fun p => src_payload (fst p) (snd p)) srcs)
       /\ forall ch, In ch (channels s) -> exists evs, unreleased (ch_q ch) = concat evs
            /\ Forall (fun e => exists id rest, e = frame (le_enc 8 id ++ rest) /\ In id (map fst srcs)) evs).
Proof.
  intros Hc Hrun s Hsp Hptr Hcap Hl1 Hl2 Hw Hj.
  pose proof (cinv_reachable fence c ops Hc Hrun) as HC. fold s in HC. clearbody s. clear Hrun.
  destruct HC as [C1 C2 C3 (srcs & S1 & S2 & S3) (css & K0 & K1 & K2)].
  assert (Hblk : Forall blk_ok (session_blocks sp ptr s)).
  { unfold session_blocks. constructor; [|constructor].
    - cbn [blk_ok]. split; [exact Hsp|]. split; [exact Hl1|]. apply whole_entries_iff. rewrite K1. apply stream_small_WE.
      clear -K2. induction K2; cbn [map]; constructor; auto.
    - cbn [blk_ok]. split; [exact Hsp|]. split; [exact Hl2|]. apply whole_entries_iff. rewrite S1. apply stream_small_WE.
      clear -S3. induction S3; cbn [map]; constructor; auto.
    - rewrite Forall_forall in C1, Hcap. apply Forall_forall. intros g Hg. apply in_map_iff in Hg. destruct Hg as (ch & <- & Hin).
      pose proof (C1 ch Hin) as Hq. cbn beta in Hq. destruct (unreleased_cov _ _ Hq) as (evs & E & F). destruct Hq as (HI & HD & _).
      cbn [blk_ok]. split; [exact HI|]. split; [exact HD|]. split; [apply Hcap; exact Hin|]. split; [exact Hsp|]. split; [apply Hptr|].
      apply whole_entries_iff. rewrite E. eapply ev_ok_WE; eauto. }
  split; [|split].
  - rewrite recover_image by (eapply weave_ok; eauto). rewrite (weave_found _ _ Hw).
    unfold session_blocks. cbn [map concat seg_found app].
    rewrite found_queues.
    change (RB false sp (cs_buf s) :: RB false sp (src_buf s) :: map (fun ch => RB true sp (unreleased (ch_q ch))) (channels s))
      with ([RB false sp (cs_buf s); RB false sp (src_buf s)] ++ map (fun ch => RB true sp (unreleased (ch_q ch))) (channels s)).
    rewrite (rb_sort_metas_datas sp).
    + cbn [app map concat rb_data]. f_equal. f_equal. rewrite map_map. reflexivity.
    + repeat constructor.
    + apply Forall_forall. intros r Hr. apply in_map_iff in Hr. destruct Hr as (ch & <- & _). split; reflexivity.
  - exists css. auto.
  - exists srcs. split; [exact S1|]. intros ch Hin. rewrite Forall_forall in C1. destruct (unreleased_cov _ _ (C1 ch Hin)) as (evs & E & F).
    exists evs. split; [exact E|]. eapply Forall_impl; [|exact F]. intros e (p & -> & id & rest & -> & Hid & _).
    exists id, rest. split; [reflexivity|]. rewrite S2. now apply id_listed.
Qed.

(** histories made of log statements, sources, clock syncs, writers coming and going and consumes (with no raw addEvent) need no
    premise that depends on the state: the ids come from the session itself *)
Definition wact_static (a : wact) : Prop := match a with WAdd _ _ _ => False | WClose _ => True end.
Definition op_static (o : sop) : Prop :=
  match o with
  | SNewWriter _ c _ _ => (0 <= c)%Z
  | SAddEvent _ _ _ => False
  | SLog _ _ l => src_small (lg_src l) /\ lenN (lg_args l) + 16 < 2 ^ 32
  | SAddSource x => src_small x
  | SSetClockSync c => small (cs_payload c)
  | SConsume plans => Forall (fun pl => Forall wact_static (pl_before pl) /\ Forall wact_static (pl_between pl)) plans
  | _ => True
  end.
Lemma op_static_cov s o : op_static o -> op_cov s o.
Proof.
  destruct o; cbn [op_static op_cov]; auto; try contradiction.
  intros H. eapply Forall_impl; [|exact H]. intros pl [H1 H2].
  split; (eapply Forall_impl; [|eassumption]); intros [w k p|w] Ha; cbn in *; auto; contradiction.
Qed.
Lemma run_static fence ops : Forall op_static ops -> forall s, run_cov fence s ops.
Proof. induction 1 as [|o r Ho _ IH]; intros s; cbn [run_cov]; [exact I|]. split; [now apply op_static_cov|apply IH]. Qed.

Lemma src_small_any x id0 : small (src_payload id0 x) -> src_small x.
Proof.
  intros H id. unfold small, src_payload, enc_source, lenN in *. cbn [s_id s_sev s_category s_function s_file s_line s_format s_argtags] in *.
  rewrite !app_length, !le_enc_length in *. exact H.
Qed.

(** non-vacuity: two writers, three log statements at two sites, a consume in between, a second clock sync; the first writer's queue was
    replaced (its old channel is drained, the new one holds one unreleased event), the second writer's queue holds two *)
Definition ex_src (line : N) : source := mkSource 0 64 [109] [102] [120; 46; 99] line [123; 125] [105].
Definition ex_cs : clocksync := mkCS 5 1000000000 1600000000000000000 0 [85; 84; 67].
Definition ex_ops : list sop :=
  [SNewWriter 1 64 7 [119]; SLog 1 0 (mkLog 1 64 (ex_src 10) 100 [1; 0; 0; 0]); SLog 1 0 (mkLog 2 64 (ex_src 20) 101 [2; 0; 0; 0]);
   SConsume []; SLog 1 0 (mkLog 1 64 (ex_src 10) 102 [3; 0; 0; 0]); SNewWriter 2 48 0 [];
   SLog 2 0 (mkLog 2 64 (ex_src 20) 103 [4; 0; 0; 0]); SSetClockSync ex_cs; SLog 2 0 (mkLog 1 64 (ex_src 10) 104 [5; 0; 0; 0])].
Example ex_static : Forall op_static ex_ops.
Proof.
  assert (S : forall n, n < 1000 -> src_small (ex_src n)).
  { intros n Hn. apply (src_small_any _ 0). unfold small, src_payload, enc_source, lenN. cbn [ex_src s_id s_sev s_category s_function s_file s_line s_format s_argtags].
    unfold wr_string. rewrite !app_length, !le_enc_length. cbn. lia. }
  unfold ex_ops. repeat constructor; cbn [lg_src lg_args]; try (apply S; lia); try (cbn; lia).
Qed.
Example ex_unreleased :
  let s := fst (srun true (sess_init ex_cs) ex_ops) in
  map (fun ch => unreleased (ch_q ch)) (channels s) =
    [[]; entry_event 1 102 [3; 0; 0; 0]; entry_event 2 103 [4; 0; 0; 0] ++ entry_event 1 104 [5; 0; 0; 0]] /\ next_sid s = 3.
Proof. vm_compute. split; reflexivity. Qed.
