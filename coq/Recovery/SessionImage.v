(** C08, the whole image: a memory image is a sequence of segments - arbitrary bytes, metadata blocks whose magic is set, channel blocks.
    Under the scanner's hypothesis (no byte sequence equal to a magic number starts inside the arbitrary bytes) the tool finds exactly
    the blocks, reads from each what the per-block theorems say, and writes metadata before data for each session. *)
From Coq Require Import List ZArith NArith Bool Lia.
From BL Require Import Base.Bytes Queue.QueueModel Queue.QueueInv Recovery.Recover Recovery.RecoverProofs Recovery.ImageProofs Recovery.Vos.
Import ListNotations.
Local Open Scope N_scope.

Lemma beq_bytes_eq a : forall b, beq_bytes a b = true <-> a = b.
Proof.
  induction a as [|x a IH]; intros [|y b]; cbn [beq_bytes]; split; try discriminate; try reflexivity.
  - intros H. apply andb_true_iff in H. destruct H as [H1 H2]. apply N.eqb_eq in H1. apply IH in H2. congruence.
  - intros H. inversion H; subst. rewrite N.eqb_refl. cbn. now apply IH.
Qed.

(** no magic number starts at any position of [j] (reading on into what follows) *)
Definition clean (j next : bytes) : Prop :=
  forall k, (k < length j)%nat -> firstn 8 (skipn k (j ++ next)) <> magic_meta /\ firstn 8 (skipn k (j ++ next)) <> magic_data.

Lemma clean_tail b j next : clean (b :: j) next -> clean j next.
Proof. intros H k Hk. apply (H (S k)). cbn [length]. lia. Qed.

Lemma magic_meta_head : magic_meta = first_magic_byte :: tl magic_meta. Proof. reflexivity. Qed.
Lemma magic_data_head : magic_data = first_magic_byte :: tl magic_data. Proof. reflexivity. Qed.

Lemma take7_first8 l m7 after : take_n 7 l = Some (m7, after) -> forall b, firstn 8 (b :: l) = b :: m7.
Proof.
  intros H b. apply take_n_app in H. destruct H as [-> Hl].
  change (firstn 8 (b :: m7 ++ after)) with (b :: firstn 7 (m7 ++ after)). f_equal.
  rewrite firstn_app, <- Hl, Nat.sub_diag, firstn_all. cbn [firstn]. apply app_nil_r.
Qed.

(** fuel does not matter once it exceeds the length *)
Lemma scan_skip_junk : forall j next fuel, clean j next -> (length (j ++ next) < fuel)%nat ->
  scan_image fuel (j ++ next) = scan_image (fuel - length j) next \/ (scan_image fuel (j ++ next) = [] /\ (length next < 7)%nat).
Proof.
  induction j as [|b j IH]; intros next fuel Hc Hf.
  - left. cbn [app length]. now rewrite Nat.sub_0_r.
  - destruct fuel as [|f]; [cbn in Hf; lia|]. cbn [app scan_image length].
    assert (Hrec : scan_image f (j ++ next) = scan_image (S f - S (length j)) next \/ scan_image f (j ++ next) = [] /\ (length next < 7)%nat).
    { apply IH; [eapply clean_tail; exact Hc|cbn [app length] in Hf; lia]. }
    destruct (N.eqb_spec b first_magic_byte) as [->|Hb]; [|exact Hrec].
    destruct (take_n 7 (j ++ next)) as [[m7 after]|] eqn:E7.
    + pose proof (take7_first8 _ _ _ E7 first_magic_byte) as H8.
      destruct (Hc 0%nat ltac:(cbn; lia)) as [Hm Hd]. cbn [skipn app] in Hm, Hd. rewrite H8 in Hm, Hd.
      destruct (beq_bytes m7 (tl magic_meta)) eqn:B1; [apply beq_bytes_eq in B1; subst m7; exfalso; apply Hm; reflexivity|].
      destruct (beq_bytes m7 (tl magic_data)) eqn:B2; [apply beq_bytes_eq in B2; subst m7; exfalso; apply Hd; reflexivity|].
      exact Hrec.
    + right. split; [reflexivity|]. apply take_n_none in E7. rewrite app_length in E7. lia.
Qed.

Lemma scan_fuel : forall fuel l, (length l < fuel)%nat -> scan_image fuel l = scan_image (S (length l)) l.
Proof.
  assert (G : forall n l fuel, (length l <= n)%nat -> (length l < fuel)%nat -> scan_image fuel l = scan_image (S (length l)) l).
  { induction n as [|n IH]; intros l fuel Hn Hf.
    - destruct l; [|cbn in Hn; lia]. destruct fuel; [lia|reflexivity].
    - destruct l as [|b r]; [destruct fuel; [lia|reflexivity]|].
      destruct fuel as [|f]; [lia|]. cbn [length] in *. cbn [scan_image].
      assert (Hr : forall x, (length x <= length r)%nat -> scan_image f x = scan_image (S (length r)) x).
      { intros x Hx. rewrite (IH x f) by lia. rewrite (IH x (S (length r))) by lia. reflexivity. }
      destruct (b =? first_magic_byte); [|apply Hr; lia].
      destruct (take_n 7 r) as [[m7 after]|] eqn:E7; [|reflexivity].
      pose proof (take_n_app _ _ _ _ E7) as [Er _].
      assert (La : (length after <= length r)%nat) by (rewrite Er, app_length; lia).
      destruct (beq_bytes m7 (tl magic_meta)).
      + destruct (read_meta after) as [[rb rest]|] eqn:Em; [|apply Hr; exact La].
        f_equal. apply Hr. destruct (read_meta_good _ _ _ Em) as [_ Hl]. lia.
      + destruct (beq_bytes m7 (tl magic_data)); [|apply Hr; lia].
        destruct (read_data after) as [[rb rest]|] eqn:Ed; [|apply Hr; exact La].
        f_equal. apply Hr. destruct (read_data_good _ _ _ Ed) as [_ Hl]. lia. }
  intros fuel l Hf. apply (G (length l) l fuel); lia.
Qed.

Definition scan (l : bytes) : list rbuf := scan_image (S (length l)) l.

Lemma scan_junk j next : clean j next -> (next = [] \/ (7 <= length next)%nat) -> scan (j ++ next) = scan next.
Proof.
  intros Hc Hn. unfold scan.
  destruct (scan_skip_junk j next (S (length (j ++ next))) Hc ltac:(lia)) as [E|[E Hl]].
  - rewrite E. apply scan_fuel. rewrite app_length. lia.
  - destruct Hn as [->|Hn]; [|lia]. rewrite E. reflexivity.
Qed.

Lemma scan_image_step f b r : scan_image (S f) (b :: r) =
  if b =? first_magic_byte then
    match take_n 7 r with
    | None => []
    | Some (m7, after) =>
      if beq_bytes m7 (tl magic_meta) then match read_meta after with Some (rb, rest) => rb :: scan_image f rest | None => scan_image f after end
      else if beq_bytes m7 (tl magic_data) then match read_data after with Some (rb, rest) => rb :: scan_image f rest | None => scan_image f after end
      else scan_image f r
    end
  else scan_image f r.
Proof. reflexivity. Qed.

Lemma scan_meta after rb rest : read_meta after = Some (rb, rest) -> scan (magic_meta ++ after) = rb :: scan rest.
Proof.
  intros Hm. unfold scan. rewrite magic_meta_head.
  change ((first_magic_byte :: tl magic_meta) ++ after) with (first_magic_byte :: (tl magic_meta ++ after)).
  assert (L7 : length (tl magic_meta) = 7%nat) by reflexivity.
  pose proof (take_n_exact (tl magic_meta) after) as T. rewrite L7 in T.
  rewrite scan_image_step, N.eqb_refl, T.
  replace (beq_bytes (tl magic_meta) (tl magic_meta)) with true by (symmetry; now apply beq_bytes_eq).
  rewrite Hm. f_equal. apply scan_fuel. destruct (read_meta_good _ _ _ Hm) as [_ Hl]. cbn [length]. rewrite app_length. lia.
Qed.

Lemma scan_data after rb rest : read_data after = Some (rb, rest) -> scan (magic_data ++ after) = rb :: scan rest.
Proof.
  intros Hd. unfold scan. rewrite magic_data_head.
  change ((first_magic_byte :: tl magic_data) ++ after) with (first_magic_byte :: (tl magic_data ++ after)).
  assert (L7 : length (tl magic_data) = 7%nat) by reflexivity.
  pose proof (take_n_exact (tl magic_data) after) as T. rewrite L7 in T.
  rewrite scan_image_step, N.eqb_refl, T.
  replace (beq_bytes (tl magic_data) (tl magic_meta)) with false by reflexivity.
  replace (beq_bytes (tl magic_data) (tl magic_data)) with true by (symmetry; now apply beq_bytes_eq).
  rewrite Hd. f_equal. apply scan_fuel. destruct (read_data_good _ _ _ Hd) as [_ Hl]. cbn [length]. rewrite app_length. lia.
Qed.

(** ** segments *)
Inductive seg :=
| SJunk (j : bytes)
| SMeta (id : N) (data : bytes)                      (* a recoverable buffer with its magic set: [size] = |data|; what lies behind is junk *)
| SQueue (session ptr : N) (s : qstate).

Definition seg_bytes (g : seg) : bytes :=
  match g with
  | SJunk j => j
  | SMeta id data => magic_meta ++ le_enc 8 id ++ le_enc 8 (lenN data) ++ data
  | SQueue session ptr s => magic_data ++ queue_block session ptr s
  end.
Definition seg_found (g : seg) : list rbuf :=
  match g with
  | SJunk _ => []
  | SMeta id data => [RB false id data]
  | SQueue session _ s => [RB true session (unreleased s)]
  end.
Definition image_of (l : list seg) : bytes := concat (map seg_bytes l).

Fixpoint segs_ok (l : list seg) : Prop :=
  match l with
  | [] => True
  | g :: r =>
    (match g with
     | SJunk j => clean j (image_of r) /\ (image_of r = [] \/ (7 <= length (image_of r))%nat)
     | SMeta id data => id < 2 ^ 64 /\ lenN data < 2 ^ 64 /\ whole_entries data = true
     | SQueue session ptr s => Inv s /\ (0 <= dataEnd s <= cap s)%Z /\ (cap s < 2 ^ 64)%Z /\ session < 2 ^ 64 /\ ptr < 2 ^ 64 /\ whole_entries (unreleased s) = true
     end) /\ segs_ok r
  end.

Theorem scan_finds_the_blocks : forall l, segs_ok l -> scan (image_of l) = concat (map seg_found l).
Proof.
  induction l as [|g r IH]; intros Hok; [reflexivity|]. destruct Hok as [Hg Hr]. specialize (IH Hr).
  unfold image_of in *. cbn [map concat]. fold (image_of r) in *. destruct g as [j|id data|session ptr s]; cbn [seg_bytes seg_found app].
  - destruct Hg as [Hc Hn]. rewrite scan_junk by assumption. exact IH.
  - destruct Hg as (Hid & Hl & Hw). rewrite <- app_assoc.
    erewrite scan_meta; [rewrite IH; reflexivity|].
    unfold read_meta. rewrite <- !app_assoc. rewrite !rd_enc by (cbn; lia). rewrite takeN_exact, Hw. reflexivity.
  - destruct Hg as (HI & HE & Hc & Hs & Hp & Hw). rewrite <- app_assoc.
    erewrite scan_data; [rewrite IH; reflexivity|].
    apply queue_image_recovered; assumption.
Qed.

(** hence the tool's output for such an image: the recovered buffers in (session, metadata-first) order *)
Corollary recover_image l : segs_ok l -> recover (image_of l) = concat (map rb_data (rb_sort (concat (map seg_found l)))).
Proof. intros H. unfold recover. fold (scan (image_of l)). now rewrite scan_finds_the_blocks. Qed.
