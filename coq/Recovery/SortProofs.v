(** brecovery orders what it recovered by (session, metadata before data): in its output every metadata block of a session
    precedes every data block of that session, so the sources and clock syncs recovered for a session come before its events. *)
From Coq Require Import List NArith Bool Lia Sorted Permutation.
From BL Require Import Base.Bytes Recovery.Recover Recovery.RecoverProofs.
Import ListNotations.
Local Open Scope N_scope.

Definition le_key (a b : rbuf) : Prop :=
  rb_session a < rb_session b \/ (rb_session a = rb_session b /\ (rb_is_data a = false \/ rb_is_data b = true)).

Lemma rb_lt_le a b : rb_lt a b = true -> le_key a b.
Proof.
  unfold rb_lt, le_key. destruct (N.eqb_spec (rb_session a) (rb_session b)) as [E|E].
  - intros H. apply andb_true_iff in H. destruct H as [H1 H2]. right. split; [exact E|]. right. exact H2.
  - intros H. apply N.ltb_lt in H. left. exact H.
Qed.
Lemma rb_nlt_le a b : rb_lt a b = false -> le_key b a.
Proof.
  unfold rb_lt, le_key. destruct (N.eqb_spec (rb_session a) (rb_session b)) as [E|E].
  - intros H. right. split; [now symmetry|]. destruct (rb_is_data a), (rb_is_data b); cbn in H; try discriminate; auto.
  - intros H. apply N.ltb_ge in H. left. lia.
Qed.
Lemma le_key_trans a b c : le_key a b -> le_key b c -> le_key a c.
Proof.
  unfold le_key. intros [H1|[E1 H1]] [H2|[E2 H2]]; try (left; lia).
  right. split; [congruence|]. destruct H1 as [H1|H1]; [now left|]. destruct H2 as [H2|H2]; [congruence|now right].
Qed.

Lemma insert_sorted x : forall l, StronglySorted le_key l -> StronglySorted le_key (rb_insert x l).
Proof.
  induction l as [|y r IH]; intros Hs; cbn [rb_insert].
  - constructor; constructor.
  - inversion Hs as [|? ? Hr Hy]; subst. destruct (rb_lt x y) eqn:E.
    + constructor; [exact Hs|]. constructor; [now apply rb_lt_le|].
      rewrite Forall_forall in *. intros z Hz. eapply le_key_trans; [apply rb_lt_le; exact E|apply Hy; exact Hz].
    + constructor; [apply IH; exact Hr|].
      rewrite Forall_forall in *. intros z Hz.
      assert (Hp : Permutation (x :: r) (rb_insert x r)) by apply rb_insert_perm.
      apply (Permutation_in _ (Permutation_sym Hp)) in Hz. destruct Hz as [<-|Hz]; [now apply rb_nlt_le|now apply Hy].
Qed.

Theorem rb_sort_sorted l : StronglySorted le_key (rb_sort l).
Proof.
  unfold rb_sort. assert (G : forall l acc, StronglySorted le_key acc -> StronglySorted le_key (fold_left (fun a x => rb_insert x a) l acc)).
  { induction l0 as [|x r IH]; intros acc Ha; cbn [fold_left]; [exact Ha|]. apply IH. now apply insert_sorted. }
  apply G. constructor.
Qed.

(** in the list of recovered buffers as written: a data buffer is never followed by a metadata buffer of the same session *)
Theorem metadata_before_data image : forall pre d mid m post,
  rb_sort (scan_image (S (length image)) image) = pre ++ d :: mid ++ m :: post ->
  rb_session d = rb_session m -> rb_is_data d = true -> rb_is_data m = false -> False.
Proof.
  intros pre d mid m post E Hs Hd Hm.
  pose proof (rb_sort_sorted (scan_image (S (length image)) image)) as S. rewrite E in S.
  assert (Hdm : le_key d m).
  { clear E. induction pre as [|p pre IH]; cbn [app] in S.
    - inversion S as [|? ? _ Hall]; subst. rewrite Forall_forall in Hall. apply Hall. apply in_or_app. right. now left.
    - inversion S; subst. now apply IH. }
  unfold le_key in Hdm. destruct Hdm as [H|[_ [H|H]]]; [lia|congruence|congruence].
Qed.
