(** C08: what the recovery tool extracts from the memory of a queue in ANY reachable state (any producer / consumer progress,
    any reads-from history, bytes of an uncommitted event half written) is exactly the committed-but-unreleased stream. *)
From Coq Require Import List ZArith NArith Bool Lia.
From BL Require Import Base.Bytes Queue.QueueModel Queue.QueueInv Recovery.Recover Recovery.RecoverProofs.
Import ListNotations.
Local Open Scope Z_scope.

(** ** the cells of the buffer as a list *)
Definition cells (s : qstate) : bytes := read_cells (buf s) 0 (cap s).

Lemma zrange_length lo n : length (zrange lo n) = n.
Proof. revert lo; induction n as [|n IH]; intros lo; cbn [zrange length]; [reflexivity|now rewrite IH]. Qed.
Lemma cells_length s : 0 <= cap s -> Z.of_nat (length (cells s)) = cap s.
Proof. intros H. unfold cells, read_cells. rewrite map_length, zrange_length. lia. Qed.
Lemma nth_zrange : forall n lo i d, (i < n)%nat -> nth i (zrange lo n) d = lo + Z.of_nat i.
Proof.
  induction n as [|n IH]; intros lo i d Hi; [lia|]. destruct i as [|i]; cbn [zrange nth]; [lia|].
  rewrite IH by lia. lia.
Qed.
Lemma nth_cells s x : 0 <= x < cap s -> nth (Z.to_nat x) (cells s) 0%N = buf s x.
Proof.
  intros Hx. unfold cells, read_cells.
  rewrite (nth_indep _ 0%N (buf s 0)) by (rewrite map_length, zrange_length; lia).
  rewrite map_nth. f_equal. rewrite nth_zrange by lia. lia.
Qed.

Lemma cells_slice s a b : 0 <= a <= b -> b <= cap s ->
  Recover.slice (cells s) (Z.to_N a) (Z.to_N b) = read_cells (buf s) a b.
Proof.
  intros Hab Hb. unfold Recover.slice, read_cells.
  replace (N.to_nat (Z.to_N b - Z.to_N a)) with (Z.to_nat (b - a)) by lia.
  replace (N.to_nat (Z.to_N a)) with (Z.to_nat a) by lia.
  symmetry. apply map_zrange_slice; [lia| |].
  - rewrite cells_length by lia. lia.
  - intros x Hx. symmetry. apply nth_cells. lia.
Qed.

(** ** the image of a queue: what Session::Channel lays out after the magic number *)
Definition queue_block (session ptr : N) (s : qstate) : bytes :=
  le_enc 8 session ++ le_enc 8 (Z.to_N (sv (w_new s))) ++ le_enc 8 (Z.to_N (dataEnd s)) ++ le_enc 8 (Z.to_N (cap s))
  ++ le_enc 8 ptr ++ le_enc 8 (Z.to_N (sv (r_new s))) ++ cells s.

Definition unreleased (s : qstate) : bytes := QueueInv.slice (strm s) (sT (r_new s)) (lenS s).

Lemma w_new_bounds s : Inv s -> 0 <= sv (w_new s) <= cap s.
Proof. intros HI. destruct (rec_ok_of s (w_new s) HI (w_new_in_chain s)) as (_ & H & _). exact H. Qed.
Lemma r_new_bounds s : Inv s -> 0 <= sv (r_new s) <= cap s.
Proof. intros HI. destruct (rec_ok_of s (r_new s) HI (chain_in_R s _ (r_new_in s))) as (_ & H & _). exact H. Qed.

(** reading the image = a consumer poll that sees the newest write index *)
Lemma cread0_setW s wc wp : snd (cread0 (setW s wc wp)) =
  if sv (r_new s) <=? sv wc then (read_cells (buf s) (sv (r_new s)) (sv wc), [])
  else if sv (r_new s) <? dataEnd s then (read_cells (buf s) (sv (r_new s)) (dataEnd s), read_cells (buf s) 0 (sv wc))
  else (read_cells (buf s) 0 (sv wc), []).
Proof.
  unfold cread0, r_new. cbn [setW Wcur Wpend Rcur Rpend dataEnd buf].
  destruct (sv (last_of (Rcur s) (Rpend s)) <=? sv wc); [reflexivity|].
  destruct (sv (last_of (Rcur s) (Rpend s)) <? dataEnd s); reflexivity.
Qed.

Lemma unread_is_poll s : Inv s -> 0 <= dataEnd s <= cap s ->
  unread (Z.to_N (sv (w_new s))) (Z.to_N (dataEnd s)) (Z.to_N (sv (r_new s))) (cells s) = unreleased s.
Proof.
  intros HI HE. pose proof (w_new_bounds s HI) as HW. pose proof (r_new_bounds s HI) as HR.
  destruct (cread (length (Wpend s)) s) as [s' [p1 p2]] eqn:E.
  unfold unreleased. rewrite <- (quiescent_delivers_all _ s s' p1 p2 HI (le_n _) E).
  unfold cread in E. destruct (acquire (length (Wpend s)) (Wcur s) (Wpend s)) as [wc wp'] eqn:Ea.
  assert (Hwc : wc = w_new s).
  { pose proof (acquire_all (length (Wpend s)) (Wcur s) (Wpend s) (le_n _)) as H. rewrite Ea in H. exact H. }
  subst wc. assert (E2 : snd (cread0 (setW s (w_new s) wp')) = (p1, p2)) by (rewrite E; reflexivity).
  rewrite cread0_setW in E2. clear E.
  unfold unread.
  destruct (Z.leb_spec (sv (r_new s)) (sv (w_new s))) as [H1|H1].
  - replace (Z.to_N (sv (r_new s)) <=? Z.to_N (sv (w_new s)))%N with true by (symmetry; apply N.leb_le; lia).
    inversion E2; subst. rewrite app_nil_r. apply cells_slice; lia.
  - replace (Z.to_N (sv (r_new s)) <=? Z.to_N (sv (w_new s)))%N with false by (symmetry; apply N.leb_gt; lia).
    destruct (Z.ltb_spec (sv (r_new s)) (dataEnd s)) as [H2|H2].
    + replace (Z.to_N (sv (r_new s)) <? Z.to_N (dataEnd s))%N with true by (symmetry; apply N.ltb_lt; lia).
      inversion E2; subst. rewrite cells_slice by lia. f_equal. change 0%N with (Z.to_N 0). apply cells_slice; lia.
    + replace (Z.to_N (sv (r_new s)) <? Z.to_N (dataEnd s))%N with false by (symmetry; apply N.ltb_ge; lia).
      inversion E2; subst. rewrite app_nil_r. change 0%N with (Z.to_N 0). apply cells_slice; lia.
Qed.

Theorem queue_image_recovered session ptr s rest : Inv s -> 0 <= dataEnd s <= cap s -> cap s < 2 ^ 64 ->
  (session < 2 ^ 64)%N -> (ptr < 2 ^ 64)%N -> whole_entries (unreleased s) = true ->
  read_data (queue_block session ptr s ++ rest) = Some (RB true session (unreleased s), rest).
Proof.
  intros HI HE Hc Hs Hp Hw. pose proof (w_new_bounds s HI) as HW. pose proof (r_new_bounds s HI) as HR.
  unfold read_data, queue_block. rewrite <- !app_assoc.
  rewrite !rd_enc by (cbn; lia).
  replace ((Z.to_N (cap s) <? Z.to_N (sv (w_new s))) || (Z.to_N (cap s) <? Z.to_N (dataEnd s)) || (Z.to_N (cap s) <? Z.to_N (sv (r_new s))))%N with false.
  2:{ symmetry. rewrite !orb_false_iff, !N.ltb_ge. lia. }
  replace (Z.to_N (cap s)) with (lenN (cells s)) at 1 by (unfold lenN; pose proof (cells_length s ltac:(lia)); lia).
  rewrite takeN_exact, unread_is_poll by assumption. rewrite Hw. reflexivity.
Qed.

(** ** a crash in the middle of a commit: bytes of the event being written are already in the granted window *)
Definition scribble (s : qstate) (pos : Z) (bytes : list byte) : qstate :=
  mkQ (cap s) (Wcur s) (Wpend s) (Rcur s) (Rpend s) (dataEnd s) (wpos s) (wend s) (readEnd s) (upd (buf s) pos bytes) (bp s) (strm s) (cuts s).

Lemma inv_scribble s pos bytes : Inv s -> wpos s <= pos -> pos + Z.of_nat (length bytes) <= wend s -> Inv (scribble s pos bytes).
Proof.
  intros HI Hp He. destruct HI as [H1 H2 H3 H4 H5 H6 H7 H8 H9 H10 H11].
  constructor; try assumption.
  intros x Hx. change (Rcur (scribble s pos bytes)) with (Rcur s) in Hx. change (lenS (scribble s pos bytes)) with (lenS s) in Hx.
  change (strm (scribble s pos bytes)) with (strm s). change (buf (scribble s pos bytes)) with (upd (buf s) pos bytes).
  change (phys (scribble s pos bytes) x) with (phys s x).
  rewrite upd_outside; [apply (H10 x Hx)|].
  pose proof (window_disjoint_unreleased s x (mkInv s H1 H2 H3 H4 H5 H6 H7 H8 H9 H10 H11) Hx) as Hd. lia.
Qed.

Theorem partial_event_invisible session ptr s pos bytes rest : Inv s -> 0 <= dataEnd s <= cap s -> cap s < 2 ^ 64 ->
  (session < 2 ^ 64)%N -> (ptr < 2 ^ 64)%N -> whole_entries (unreleased s) = true ->
  wpos s <= pos -> pos + Z.of_nat (length bytes) <= wend s ->
  read_data (queue_block session ptr (scribble s pos bytes) ++ rest) = Some (RB true session (unreleased s), rest).
Proof.
  intros HI HE Hc Hs Hp Hw H1 H2.
  exact (queue_image_recovered session ptr (scribble s pos bytes) rest (inv_scribble s pos bytes HI H1 H2) HE Hc Hs Hp Hw).
Qed.

(** dataEnd stays within the capacity in every reachable state *)
Definition dataEnd_ok (s : qstate) : Prop := 0 <= dataEnd s <= cap s.
Lemma dataEnd_ok_step s o : Inv s -> dataEnd_ok s -> dataEnd_ok (fst (qstep s o)).
Proof.
  intros HI HD. pose proof (w_new_bounds s HI) as HW. unfold dataEnd_ok in *.
  assert (Hpm : forall k, 0 <= dataEnd (pmax k s) <= cap (pmax k s)).
  { intros k. unfold pmax. destruct (acquire k (Rcur s) (Rpend s)) as [rc rp]. unfold pmax0.
    change (w_new (setR s rc rp)) with (w_new s). change (Rcur (setR s rc rp)) with rc. change (cap (setR s rc rp)) with (cap s).
    change (dataEnd (setR s rc rp)) with (dataEnd s).
    destruct (sv (w_new s) <? sv rc); [exact HD|]. destruct (sv rc - 1 <=? cap s - sv (w_new s)); cbn [dataEnd cap]; [exact HD|lia]. }
  destruct o as [k bytes|k n|k|]; cbn [qstep].
  - unfold pwrite, pbegin. destruct (Z.of_nat (length bytes) <=? wend s - wpos s); cbn [fst].
    + exact HD.
    + destruct (Z.of_nat (length bytes) <=? wend (pmax k s) - wpos (pmax k s)); cbn [fst pcommit dataEnd cap]; apply Hpm.
  - unfold pbegin. destruct (n <=? wend s - wpos s); cbn [fst]; [exact HD|apply Hpm].
  - unfold cread. destruct (acquire k (Wcur s) (Wpend s)) as [wc wp']. unfold cread0. cbn [setW].
    repeat match goal with |- context [if ?c then _ else _] => destruct c end; cbn [fst dataEnd cap]; exact HD.
  - exact HD.
Qed.

Theorem dataEnd_ok_reachable c ops : 0 <= c -> dataEnd_ok (fst (qrun (init c) ops)).
Proof.
  intros Hc. assert (G : forall ops s, Inv s -> dataEnd_ok s -> dataEnd_ok (fst (qrun s ops))).
  { induction ops0 as [|o r IH]; intros s HI HD; [exact HD|]. cbn [qrun].
    destruct (qstep s o) as [s1 out] eqn:E. pose proof (inv_qstep s o HI) as HI1. pose proof (dataEnd_ok_step s o HI HD) as HD1. rewrite E in HI1, HD1. cbn [fst] in *.
    specialize (IH s1 HI1 HD1). destruct (qrun s1 r) as [s2 outs]. exact IH. }
  apply G; [apply inv_init; exact Hc|unfold dataEnd_ok; cbn; lia].
Qed.

Lemma cap_pmax k s : cap (pmax k s) = cap s.
Proof.
  unfold pmax. destruct (acquire k (Rcur s) (Rpend s)) as [rc rp]. unfold pmax0.
  repeat match goal with |- context [if ?c then _ else _] => destruct c end; reflexivity.
Qed.
Lemma cap_qstep s o : cap (fst (qstep s o)) = cap s.
Proof.
  destruct o as [k b|k n|k|]; cbn [qstep].
  - unfold pwrite, pbegin. destruct (Z.of_nat (length b) <=? wend s - wpos s); cbn [fst]; [reflexivity|].
    destruct (Z.of_nat (length b) <=? wend (pmax k s) - wpos (pmax k s)); cbn [fst pcommit cap]; apply cap_pmax.
  - unfold pbegin. destruct (n <=? wend s - wpos s); cbn [fst]; [reflexivity|apply cap_pmax].
  - unfold cread. destruct (acquire k (Wcur s) (Wpend s)) as [wc wp']. unfold cread0.
    repeat match goal with |- context [if ?c then _ else _] => destruct c end; reflexivity.
  - reflexivity.
Qed.
Lemma cap_qrun ops : forall s, cap (fst (qrun s ops)) = cap s.
Proof.
  induction ops as [|o r IH]; intros s; [reflexivity|]. cbn [qrun].
  pose proof (cap_qstep s o) as H. destruct (qstep s o) as [s1 out]. cbn [fst] in H.
  specialize (IH s1). destruct (qrun s1 r) as [s2 outs]. cbn [fst] in *. congruence.
Qed.
