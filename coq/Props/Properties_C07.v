(** C07 — End-to-end fidelity: what bread prints is what the program logged.
    The chain is: log statement -> source + event bytes (C04: the documented encoding; C19: one event per enabled statement)
    -> session consume (C03/C11: metadata first, whole entries) -> reader (below: metadata and event read back exactly;
    C14: latest definition wins) -> renderer (below: placeholder substitution; C06: visit reports the serialized value; C17: time).
    Theorems of this file are the links that belong to C07 alone. *)
From Coq Require Import List NArith ZArith Bool Lia String.
From BL Require Import Base.Bytes Reader.Entry Reader.SegMap Reader.EventStream Reader.RoundTrip Mser.Types Mser.Encode Mser.Tag Mser.Visit Mser.VisitProofs
  Render.Time Render.Message Render.MessageProofs Render.ToStringProofs Render.FloatG Render.FloatGProofs Mser.TagProofs.
Import ListNotations.

(** severity, category, function, file, line, format, argument tags: every field of a registered source is read back as written *)
Theorem C07_source_read_back : forall s extra, wf_source s -> dec_source (enc_source s ++ extra) = Ok s.
Proof. exact dec_enc_source. Qed.
Print Assumptions C07_source_read_back.
(** writer id and name; clock sync *)
Theorem C07_writer_read_back : forall w extra, wf_wp w -> dec_wp (enc_wp w ++ extra) = Ok w.
Proof. exact dec_enc_wp. Qed.
Theorem C07_clock_sync_read_back : forall c extra, wf_cs c -> dec_cs (enc_cs c ++ extra) = Ok c.
Proof. exact dec_enc_cs. Qed.
(** an event is presented with the source registered under its id, the producing writer's current properties, its clock value and its argument bytes verbatim *)
Theorem C07_event_read_back : forall rs id clock args s,
  (id < 9223372036854775808)%N -> (clock < two64)%N -> sm_find (rs_sources rs) id = Some s ->
  es_step rs (le_enc 8 id ++ le_enc 8 clock ++ args) = (rs, OEvent (mkView s (rs_wp rs) (rs_cs rs) clock args)).
Proof. exact event_read_back. Qed.
Print Assumptions C07_event_read_back.

(** the message: for every format string and every list of arithmetic arguments (bool, char, all integer widths, floats) whose number
    equals the number of {} placeholders (the macro's static_assert), the text is the format with each {} replaced in order by the text of the value *)
Theorem C07_message_of_arithmetic_arguments : forall ft cfg local tfmt cs fuel fmt (args : list arg),
  (List.length fmt < fuel)%nat -> count_ph fmt = List.length args -> forallb arg_ok args = true ->
  message_loop ft cfg fuel local tfmt cs fmt (arg_tags args) (arg_bytes args) ts_init = (subst fmt (arg_texts ft args), true).
Proof. exact message_of_arith_args. Qed.
Print Assumptions C07_message_of_arithmetic_arguments.
(** containers, tuples, structs, optionals and variants in the documented notation: the text ToStringVisitor produces for the callbacks of a
    value is [text_of]: strings verbatim, [a, b], (a, b), Name{ f: v, g: w }, {null}, the enumerator's name or 0xHEX, one element and " ... <repeats N times>" for more than 32 zero-size elements, a variant as its active alternative - from any state of
    the visitor (inside a sequence it is preceded by ", "), leaving the state as a single value does *)
Theorem C07_value_text_is_documented_notation : forall ft v t inv, wt t v = true -> simple inv t = true -> t <> TUnit ->
  prints ft (callbacks_b true t v) (text_of ft t v).
Proof. exact tostring_prints. Qed.
Print Assumptions C07_value_text_is_documented_notation.

(** the whole message, for arguments of the [simple] universe (arithmetic, adapted enums over integral types, strings and other sequences of any length, tuples, optionals,
    variants, structs whose names the printStruct hook does not take over (empty ones under the hypothesis that the argument's tag holds no definition of the same name), nesting up to 2048): the format with each {} replaced in order
    by the documented notation of the logged value. Links C04 (bytes), C06 (visit) and the state machine. *)
Theorem C07_message_of_simple_arguments : forall ft cfg local tfmt cs fuel fmt (args : list targ),
  (List.length fmt < fuel)%nat -> count_ph fmt = List.length args -> Forall (targ_ok (print_struct cfg local tfmt cs)) args ->
  message_loop ft cfg fuel local tfmt cs fmt (targs_tags args) (targs_bytes args) ts_init = (subst fmt (targs_texts ft args), true).
Proof. exact message_of_simple_args. Qed.
Print Assumptions C07_message_of_simple_arguments.
(** PARTIAL: enums over bool, the special struct renderings (time points,
    durations, addresses, paths, error codes) and recursive hand-written tags are outside these two theorems; they are checked against an
    independent rendering on the implementation and the model (tools/p_C07.py). *)

Example C07_enum_nonvacuous :
  text_of float_text (TEnum (str "Color") AI8 [(0%N, str "Red"); (255%N, str "Neg")]) (VRaw 255%N) = str "Neg" /\
  text_of float_text (TEnum (str "Color") AI8 [(0%N, str "Red"); (255%N, str "Neg")]) (VRaw 16%N) = str "0x10".
Proof. vm_compute. split; reflexivity. Qed.

Example C07_composite_nonvacuous :
  text_of float_text (TStruct (str "ns::Pt<int>") [(str "x", TArith AI32); (str "tags", Types.TSeq (mkSK true None) (Types.TSeq (mkSK true None) (TArith AChar))); (str "o", TOpt (TArith AU8))])
                     (VTup [VRaw 4294967295%N; VSeq [VSeq [VRaw 97%N; VRaw 98%N]; VSeq []]; VNone])
  = str "ns::Pt{ x: -1, tags: [ab, ], o: {null} }".
Proof. vm_compute. reflexivity. Qed.

(** integers exactly *)
Example C07_integer_texts :
  arith_text float_text 105 4294967295 = [45; 49]%N /\ arith_text float_text 76 18446744073709551615 = str "18446744073709551615"
  /\ arith_text float_text 98 128 = str "-128" /\ arith_text float_text 121 1 = str "true" /\ arith_text float_text 99 65 = [65%N].
Proof. vm_compute. repeat split. Qed.

(** floating point with 16 significant digits: the digits printed are the exact value m*2^e scaled by a power of ten and rounded
    half-to-even: within half a unit of the 16th digit *)
Theorem C07_float_digits_nearest : forall m e, (0 < m)%Z ->
  let (x, q) := sig16 m e in
  exists x0, (q = rhe (fst (scaled m e (15 - x0))) (snd (scaled m e (15 - x0))) /\ x = x0 \/
              (10 ^ 16 <= rhe (fst (scaled m e (15 - x0))) (snd (scaled m e (15 - x0))))%Z /\ x = (x0 + 1)%Z /\ q = (10 ^ 15)%Z) /\
             (2 * Z.abs (fst (scaled m e (15 - x0)) - rhe (fst (scaled m e (15 - x0))) (snd (scaled m e (15 - x0))) * snd (scaled m e (15 - x0)))
               <= snd (scaled m e (15 - x0)))%Z.
Proof. exact sig16_nearest. Qed.
Print Assumptions C07_float_digits_nearest.
Example C07_float_texts :
  float_text AF64 4607182418800017408 = str "1" /\ float_text AF64 4591870180066957722 = str "0.1" /\
  float_text AF64 4906019910204099648 = str "1e+20" /\ float_text AF32 1036831949 = str "0.1000000014901161".
Proof. vm_compute. repeat split. Qed.

(** non-vacuity of the message theorem: "a={} b={}" with an int32 and a bool *)
Example C07_nonvacuous :
  message_loop float_text (mkTC true true true) 100 false [] default_cs (str "a={} b={}") (arg_tags [(AI32, 4294967289%N); (ABool, 1%N)]) (arg_bytes [(AI32, 4294967289%N); (ABool, 1%N)]) ts_init
  = (str "a=-7 b=true", true).
Proof. vm_compute. reflexivity. Qed.
