(** C05 — Serialize/deserialize round trip, also between tag-compatible types. *)
From Coq Require Import List NArith ZArith Bool.
From BL Require Import Base.Bytes Mser.Types Mser.Encode Mser.EncodeProofs Mser.Decode Mser.DecodeProofs Gen.SrcFacts.
Import ListNotations.
Local Open Scope N_scope.

(** deserializing the bytes the serializer produced yields the value, and consumes exactly those bytes *)
Theorem C05_decode_encode : forall v t rest, wt t v = true -> deser t = true -> dec t (enc t v ++ rest) = DOk (v, rest).
Proof. exact dec_enc. Qed.
Print Assumptions C05_decode_encode.

(** the same into a different destination type of the same shape (any sequence kinds: list for vector, array of the right
    extent for vector, pair for 2-tuple ...) *)
Theorem C05_decode_compatible : forall v s d rest, compat s d = true -> wt s v = true -> wt d v = true -> deser d = true ->
  dec d (enc s v ++ rest) = DOk (v, rest).
Proof. exact dec_compatible. Qed.
Print Assumptions C05_decode_compatible.

(** if the bytes end early - at ANY truncation point - deserialization fails with the short-read error, never succeeds *)
Theorem C05_truncated_input_fails : forall v t k, wt t v = true -> deser t = true -> (k < length (enc t v))%nat ->
  dec t (firstn k (enc t v)) = DErr DShort.
Proof. exact truncated_input_fails. Qed.
Print Assumptions C05_truncated_input_fails.

(** a fixed-size destination rejects an encoding of a different length *)
Theorem C05_fixed_size_mismatch_fails : forall k e ext (vs : list val) rest, sk_extent k = Some ext -> length vs <> ext ->
  N.of_nat (length vs) < 4294967296 -> dec (TSeq k e) (le_enc 4 (N.of_nat (length vs)) ++ rest) = DErr DSizeMismatch.
Proof. exact fixed_size_mismatch_fails. Qed.
Print Assumptions C05_fixed_size_mismatch_fails.

Example C05_nonvacuous :
  let s := TTuple [TSeq (mkSK true None) (TArith AI32); TOpt (TArith AChar)] in
  let d := TTuple [TSeq (mkSK false (Some 2%nat)) (TArith AI32); TOpt (TArith AChar)] in
  let v := VTup [VSeq [VRaw 1; VRaw 2]; VSome (VRaw 65)] in
  compat s d = true /\ dec d (enc s v) = DOk (v, []) /\ dec d (firstn 12 (enc s v)) = DErr DShort.
Proof. vm_compute. repeat split; reflexivity. Qed.
