(** C13 — Log rotation: each output is self-contained after reconsumeMetadata. *)
From Coq Require Import List ZArith NArith Bool.
From BL Require Import Base.Bytes Reader.Entry Queue.QueueModel Session.SessionModel Session.SessionInv Session.SessionProps Reader.ReaderLemmas Recovery.SessionCover Session.SessionCoverOut Gen.SrcFacts.
Import ListNotations.

(** [track] follows what the CURRENT output has received: a rotation starts a new output with the two writes of
    reconsumeMetadata. Invariant, preserved by every operation of every history: the sources the current output
    holds are exactly the consumed prefix of the session's sources, and unless a newer clock sync is pending the
    output holds every clock sync set so far. Consequently after EVERY consume the current output contains - before
    any event written by that consume - every source registered so far and every clock sync set so far (the last
    one being the one in force), whatever had or had not been consumed at the moment of rotation. *)
Theorem C13_rotation_metadata_complete : forall s o t, SInv s -> sop_ok o -> track_ok t s ->
  let (s', out) := sstep SrcFacts.sess_fence_after_closed_test s o in
  track_ok (track t s o out) s' /\
  (match o with SConsume _ => ot_src (track t s o out) = src_buf s' /\ ot_cs (track t s o out) = cs_buf s' | _ => True end).
Proof. generalize (eq_refl : SrcFacts.sess_fence_after_closed_test = true). generalize SrcFacts.sess_fence_after_closed_test. intros b_ ->. intros. now apply rotation_metadata_complete. Qed.
Print Assumptions C13_rotation_metadata_complete.

(** the metadata writes come first in every consume *)
Theorem C13_consume_metadata_first : forall s plans s' ws r, consume SrcFacts.sess_fence_after_closed_test s plans = (s', ws, r) ->
  exists data, ws = (if consume_cs s then [cs_buf s] else []) ++ [drop_pos s] ++ data /\
    src_buf s' = src_buf s /\ src_pos s' = lenN (src_buf s) /\ cs_buf s' = cs_buf s /\ consume_cs s' = false /\ next_sid s' = next_sid s.
Proof. generalize (eq_refl : SrcFacts.sess_fence_after_closed_test = true). generalize SrcFacts.sess_fence_after_closed_test. intros b_ ->. intros. eapply consume_metadata_first; eauto. Qed.
Print Assumptions C13_consume_metadata_first.

Example C13_initial_tracking : forall cs, track_ok (mkOT [] []) (sess_init cs).
Proof. intros cs. split; [reflexivity|discriminate]. Qed.

Example C13_srcfacts : SrcFacts.sess_reconsume_shape = true /\ SrcFacts.sess_consume_order = true /\ SrcFacts.sess_locks_reconsumeMetadata = true.
Proof. repeat split; reflexivity. Qed.

(** with the ids: once a consume has written its metadata part, the CURRENT output (whatever was or was not consumed before the rotation)
    holds a source for every id below [next_sid], and every event the consume then writes to it carries such an id *)
Theorem C13_current_output_self_contained : forall s plans t, SInv s -> CInv s -> track_ok t s -> Forall (plan_cov (next_sid s)) plans ->
  let '(s', ws, r) := consume true s plans in
  exists data srcs, ws = (if consume_cs s then [cs_buf s] else []) ++ [drop_pos s] ++ data /\
    ot_src t ++ drop_pos s = stream_of (map (fun p => src_payload (fst p) (snd p)) srcs) /\
    map fst srcs = map N.of_nat (seq 1 (N.to_nat (next_sid s) - 1)) /\
    Forall (piece_ok (next_sid s)) data.
Proof.
  generalize (eq_refl : SrcFacts.sess_reconsume_shape = true). generalize SrcFacts.sess_reconsume_shape. intros b1 ->.
  exact current_output_self_contained.
Qed.
Print Assumptions C13_current_output_self_contained.
