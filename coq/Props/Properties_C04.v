(** C04 — Encoded size is exact and the wire format is the documented one. *)
From Coq Require Import List NArith ZArith Bool.
From BL Require Import Base.Bytes Mser.Types Mser.Encode Mser.EncodeProofs Gen.SrcFacts.
Import ListNotations.
Local Open Scope N_scope.

(** For every type description (arithmetic kinds, plain/adapted enums, every sequence kind with its dispatch traits,
    tuples, optional-likes, variants, adapted structs - nested to any depth) and every well-typed value:
    the size reported equals the number of bytes written ... *)
Theorem C04_size_exact : forall v t, wt t v = true -> size_of t v = lenN (enc t v).
Proof. exact size_exact. Qed.
Print Assumptions C04_size_exact.

(** ... and the bytes written - whichever path the dispatch takes (batch copy or element-wise, sizeof fast path or
    summation) - are exactly the documented encoding, written in Mser/Encode.v without any dispatch. *)
Theorem C04_encode_is_documented : forall v t, wt t v = true -> enc t v = spec_enc t v.
Proof. exact enc_is_documented. Qed.
Print Assumptions C04_encode_is_documented.

(** Consequently an event occupies exactly the space addEvent reserved, and its size prefix is its payload length. *)
Theorem C04_event_within_reservation : forall id clock ts vs, length ts = length vs ->
  Forall (fun p => wt (fst p) (snd p) = true) (combine ts vs) -> 8 + 8 + args_size ts vs < 4294967296 ->
  lenN (event_bytes id clock ts vs) = event_total_size ts vs /\
  exists payload, event_bytes id clock ts vs = le_enc 4 (lenN payload) ++ payload.
Proof. exact event_within_reservation. Qed.
Print Assumptions C04_event_within_reservation.

Example C04_nonvacuous :
  let t := TStruct [83] [([97], TSeq (mkSK true None) (TArith AI16)); ([98], TOpt (TTuple [TArith ABool; TSeq (mkSK false None) (TArith AU8)]))] in
  let v := VTup [VSeq [VRaw 1; VRaw 65535]; VSome (VTup [VRaw 1; VSeq [VRaw 7]])] in
  wt t v = true /\ enc t v = [2;0;0;0; 1;0; 255;255; 1; 1; 1;0;0;0; 7] /\ size_of t v = 15.
Proof. vm_compute. repeat split; reflexivity. Qed.

(** addEvent computes totalSize = size + sizeof(uint32_t) and writes the size prefix, id, clock, arguments in this order *)
Example C04_srcfacts : SrcFacts.writer_addEvent_shape = true /\
  SrcFacts.wire_EventSource_ser = SrcFacts.wire_EventSource_des /\ SrcFacts.wire_WriterProp_ser = SrcFacts.wire_WriterProp_des /\
  SrcFacts.wire_ClockSync_ser = SrcFacts.wire_ClockSync_des.
Proof. repeat split; reflexivity. Qed.
