(** C06 — Type tag and visitation agree with serialization. *)
From Coq Require Import List NArith ZArith Bool.
From BL Require Import Base.Bytes Mser.Types Mser.Encode Mser.Tag Mser.Visit Mser.TagProofs Mser.EnumProofs Mser.VisitProofs Gen.SrcFacts.
Import ListNotations.
Local Open Scope N_scope.

(** the tag of every type description is a word of the documented grammar (doc/Mserialize.md, with c and y
    admitted as enum underlying kinds: the code produces them for enums over char / bool) *)
Theorem C06_tag_wellformed : forall t, wf_tag (tag t).
Proof. exact tag_wellformed. Qed.
Print Assumptions C06_tag_wellformed.

(** tag_pop splits a tag off whatever follows it, hence the concatenated tag of a log statement's arguments splits
    back into the individual argument tags - for every argument list whose struct / enum / field names are ok
    (no ` ' / \ and balanced ( ) < > { }: true of C++ type names incl. template names) *)
Theorem C06_tag_pop_tag : forall t rest, ty_ok t = true -> tag_pop (tag t ++ rest) = (tag t, rest).
Proof. exact tag_pop_tag. Qed.
Print Assumptions C06_tag_pop_tag.

Theorem C06_tag_pop_concat : forall ts rest, forallb ty_ok ts = true ->
  pop_all (length ts) (concat (map tag ts) ++ rest) = (map tag ts, rest).
Proof. exact tag_pop_concat. Qed.
Print Assumptions C06_tag_pop_concat.

(** visiting the serialized bytes with the type's tag reports exactly the value (sequence lengths, member names,
    selected alternative or null, every leaf with its kind and value) and consumes exactly its bytes.
    PARTIAL: proved for [simple] types (arithmetic, adapted enums over integral types - the enumerator is found by the same text search the code
    does -, sequences, tuples, optionals, variants, non-empty structs; no empty structs, no enums over bool, monostate only as a variant alternative),
    values whose sequences have at most 32 elements (the repeat collapsing is not involved) and nesting up to the
    documented limit 2048. Empty structs, longer sequences and hand-written recursive tags are tied by the
    correspondence runs (callback-by-callback against the real mserialize::visit) only. *)
Theorem C06_visit_agrees_partial : forall v t rest, wt t v = true -> simple false t = true -> ty_ok t = true ->
  short v = true -> (depth t <= 2048)%nat ->
  visit false no_special 2048 (tag t) (tag t) (enc t v ++ rest) = VOk (callbacks t v, rest).
Proof. exact visit_agrees_2048. Qed.
Print Assumptions C06_visit_agrees_partial.

(** the same for a visitor that takes whole strings and for any printStruct hook that leaves the type's struct names alone (what ToStringVisitor is) *)
Theorem C06_visit_agrees_any_visitor : forall full b sp v t inv, wt t v = true -> simple inv t = true -> t <> TUnit -> ty_ok t = true -> short v = true -> plain sp t ->
  forall fuel rest, (depth t <= fuel)%nat -> visit b sp fuel full (tag t) (Encode.spec_enc t v ++ rest) = VOk (callbacks_b b t v, rest).
Proof. exact visit_agrees_gen. Qed.
Print Assumptions C06_visit_agrees_any_visitor.

(** the enumerator reported for an adapted enum is the first one whose VALUE is the value visited (the hex text determines the value) *)
Theorem C06_enumerator_is_found_by_value : forall a es x, (x < 256 ^ N.of_nat (awidth a))%N -> Forall (fun e => (fst e < 256 ^ N.of_nat (awidth a))%N) es ->
  lookup a es (hex_Z (raw_to_Z a x)) = first_with_value es x.
Proof. exact lookup_by_value. Qed.
Print Assumptions C06_enumerator_is_found_by_value.

Example C06_nonvacuous :
  let t := TStruct [83] [([97], TSeq (mkSK true None) (TArith AI16)); ([98], TOpt (TVariant [TUnit; TTuple [TArith ABool; TArith AU8]]))] in
  let v := VTup [VSeq [VRaw 1; VRaw 65535]; VSome (VAlt 1 (VTup [VRaw 1; VRaw 7]))] in
  wt t v = true /\ simple false t = true /\ ty_ok t = true /\ short v = true /\
  visit false no_special 2048 (tag t) (tag t) (enc t v) = VOk (callbacks t v, []) /\ length (callbacks t v) = 18%nat.
Proof. vm_compute. repeat split; reflexivity. Qed.
