(** C06 — Type tag and visitation agree with serialization. *)
From Coq Require Import List NArith ZArith Bool.
From BL Require Import Base.Bytes Mser.Types Mser.Encode Mser.Tag Mser.Visit Mser.TagProofs Mser.VisitProofs Gen.SrcFacts.
Import ListNotations.
Local Open Scope N_scope.

(** the tag of every type description is a word of the documented grammar (doc/Mserialize.md, with c and y
    admitted as enum underlying kinds: the code produces them for enums over char / bool) *)
Theorem C06_tag_wellformed : forall t, wf_tag (tag t).
Proof. exact tag_wellformed. Qed.
Print Assumptions C06_tag_wellformed.

(** tag_pop splits a tag off whatever follows it, hence the concatenated tag of a log statement's arguments splits
    back into the individual argument tags - for every argument list whose struct / enum / field names are ok
    (no ` ' / \ and balanced ( ) < > { }: true of C++ type names incl. template names) *)
Theorem C06_tag_pop_tag : forall t rest, ty_ok t = true -> tag_pop (tag t ++ rest) = (tag t, rest).
Proof. exact tag_pop_tag. Qed.
Print Assumptions C06_tag_pop_tag.

Theorem C06_tag_pop_concat : forall ts rest, forallb ty_ok ts = true ->
  pop_all (length ts) (concat (map tag ts) ++ rest) = (map tag ts, rest).
Proof. exact tag_pop_concat. Qed.
Print Assumptions C06_tag_pop_concat.

(** visiting the serialized bytes with the type's tag reports exactly the value (sequence lengths, member names,
    selected alternative or null, every leaf with its kind and value) and consumes exactly its bytes.
    PARTIAL: proved for [simple] types (no adapted enums, no empty structs, monostate only as a variant alternative),
    values whose sequences have at most 32 elements (the repeat collapsing is not involved) and nesting up to the
    documented limit 2048. Enums, empty structs, longer sequences and hand-written recursive tags are tied by the
    correspondence runs (callback-by-callback against the real mserialize::visit) only. *)
Theorem C06_visit_agrees_partial : forall v t rest, wt t v = true -> simple false t = true -> ty_ok t = true ->
  short v = true -> (depth t <= 2048)%nat ->
  visit false no_special 2048 (tag t) (tag t) (enc t v ++ rest) = VOk (callbacks t v, rest).
Proof. exact visit_agrees_2048. Qed.
Print Assumptions C06_visit_agrees_partial.

Example C06_nonvacuous :
  let t := TStruct [83] [([97], TSeq (mkSK true None) (TArith AI16)); ([98], TOpt (TVariant [TUnit; TTuple [TArith ABool; TArith AU8]]))] in
  let v := VTup [VSeq [VRaw 1; VRaw 65535]; VSome (VAlt 1 (VTup [VRaw 1; VRaw 7]))] in
  wt t v = true /\ simple false t = true /\ ty_ok t = true /\ short v = true /\
  visit false no_special 2048 (tag t) (tag t) (enc t v) = VOk (callbacks t v, []) /\ length (callbacks t v) = 18%nat.
Proof. vm_compute. repeat split; reflexivity. Qed.
