(** C06 — Type tag and visitation agree with serialization. *)
From Coq Require Import List NArith ZArith Bool.
From BL Require Import Base.Bytes Mser.Types Mser.Encode Mser.Tag Mser.Visit Mser.TagProofs Mser.EnumProofs Mser.VisitProofs Gen.SrcFacts.
Import ListNotations.
Local Open Scope N_scope.

(** the tag of every type description is a word of the documented grammar (doc/Mserialize.md, with c and y
    admitted as enum underlying kinds: the code produces them for enums over char / bool) *)
Theorem C06_tag_wellformed : forall t, wf_tag (tag t).
Proof. exact tag_wellformed. Qed.
Print Assumptions C06_tag_wellformed.

(** tag_pop splits a tag off whatever follows it, hence the concatenated tag of a log statement's arguments splits
    back into the individual argument tags - for every argument list whose struct / enum / field names are ok
    (no ` ' / \ and balanced ( ) < > { }: true of C++ type names incl. template names) *)
Theorem C06_tag_pop_tag : forall t rest, ty_ok t = true -> tag_pop (tag t ++ rest) = (tag t, rest).
Proof. exact tag_pop_tag. Qed.
Print Assumptions C06_tag_pop_tag.

Theorem C06_tag_pop_concat : forall ts rest, forallb ty_ok ts = true ->
  pop_all (length ts) (concat (map tag ts) ++ rest) = (map tag ts, rest).
Proof. exact tag_pop_concat. Qed.
Print Assumptions C06_tag_pop_concat.

(** visiting the serialized bytes with the type's tag reports exactly the value (sequence lengths, member names,
    selected alternative or null, every leaf with its kind and value) and consumes exactly its bytes.
    PARTIAL: proved for [simple] types (arithmetic, adapted enums over integral types - the enumerator is found by the same text search the code
    does -, sequences of any length (more than 32 zero-size elements are reported once with the count: C06_singular_is_zero_size decides which), tuples,
    optionals, variants, structs - an empty struct {Name} under the hypothesis [empties]: the complete tag holds no definition of that name, which is how the
    code tells it from a recursive reference; no enums over bool, monostate only as a variant alternative) and nesting up to the documented limit 2048.
    Hand-written recursive tags are tied by the correspondence runs (callback-by-callback against the real mserialize::visit) only. *)
Theorem C06_visit_agrees_partial : forall v t rest, wt t v = true -> simple false t = true -> ty_ok t = true -> empties (tag t) t ->
  (depth t <= 2048)%nat ->
  visit false no_special 2048 (tag t) (tag t) (enc t v ++ rest) = VOk (callbacks t v, rest).
Proof. exact visit_agrees_2048. Qed.
Print Assumptions C06_visit_agrees_partial.

(** the same for a visitor that takes whole strings and for any printStruct hook that leaves the type's struct names alone (what ToStringVisitor is) *)
Theorem C06_visit_agrees_any_visitor : forall full b sp v t inv, wt t v = true -> simple inv t = true -> t <> TUnit -> ty_ok t = true -> plain sp t -> empties full t ->
  forall fuel rest, (depth t <= fuel)%nat -> visit b sp fuel full (tag t) (Encode.spec_enc t v ++ rest) = VOk (callbacks_b b t v, rest).
Proof. exact visit_agrees_gen. Qed.
Print Assumptions C06_visit_agrees_any_visitor.

(** the singular check of Singular.hpp answers "zero bytes per value" exactly, for every type of the universe *)
Theorem C06_singular_is_zero_size : forall full t fuel, simple true t = true -> ty_ok t = true -> empties full t -> (depth t <= fuel)%nat ->
  singular fuel full (tag t) = Some (zero_size t).
Proof. exact singular_agrees. Qed.
Print Assumptions C06_singular_is_zero_size.

(** the enumerator reported for an adapted enum is the first one whose VALUE is the value visited (the hex text determines the value) *)
Theorem C06_enumerator_is_found_by_value : forall a es x, (x < 256 ^ N.of_nat (awidth a))%N -> Forall (fun e => (fst e < 256 ^ N.of_nat (awidth a))%N) es ->
  lookup a es (hex_Z (raw_to_Z a x)) = first_with_value es x.
Proof. exact lookup_by_value. Qed.
Print Assumptions C06_enumerator_is_found_by_value.

(** the [empties] hypothesis is satisfiable: a struct holding an empty struct and a sequence of 40 of them (collapsed) *)
Example C06_empty_struct_nonvacuous :
  let e := TStruct [69] [] in
  let t := TStruct [79] [([97], e); ([98], TSeq (mkSK true None) e); ([99], TArith AU8)] in
  let v := VTup [VTup []; VSeq (repeat (VTup []) 40); VRaw 7] in
  (resolve_recursive_tag (tag t) (123 :: [69]) = []) /\ wt t v = true /\ simple false t = true /\
  visit false no_special 2048 (tag t) (tag t) (enc t v) = VOk (callbacks t v, []) /\ List.length (callbacks t v) = 17%nat.
Proof. vm_compute. repeat split; reflexivity. Qed.

Example C06_nonvacuous :
  let t := TStruct [83] [([97], TSeq (mkSK true None) (TArith AI16)); ([98], TOpt (TVariant [TUnit; TTuple [TArith ABool; TArith AU8]]))] in
  let v := VTup [VSeq [VRaw 1; VRaw 65535]; VSome (VAlt 1 (VTup [VRaw 1; VRaw 7]))] in
  wt t v = true /\ simple false t = true /\ ty_ok t = true /\ short v = true /\
  visit false no_special 2048 (tag t) (tag t) (enc t v) = VOk (callbacks t v, []) /\ length (callbacks t v) = 18%nat.
Proof. vm_compute. repeat split; reflexivity. Qed.
