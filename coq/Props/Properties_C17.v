(** C17 — Timestamps: printed time denotes sync + (clock - syncClock)/frequency. *)
From Coq Require Import List ZArith NArith Bool String Lia.
From BL Require Import Base.Bytes Reader.Entry Render.Time Render.Calendar Render.TimeProofs Gen.SrcFacts.
Import ListNotations.
Local Open Scope Z_scope.

(** the configuration of the code as read off the sources on this run *)
Definition cfg_src := mkTC SrcFacts.time_floor SrcFacts.time_yy_nonneg SrcFacts.time_tz_wide.

(** Reading of the statement: clock values are 64-bit counters, so clock - syncClock is the signed 64-bit
    wrap-around difference [d]; the instant is [t] = syncTime + d*10^9/f truncated toward zero (in ns). *)

(** ticksToNanoseconds: for 1 <= f <= 9223372036 and every tick count whose result is representable, the value
    computed is the exact quotient truncated toward zero — no intermediate overflow — hence within 1 ns. *)
Theorem C17_ticks_exact : forall f d, (0 < f)%N -> Z.of_N f <= max_freq -> - two63 <= d < two63 ->
  - two63 < trunc_ns d (Z.of_N f) < two63 ->
  ticks_to_ns f d = trunc_ns d (Z.of_N f) /\ Z.abs (d * giga - Z.of_N f * trunc_ns d (Z.of_N f)) < Z.of_N f.
Proof. intros. split; [now apply ticks_exact | apply trunc_ns_error; lia]. Qed.
Print Assumptions C17_ticks_exact.

(** The calendar: for EVERY integer day number the date computed is valid and denotes that day of the proleptic
    Gregorian calendar (counting definition in Render/Calendar.v). *)
Theorem C17_civil_from_days_correct : forall z,
  let '(y, m, d) := civil_from_days z in valid_date y m d /\ days_from_civil y m d = z.
Proof. exact civil_from_days_correct. Qed.
Print Assumptions C17_civil_from_days_correct.

(** %u: UTC. For every clock sync with 1 <= f <= 9223372036, syncTime < 2^63 and every clock value whose instant t
    lies in [0, 2^63) ns (epoch .. 2262-04-11): what is printed is the date format applied to a broken-down time
    that denotes t exactly (year, month, day, hour, minute, second, nanoseconds), and t is within one nanosecond of
    syncTime + d/f. *)
Theorem C17_utc_time_denotes_instant : forall cs clock tfmt,
  let f := Z.of_N (cs_freq cs) in
  let d := wrap64 (Z.of_N clock - Z.of_N (cs_clock cs)) in
  let t := Z.of_N (cs_ns cs) + trunc_ns d f in
  (0 < cs_freq cs)%N -> f <= max_freq -> (cs_ns cs < 9223372036854775808)%N ->
  - two63 < trunc_ns d f < two63 -> 0 <= t < two63 ->
  render_clock cfg_src false tfmt cs clock = time_loop cfg_src tfmt (broken_down true t) 0 (str "UTC")
  /\ bdt_denotes (broken_down true t) t
  /\ Z.abs (d * giga - f * (t - Z.of_N (cs_ns cs))) < f.
Proof. unfold cfg_src. generalize (eq_refl : SrcFacts.time_floor = true). generalize SrcFacts.time_floor. intros b_ ->. generalize (eq_refl : SrcFacts.time_yy_nonneg = true). generalize SrcFacts.time_yy_nonneg. intros b2_ ->. generalize (eq_refl : SrcFacts.time_tz_wide = true). generalize SrcFacts.time_tz_wide. intros b3_ ->. intros. now apply utc_time_denotes. Qed.
Print Assumptions C17_utc_time_denotes_instant.

(** %d: producer-local time = the same instant shifted by the zone offset of the clock sync, printed with that
    offset and zone name; also when the shifted instant is negative (local time before 1970). *)
Theorem C17_local_time_denotes_instant : forall cs clock tfmt,
  let f := Z.of_N (cs_freq cs) in
  let d := wrap64 (Z.of_N clock - Z.of_N (cs_clock cs)) in
  let t := Z.of_N (cs_ns cs) + trunc_ns d f in
  let tz := s32 (cs_tz cs) in
  (0 < cs_freq cs)%N -> f <= max_freq -> (cs_ns cs < 9223372036854775808)%N ->
  - two63 < trunc_ns d f < two63 -> 0 <= t < two63 -> - two63 + giga <= t + tz * giga < two63 ->
  render_clock cfg_src true tfmt cs clock
    = time_loop cfg_src tfmt (broken_down true (t + tz * giga)) tz (cstr_t (cs_tzname cs))
  /\ bdt_denotes (broken_down true (t + tz * giga)) (t + tz * giga).
Proof. unfold cfg_src. generalize (eq_refl : SrcFacts.time_floor = true). generalize SrcFacts.time_floor. intros b_ ->. generalize (eq_refl : SrcFacts.time_yy_nonneg = true). generalize SrcFacts.time_yy_nonneg. intros b2_ ->. generalize (eq_refl : SrcFacts.time_tz_wide = true). generalize SrcFacts.time_tz_wide. intros b3_ ->. intros. now apply local_time_denotes. Qed.
Print Assumptions C17_local_time_denotes_instant.

(** without a usable clock sync the placeholder is printed *)
Theorem C17_no_sync_placeholder : forall local tfmt cs clock,
  s64 (cs_freq cs) <= 0 -> render_clock cfg_src local tfmt cs clock = (str "no_clock_sync?", true).
Proof. intros. now apply no_sync_placeholder. Qed.
Print Assumptions C17_no_sync_placeholder.

(** the arithmetic of the model is the arithmetic of Time.cpp / PrettyPrinter.cpp as written now *)
Example C17_srcfacts : SrcFacts.time_ticks_formula = true /\ SrcFacts.time_clock_formula = true /\ SrcFacts.time_local_adds_offset = true.
Proof. repeat split; reflexivity. Qed.

(** the tree before the D3 fix (truncation toward zero) does not satisfy it *)
Theorem C17_truncation_refuted : ~ bdt_denotes (broken_down false (-1799500000000)) (-1799500000000).
Proof. exact broken_down_trunc_refuted. Qed.
Print Assumptions C17_truncation_refuted.

(** non-vacuity: a sync at the epoch, 1 GHz, zone -1h, clock 1800.5 s: local time is 1969-12-31 23:30:00.5 *)
Example C17_nonvacuous :
  broken_down SrcFacts.time_floor (1800500000000 + (-3600) * giga) = mkBdt 1969 12 31 23 30 0 500000000.
Proof. generalize (eq_refl : SrcFacts.time_floor = true). generalize SrcFacts.time_floor. intros b_ ->. vm_compute. reflexivity. Qed.
