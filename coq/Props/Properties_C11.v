(** C11 — Consumed stream framing: whole entries per write, exact batches, right writer. *)
From Coq Require Import List ZArith NArith Bool.
From BL Require Import Base.Bytes Reader.Entry Reader.ReaderLemmas Queue.QueueModel Queue.QueueInv
  Session.SessionModel Session.SessionInv Gen.SrcFacts.
Import ListNotations.

(** For every history of writer creation, renames, log calls (with channel replacement when a queue is too small),
    closes, clock syncs, source registrations, consumes - each with an arbitrary plan of lock-free writer actions
    happening inside it and arbitrary reads-from choices - and rotations: every individual write issued to the output
    is a whole number of complete entries; the channel part of a consume is a list of batches, each a writer
    description carrying that channel's id and name and a batch size equal to the byte length of the one or two
    pieces that immediately follow it; the byte count reported is the number of bytes written. *)
Theorem C11_session_framing : forall cs ops, Forall sop_ok ops ->
  Forall (fun out => match out with
                     | SoWrites ws r => Forall whole ws /\ cr_bytes r = fold_left (fun a w => (a + lenN w)%N) ws 0%N /\
                                        exists meta data, ws = meta ++ data /\ batches data /\ (length meta <= 2)%nat
                     | _ => True end)
         (snd (srun SrcFacts.sess_fence_after_closed_test (sess_init cs) ops)).
Proof. generalize (eq_refl : SrcFacts.sess_fence_after_closed_test = true). generalize SrcFacts.sess_fence_after_closed_test. intros b_ ->. intros. now apply session_framing. Qed.
Print Assumptions C11_session_framing.

(** built on C01: the two pieces of a poll are runs of whole commits, for every reads-from choice *)
Theorem C11_pieces_are_whole_entries : forall k q q' p1 p2, q_ok q -> cread k q = (q', (p1, p2)) -> q_ok q' /\ whole p1 /\ whole p2.
Proof. exact q_ok_cread. Qed.
Print Assumptions C11_pieces_are_whole_entries.

Example C11_srcfacts :
  SrcFacts.sess_consume_order = true /\ SrcFacts.sess_reconsume_shape = true /\ SrcFacts.sess_metadata_single_write = true /\
  SrcFacts.writer_addEvent_shape = true /\ SrcFacts.writer_replace_shape = true /\ SrcFacts.sess_locks_consume = true.
Proof. repeat split; reflexivity. Qed.
