(** C01 — SPSC queue: atomic commit, FIFO, exactly-once under every schedule. *)
From Coq Require Import List ZArith NArith Bool.
From BL Require Import Base.Bytes Queue.QueueModel Queue.QueueInv Gen.SrcFacts.
Import ListNotations.
Local Open Scope Z_scope.

(** The model (Queue/QueueModel.v) is the release/acquire machine for two single-writer atomic indices: a load of
    the other thread's index may return ANY store not older than the newest one already seen ([k] in every
    operation is that reads-from choice). It is an execution of the C++11 model only if the orders in the source are
    at least these (memory_order numbering: relaxed 0, consume 1, acquire 2, release 3, acq_rel 4, seq_cst 5): *)
Definition is_acquire (o : N) : bool := (N.eqb o 2 || N.eqb o 4 || N.eqb o 5)%bool.
Definition is_release (o : N) : bool := (N.eqb o 3 || N.eqb o 4 || N.eqb o 5)%bool.
Example C01_orders :
  is_release SrcFacts.q_endWrite_storeW = true /\ is_acquire SrcFacts.q_beginRead_loadW = true /\
  is_release SrcFacts.q_endRead_storeR = true /\ is_acquire SrcFacts.q_max_loadR = true /\
  SrcFacts.q_indices_atomic = true.
Proof. repeat split; reflexivity. Qed.
(** ... and the branch structure of the five member functions is the one the model transcribes *)
Example C01_shapes :
  SrcFacts.q_maximize_shape = true /\ SrcFacts.q_beginWrite_shape = true /\ SrcFacts.q_endWrite_shape = true /\
  SrcFacts.q_beginRead_shape = true /\ SrcFacts.q_endRead_shape = true.
Proof. repeat split; reflexivity. Qed.

(** The invariant holds in every state reachable by any sequence of producer/consumer operations, for every
    capacity (0 and 1 included), every commit size and every reads-from choice. *)
Theorem C01_invariant_reachable : forall c ops, 0 <= c -> Inv (fst (qrun (init c) ops)).
Proof. exact queue_inv_reachable. Qed.
Print Assumptions C01_invariant_reachable.

(** Refinement to a FIFO log: a granted write appends its bytes as one commit; a failed or abandoned request
    changes nothing; every batch beginRead shows is the committed bytes from what has been released up to a commit
    boundary between what the consumer had seen and the newest commit, and each of its two pieces is itself
    delimited by commit boundaries (whole commits); endRead releases exactly what was shown. Hence nothing
    uncommitted, torn, duplicated, overwritten or reordered is ever delivered. *)
Theorem C01_queue_refines_fifo : forall s o, Inv s ->
  let (s', out) := qstep s o in spec_step (abs s) o out (abs s').
Proof. exact queue_refines_fifo. Qed.
Print Assumptions C01_queue_refines_fifo.

(** if the consumer's load reads the newest store, the batch reaches the last commit *)
Theorem C01_quiescent_delivers_all : forall k s s' p1 p2, Inv s -> (length (Wpend s) <= k)%nat ->
  cread k s = (s', (p1, p2)) -> p1 ++ p2 = slice (strm s) (sT (r_new s)) (lenS s).
Proof. exact quiescent_delivers_all. Qed.
Print Assumptions C01_quiescent_delivers_all.

(** no committed byte that the consumer has not released - as far as the producer can know, i.e. even less - lies
    in the window the producer has been granted *)
Theorem C01_window_disjoint_unreleased : forall s x, Inv s -> sT (Rcur s) <= x < lenS s ->
  ~ (wpos s <= phys s x < wend s).
Proof. exact window_disjoint_unreleased. Qed.
Print Assumptions C01_window_disjoint_unreleased.

(** the plain field dataEnd is rewritten only when no store the consumer can still acquire is a lap ahead of what
    it has released, i.e. when no beginRead can be reading it *)
Theorem C01_wrap_excludes_dataEnd_reader : forall s, Inv s -> dataEnd (pmax0 s) <> dataEnd s ->
  forall a, In a (Wcur s :: Wpend s) -> sb a = sb (r_new s).
Proof. exact wrap_excludes_dataEnd_reader. Qed.
Print Assumptions C01_wrap_excludes_dataEnd_reader.

(** non-vacuity: a 9-byte queue through a wrap with a stale read of the read index *)
Example C01_nonvacuous :
  snd (qrun (init 9) [OpWrite 0 [1;2;3;4;5]%N; OpRead 1; OpEndRead; OpWrite 0 [6;7;8;9]%N; OpWrite 0 [10;11;12]%N;
                      OpWrite 5 [10;11;12]%N; OpRead 0; OpRead 9])
  = [OutGrant true; OutBatch [1;2;3;4;5]%N []; OutNone; OutGrant true; OutGrant false; OutGrant true;
     OutBatch [] []; OutBatch [6;7;8;9]%N [10;11;12]%N].
Proof. vm_compute. reflexivity. Qed.
