(** C19 — Severity control: disabled statements produce nothing and evaluate nothing. *)
From Coq Require Import List ZArith NArith Bool.
From BL Require Import Base.Bytes Reader.Entry Session.SessionModel Session.SessionProps Gen.SrcFacts.
Import ListNotations.
Local Open Scope N_scope.

Theorem C19_disabled_statement_is_noop : forall s w k l, lg_sev l < min_sev s -> log_stmt s w k l = (s, false).
Proof. exact disabled_statement_is_noop. Qed.
Print Assumptions C19_disabled_statement_is_noop.

Theorem C19_enabled_statement_one_event : forall s w k l, min_sev s <= lg_sev l ->
  exists s1 sid, log_stmt s w k l = (fst (add_event s1 w k (le_enc 8 sid ++ le_enc 8 (lg_clock l) ++ lg_args l)), true) /\
    ((assoc (lg_site l) (sites s) = Some sid /\ s1 = s) \/
     (assoc (lg_site l) (sites s) = None /\ sid = next_sid s /\ next_sid s1 = next_sid s + 1 /\
      assoc (lg_site l) (sites s1) = Some sid /\ channels s1 = channels s /\ min_sev s1 = min_sev s)).
Proof. exact enabled_statement_one_event. Qed.
Print Assumptions C19_enabled_statement_one_event.

Theorem C19_change_takes_effect : forall s sev w k l, lg_sev l < sev -> log_stmt (set_min_sev s sev) w k l = (set_min_sev s sev, false).
Proof. exact min_severity_change_takes_effect. Qed.
Print Assumptions C19_change_takes_effect.

(** the statement model is what the macros expand to: the comparison encloses source creation, argument
    evaluation and the event in all four families; the minimum is an atomic stored with release, loaded with acquire *)
Definition is_acquire (o : N) : bool := (N.eqb o 2 || N.eqb o 4 || N.eqb o 5)%bool.
Definition is_release (o : N) : bool := (N.eqb o 3 || N.eqb o 4 || N.eqb o 5)%bool.
Example C19_srcfacts :
  SrcFacts.macro_if_guards_everything = true /\ SrcFacts.macro_families_use_if = true /\ SrcFacts.macro_registers_then_stores_sid = true /\
  SrcFacts.sev_is_atomic = true /\ is_acquire SrcFacts.sev_load_order = true /\ is_release SrcFacts.sev_store_order = true.
Proof. repeat split; reflexivity. Qed.
