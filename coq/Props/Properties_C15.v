(** C15 — Forward compatibility: unknown metadata and trailing fields are ignored. *)
From Coq Require Import List NArith Bool String.
From BL Require Import Base.Bytes Reader.Entry Reader.SegMap Reader.EventStream Reader.ReaderLemmas
  Reader.StreamProofs Gen.SrcFacts.
Import ListNotations.
Local Open Scope N_scope.

(** For every renderer that does not look at bytes behind the arguments it decodes, every log whose read
    completes, and every decoration of it (unknown special entries — any tag with the top bit set other than
    the three defined ones — inserted anywhere; arbitrary bytes appended to any entry): the decorated log reads
    to the same end state and prints the same text for every event, from the same sources. *)
Theorem C15_decoration_invisible :
  forall (render : view -> bytes * bool),
  (forall s w c k args extra txt, render (mkView s w c k args) = (txt, true) ->
                                  render (mkView s w c k (args ++ extra)) = (txt, true)) ->
  forall ps ps', decorated ps ps' -> forall rs ls rsf tail,
  Forall nonempty ps ->
  read_fold render rs ps tail = (ls, [], EndOk, rsf) ->
  exists ls', read_fold render rs ps' tail = (ls', [], EndOk, rsf) /\ map snd ls' = map snd ls
              /\ map (fun l => v_src (fst l)) ls' = map (fun l => v_src (fst l)) ls.
Proof. exact decoration_invisible. Qed.
Print Assumptions C15_decoration_invisible.

(** the metadata decoders read fields in the wire order of Entries.hpp and ignore what follows *)
Local Open Scope string_scope.
Example C15_wire_order :
  SrcFacts.wire_EventSource_des = ["id"; "severity"; "category"; "function"; "file"; "line"; "formatString"; "argumentTags"]
  /\ SrcFacts.wire_WriterProp_des = ["id"; "name"; "batchSize"]
  /\ SrcFacts.wire_ClockSync_des = ["clockValue"; "clockFrequency"; "nsSinceEpoch"; "tzOffset"; "tzName"]
  /\ SrcFacts.wire_EventSource_ser = SrcFacts.wire_EventSource_des
  /\ SrcFacts.wire_WriterProp_ser = SrcFacts.wire_WriterProp_des
  /\ SrcFacts.wire_ClockSync_ser = SrcFacts.wire_ClockSync_des.
Proof. repeat split; reflexivity. Qed.
Example C15_tags : SrcFacts.tag_EventSource = tag_source /\ SrcFacts.tag_WriterProp = tag_wp /\ SrcFacts.tag_ClockSync = tag_cs.
Proof. repeat split; reflexivity. Qed.
