(** C16 — Event filter: filtering then reading equals reading then filtering.
    Only statements, each closed by [exact], instantiated with the facts read off /repo's sources. *)
From Coq Require Import List NArith Bool.
From BL Require Import Base.Bytes Reader.Entry Reader.SegMap Reader.EventStream Reader.Filter
  Reader.ReaderLemmas Reader.FilterProofs Gen.SrcFacts.
Import ListNotations.
Local Open Scope N_scope.

(** For every predicate over sources, every renderer of events, every stream of whole entries whose
    unfiltered read completes (every event has a defined source and a clock, metadata decodes, rendering
    succeeds) and every split of it into whole-entry chunks: no call of writeAllowed fails; reading the
    concatenated output yields exactly the lines of the unfiltered read whose source (the most recent
    definition of the id, which is what the reader resolved) satisfies the predicate, with the same text and
    the same final reader state; and the special entries of the output are those of the input. *)
Theorem C16_filter_commutes :
  forall (pred : source -> bool) (render : view -> bytes * bool) (chunks : list (list bytes)) ls part rsf,
  Forall (Forall wf_payload) chunks -> Forall (Forall nonempty) chunks ->
  read_lines render rs_init (concat (map stream_of chunks)) = (ls, part, EndOk, rsf) ->
  let outs := write_allowed_chunks pred SrcFacts.filter_erases_on_fail [] (map stream_of chunks) in
  let filtered := concat (concat (map fst outs)) in
  Forall (fun o => snd o = EndOk) outs
  /\ read_lines render rs_init filtered = (filter (keep pred) ls, [], EndOk, rsf)
  /\ (exists qs, scan filtered = (qs, SEof) /\
        filter is_special_payload qs = filter is_special_payload (concat chunks)).
Proof. generalize (eq_refl : SrcFacts.filter_erases_on_fail = true). generalize SrcFacts.filter_erases_on_fail. intros b_ ->. exact filter_commutes_gen. Qed.
Print Assumptions C16_filter_commutes.

(** The same statement is false of a filter that never forgets an id (the tree before the D1 fix). *)
Theorem C16_without_erase_refuted : filtered_text false <> expected_text.
Proof. exact filter_without_erase_refuted. Qed.
Print Assumptions C16_without_erase_refuted.

(** Non-vacuity: the witness stream meets the hypotheses and the conclusion is about two real events. *)
Example C16_nonvacuous : filtered_text SrcFacts.filter_erases_on_fail = expected_text /\ expected_text <> [].
Proof. generalize (eq_refl : SrcFacts.filter_erases_on_fail = true). generalize SrcFacts.filter_erases_on_fail. intros b_ ->. split; [exact filter_with_erase_witness_ok | vm_compute; discriminate]. Qed.

(** the filter model writes entry by entry, like the code *)
Example C16_srcfact_per_entry : SrcFacts.filter_writes_per_entry = true.
Proof. reflexivity. Qed.
