(** C08 — Crash recovery: committed-but-unconsumed events are recoverable at any instant.
    By theorem: the queue block and the metadata block, each for every reachable state of its own protocol (incl. the instants inside a
    commit and inside a metadata write), and - for every reachable state of the session model BETWEEN operations - that the blocks of the
    session combine into a printable log (clock syncs and sources first, and the sources cover every unreleased event).
    PARTIAL: the combination at instants INSIDE a session operation is checked on real memory images of the real process by the
    real brecovery (tools/p_C08.py). *)
From Coq Require Import List ZArith NArith Bool Lia.
From BL Require Import Base.Bytes Queue.QueueModel Queue.QueueInv Recovery.Recover Recovery.RecoverProofs Recovery.ImageProofs Recovery.Vos Recovery.SortProofs Recovery.SessionImage Recovery.SessionCover Session.SessionModel Reader.Entry Reader.ReaderLemmas Gen.SrcFacts.
Import ListNotations.
Local Open Scope Z_scope.

(** For EVERY capacity, every sequence of producer / consumer operations (incl. abandoned and failed requests, wraps, polls that saw
    stale write indices, releases) and every reads-from history: the memory of the channel, as Session::Channel lays it out, is read by the
    tool as exactly the committed bytes from the consumer's released offset to the last commit - every event whose add completed and
    which was not yet released, in order, nothing else. *)
Theorem C08_queue_image_recovers_committed : forall c ops session ptr rest,
  let s := fst (qrun (init c) ops) in
  0 <= c < 2 ^ 64 -> (session < 2 ^ 64)%N -> (ptr < 2 ^ 64)%N -> whole_entries (unreleased s) = true ->
  read_data (queue_block session ptr s ++ rest) = Some (RB true session (unreleased s), rest).
Proof.
  generalize (eq_refl : SrcFacts.q_endWrite_storeW = 3%N). generalize SrcFacts.q_endWrite_storeW at 1. intros o_ _.
  intros c ops session ptr rest s Hc Hs Hp Hw. subst s.
  apply queue_image_recovered; try assumption; try lia.
  - apply queue_inv_reachable. lia.
  - apply dataEnd_ok_reachable. lia.
  - rewrite cap_qrun. cbn. lia.
Qed.
Print Assumptions C08_queue_image_recovers_committed.

(** the recovered range starts and ends at commit boundaries: no partially written or uncommitted event *)
Theorem C08_recovered_range_is_whole_commits : forall c ops, 0 <= c ->
  let s := fst (qrun (init c) ops) in In (sT (r_new s)) (cuts s) /\ In (lenS s) (cuts s).
Proof.
  intros c ops Hc s. pose proof (queue_inv_reachable c ops Hc) as HI. fold s in HI. split.
  - destruct (rec_ok_of s (r_new s) HI (chain_in_R s _ (r_new_in s))) as (_ & _ & _ & H & _). exact H.
  - destruct (rec_ok_of s (w_new s) HI (w_new_in_chain s)) as (_ & _ & _ & H & _). rewrite (I_T s HI) in H. exact H.
Qed.

(** a crash while an event is being written into granted space (any bytes anywhere in the granted window): invisible *)
Theorem C08_partial_event_invisible : forall session ptr s pos bytes rest, Inv s -> 0 <= dataEnd s <= cap s -> cap s < 2 ^ 64 ->
  (session < 2 ^ 64)%N -> (ptr < 2 ^ 64)%N -> whole_entries (unreleased s) = true ->
  wpos s <= pos -> pos + Z.of_nat (length bytes) <= wend s ->
  read_data (queue_block session ptr (scribble s pos bytes) ++ rest) = Some (RB true session (unreleased s), rest).
Proof. exact partial_event_invisible. Qed.
Print Assumptions C08_partial_event_invisible.

(** metadata: in every memory state a write() of the recoverable buffer goes through - growth included - some block with its magic set
    holds exactly the entries whose write had completed, and the tool reads them *)
Theorem C08_metadata_recoverable_in_every_write_state : forall data e grow v, wstate data e grow v -> recoverable data v.
Proof.
  generalize (eq_refl : SrcFacts.vos_grow_protocol = true). generalize SrcFacts.vos_grow_protocol. intros b1 ->.
  generalize (eq_refl : SrcFacts.sess_metadata_single_write = true). generalize SrcFacts.sess_metadata_single_write. intros b2 ->.
  exact every_write_state_recoverable.
Qed.
Theorem C08_good_block_recovered : forall data b id rest, good data b -> (id < 2 ^ 64)%N -> (lenN data < 2 ^ 64)%N -> whole_entries data = true ->
  exists rest', read_meta (block_image id b ++ rest) = Some (RB false id data, rest').
Proof. exact good_block_recovered. Qed.
Print Assumptions C08_metadata_recoverable_in_every_write_state.

(** the whole image: arbitrary bytes, metadata blocks whose magic is set, channel blocks in any reachable state, in any order and number.
    Under the scanner's hypothesis (no byte sequence equal to a magic number starts inside the arbitrary bytes) the tool finds exactly the blocks
    and reads from each what the theorems above say ... *)
Theorem C08_scan_finds_the_blocks : forall l, segs_ok l -> scan (image_of l) = concat (map seg_found l).
Proof. exact scan_finds_the_blocks. Qed.
Print Assumptions C08_scan_finds_the_blocks.
Theorem C08_recovered_log_of_an_image : forall l, segs_ok l -> recover (image_of l) = concat (map rb_data (rb_sort (concat (map seg_found l)))).
Proof. exact recover_image. Qed.
(** ... and writes, for every session, all metadata it recovered (clock syncs, sources) before any data: each recovered event is preceded by them *)
Theorem C08_metadata_before_data : forall image pre d mid m post,
  rb_sort (scan_image (S (length image)) image) = pre ++ d :: mid ++ m :: post ->
  rb_session d = rb_session m -> rb_is_data d = true -> rb_is_data m = false -> False.
Proof. exact metadata_before_data. Qed.
Print Assumptions C08_metadata_before_data.

(** the session: for EVERY history of writers created and destroyed, log statements, sources, clock syncs, raw events carrying ids the
    session handed out, queue replacements and consumes with lock-free writer actions inside them (any reads-from choices), the memory of
    the resulting state - its clock-sync buffer, its sources buffer and every channel, with any other memory around them that contains no
    magic number - is read back by the tool as: clock syncs, sources, then the committed-but-unreleased events of every channel in order;
    at least one clock sync is there, and every recovered event carries a source id whose source entry is among the recovered sources. *)
Theorem C08_session_state_recovered : forall fence c ops sp ptr l,
  small (cs_payload c) -> run_cov fence (sess_init c) ops ->
  let s := fst (srun fence (sess_init c) ops) in
  (sp < 2 ^ 64)%N -> (forall ch, (ptr ch < 2 ^ 64)%N) -> Forall (fun ch => cap (ch_q ch) < 2 ^ 64) (channels s) ->
  (lenN (cs_buf s) < 2 ^ 64)%N -> (lenN (src_buf s) < 2 ^ 64)%N ->
  weave l (session_blocks sp ptr s) -> junk_ok l ->
  recover (image_of l) = cs_buf s ++ src_buf s ++ concat (map (fun ch => unreleased (ch_q ch)) (channels s))
  /\ (exists css, css <> [] /\ cs_buf s = stream_of (map cs_payload css))
  /\ (exists srcs, src_buf s = stream_of (map (fun p => src_payload (fst p) (snd p)) srcs)
       /\ forall ch, In ch (channels s) -> exists evs, unreleased (ch_q ch) = concat evs
            /\ Forall (fun e => exists id rest, e = frame (le_enc 8 id ++ rest) /\ In id (map fst srcs)) evs).
Proof.
  generalize (eq_refl : SrcFacts.macro_registers_then_stores_sid = true). generalize SrcFacts.macro_registers_then_stores_sid. intros b1 ->.
  exact session_state_recovered.
Qed.
Print Assumptions C08_session_state_recovered.
(** histories made of log statements (no raw addEvent) satisfy the premise whatever the state *)
Theorem C08_log_statement_histories_are_covered : forall fence ops, Forall op_static ops -> forall s, run_cov fence s ops.
Proof. exact run_static. Qed.
Example C08_session_nonvacuous : Forall op_static ex_ops /\
  let s := fst (srun true (sess_init ex_cs) ex_ops) in
  map (fun ch => unreleased (ch_q ch)) (channels s) =
    [[]; entry_event 1 102 [3; 0; 0; 0]; entry_event 2 103 [4; 0; 0; 0] ++ entry_event 1 104 [5; 0; 0; 0]]%N /\ next_sid s = 3%N.
Proof. split; [exact ex_static|exact ex_unreleased]. Qed.

(** non-vacuity: junk, a clock-sync block, junk with a stray first-magic byte, a wrapped queue, a sources block *)
Example C08_image_nonvacuous :
  let s := fst (qrun (init 16) [OpWrite 9 [1;0;0;0;65]%N; OpRead 9; OpEndRead; OpWrite 9 [2;0;0;0;67;68]%N; OpWrite 9 [1;0;0;0;69]%N]) in
  let img := [SJunk [1; 188; 2]%N; SMeta 7 [1;0;0;0;77]%N; SJunk [188; 189; 53]%N; SQueue 7 4096 s; SMeta 7 [1;0;0;0;78]%N] in
  recover (image_of img) = [1;0;0;0;77; 1;0;0;0;78; 2;0;0;0;67;68; 1;0;0;0;69]%N.
Proof. vm_compute. reflexivity. Qed.

Example C08_srcfacts : SrcFacts.channel_dtor_clears_magic_first = true /\ SrcFacts.lib_magic_data = SrcFacts.recov_magic_data /\ SrcFacts.lib_magic_meta = SrcFacts.recov_magic_meta.
Proof. repeat split; vm_compute; reflexivity. Qed.

(** non-vacuity: a queue of capacity 16 after two commits, one poll and release, a third commit that wraps *)
Example C08_nonvacuous :
  let s := fst (qrun (init 16) [OpWrite 9 [1;0;0;0;65]%N; OpWrite 9 [1;0;0;0;66]%N; OpRead 9; OpEndRead; OpWrite 9 [2;0;0;0;67;68]%N; OpWrite 9 [1;0;0;0;69]%N]) in
  unreleased s = [2;0;0;0;67;68; 1;0;0;0;69]%N /\ whole_entries (unreleased s) = true.
Proof. vm_compute. split; reflexivity. Qed.
