(** C10 — Thread safety: documented-concurrent use is free of data races.
    Two kinds of shared state:
    (1) the queue bytes and dataEnd, handed over by release/acquire pairs on the two indices: race freedom is a theorem on the
        release/acquire machine of C01 (every reads-from choice = every C++11 execution, not only those x86 produces);
    (2) everything else in Session / Channel: protected by the session mutex or atomic: the table of accesses is regenerated from the
        sources on every run and the lock discipline is decided on it here.
    What a Coq model cannot exhibit - real threads on real hardware - is observed with ThreadSanitizer (tools/p_C10.py). *)
From Coq Require Import List ZArith NArith Bool String.
From BL Require Import Base.Bytes Queue.QueueModel Queue.QueueInv Gen.SrcFacts.
Import ListNotations.
Local Open Scope Z_scope.

Definition is_acquire (o : N) : bool := (N.eqb o 2 || N.eqb o 4 || N.eqb o 5)%bool.
Definition is_release (o : N) : bool := (N.eqb o 3 || N.eqb o 4 || N.eqb o 5)%bool.
Example C10_orders :
  is_release SrcFacts.q_endWrite_storeW = true /\ is_acquire SrcFacts.q_beginRead_loadW = true /\
  is_release SrcFacts.q_endRead_storeR = true /\ is_acquire SrcFacts.q_max_loadR = true /\ SrcFacts.q_indices_atomic = true /\
  SrcFacts.sev_is_atomic = true /\ SrcFacts.macro_registers_then_stores_sid = true /\ SrcFacts.sess_fence_after_closed_test = true.
Proof. repeat split; reflexivity. Qed.

(** (1a) No byte the consumer may still read (committed, not yet released by the consumer) lies in the window the producer is allowed
    to write - in every reachable state, whatever stale value of the read index the producer has acquired. *)
Theorem C10_producer_never_writes_readable_bytes : forall c ops x, 0 <= c ->
  let s := fst (qrun (init c) ops) in
  sT (r_new s) <= x < lenS s -> ~ (wpos s <= phys s x < wend s).
Proof.
  intros c ops x Hc s Hx. pose proof (queue_inv_reachable c ops Hc) as HI. fold s in HI.
  apply window_disjoint_unreleased; [exact HI|]. destruct (rcur_le_r_new s HI) as [H _]. split; [|tauto]. apply Z.le_trans with (sT (r_new s)); tauto.
Qed.
Print Assumptions C10_producer_never_writes_readable_bytes.

(** (1b) Every byte the consumer reads was committed before the store of the write index it acquired: the batch is a slice of the
    committed stream ending at that store (so the read happens-after the write of each byte, by the release/acquire pair). *)
Theorem C10_consumer_reads_only_published_bytes : forall k s s' p1 p2, Inv s -> cread k s = (s', (p1, p2)) ->
  exists m, sT (r_new s) <= m <= sT (Wcur s') /\ sT (Wcur s') <= lenS s /\ In (Wcur s') (Wcur s :: Wpend s) /\
            p1 = slice (strm s) (sT (r_new s)) m /\ p2 = slice (strm s) m (sT (Wcur s')).
Proof.
  intros k s s' p1 p2 HI E. destruct (cread_batch k s s' p1 p2 HI E) as (_ & _ & _ & _ & Hin & _ & _ & m & Hm & _ & Hle & _ & H1 & H2).
  exists m. repeat split; try tauto; assumption.
Qed.

(** (1c) dataEnd (a plain member) is rewritten only when no store the consumer can still acquire is a lap ahead of what it released *)
Theorem C10_dataEnd_not_written_while_readable : forall s, Inv s -> dataEnd (pmax0 s) <> dataEnd s ->
  forall a, In a (Wcur s :: Wpend s) -> sb a = sb (r_new s).
Proof. exact wrap_excludes_dataEnd_reader. Qed.

(** (2) the lock discipline on the access table read off Session.hpp / SessionWriter.hpp on this run:
    every access to a shared member is under the session mutex, or the member is the atomic severity, or it is the constructor, or the private
    helper only called from consume, or the writer thread reading the two WriterProp fields it alone writes (id, name; never batchSize or the whole struct) *)
Local Open Scope string_scope.
Definition access_ok (a : string * string * bool) : bool :=
  let '(fn, mem, locked) := a in
  locked
  || String.eqb mem "_minSeverity"
  || String.eqb fn "Session"
  || (String.eqb fn "consumeSpecialEntry" && SrcFacts.special_entry_called_only_from_consume)
  || (String.prefix "SessionWriter::" fn && (String.eqb mem "writerProp.id" || String.eqb mem "writerProp.name")).

Theorem C10_lock_discipline : forallb access_ok SrcFacts.accesses = true /\ SrcFacts.session_mutex_is_std_mutex = true /\ SrcFacts.writer_replace_shape = true.
Proof. vm_compute. repeat split. Qed.
Example C10_access_table_nonempty : (20 <=? List.length SrcFacts.accesses)%nat = true /\
  existsb (fun a => let '(fn, mem, _) := a in String.eqb fn "consume" && String.eqb mem "writerProp.batchSize") SrcFacts.accesses = true.
Proof. vm_compute. split; reflexivity. Qed.
