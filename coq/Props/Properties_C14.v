(** C14 — Reader state: latest definition wins; an invalid entry affects nothing else. *)
From Coq Require Import List NArith Bool.
From BL Require Import Base.Bytes Reader.Entry Reader.SegMap Reader.SegMapInv Reader.EventStream
  Reader.ReaderLemmas Reader.StreamProofs Gen.SrcFacts.
Import ListNotations.
Local Open Scope N_scope.

(** SegmentedMap is a map: after any sequence of emplaces (arbitrary sparse, huge, repeated, descending keys),
    find returns the last value emplaced for the key, None if there is none. *)
Theorem C14_segmap_is_map : forall (V : Type) (kvs : list (N * V)) (k : N),
  sm_find (sm_of kvs) k = last_binding kvs k None.
Proof. exact @segmap_is_map. Qed.
Print Assumptions C14_segmap_is_map.

(** The reader refines a reader whose source table is a plain function id -> option source updated by
    override: each event is interpreted with the most recent preceding source of its id and printed with the
    most recent writer description and clock sync, for every sequence of entries. *)
Theorem C14_latest_definition_wins : forall ps,
  fst (events_fold rs_init ps) = spec_fold as_init ps.
Proof. intros ps. apply latest_definition_wins. exact abs_ok_init. Qed.
Print Assumptions C14_latest_definition_wins.

(** An entry that is reported as an error leaves the reader state unchanged ... *)
Theorem C14_invalid_entry_isolated : forall rs p rs' e, es_step rs p = (rs', OErr e) -> rs' = rs.
Proof. exact invalid_entry_isolated. Qed.
Print Assumptions C14_invalid_entry_isolated.

(** ... hence every other entry is interpreted exactly as if the invalid ones were absent. *)
Theorem C14_invalid_entries_absent : forall ps rs os rsf,
  events_fold rs ps = (os, rsf) ->
  events_fold rs (drop_invalid rs ps) = (filter is_event os, rsf).
Proof. exact invalid_entries_absent. Qed.
Print Assumptions C14_invalid_entries_absent.

(** A zero-length entry is the third outcome the code has: an empty Range, indistinguishable from end of input *)
Example C14_zero_size_entry_is_end_marker : forall rs ps, events_fold rs ([] :: ps) = ([], rs).
Proof. reflexivity. Qed.

(** the special tags of the model are the ones in Entries.hpp *)
Example C14_tags : SrcFacts.tag_EventSource = tag_source /\ SrcFacts.tag_WriterProp = tag_wp /\ SrcFacts.tag_ClockSync = tag_cs.
Proof. repeat split; reflexivity. Qed.
