(** C20 — Recovery tool robustness: arbitrary image in, whole entries (or nothing) out. *)
From Coq Require Import List NArith Bool Lia.
From BL Require Import Base.Bytes Recovery.Recover Recovery.RecoverProofs Gen.SrcFacts.
Import ListNotations.
Local Open Scope N_scope.

(** For EVERY byte string given as the image, what the tool writes is a sequence of complete entries. *)
Theorem C20_output_is_whole_entries : forall image, whole_entries (recover image) = true.
Proof.
  generalize (eq_refl : SrcFacts.recov_checks_entries = true). generalize SrcFacts.recov_checks_entries. intros b_ ->.
  exact recover_whole_entries.
Qed.
Print Assumptions C20_output_is_whole_entries.

(** It emits nothing from a queue whose indices are inconsistent with its capacity (whatever follows in the image). *)
Theorem C20_inconsistent_queue_rejected : forall session w e capacity bufptr r rest,
  session < 2 ^ 64 -> w < 2 ^ 64 -> e < 2 ^ 64 -> capacity < 2 ^ 64 -> bufptr < 2 ^ 64 -> r < 2 ^ 64 ->
  capacity < w \/ capacity < e \/ capacity < r ->
  read_data (le_enc 8 session ++ le_enc 8 w ++ le_enc 8 e ++ le_enc 8 capacity ++ le_enc 8 bufptr ++ le_enc 8 r ++ rest) = None.
Proof.
  generalize (eq_refl : SrcFacts.recov_checks_indices = true). generalize SrcFacts.recov_checks_indices. intros b_ ->.
  exact inconsistent_queue_rejected.
Qed.
Print Assumptions C20_inconsistent_queue_rejected.

(** Sizes are checked against the remaining input before anything is allocated or read. *)
Theorem C20_oversized_metadata_rejected : forall session size rest,
  session < 2 ^ 64 -> size < 2 ^ 64 -> lenN rest < size -> read_meta (le_enc 8 session ++ le_enc 8 size ++ rest) = None.
Proof.
  generalize (eq_refl : SrcFacts.recov_checks_sizes = true). generalize SrcFacts.recov_checks_sizes. intros b_ ->.
  exact oversized_metadata_rejected.
Qed.

(** the magic numbers of the model are those of the tool and of the library (read off the sources on this run) *)
Example C20_magic_numbers : magic_meta = le_enc 8 SrcFacts.recov_magic_meta /\ magic_data = le_enc 8 SrcFacts.recov_magic_data
  /\ SrcFacts.lib_magic_meta = SrcFacts.recov_magic_meta /\ SrcFacts.lib_magic_data = SrcFacts.recov_magic_data.
Proof. repeat split; vm_compute; reflexivity. Qed.

(** non-vacuity: an image with junk, a metadata block and a wrapped queue is recovered (metadata first) *)
Example C20_nonvacuous :
  recover ([1; 188; 2] ++ magic_data ++ le_enc 8 9 ++ le_enc 8 5 ++ le_enc 8 16 ++ le_enc 8 16 ++ le_enc 8 0 ++ le_enc 8 11
           ++ [1;0;0;0; 66;  9;9;9;9;9;9;  1;0;0;0; 65] ++ magic_meta ++ le_enc 8 9 ++ le_enc 8 5 ++ [1;0;0;0; 77] ++ [188])
  = [1;0;0;0; 77] ++ [1;0;0;0; 65] ++ [1;0;0;0; 66].
Proof. vm_compute. reflexivity. Qed.
