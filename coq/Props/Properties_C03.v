(** C03 — Metadata precedes the data that references it, under concurrency. *)
From Coq Require Import List ZArith NArith Bool.
From BL Require Import Base.Bytes Reader.Entry Session.SessionModel Session.SessionInv Session.SessionProps Reader.ReaderLemmas Recovery.SessionCover Session.SessionCoverOut Gen.SrcFacts.
Import ListNotations.
Local Open Scope N_scope.

(** The mutex makes createChannel / addEventSource / setClockSync / consume / reconsumeMetadata atomic with respect
    to one another (facts below); the only actions that can interleave with a consume are the lock-free ones of its
    [plans]. For every such consume: the clock syncs (if a new one is pending) and then every source not yet consumed are
    written BEFORE any channel is polled, and nothing that happens inside the consume can register a source or change a
    clock sync; afterwards every source registered so far has been written to the output. An event can only carry a
    source id that addEventSource returned earlier (the statement stores the id after registration and events are
    added after that), so its source entry precedes it in the stream. *)
Theorem C03_metadata_first : forall s plans s' ws r, consume SrcFacts.sess_fence_after_closed_test s plans = (s', ws, r) ->
  exists data, ws = (if consume_cs s then [cs_buf s] else []) ++ [drop_pos s] ++ data /\
    src_buf s' = src_buf s /\ src_pos s' = lenN (src_buf s) /\ cs_buf s' = cs_buf s /\ consume_cs s' = false /\ next_sid s' = next_sid s.
Proof. generalize (eq_refl : SrcFacts.sess_fence_after_closed_test = true). generalize SrcFacts.sess_fence_after_closed_test. intros b_ ->. intros. eapply consume_metadata_first; eauto. Qed.
Print Assumptions C03_metadata_first.

(** a clock sync precedes the first event: the session starts with one pending *)
Example C03_clock_sync_first : forall cs, consume_cs (sess_init cs) = true /\ exists p, cs_buf (sess_init cs) = frame p.
Proof. intros cs. split; [reflexivity|]. unfold sess_init, entry_special. cbn [cs_buf]. eexists. reflexivity. Qed.

(** ids handed out are pairwise distinct: each registration returns the counter and increments it under the mutex *)
Theorem C03_source_ids_distinct : forall s src s' id, add_source s src = (s', id) -> id = next_sid s /\ next_sid s' = id + 1.
Proof. exact source_ids_distinct. Qed.
Print Assumptions C03_source_ids_distinct.

(** each source is written once per output until re-requested: see C13_rotation_metadata_complete (the sources an
    output holds are exactly a prefix of the session's source buffer, never a repetition) *)
Theorem C03_sources_once_per_output : forall s o t, SInv s -> sop_ok o -> track_ok t s ->
  let (s', out) := sstep SrcFacts.sess_fence_after_closed_test s o in track_ok (track t s o out) s'.
Proof. generalize (eq_refl : SrcFacts.sess_fence_after_closed_test = true). generalize SrcFacts.sess_fence_after_closed_test. intros b_ ->. intros s o t H1 H2 H3. pose proof (rotation_metadata_complete true s o t H1 H2 H3) as H.
  destruct (sstep _ s o). tauto. Qed.
Print Assumptions C03_sources_once_per_output.

Example C03_srcfacts :
  SrcFacts.sess_locks_addEventSource = true /\ SrcFacts.sess_locks_consume = true /\ SrcFacts.sess_locks_setClockSync = true /\
  SrcFacts.sess_locks_createChannel = true /\ SrcFacts.sess_source_id_under_lock = true /\ SrcFacts.sess_consume_order = true /\
  SrcFacts.macro_registers_then_stores_sid = true.
Proof. repeat split; reflexivity. Qed.

(** ... and this with the ids, for EVERY history and EVERY schedule of lock-free writer actions inside each consume (raw addEvent payloads
    must carry an id the session handed out - what the log macros guarantee; see [run_cov]): after its metadata part a consume writes only
    writer descriptions and runs of whole events whose source ids are below [next_sid] at the start of that consume ... *)
Theorem C03_events_follow_their_sources : forall c ops, small (cs_payload c) -> run_cov true (sess_init c) ops ->
  Forall (fun so => match so with
                    | (s, SConsume plans, SoWrites ws _) =>
                        exists data, ws = (if consume_cs s then [cs_buf s] else []) ++ [drop_pos s] ++ data /\ Forall (piece_ok (next_sid s)) data
                    | _ => True end)
         (strace (sess_init c) ops).
Proof.
  generalize (eq_refl : SrcFacts.sess_fence_after_closed_test = true). generalize SrcFacts.sess_fence_after_closed_test. intros b_ _.
  generalize (eq_refl : SrcFacts.macro_registers_then_stores_sid = true). generalize SrcFacts.macro_registers_then_stores_sid. intros b1 ->.
  exact outputs_covered.
Qed.
Print Assumptions C03_events_follow_their_sources.
(** ... and the sources buffer, which that metadata part completes in the output, holds exactly one source for every such id *)
Theorem C03_sources_cover_the_ids : forall s plans s' ws r, CInv s -> Forall (plan_cov (next_sid s)) plans -> consume true s plans = (s', ws, r) ->
  exists data, ws = (if consume_cs s then [cs_buf s] else []) ++ [drop_pos s] ++ data /\ Forall (piece_ok (next_sid s)) data /\
    exists srcs, src_buf s = stream_of (map (fun p => src_payload (fst p) (snd p)) srcs) /\ map fst srcs = map N.of_nat (seq 1 (N.to_nat (next_sid s) - 1)).
Proof. exact consume_out_covered. Qed.
Print Assumptions C03_sources_cover_the_ids.
