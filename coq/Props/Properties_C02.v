(** C02 — Session delivery: no event lost, duplicated or reordered within a writer. *)
From Coq Require Import List ZArith NArith Bool Sorted.
From BL Require Import Base.Bytes Reader.Entry Queue.QueueModel Queue.QueueInv Session.SessionModel Session.SessionInv Session.SessionProps Session.SessionRemoval Session.SessionReplace Session.SessionPieces Session.SessionGone Gen.SrcFacts.
Import ListNotations.
Local Open Scope Z_scope.

(** Per channel, delivery is the FIFO refinement of C01 (exactly once, in commit order, whole entries) for every
    reads-from choice. What the session adds: *)

(** (1) every channel of every reachable session state carries the queue invariant, so the C01 theorems apply to
    every poll of every consume of every history (channel replacement, in-consume writer actions included) *)
Theorem C02_channels_refine_fifo : forall cs ops, Forall sop_ok ops ->
  Forall chan_ok (channels (fst (srun SrcFacts.sess_fence_after_closed_test (sess_init cs) ops))).
Proof. generalize (eq_refl : SrcFacts.sess_fence_after_closed_test = true). generalize SrcFacts.sess_fence_after_closed_test. intros b_ ->. intros cs ops H. exact (SI_chans _ (sinv_reachable _ cs ops H)). Qed.
Print Assumptions C02_channels_refine_fifo.

(** (2) a channel is removed only when it was found closed, and then - with the acquire fence after the closed test,
    which makes the consumer's load of the write index read the writer's last commit - its poll delivers everything
    that was ever committed to it: nothing is lost when a writer is destroyed immediately after logging *)
Theorem C02_closed_channel_drained : forall q q' p1 p2, Inv q -> cread (length (Wpend q)) q = (q', (p1, p2)) ->
  p1 ++ p2 = slice (strm q) (sT (r_new q)) (lenS q) /\ ((lenN p1 + lenN p2 <> 0)%N -> all_delivered (cend q')) /\
  ((lenN p1 + lenN p2 = 0)%N -> sT (r_new q) = lenS q).
Proof. exact closed_channel_drained. Qed.
Print Assumptions C02_closed_channel_drained.

(** (2') ... and this for the whole session: in EVERY reachable state (any history of writers created, moved onto larger queues, destroyed,
    log calls, sources, clock syncs, earlier consumes with lock-free writer actions inside them) and for EVERY schedule of writer actions
    inside the next consume, every channel that consume removes has released offset = committed length: each byte ever committed to it was
    handed to the output by some poll (and by C01 exactly once, in order). No accepted event leaves the session undelivered. *)
Theorem C02_no_event_lost_at_removal : forall cs ops plans, Forall sop_rm ops ->
  let s := fst (srun SrcFacts.sess_fence_after_closed_test (sess_init cs) ops) in
  Forall (fun c => all_delivered (ch_q c)) (consume_removed s plans).
Proof.
  generalize (eq_refl : SrcFacts.sess_fence_after_closed_test = true). generalize SrcFacts.sess_fence_after_closed_test. intros b_ ->.
  generalize (eq_refl : SrcFacts.sess_consume_order = true). generalize SrcFacts.sess_consume_order. intros b2 ->.
  exact no_event_lost_at_removal.
Qed.
Print Assumptions C02_no_event_lost_at_removal.

(** (2'') timeliness: in every reachable state, a consume during which no writer acts and whose polls see the writers' last commits (the
    case of a consume that starts after the writers' calls returned) leaves NOTHING undelivered in any channel: every event accepted so
    far has been written, "at the latest in the first consume that starts after the writer's last call returned" *)
Theorem C02_timely_delivery : forall cs ops plans, Forall sop_rm ops -> quiet plans ->
  let s := fst (srun SrcFacts.sess_fence_after_closed_test (sess_init cs) ops) in
  (forall j b, nth_error (channels s) j = Some b -> (length (Wpend (ch_q b)) <= pl_k (plan_nth plans j))%nat) ->
  forall c, In c (channels (fst (fst (consume SrcFacts.sess_fence_after_closed_test s plans)))) -> all_delivered (ch_q c).
Proof.
  generalize (eq_refl : SrcFacts.sess_fence_after_closed_test = true). generalize SrcFacts.sess_fence_after_closed_test. intros b_ ->.
  exact timely_delivery.
Qed.
Print Assumptions C02_timely_delivery.
(** (2c) order across a queue replacement. In every reachable state the channels are listed - and hence polled by every consume - in the
    order of their creation (strictly increasing uid); a writer whose queue is replaced continues on a channel created at that moment, with
    the next uid, appended at the end: it is polled after the one it replaces for as long as both exist. (That the concatenated output of
    one writer's events is in program order follows with the per-channel FIFO theorem; the concatenation itself is not a theorem here.) *)
Theorem C02_channels_polled_in_creation_order : forall cs ops, Forall sop_rm ops ->
  Sorted.StronglySorted N.lt (map ch_uid (channels (fst (srun SrcFacts.sess_fence_after_closed_test (sess_init cs) ops)))).
Proof.
  generalize (eq_refl : SrcFacts.sess_fence_after_closed_test = true). generalize SrcFacts.sess_fence_after_closed_test. intros b_ ->.
  generalize (eq_refl : SrcFacts.sess_create_appends = true). generalize SrcFacts.sess_create_appends. intros b2 ->.
  exact channels_polled_in_creation_order.
Qed.
Print Assumptions C02_channels_polled_in_creation_order.
Theorem C02_replacement_channel_is_last : forall s w k p, WInv s -> snd (add_event s w k p) = false ->
  assoc w (writers s) <> None -> (exists c, find_chan (match assoc w (writers s) with Some u => u | None => 0%N end) (channels s) = Some c) ->
  exists olds cnew, channels (fst (add_event s w k p)) = olds ++ [cnew] /\ map ch_uid olds = map ch_uid (channels s) /\
    ch_uid cnew = next_uid s /\ ch_owner cnew = Some w /\ assoc w (writers (fst (add_event s w k p))) = Some (next_uid s).
Proof.
  generalize (eq_refl : SrcFacts.writer_replace_shape = true). generalize SrcFacts.writer_replace_shape. intros b1 ->.
  exact replacement_channel_is_last.
Qed.
Print Assumptions C02_replacement_channel_is_last.

(** (2d) order across a queue replacement, the missing link: a channel that is closed when a consume starts - the queue a writer abandoned
    for a larger one, or the queue of a destroyed writer - is, for EVERY history before and EVERY schedule of lock-free writer actions
    inside that consume, found closed, marked for removal at its own position in the polling order, and has handed out every byte ever
    committed to it when the channel loop ends; and its uid is not in the session afterwards. With (2c): all events a writer committed to
    the abandoned queue are written by the first consume after the replacement, at a position before its replacement channel (which is
    later in the polling order), and from the second consume on only the replacement exists - the writer's events are never reordered
    by a replacement. (The per-position attribution of the output pieces is by the definition of [consume_loop]: writes ++ ws.) *)
Theorem C02_abandoned_queue_drained_by_next_consume : forall cs ops plans, Forall sop_rm ops ->
  let s := fst (srun SrcFacts.sess_fence_after_closed_test (sess_init cs) ops) in
  forall i c, nth_error (channels s) i = Some c -> ch_owner c = None ->
  exists c', nth_error (consume_marked s plans) i = Some c' /\ ch_uid c' = ch_uid c /\
             In c' (consume_removed s plans) /\ all_delivered (ch_q c').
Proof.
  generalize (eq_refl : SrcFacts.sess_fence_after_closed_test = true). generalize SrcFacts.sess_fence_after_closed_test. intros b_ ->.
  generalize (eq_refl : SrcFacts.sess_consume_order = true). generalize SrcFacts.sess_consume_order. intros b2 ->.
  exact abandoned_queue_drained_by_next_consume.
Qed.
Print Assumptions C02_abandoned_queue_drained_by_next_consume.
Theorem C02_abandoned_queue_gone_after_next_consume : forall cs ops plans, Forall sop_rm ops ->
  let s := fst (srun SrcFacts.sess_fence_after_closed_test (sess_init cs) ops) in
  forall c, In c (channels s) -> ch_owner c = None ->
  ~ In (ch_uid c) (map ch_uid (channels (fst (fst (consume SrcFacts.sess_fence_after_closed_test s plans))))).
Proof.
  generalize (eq_refl : SrcFacts.sess_fence_after_closed_test = true). generalize SrcFacts.sess_fence_after_closed_test. intros b_ ->.
  generalize (eq_refl : SrcFacts.writer_replace_shape = true). generalize SrcFacts.writer_replace_shape. intros b1 ->.
  exact abandoned_queue_gone_after_next_consume.
Qed.
Print Assumptions C02_abandoned_queue_gone_after_next_consume.

(** (2e) ... and the output of one consume, attributed: what the channel loop writes is the concatenation of one piece per polled channel
    ([consume_pieces], the same recursion as the loop, each piece tagged with the uid of the channel polled for it), after the metadata;
    the uids of the pieces are strictly increasing, and piece j belongs to the channel at position j of the list the loop leaves. So within
    one consume the data of a channel created earlier is written before the data of one created later - for every history and every
    schedule of writer actions inside the consume. With (2c) and (2d): the abandoned queue's remaining events (all of them) precede the
    replacement channel's events in the first consume after a replacement, and later consumes no longer contain the abandoned queue. *)
Theorem C02_consume_writes_channels_in_creation_order : forall cs ops plans, Forall sop_rm ops ->
  let s := fst (srun SrcFacts.sess_fence_after_closed_test (sess_init cs) ops) in
  (exists meta, snd (fst (consume SrcFacts.sess_fence_after_closed_test s plans)) = meta ++ concat (map snd (consume_pieces s plans))) /\
  (forall j1 j2 u1 u2, (j1 < j2)%nat -> nth_error (map fst (consume_pieces s plans)) j1 = Some u1 ->
      nth_error (map fst (consume_pieces s plans)) j2 = Some u2 -> (u1 < u2)%N) /\
  (forall j u, nth_error (map fst (consume_pieces s plans)) j = Some u -> nth_error (map ch_uid (consume_marked s plans)) j = Some u).
Proof.
  generalize (eq_refl : SrcFacts.sess_fence_after_closed_test = true). generalize SrcFacts.sess_fence_after_closed_test. intros b_ ->.
  generalize (eq_refl : SrcFacts.sess_consume_order = true). generalize SrcFacts.sess_consume_order. intros b2 ->.
  generalize (eq_refl : SrcFacts.sess_create_appends = true). generalize SrcFacts.sess_create_appends. intros b3 ->.
  exact pieces_in_creation_order.
Qed.
Print Assumptions C02_consume_writes_channels_in_creation_order.
Example C02_pieces_nonvacuous :
  let s := fst (srun true (sess_init default_cs) rm_ops) in
  map fst (consume_pieces s []) = [0; 1; 2]%N /\ map (fun p => length (snd p)) (consume_pieces s []) = [2; 2; 2]%nat.
Proof. exact pieces_nonvacuous. Qed.

(** (2f) ... and no later consume - after ANY further operations - writes a piece for a channel that was closed before an earlier consume.
    So the events of an abandoned queue are confined to the outputs up to and including the first consume after the replacement (2d), in
    that consume they stand before the replacement channel's piece (2c, 2e), and afterwards only the replacement channel (and its own
    successors, by the same argument) is written: with the per-channel FIFO (1) one writer's events are in program order in the
    concatenation of all consume outputs. *)
Theorem C02_abandoned_queue_never_written_again : forall cs ops plans ops2 plans2, Forall sop_rm ops ->
  let s := fst (srun SrcFacts.sess_fence_after_closed_test (sess_init cs) ops) in
  forall c, In c (channels s) -> ch_owner c = None ->
  ~ In (ch_uid c) (map fst (consume_pieces (fst (srun SrcFacts.sess_fence_after_closed_test
        (fst (fst (consume SrcFacts.sess_fence_after_closed_test s plans))) ops2)) plans2)).
Proof.
  generalize (eq_refl : SrcFacts.sess_fence_after_closed_test = true). generalize SrcFacts.sess_fence_after_closed_test. intros b_ ->.
  generalize (eq_refl : SrcFacts.sess_create_appends = true). generalize SrcFacts.sess_create_appends. intros b3 ->.
  generalize (eq_refl : SrcFacts.writer_replace_shape = true). generalize SrcFacts.writer_replace_shape. intros b1 ->.
  exact abandoned_queue_never_written_again.
Qed.
Print Assumptions C02_abandoned_queue_never_written_again.
Example C02_never_again_nonvacuous :
  let s := fst (srun true (sess_init default_cs) rm_ops) in
  let s' := fst (fst (consume true s [])) in
  let s'' := fst (srun true s' [SAddEvent 2%N 0%nat (le_enc 8 1 ++ le_enc 8 9)]) in
  map fst (consume_pieces s [] ) = [0; 1; 2]%N /\ map fst (consume_pieces s'' []) = [2%N] /\ map (fun p => length (snd p)) (consume_pieces s'' []) = [2%nat].
Proof. exact never_again_nonvacuous. Qed.

(** (2g) the replacement step: when addEvent takes the slow path, the writer's old channel is closed in the resulting state (so 2d-2f
    apply to it from the next consume on), its uid is below the replacement's (so 2e puts its piece first), and the writer continues on
    the replacement channel. *)
Theorem C02_replacement_closes_the_old_channel : forall s0 w k p uid c0, WInv s0 -> snd (add_event s0 w k p) = false ->
  assoc w (writers s0) = Some uid -> find_chan uid (channels s0) = Some c0 ->
  let s := fst (add_event s0 w k p) in
  (exists c, In c (channels s) /\ ch_uid c = uid /\ ch_owner c = None) /\ (uid < next_uid s0)%N /\
  (exists cnew, In cnew (channels s) /\ ch_uid cnew = next_uid s0 /\ ch_owner cnew = Some w) /\ assoc w (writers s) = Some (next_uid s0).
Proof.
  generalize (eq_refl : SrcFacts.writer_replace_shape = true). generalize SrcFacts.writer_replace_shape. intros b1 ->.
  exact replacement_closes_the_old_channel.
Qed.
Print Assumptions C02_replacement_closes_the_old_channel.
Example C02_replacement_nonvacuous :
  let s := fst (srun true (sess_init default_cs) rm_ops) in
  map (fun c => match ch_owner c with None => true | _ => false end) (channels s) = [true; true; false] /\
  map is_reset (consume_marked s []) = [true; true; false] /\
  map ch_uid (channels (fst (fst (consume true s [])))) = [2%N].
Proof. exact replace_nonvacuous. Qed.
Example C02_removal_nonvacuous :
  Forall sop_rm rm_ops /\
  let s := fst (srun true (sess_init default_cs) rm_ops) in
  length (channels s) = 3%nat /\ length (consume_removed s []) = 2%nat /\ length (channels (fst (fst (consume true s [])))) = 1%nat.
Proof. exact rm_nonvacuous. Qed.

(** (3) the same model WITHOUT the fence (the tree before the D7 fix; the fact below is read off Session.hpp) loses an
    accepted event: a concrete history and reads-from choice *)
Theorem C02_removal_without_fence_refuted :
  delivered_events (snd (srun false (sess_init default_cs) w02_ops)) = 1%nat /\
  channels (fst (srun false (sess_init default_cs) w02_ops)) = [].
Proof. exact removal_without_fence_refuted. Qed.
Print Assumptions C02_removal_without_fence_refuted.

Example C02_nonvacuous : delivered_events (snd (srun SrcFacts.sess_fence_after_closed_test (sess_init default_cs) w02_ops)) = 2%nat.
Proof. generalize (eq_refl : SrcFacts.sess_fence_after_closed_test = true). generalize SrcFacts.sess_fence_after_closed_test. intros b_ ->. exact removal_with_fence_witness. Qed.

Example C02_srcfacts :
  SrcFacts.sess_fence_after_closed_test = true /\ SrcFacts.sess_consume_order = true /\ SrcFacts.sess_create_appends = true /\
  SrcFacts.writer_replace_shape = true /\ SrcFacts.writer_addEvent_shape = true.
Proof. repeat split; reflexivity. Qed.
