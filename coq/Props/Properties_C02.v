(** C02 — Session delivery: no event lost, duplicated or reordered within a writer. *)
From Coq Require Import List ZArith NArith Bool.
From BL Require Import Base.Bytes Reader.Entry Queue.QueueModel Queue.QueueInv Session.SessionModel Session.SessionInv Session.SessionProps Gen.SrcFacts.
Import ListNotations.
Local Open Scope Z_scope.

(** Per channel, delivery is the FIFO refinement of C01 (exactly once, in commit order, whole entries) for every
    reads-from choice. What the session adds: *)

(** (1) every channel of every reachable session state carries the queue invariant, so the C01 theorems apply to
    every poll of every consume of every history (channel replacement, in-consume writer actions included) *)
Theorem C02_channels_refine_fifo : forall cs ops, Forall sop_ok ops ->
  Forall chan_ok (channels (fst (srun SrcFacts.sess_fence_after_closed_test (sess_init cs) ops))).
Proof. generalize (eq_refl : SrcFacts.sess_fence_after_closed_test = true). generalize SrcFacts.sess_fence_after_closed_test. intros b_ ->. intros cs ops H. exact (SI_chans _ (sinv_reachable _ cs ops H)). Qed.
Print Assumptions C02_channels_refine_fifo.

(** (2) a channel is removed only when it was found closed, and then - with the acquire fence after the closed test,
    which makes the consumer's load of the write index read the writer's last commit - its poll delivers everything
    that was ever committed to it: nothing is lost when a writer is destroyed immediately after logging *)
Theorem C02_closed_channel_drained : forall q q' p1 p2, Inv q -> cread (length (Wpend q)) q = (q', (p1, p2)) ->
  p1 ++ p2 = slice (strm q) (sT (r_new q)) (lenS q) /\ ((lenN p1 + lenN p2 <> 0)%N -> all_delivered (cend q')) /\
  ((lenN p1 + lenN p2 = 0)%N -> sT (r_new q) = lenS q).
Proof. exact closed_channel_drained. Qed.
Print Assumptions C02_closed_channel_drained.

(** (3) the same model WITHOUT the fence (the tree before the D7 fix; the fact below is read off Session.hpp) loses an
    accepted event: a concrete history and reads-from choice *)
Theorem C02_removal_without_fence_refuted :
  delivered_events (snd (srun false (sess_init default_cs) w02_ops)) = 1%nat /\
  channels (fst (srun false (sess_init default_cs) w02_ops)) = [].
Proof. exact removal_without_fence_refuted. Qed.
Print Assumptions C02_removal_without_fence_refuted.

Example C02_nonvacuous : delivered_events (snd (srun SrcFacts.sess_fence_after_closed_test (sess_init default_cs) w02_ops)) = 2%nat.
Proof. generalize (eq_refl : SrcFacts.sess_fence_after_closed_test = true). generalize SrcFacts.sess_fence_after_closed_test. intros b_ ->. exact removal_with_fence_witness. Qed.

Example C02_srcfacts :
  SrcFacts.sess_fence_after_closed_test = true /\ SrcFacts.sess_consume_order = true /\ SrcFacts.sess_create_appends = true /\
  SrcFacts.writer_replace_shape = true /\ SrcFacts.writer_addEvent_shape = true.
Proof. repeat split; reflexivity. Qed.
