(** C12 — Truncated logs: every whole entry before the cut is read, then a clean error. *)
From Coq Require Import List NArith Bool.
From BL Require Import Base.Bytes Reader.Entry Reader.SegMap Reader.EventStream Reader.ReaderLemmas
  Reader.TruncProofs Gen.SrcFacts.
Import ListNotations.
Local Open Scope N_scope.

(** Scanning the first [c] bytes of a well-formed log returns exactly the entries that lie entirely inside
    the prefix; the scan ends normally iff the cut is on an entry boundary, and otherwise reports an error
    whose remaining input is exactly the bytes of the incomplete entry (the position is back at its start). *)
Theorem C12_scan_cut : forall ps c, Forall wf_payload ps ->
  let (w, part) := cut_split ps c in
  scan (firstn c (stream_of ps)) = (w, end_of_partial part).
Proof. exact scan_cut. Qed.
Print Assumptions C12_scan_cut.

Theorem C12_status_at_cut : forall render ps c rs, Forall wf_payload ps ->
  let (w, part) := cut_split ps c in
  read_lines render rs (firstn c (stream_of ps)) = read_fold render rs w (end_of_scan (end_of_partial part))
  /\ (part = [] <-> end_of_scan (end_of_partial part) = EndOk).
Proof. exact prefix_reads_whole_entries. Qed.
Print Assumptions C12_status_at_cut.

(** If the whole log reads without error, reading a prefix prints exactly the lines of the events that lie
    inside it — a prefix of the lines of the whole log — and then the status above. *)
Theorem C12_prefix_prints_whole_entries : forall render ps c ls rsf, Forall wf_payload ps -> Forall nonempty ps ->
  read_fold render rs_init ps EndOk = (ls, [], EndOk, rsf) ->
  let (w, part) := cut_split ps c in
  exists lw lrest rsw, read_fold render rs_init w EndOk = (lw, [], EndOk, rsw) /\ ls = lw ++ lrest /\
    read_lines render rs_init (firstn c (stream_of ps)) = (lw, [], end_of_scan (end_of_partial part), rsw).
Proof. exact prefix_prints_prefix. Qed.
Print Assumptions C12_prefix_prints_whole_entries.

(** For every way of delivering the log in pieces, reading everything available after each piece and keeping the
    incomplete tail pending yields the lines and the reader state of an uninterrupted read. *)
Theorem C12_resume_equals_uninterrupted : forall render pieces ps ls rsf,
  Forall wf_payload ps -> Forall nonempty ps -> concat pieces = stream_of ps ->
  read_fold render rs_init ps EndOk = (ls, [], EndOk, rsf) ->
  resume render rs_init [] pieces = (ls, rsf, []).
Proof. exact resume_equals_uninterrupted. Qed.
Print Assumptions C12_resume_equals_uninterrupted.

Example C12_nonvacuous :
  let ps := [le_enc 8 tag_wp ++ enc_wp (mkWP 1 [65] 0); le_enc 8 5 ++ le_enc 8 9] in
  cut_split ps 38 = ([le_enc 8 tag_wp ++ enc_wp (mkWP 1 [65] 0)], [16; 0; 0; 0; 5]).
Proof. vm_compute. reflexivity. Qed.
