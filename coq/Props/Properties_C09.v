(** C09 — Reader robustness: any bytes, any format string -> text or a reported error.
    What a theorem can carry here (the rest of the claim - no sanitizer report, time and output bounds on the real
    binary - is observed on the implementation and tied to this model by correspondence; see DESIGN.md 4/C09): *)
From Coq Require Import List ZArith NArith Bool Lia.
From BL Require Import Base.Bytes Reader.Entry Reader.EventStream Reader.RobustProofs Render.Time Render.TimeProofs
  Mser.Types Mser.Tag Mser.Visit Mser.RobustProofs Mser.BoundProofs Gen.SrcFacts.
From BL Require Mser.TagProofs Mser.VisitProofs Render.Message Render.SpecialProofs.
Import ListNotations.

Definition cfg_src := mkTC SrcFacts.time_floor SrcFacts.time_yy_nonneg SrcFacts.time_tz_wide.

(** For EVERY byte string: the payloads the reader interprets, each preceded by its 4-byte size, tile a prefix of the input and the
    rest is the incomplete tail reported as an error - no entry reaches outside the input, whatever the size fields say. *)
Theorem C09_entries_tile_the_input : forall data, let (ps, e) := scan data in
  tiles data ps (pending_of e) /\
  match e with
  | SEof => True
  | SErrHdr r => (0 < length r < 4)%nat
  | SErrPayload r n => exists h t, r = h ++ t /\ length h = 4%nat /\ le_dec h = n /\ (lenN t < n)%N
  end.
Proof. exact scan_tiles. Qed.
Print Assumptions C09_entries_tile_the_input.

(** For EVERY clock sync (any frequency, time zone offset, sync time), clock value and date format: none of the printTwoDigits /
    printTimeZoneOffset assertions can fire (with the %y and time zone arithmetic as it stands in the sources on this run). *)
Theorem C09_time_assertions_never_fire : forall local tfmt cs clock, snd (render_clock cfg_src local tfmt cs clock) = true.
Proof.
  unfold cfg_src.
  generalize (eq_refl : SrcFacts.time_floor = true). generalize SrcFacts.time_floor. intros b1 ->.
  generalize (eq_refl : SrcFacts.time_yy_nonneg = true). generalize SrcFacts.time_yy_nonneg. intros b2 ->.
  generalize (eq_refl : SrcFacts.time_tz_wide = true). generalize SrcFacts.time_tz_wide. intros b3 ->.
  exact render_clock_assertions_hold.
Qed.
Print Assumptions C09_time_assertions_never_fire.

(** Sequences of more than 32 zero-size elements are visited once, whatever count the input claims. *)
Theorem C09_singular_sequence_collapsed : forall f full t1 l h r etag rest size,
  take_n 4 l = Some (h, r) -> le_dec h = size -> tag_pop t1 = (etag, rest) -> etag <> [99%N] -> (32 < size)%N ->
  singular f full etag = Some true ->
  visit false nospec (S f) full (91%N :: t1) l =
  prepend [CSeqBegin size etag]
    match visit false nospec f full etag r with
    | VOk (cs, r') => VOk ([CRepeatBegin size etag] ++ cs ++ [CRepeatEnd size etag; CSeqEnd], r')
    | VErr e p => VErr e (CRepeatBegin size etag :: p)
    end.
Proof. exact singular_sequence_collapsed. Qed.
Print Assumptions C09_singular_sequence_collapsed.

(** Nesting beyond 2048 and self-referential structs end in the recursion error (instances; the bound is the fuel of [visit]). *)
Example C09_deep_nesting_rejected :
  match visit false nospec 2048 (nested 91 2049 [105%N]) (nested 91 2049 [105%N]) (concat (repeat [1;0;0;0]%N 2100)) with VErr VRecursion _ => true | _ => false end = true
  /\ match visit false nospec 2048 selfref selfref [] with VErr VRecursion _ => true | _ => false end = true.
Proof. split; [exact deep_sequences_rejected | exact self_reference_rejected]. Qed.

(** Output size. For EVERY tag (any bytes) and EVERY input (any bytes), with the recursion limit of the sources: unless a struct
    back-reference [{Name}] is resolved to a non-empty definition while visiting ([noback], a computable predicate on the tag), the visitor
    callbacks - delivered, or made before the error was reported - number at most 4|tag| + 16|tag|^2 |input|. *)
Theorem C09_callbacks_bounded_without_backrefs : forall tag input, noback tag (N.to_nat SrcFacts.visit_max_recursion) tag = true ->
  (callbacks_of (visit false nospec (N.to_nat SrcFacts.visit_max_recursion) tag tag input) <= 4 * length tag + 16 * length tag * length tag * length input)%nat.
Proof.
  generalize (eq_refl : SrcFacts.visit_singular_visits_once = true). generalize SrcFacts.visit_singular_visits_once. intros b1 ->.
  generalize (eq_refl : SrcFacts.visit_singular_threshold = 32%N). generalize SrcFacts.visit_singular_threshold at 1. intros n1 _.
  intros tag input. apply callbacks_bounded_plain.
Qed.
Print Assumptions C09_callbacks_bounded_without_backrefs.
(** the same for the visitor bread prints with: ToStringVisitor (which takes whole strings in one callback) over PrettyPrinter::printStruct
    (which renders a few well-known structs itself - each of them occupying at least four bytes), for every clock sync and date format *)
Theorem C09_callbacks_bounded_for_the_printing_visitor : forall local tfmt cs tag input, noback tag 2048 tag = true ->
  (callbacks_of (visit true (Render.Message.print_struct cfg_src local tfmt cs) 2048 tag tag input) <= 4 * length tag + 16 * length tag * length tag * length input)%nat.
Proof. intros local tfmt cs tag input. apply callbacks_bounded. apply Render.SpecialProofs.print_struct_consumes. Qed.
Print Assumptions C09_callbacks_bounded_for_the_printing_visitor.
(** in particular for the tag of every loggable type of the C06 universe (names well formed, empty structs not shadowed by a definition in
    the complete tag) and EVERY input - not only serialized values of that type *)
Theorem C09_callbacks_bounded_for_every_loggable_type : forall t input, Mser.TagProofs.ty_ok t = true -> Mser.VisitProofs.empties (tag t) t ->
  (callbacks_of (visit false nospec 2048 (tag t) (tag t) input) <= 4 * length (tag t) + 16 * length (tag t) * length (tag t) * length input)%nat.
Proof. intros t input. apply callbacks_bounded_typed. exact nospec_consumes. Qed.
Print Assumptions C09_callbacks_bounded_for_every_loggable_type.
Example C09_bound_nonvacuous : SrcFacts.visit_max_recursion = 2048%N /\ noback ordinary_tag 2048 ordinary_tag = true /\ noback d6a_tag 2048 d6a_tag = false.
Proof. split; [reflexivity|]. split; [exact ordinary_noback|exact d6a_has_backref]. Qed.

(** NOT a theorem without that hypothesis: "output is bounded by a small polynomial of the input". The faithful model refutes it (recorded finding D6,
    known_findings.json): 20 bytes of tag and input produce 12000 visitor callbacks (6 per claimed element, up to 2^32 elements). *)
Theorem C09_no_amplification_refuted : exists tag input, (length tag + length input <= 20)%nat /\
  match visit false nospec 2048 tag tag input with VOk (cbs, _) => (12000 <=? N.of_nat (length cbs))%N | _ => false end = true.
Proof. exact amplification_refuted. Qed.
Print Assumptions C09_no_amplification_refuted.
