(** C18 — Sorted reading is a stable reordering of unsorted reading. *)
From Coq Require Import List NArith Bool Permutation Sorted.
From BL Require Import Base.Bytes Reader.Entry Reader.EventStream Reader.SortProofs Gen.SrcFacts.
Import ListNotations.
Local Open Scope N_scope.

(** For every renderer and every input (any bytes: valid, ending in an invalid or truncated entry, ...):
    with [ls] the lines (with their event clocks) that the read loop completes before it stops, unsorted
    printing prints them in file order followed by whatever a failing render had flushed, and sorted printing
    prints [stable_sort ls]; the end status (ok / which error) is the same. *)
Theorem C18_sorted_is_stable_sort_of_unsorted :
  forall (render : view -> bytes * bool) data ls part st rsf,
  read_lines render rs_init data = (ls, part, st, rsf) ->
  print_events render data = (concat (map snd ls) ++ part, st) /\
  print_sorted render SrcFacts.sorted_flushes_on_error data = (concat (map snd (stable_sort ls)), st).
Proof. generalize (eq_refl : SrcFacts.sorted_flushes_on_error = true). generalize SrcFacts.sorted_flushes_on_error. intros b_ ->. exact sorted_is_stable_sort_of_unsorted. Qed.
Print Assumptions C18_sorted_is_stable_sort_of_unsorted.

(** [stable_sort] is sorted by non-decreasing clock, a permutation of its input, and keeps the input order
    among lines of equal clock (these three determine it uniquely). *)
Theorem C18_stable_sort_spec : forall l,
  Sorted cle (stable_sort l) /\ Permutation (stable_sort l) l /\
  (forall c, filter (has_clock c) (stable_sort l) = filter (has_clock c) l).
Proof. exact stable_sort_spec. Qed.
Print Assumptions C18_stable_sort_spec.

(** the model's sort stands for std::stable_sort with a strict < on the clock: facts read off printers.cpp *)
Example C18_srcfacts : SrcFacts.sorted_uses_stable_sort = true /\ SrcFacts.sorted_cmp_is_strict_less_on_clock = true.
Proof. split; reflexivity. Qed.

(** without the flush on error (tree before the D2 fix) the statement is false *)
Theorem C18_without_flush_refuted :
  fst (print_events w18_render w18_log) <> [] /\ fst (print_sorted w18_render false w18_log) = [].
Proof. exact sorted_without_flush_refuted. Qed.
Print Assumptions C18_without_flush_refuted.

Example C18_nonvacuous :
  print_sorted w18_render SrcFacts.sorted_flushes_on_error w18_log = ([49; 48; 10; 51; 48; 10], EndErr (ESizeHdr 3)).
Proof. generalize (eq_refl : SrcFacts.sorted_flushes_on_error = true). generalize SrcFacts.sorted_flushes_on_error. intros b_ ->. exact sorted_with_flush_witness. Qed.
