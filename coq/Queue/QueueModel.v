(** M5: the SPSC queue (Queue.hpp, QueueWriter.hpp, QueueReader.hpp) under the C++11 release/acquire
    model, specialised to what this code uses: two atomic locations, each written by one thread.
    An acquire load of the other thread's variable may return ANY store that is not older than the
    newest one the thread has already seen; it then sees everything sequenced before that store.
    We keep, per variable, the store the other thread has acquired ([Wcur]/[Rcur]) and the newer stores it
    may still acquire ([Wpend]/[Rpend], oldest first). Loads of a thread's own variable return its newest
    store. Non-atomic data (buffer bytes, dataEnd) is read from the current memory: the theorems show that
    what is read is what was published by the store acquired (no later write ever lands on it).
    Each store record carries ghost fields (logical stream offset, lap base) used only by the proofs.
    Definitions only. *)
From Coq Require Import List ZArith Bool.
From BL Require Import Base.Bytes.
Import ListNotations.
Local Open Scope Z_scope.

Record srec := mkS { sv : Z (* the value stored *); sT : Z (* ghost: bytes committed / released *); sb : Z (* ghost: lap base *) }.

Record qstate := mkQ {
  cap : Z;
  Wcur : srec; Wpend : list srec;      (* writeIndex: acquired by the consumer / still to be seen *)
  Rcur : srec; Rpend : list srec;      (* readIndex: acquired by the producer / still to be seen *)
  dataEnd : Z;
  wpos : Z; wend : Z;                  (* _writePos, _writeEnd as offsets into the buffer *)
  readEnd : Z;                         (* _readEnd *)
  buf : Z -> byte;
  (* ghost *)
  bp : Z;                              (* lap base of the producer's position *)
  strm : list byte;                    (* everything committed so far, in order *)
  cuts : list Z                        (* commit boundaries (offsets into S), newest first; contains 0 *)
}.

Definition last_of (c : srec) (l : list srec) : srec := last l c.
Definition w_new (s : qstate) : srec := last_of (Wcur s) (Wpend s).
Definition r_new (s : qstate) : srec := last_of (Rcur s) (Rpend s).
Definition lenS (s : qstate) : Z := Z.of_nat (length (strm s)).

Definition init (c : Z) : qstate :=
  mkQ c (mkS 0 0 0) [] (mkS 0 0 0) [] 0 0 0 0 (fun _ => 0%N) 0 [] [0].

(** an acquire load that skips [k] pending stores: returns the store read and the stores still newer *)
Fixpoint acquire (k : nat) (cur : srec) (pend : list srec) : srec * list srec :=
  match k, pend with
  | S k', x :: rest => acquire k' x rest
  | _, _ => (cur, pend)
  end.

Definition upd (f : Z -> byte) (pos : Z) (bytes : list byte) : Z -> byte :=
  fun i => if (pos <=? i) && (i <? pos + Z.of_nat (length bytes))
           then nth (Z.to_nat (i - pos)) bytes 0%N else f i.

Definition setR (s : qstate) (c : srec) (p : list srec) : qstate :=
  mkQ (cap s) (Wcur s) (Wpend s) c p (dataEnd s) (wpos s) (wend s) (readEnd s) (buf s) (bp s) (strm s) (cuts s).
Definition setW (s : qstate) (c : srec) (p : list srec) : qstate :=
  mkQ (cap s) c p (Rcur s) (Rpend s) (dataEnd s) (wpos s) (wend s) (readEnd s) (buf s) (bp s) (strm s) (cuts s).

(** QueueWriter::maximizeWriteCapacity once the acquire load of readIndex has happened *)
Definition pmax0 (s : qstate) : qstate :=
  let w := sv (w_new s) in
  let r := sv (Rcur s) in
  if w <? r then
    mkQ (cap s) (Wcur s) (Wpend s) (Rcur s) (Rpend s) (dataEnd s) w (r - 1) (readEnd s) (buf s) (sb (w_new s)) (strm s) (cuts s)
  else
    let right := cap s - w in
    let left := r - 1 in
    if left <=? right then
      mkQ (cap s) (Wcur s) (Wpend s) (Rcur s) (Rpend s) (dataEnd s) w (w + right) (readEnd s) (buf s) (sb (w_new s)) (strm s) (cuts s)
    else
      mkQ (cap s) (Wcur s) (Wpend s) (Rcur s) (Rpend s) w 0 left (readEnd s) (buf s) (sT (w_new s)) (strm s) (cuts s).

(** maximizeWriteCapacity; [k] = reads-from choice of the acquire load of readIndex *)
Definition pmax (k : nat) (s : qstate) : qstate :=
  let (rc, rp) := acquire k (Rcur s) (Rpend s) in pmax0 (setR s rc rp).

(** beginWrite(n): true iff the space is granted *)
Definition pbegin (k : nat) (n : Z) (s : qstate) : qstate * bool :=
  if n <=? wend s - wpos s then (s, true)
  else let s' := pmax k s in (s', n <=? wend s' - wpos s').

(** writeBuffer(bytes) ; endWrite() after a granted request *)
Definition pcommit (bytes : list byte) (s : qstate) : qstate :=
  let n := Z.of_nat (length bytes) in
  let w' := wpos s + n in
  let T' := lenS s + n in
  mkQ (cap s) (Wcur s) (Wpend s ++ [mkS w' T' (bp s)]) (Rcur s) (Rpend s) (dataEnd s) w' (wend s) (readEnd s)
      (upd (buf s) (wpos s) bytes) (bp s) (strm s ++ bytes) (T' :: cuts s).

(** beginWrite + writeBuffer + endWrite as one producer call; false = request failed, nothing written *)
Definition pwrite (k : nat) (bytes : list byte) (s : qstate) : qstate * bool :=
  let (s1, ok) := pbegin k (Z.of_nat (length bytes)) s in
  if ok then (pcommit bytes s1, true) else (s1, false).

Fixpoint zrange (lo : Z) (n : nat) : list Z :=
  match n with O => [] | S n' => lo :: zrange (lo + 1) n' end.
Definition read_cells (f : Z -> byte) (lo hi : Z) : list byte := map f (zrange lo (Z.to_nat (hi - lo))).

(** QueueReader::beginRead once the acquire load of writeIndex has happened.
    Returns the two pieces (buffer1,size1) (buffer2,size2) as byte lists. *)
Definition cread0 (s : qstate) : qstate * (list byte * list byte) :=
  let w := sv (Wcur s) in
  let r := sv (r_new s) in
  let s' := mkQ (cap s) (Wcur s) (Wpend s) (Rcur s) (Rpend s) (dataEnd s) (wpos s) (wend s) w (buf s) (bp s) (strm s) (cuts s) in
  if r <=? w then (s', (read_cells (buf s) r w, []))
  else if r <? dataEnd s then (s', (read_cells (buf s) r (dataEnd s), read_cells (buf s) 0 w))
  else (s', (read_cells (buf s) 0 w, [])).

(** beginRead; [k] = reads-from choice of the acquire load of writeIndex *)
Definition cread (k : nat) (s : qstate) : qstate * (list byte * list byte) :=
  let (wc, wp') := acquire k (Wcur s) (Wpend s) in cread0 (setW s wc wp').

(** QueueReader::endRead *)
Definition cend (s : qstate) : qstate :=
  mkQ (cap s) (Wcur s) (Wpend s) (Rcur s) (Rpend s ++ [mkS (readEnd s) (sT (Wcur s)) (sb (Wcur s))]) (dataEnd s)
      (wpos s) (wend s) (readEnd s) (buf s) (bp s) (strm s) (cuts s).

Inductive qop :=
| OpWrite (k : nat) (bytes : list byte)     (* beginWrite(n) [+ writeBuffer + endWrite if granted] *)
| OpBegin (k : nat) (n : Z)                 (* beginWrite(n) alone (abandoned or failed request) *)
| OpRead (k : nat)                          (* beginRead *)
| OpEndRead.                                (* endRead (after a beginRead) *)

Inductive qout := OutGrant (ok : bool) | OutBatch (p1 p2 : list byte) | OutNone.

Definition qstep (s : qstate) (o : qop) : qstate * qout :=
  match o with
  | OpWrite k bytes => let (s', ok) := pwrite k bytes s in (s', OutGrant ok)
  | OpBegin k n => let (s', ok) := pbegin k n s in (s', OutGrant ok)
  | OpRead k => let (s', b) := cread k s in (s', OutBatch (fst b) (snd b))
  | OpEndRead => (cend s, OutNone)
  end.

Fixpoint qrun (s : qstate) (ops : list qop) : qstate * list qout :=
  match ops with
  | [] => (s, [])
  | o :: r => let (s1, out) := qstep s o in let (s2, outs) := qrun s1 r in (s2, out :: outs)
  end.
