(** C01: the invariant of the queue under stale (release/acquire) reads, preserved by every operation
    for every capacity, every operation sequence and every reads-from choice. *)
From Coq Require Import List ZArith Bool Lia Sorted.
From BL Require Import Base.Bytes Queue.QueueModel.
Import ListNotations.
Local Open Scope Z_scope.

Definition chain (s : qstate) : list srec := (Rcur s :: Rpend s) ++ (Wcur s :: Wpend s).
Definition b0 (s : qstate) : Z := sb (Rcur s).
Definition r0 (s : qstate) : Z := sv (Rcur s).
Definition phys (s : qstate) (x : Z) : Z := if x <? bp s then x - b0 s else x - bp s.
Definition rec_le (a b : srec) : Prop := sT a <= sT b /\ sb a <= sb b.

Definition rec_ok (s : qstate) (a : srec) : Prop :=
  sv a = sT a - sb a /\ 0 <= sv a <= cap s /\ sb a <= sT a /\ In (sT a) (cuts s) /\
  ((sb a = b0 s /\ sT a <= bp s) \/ sb a = bp s).

Record Inv (s : qstate) : Prop := mkInv {
  I_cap : 0 <= cap s;
  I_sorted : StronglySorted rec_le (chain s);
  I_rec : Forall (rec_ok s) (chain s);
  I_T : sT (w_new s) = lenS s;
  I_pos : wpos s = lenS s - bp s /\ 0 <= wpos s <= wend s /\ wend s <= cap s;
  I_bp : b0 s <= bp s <= lenS s /\ In (bp s) (cuts s) /\ sb (w_new s) <= bp s;
  I_ahead : bp s <> b0 s -> dataEnd s = bp s - b0 s /\ r0 s <= dataEnd s <= cap s /\ wend s <= r0 s - 1;
  I_pending : sb (w_new s) <> bp s -> bp s = lenS s /\ sb (w_new s) = b0 s /\ cap s - sv (w_new s) < r0 s - 1;
  I_readEnd : readEnd s = sv (Wcur s);
  I_content : forall x, sT (Rcur s) <= x < lenS s -> buf s (phys s x) = nth (Z.to_nat x) (strm s) 0%N;
  I_cuts : In 0 (cuts s) /\ Forall (fun c => 0 <= c <= lenS s) (cuts s)
}.

Lemma inv_init c : 0 <= c -> Inv (init c).
Proof.
  intros Hc. unfold init. constructor; cbn; unfold lenS, b0, r0, chain, w_new, r_new, last_of; cbn.
  - exact Hc.
  - repeat constructor; cbn; lia.
  - repeat constructor; unfold b0; cbn; try lia; auto.
  - reflexivity.
  - lia.
  - repeat split; try lia; now left.
  - lia.
  - lia.
  - reflexivity.
  - intros x Hx. lia.
  - split; [now left|]. repeat constructor; lia.
Qed.

(** ** generic facts *)
Lemma acquire_suffix k : forall cur pend c' p', acquire k cur pend = (c', p') ->
  exists dropped, cur :: pend = dropped ++ c' :: p'.
Proof.
  induction k as [|k IH]; intros cur pend c' p' H.
  - cbn in H. inversion H; subst. exists []. reflexivity.
  - destruct pend as [|x rest]; cbn in H.
    + inversion H; subst. exists []. reflexivity.
    + apply IH in H. destruct H as [d Hd]. exists (cur :: d). cbn. now rewrite Hd.
Qed.

Lemma last_cons_default {A} (x : A) l d : last (x :: l) d = last l x.
Proof. revert x; induction l as [|y l IH]; intros x; [reflexivity|]. cbn [last] in *. destruct l; [reflexivity|]. apply IH. Qed.

Lemma last_app_cons {A} (d0 : list A) c p d : last (d0 ++ c :: p) d = last (c :: p) d.
Proof.
  induction d0 as [|x d0 IH]; [reflexivity|]. cbn [app]. rewrite <- IH.
  cbn [last]. destruct (d0 ++ c :: p) eqn:E; [destruct d0; discriminate|reflexivity].
Qed.

Lemma last_of_suffix d cur pend c' p' : cur :: pend = d ++ c' :: p' -> last_of c' p' = last_of cur pend.
Proof.
  unfold last_of. intros H. rewrite <- (last_cons_default cur pend cur), <- (last_cons_default c' p' cur), H.
  now rewrite last_app_cons.
Qed.

Lemma ss_app_drop {A} (R : A -> A -> Prop) a b c :
  StronglySorted R (a ++ b ++ c) -> StronglySorted R (a ++ c).
Proof.
  induction a as [|x a IH]; cbn; intros H.
  - induction b as [|y b IHb]; [exact H|]. cbn in H. inversion H; subst. now apply IHb.
  - inversion H as [|? ? Hs Hf]; subst. constructor; [now apply IH|].
    rewrite !Forall_app in *. tauto.
Qed.

Lemma forall_app_drop {A} (P : A -> Prop) a b c : Forall P (a ++ b ++ c) -> Forall P (a ++ c).
Proof. rewrite !Forall_app. tauto. Qed.

Lemma ss_head_le {A} (R : A -> A -> Prop) x l y : StronglySorted R (x :: l) -> In y l -> R x y.
Proof. intros H Hin. inversion H as [|? ? _ Hf]; subst. rewrite Forall_forall in Hf. now apply Hf. Qed.

Lemma last_in {A} (l : list A) d : l <> [] -> In (last l d) l.
Proof. induction l as [|x l IH]; [congruence|]. intros _. destruct l; [now left|]. right. apply IH. discriminate. Qed.

(** ** the producer's acquire load advances its view of readIndex *)
Lemma chain_in_R s a : In a (Rcur s :: Rpend s) -> In a (chain s).
Proof. unfold chain. intros H. apply in_or_app. now left. Qed.

Lemma rec_ok_of s a : Inv s -> In a (chain s) -> rec_ok s a.
Proof. intros HI Hin. pose proof (I_rec s HI) as Hf. rewrite Forall_forall in Hf. now apply Hf. Qed.

Lemma w_new_in_chain s : In (w_new s) (chain s).
Proof.
  unfold chain, w_new, last_of. apply in_or_app. right.
  rewrite <- (last_cons_default (Wcur s) (Wpend s) (Wcur s)). apply last_in. discriminate.
Qed.

Lemma chain_le_w_new s a : Inv s -> In a (chain s) -> rec_le a (w_new s).
Proof.
  intros HI Hin. pose proof (I_sorted s HI) as Hs.
  (* w_new is the last element of the chain *)
  assert (Hl : exists pre, chain s = pre ++ [w_new s]).
  { unfold chain, w_new, last_of.
    destruct (@exists_last _ (Wcur s :: Wpend s) ltac:(discriminate)) as (l' & x & E).
    exists ((Rcur s :: Rpend s) ++ l'). rewrite E, <- app_assoc.
    f_equal. f_equal. f_equal. rewrite <- (last_cons_default (Wcur s) (Wpend s) (Wcur s)), E. now rewrite last_last. }
  destruct Hl as [pre E]. rewrite E in Hs, Hin. apply in_app_or in Hin. destruct Hin as [Hin|[<-|[]]].
  - clear E. induction pre as [|y pre IH]; [contradiction|]. cbn in Hs. inversion Hs as [|? ? Hs' Hf]; subst.
    destruct Hin as [<-|Hin]; [|now apply IH]. rewrite Forall_forall in Hf. apply Hf. apply in_or_app. right. now left.
  - split; lia.
Qed.

Lemma inv_advR s d c' p' : Inv s -> Rcur s :: Rpend s = d ++ c' :: p' -> Inv (setR s c' p').
Proof.
  intros HI E.
  assert (Hc'in : In c' (chain s)).
  { apply chain_in_R. rewrite E. apply in_or_app. right. now left. }
  pose proof (rec_ok_of s c' HI Hc'in) as (Hv & Hvr & Hbt & Hcut & Hbase).
  pose proof (rec_ok_of s (Rcur s) HI (chain_in_R s _ (or_introl eq_refl))) as (Rv & Rvr & Rbt & Rcut & _).
  assert (Hchain : chain s = d ++ chain (setR s c' p')).
  { unfold chain. cbn [Rcur Rpend Wcur Wpend setR]. rewrite E. now rewrite <- app_assoc. }
  assert (Hle : rec_le (Rcur s) c').
  { destruct d as [|x d'].
    - cbn in E. inversion E; subst. split; lia.
    - cbn in E. inversion E; subst x. pose proof (I_sorted s HI) as Hs. rewrite Hchain in Hs.
      cbn [app] in Hs. eapply ss_head_le; [exact Hs|]. apply in_or_app. right. unfold chain. cbn. now left. }
  assert (Hsorted' : StronglySorted rec_le (chain (setR s c' p'))).
  { pose proof (I_sorted s HI) as Hs. rewrite Hchain in Hs. apply (ss_app_drop rec_le [] d) in Hs. exact Hs. }
  assert (Hwn : w_new (setR s c' p') = w_new s) by reflexivity.
  assert (HlenS : lenS (setR s c' p') = lenS s) by reflexivity.
  destruct HI as [Hcap Hs Hrec HT Hpos Hbp Hah Hpe Hre Hco Hcu].
  destruct Hle as [HleT Hleb].
  destruct Hbase as [[Hb0 HbT]|Hbbp].
  - (* same lap as before *)
    constructor; rewrite ?HlenS; cbn [cap Wcur Wpend Rcur Rpend dataEnd wpos wend readEnd buf bp strm cuts setR]; try assumption.
    + rewrite Hchain in Hrec. apply Forall_app in Hrec. destruct Hrec as [_ Hrec].
      eapply Forall_impl; [|exact Hrec]. intros a (A1 & A2 & A3 & A4 & A5).
      unfold rec_ok, b0 in *. cbn [cap Rcur cuts bp setR]. rewrite Hb0. tauto.
    + unfold b0 in *. cbn [Rcur setR]. rewrite Hb0. exact Hbp.
    + unfold b0, r0 in *. cbn [Rcur setR bp dataEnd wend]. rewrite Hb0. intros Hne. specialize (Hah Hne). lia.
    + rewrite Hwn. unfold b0, r0 in *. cbn [Rcur setR bp]. rewrite Hb0. intros Hne. specialize (Hpe Hne). lia.
    + intros x Hx. cbn [Rcur setR] in Hx. unfold phys, b0 in *. cbn [bp Rcur setR buf strm]. rewrite Hb0.
      apply Hco. unfold lenS in *. cbn [strm setR] in Hx. lia.
  - (* the store acquired belongs to the next lap *)
    destruct (Z.eq_dec (bp s) (b0 s)) as [Heq|Hne].
    + (* same thing: bp = b0 *)
      constructor; rewrite ?HlenS; cbn [cap Wcur Wpend Rcur Rpend dataEnd wpos wend readEnd buf bp strm cuts setR]; try assumption.
      * rewrite Hchain in Hrec. apply Forall_app in Hrec. destruct Hrec as [_ Hrec].
        eapply Forall_impl; [|exact Hrec]. intros a (A1 & A2 & A3 & A4 & A5).
        unfold rec_ok, b0 in *. cbn [cap Rcur cuts bp setR]. repeat split; try tauto. right. destruct A5 as [[X _]|X]; congruence.
      * unfold b0 in *. cbn [Rcur setR]. rewrite Hbbp. destruct Hbp as (? & ? & ?). repeat split; auto; lia.
      * unfold b0, r0 in *. cbn [Rcur setR bp dataEnd wend]. rewrite Hbbp. intros Hn. lia.
      * rewrite Hwn. unfold b0, r0 in *. cbn [Rcur setR bp]. intros Hn. specialize (Hpe Hn). lia.
      * intros x Hx. cbn [Rcur setR] in Hx. unfold phys, b0 in *. cbn [bp Rcur setR buf strm]. rewrite Hbbp.
        unfold lenS in *. cbn [strm setR] in Hx.
        specialize (Hco x ltac:(lia)). rewrite Heq in Hco. rewrite Heq.
        destruct (x <? sb (Rcur s)); exact Hco.
    + (* genuinely one lap ahead: the old lap is left behind *)
      assert (Hall : Forall (fun a => sb a = bp s) (chain (setR s c' p'))).
      { rewrite Hchain in Hrec. apply Forall_app in Hrec. destruct Hrec as [_ Hrec].
        assert (Hshape : chain (setR s c' p') = c' :: (p' ++ Wcur s :: Wpend s)) by reflexivity.
        rewrite Hshape in *. apply StronglySorted_inv in Hsorted'. destruct Hsorted' as [_ Hf'].
        inversion Hrec as [|? ? _ Hrec']; subst.
        constructor; [exact Hbbp|].
        rewrite Forall_forall in *. intros y Hy. specialize (Hf' y Hy). destruct Hf' as [_ Hyb].
        specialize (Hrec' y Hy). destruct Hrec' as (_ & _ & _ & _ & [[Y1 Y2]|Y]); [|exact Y].
        unfold b0 in *. lia. }
      assert (Hwnb : sb (w_new s) = bp s).
      { rewrite Forall_forall in Hall. apply Hall. rewrite <- Hwn. apply w_new_in_chain. }
      constructor; rewrite ?HlenS; cbn [cap Wcur Wpend Rcur Rpend dataEnd wpos wend readEnd buf bp strm cuts setR]; try assumption.
      * rewrite Hchain in Hrec. apply Forall_app in Hrec. destruct Hrec as [_ Hrec].
        rewrite Forall_forall in *. intros a Ha. specialize (Hrec a Ha). specialize (Hall a Ha).
        destruct Hrec as (A1 & A2 & A3 & A4 & A5). unfold rec_ok. cbn [cap Rcur cuts bp setR]. repeat split; try tauto; now right.
      * unfold b0 in *. cbn [Rcur setR]. rewrite Hbbp. destruct Hbp as (? & ? & ?). repeat split; auto; lia.
      * unfold b0 in *. cbn [Rcur setR bp]. intros Hn. congruence.
      * rewrite Hwn. intros Hn. congruence.
      * intros x Hx. cbn [Rcur setR] in Hx. unfold phys, b0 in *. cbn [bp Rcur setR buf strm]. rewrite Hbbp.
        unfold lenS in *. cbn [strm setR] in Hx.
        specialize (Hco x ltac:(lia)).
        destruct (Z.ltb_spec x (bp s)); [lia|exact Hco].
Qed.

(** ** maximizeWriteCapacity, after the load *)
Lemma rcur_le_w_new s : Inv s -> rec_le (Rcur s) (w_new s).
Proof. intros HI. apply chain_le_w_new; [exact HI|]. apply chain_in_R. now left. Qed.

Lemma inv_pmax0 s : Inv s -> Inv (pmax0 s).
Proof.
  intros HI.
  pose proof (rec_ok_of s (w_new s) HI (w_new_in_chain s)) as (Wv & Wvr & Wbt & Wcut & Wbase).
  pose proof (rec_ok_of s (Rcur s) HI (chain_in_R s _ (or_introl eq_refl))) as (Rv & Rvr & Rbt & Rcut & _).
  pose proof (rcur_le_w_new s HI) as [RWt RWb].
  pose proof (fun a => chain_le_w_new s a HI) as Hall.
  destruct HI as [Hcap Hs Hrec HT Hpos Hbp Hah Hpe Hre Hco Hcu].
  unfold pmax0. unfold b0, r0 in *.
  destruct (Z.ltb_spec (sv (w_new s)) (sv (Rcur s))) as [Hlt|Hge].
  - (* [####W.....R###E..] : the producer is one lap ahead, nothing moves but the end of the window *)
    assert (Hwb : sb (w_new s) = bp s /\ bp s <> sb (Rcur s)).
    { destruct Wbase as [[B1 B2]|B]; [lia|]. split; [exact B|]. intros Q. lia. }
    destruct Hwb as [Hwb Hne]. specialize (Hah Hne).
    constructor; unfold lenS, b0, r0, chain, w_new in *; cbn [cap Wcur Wpend Rcur Rpend dataEnd wpos wend readEnd buf bp strm cuts]; try assumption; fold (w_new s) in *.
    + eapply Forall_impl; [|exact Hrec]. intros a Ha. unfold rec_ok, b0 in *. cbn [cap Rcur cuts bp]. rewrite Hwb. exact Ha.
    + rewrite Hwb. lia.
    + rewrite Hwb. destruct Hbp as (? & ? & ?). repeat split; auto; lia.
    + rewrite Hwb. intros _. lia.
    + rewrite Hwb. intros Q. congruence.
    + intros x Hx. unfold phys, b0 in *. cbn [bp Rcur buf]. rewrite Hwb. apply Hco. exact Hx.
  - destruct (Z.leb_spec (sv (Rcur s) - 1) (cap s - sv (w_new s))) as [Hle|Hgt].
    + (* [...R###W......] : write on to the end of the buffer *)
      assert (Hwb : sb (w_new s) = bp s /\ bp s = sb (Rcur s)).
      { destruct (Z.eq_dec (sb (w_new s)) (bp s)) as [Q|Q].
        - split; [exact Q|]. destruct (Z.eq_dec (bp s) (sb (Rcur s))) as [Q2|Q2]; [exact Q2|]. specialize (Hah Q2). lia.
        - specialize (Hpe Q). lia. }
      destruct Hwb as [Hwb Heq].
      constructor; unfold lenS, b0, r0, chain, w_new in *; cbn [cap Wcur Wpend Rcur Rpend dataEnd wpos wend readEnd buf bp strm cuts]; try assumption; fold (w_new s) in *.
      * eapply Forall_impl; [|exact Hrec]. intros a Ha. unfold rec_ok, b0 in *. cbn [cap Rcur cuts bp]. rewrite Hwb. exact Ha.
      * rewrite Hwb. lia.
      * rewrite Hwb. destruct Hbp as (? & ? & ?). repeat split; auto; lia.
      * rewrite Hwb. intros Q. congruence.
      * rewrite Hwb. intros Q. congruence.
      * intros x Hx. unfold phys, b0 in *. cbn [bp Rcur buf]. rewrite Hwb. apply Hco. exact Hx.
    + (* wrap: dataEnd = w, continue from the start of the buffer, up to r-1 *)
      assert (Hwb : sb (w_new s) = sb (Rcur s)).
      { destruct Wbase as [[B1 B2]|B]; [exact B1|].
        destruct (Z.eq_dec (bp s) (sb (Rcur s))) as [Q2|Q2]; [congruence|]. specialize (Hah Q2). lia. }
      assert (Hold : bp s = sb (Rcur s) \/ bp s = Z.of_nat (length (strm s))).
      { destruct (Z.eq_dec (sb (w_new s)) (bp s)) as [Q|Q]; [left; congruence|right]. now destruct (Hpe Q). }
      constructor; unfold lenS, b0, r0, chain, w_new in *; cbn [cap Wcur Wpend Rcur Rpend dataEnd wpos wend readEnd buf bp strm cuts]; try assumption; fold (w_new s) in *.
      * rewrite Forall_forall in *. intros a Ha. specialize (Hrec a Ha). specialize (Hall a Ha). destruct Hall as [At Ab].
        destruct Hrec as (A1 & A2 & A3 & A4 & A5). unfold rec_ok, b0. cbn [cap Rcur cuts bp]. repeat split; try tauto.
        left. split; [|lia]. destruct A5 as [[X _]|X]; [exact X|]. destruct Hold; lia.
      * lia.
      * repeat split; try lia. exact Wcut.
      * intros _. lia.
      * intros _. repeat split; lia.
      * intros x Hx. unfold phys, b0 in *. cbn [bp Rcur buf]. rewrite HT.
        specialize (Hco x Hx). destruct (Z.ltb_spec x (Z.of_nat (length (strm s)))); [|lia].
        destruct Hold as [Q|Q]; rewrite Q in Hco.
        -- destruct (Z.ltb_spec x (sb (Rcur s))); [lia|exact Hco].
        -- destruct (Z.ltb_spec x (Z.of_nat (length (strm s)))); [exact Hco|lia].
Qed.

Lemma inv_pmax k s : Inv s -> Inv (pmax k s).
Proof.
  intros HI. unfold pmax. destruct (acquire k (Rcur s) (Rpend s)) as [rc rp] eqn:E.
  apply acquire_suffix in E. destruct E as [d E]. apply inv_pmax0. eapply inv_advR; eassumption.
Qed.

(** ** writeBuffer + endWrite inside a granted window *)
Lemma upd_outside f pos bytes i : i < pos \/ pos + Z.of_nat (length bytes) <= i -> upd f pos bytes i = f i.
Proof.
  intros H. unfold upd. destruct (Z.leb_spec pos i), (Z.ltb_spec i (pos + Z.of_nat (length bytes))); cbn; try reflexivity. lia.
Qed.
Lemma upd_inside f pos bytes i : pos <= i < pos + Z.of_nat (length bytes) -> upd f pos bytes i = nth (Z.to_nat (i - pos)) bytes 0%N.
Proof.
  intros H. unfold upd. destruct (Z.leb_spec pos i), (Z.ltb_spec i (pos + Z.of_nat (length bytes))); cbn; try reflexivity; lia.
Qed.

Lemma w_new_pcommit bytes s : w_new (pcommit bytes s) = mkS (wpos s + Z.of_nat (length bytes)) (lenS s + Z.of_nat (length bytes)) (bp s).
Proof. unfold w_new, last_of, pcommit. cbn [Wcur Wpend]. now rewrite last_last. Qed.

Lemma inv_pcommit bytes s : Inv s -> Z.of_nat (length bytes) <= wend s - wpos s -> Inv (pcommit bytes s).
Proof.
  intros HI Hn. set (n := Z.of_nat (length bytes)) in *.
  pose proof (fun a => chain_le_w_new s a HI) as Hall.
  pose proof (rec_ok_of s (Rcur s) HI (chain_in_R s _ (or_introl eq_refl))) as (Rv & Rvr & Rbt & Rcut & _).
  pose proof (rcur_le_w_new s HI) as [RWt RWb].
  assert (Hn0 : 0 <= n) by (unfold n; lia).
  destruct HI as [Hcap Hs Hrec HT Hpos Hbp Hah Hpe Hre Hco Hcu].
  assert (HlenS : lenS (pcommit bytes s) = lenS s + n).
  { unfold lenS, pcommit. cbn [strm]. rewrite app_length. unfold n. lia. }
  assert (Hchain : chain (pcommit bytes s) = chain s ++ [mkS (wpos s + n) (lenS s + n) (bp s)]).
  { unfold chain, pcommit. cbn [Rcur Rpend Wcur Wpend]. fold n. rewrite <- !app_assoc. reflexivity. }
  assert (Hb0 : b0 (pcommit bytes s) = b0 s) by reflexivity.
  assert (Hr0 : r0 (pcommit bytes s) = r0 s) by reflexivity.
  constructor; rewrite ?HlenS, ?Hb0, ?Hr0, ?w_new_pcommit; fold n;
    cbn [cap Wcur Wpend Rcur Rpend dataEnd wpos wend readEnd buf bp strm cuts pcommit sv sT sb]; fold n; try assumption.
  - (* sorted *)
    rewrite Hchain. clear Hchain. 
    assert (Hnew : Forall (fun a => rec_le a (mkS (wpos s + n) (lenS s + n) (bp s))) (chain s)).
    { rewrite Forall_forall in *. intros a Ha. specialize (Hall a Ha). specialize (Hrec a Ha).
      destruct Hall as [At Ab]. destruct Hrec as (_ & _ & _ & _ & A5). unfold rec_le. cbn [sT sb]. unfold b0 in *.
      split; [lia|]. destruct A5 as [[X _]|X]; lia. }
    revert Hs Hnew. generalize (chain s). induction l as [|x l IH]; intros Hs Hnew.
    + repeat constructor.
    + inversion Hs; subst. inversion Hnew; subst. cbn [app]. constructor; [now apply IH|].
      apply Forall_app. split; [assumption|]. constructor; [assumption|constructor].
  - (* records *)
    rewrite Hchain. apply Forall_app. split.
    + eapply Forall_impl; [|exact Hrec]. intros a (A1 & A2 & A3 & A4 & A5). unfold rec_ok. rewrite Hb0.
      cbn [cap cuts bp pcommit]. repeat split; try tauto. now right.
    + constructor; [|constructor]. unfold rec_ok. rewrite Hb0. cbn [sv sT sb cap cuts bp pcommit]. fold n.
      split; [lia|]. split; [lia|]. split; [lia|]. split; [now left|now right].
  - reflexivity.
  - lia.
  - destruct Hbp as (Hb1 & Hc & _). split; [lia|]. split; [now right|lia].
  - intros Q. congruence.
  - (* content *)
    intros x Hx. cbn [Rcur pcommit] in Hx.
    assert (HR0 : 0 <= sT (Rcur s)).
    { destruct Hcu as [_ Hf]. rewrite Forall_forall in Hf. apply (Hf _ Rcut). }
    unfold phys. rewrite Hb0. cbn [bp pcommit]. unfold lenS in *. fold n in Hx.
    destruct (Z_lt_ge_dec x (Z.of_nat (length (strm s)))) as [Hold|Hnew].
    + (* a byte committed earlier is not touched *)
      rewrite app_nth1 by lia. rewrite <- (Hco x ltac:(lia)). unfold phys.
      apply upd_outside. fold n. unfold b0, r0 in *.
      destruct (Z.ltb_spec x (bp s)) as [Hxl|Hxg].
      * assert (Hne : bp s <> sb (Rcur s)) by lia. specialize (Hah Hne). lia.
      * lia.
    + (* a byte of this commit *)
      destruct (Z.ltb_spec x (bp s)) as [Hxl|Hxg]; [lia|].
      rewrite upd_inside by (fold n; lia).
      rewrite app_nth2 by lia. f_equal.
      replace (x - bp s - wpos s) with (x - Z.of_nat (length (strm s))) by lia.
      rewrite Z2Nat.inj_sub by lia. now rewrite Nat2Z.id.
  - destruct Hcu as [H0 Hf]. split; [now right|]. constructor; [unfold lenS; lia|].
    eapply Forall_impl; [|exact Hf]. intros c Hc. cbn in Hc. lia.
Qed.

Lemma inv_pbegin k n s : Inv s -> Inv (fst (pbegin k n s)).
Proof. intros HI. unfold pbegin. destruct (n <=? wend s - wpos s); cbn [fst]; [exact HI|now apply inv_pmax]. Qed.

Lemma inv_pwrite k bytes s : Inv s -> Inv (fst (pwrite k bytes s)).
Proof.
  intros HI. unfold pwrite. pose proof (inv_pbegin k (Z.of_nat (length bytes)) s HI) as H1.
  unfold pbegin in *. destruct (Z.leb_spec (Z.of_nat (length bytes)) (wend s - wpos s)) as [Hle|Hgt]; cbn [fst] in *.
  - now apply inv_pcommit.
  - destruct (Z.leb_spec (Z.of_nat (length bytes)) (wend (pmax k s) - wpos (pmax k s))); cbn [fst]; [now apply inv_pcommit|exact H1].
Qed.

(** ** the consumer's acquire load advances its view of writeIndex *)
Lemma inv_advW_read s d c' p' : Inv s -> Wcur s :: Wpend s = d ++ c' :: p' ->
  let s' := setW s c' p' in
  Inv (mkQ (cap s') (Wcur s') (Wpend s') (Rcur s') (Rpend s') (dataEnd s') (wpos s') (wend s') (sv c') (buf s') (bp s') (strm s') (cuts s')).
Proof.
  intros HI E. cbv zeta. cbn [cap Wcur Wpend Rcur Rpend dataEnd wpos wend buf bp strm cuts setW].
  set (s2 := mkQ _ _ _ _ _ _ _ _ _ _ _ _ _).
  assert (Hchain2 : chain s2 = (Rcur s :: Rpend s) ++ (c' :: p')) by reflexivity.
  assert (Hwn : w_new s2 = w_new s).
  { unfold w_new. cbn [Wcur Wpend s2]. now apply (last_of_suffix d). }
  destruct HI as [Hcap Hs Hrec HT Hpos Hbp Hah Hpe Hre Hco Hcu].
  constructor; rewrite ?Hwn; unfold lenS, b0, r0 in *; cbn [cap Wcur Wpend Rcur Rpend dataEnd wpos wend readEnd buf bp strm cuts s2]; try assumption.
  - rewrite Hchain2. unfold chain in Hs. rewrite E in Hs. now apply (ss_app_drop rec_le _ d) in Hs.
  - rewrite Hchain2. unfold chain in Hrec. rewrite E in Hrec. apply (forall_app_drop _ _ d) in Hrec.
    eapply Forall_impl; [|exact Hrec]. intros a Ha. exact Ha.
  - reflexivity.
Qed.

(** ** what beginRead shows *)
Definition slice (l : list byte) (a b : Z) : list byte := firstn (Z.to_nat (b - a)) (skipn (Z.to_nat a) l).

Lemma skipn_nth_cons {A} (l : list A) d : forall i, (i < length l)%nat -> skipn i l = nth i l d :: skipn (S i) l.
Proof.
  induction l as [|x l IH]; intros i Hi; [simpl in Hi; lia|].
  destruct i; [reflexivity|]. cbn [skipn nth]. apply IH. simpl in Hi. lia.
Qed.

Lemma map_zrange_slice (l : list byte) f : forall n a, 0 <= a -> a + Z.of_nat n <= Z.of_nat (length l) ->
  (forall x, a <= x < a + Z.of_nat n -> f x = nth (Z.to_nat x) l 0%N) ->
  map f (zrange a n) = firstn n (skipn (Z.to_nat a) l).
Proof.
  induction n as [|n IH]; intros a Ha Hb Hf; [reflexivity|].
  cbn [zrange map]. rewrite (skipn_nth_cons l 0%N) by lia. cbn [firstn]. f_equal.
  - apply Hf. lia.
  - rewrite IH; [|lia|lia|intros x Hx; apply Hf; lia]. f_equal. f_equal. lia.
Qed.

Lemma read_cells_slice (l : list byte) f base a b : 0 <= a <= b -> b <= Z.of_nat (length l) ->
  (forall x, a <= x < b -> f (x - base) = nth (Z.to_nat x) l 0%N) ->
  read_cells f (a - base) (b - base) = slice l a b.
Proof.
  intros Hab Hb Hf. unfold read_cells, slice.
  replace (b - base - (a - base)) with (b - a) by lia.
  (* shift the range by base *)
  assert (G : forall n lo, map f (zrange (lo - base) n) = map (fun x => f (x - base)) (zrange lo n)).
  { induction n as [|n IH]; intros lo; [reflexivity|]. cbn [zrange map]. f_equal.
    replace (lo - base + 1) with ((lo + 1) - base) by lia. apply IH. }
  rewrite G. apply map_zrange_slice; try lia. intros x Hx. apply Hf. lia.
Qed.

Lemma firstn_plus {A} (l : list A) : forall n m, firstn (n + m) l = firstn n l ++ firstn m (skipn n l).
Proof. induction l as [|x l IH]; intros n m; [now rewrite !firstn_nil, skipn_nil, firstn_nil|]. destruct n; [reflexivity|]. cbn. now rewrite IH. Qed.
Lemma skipn_plus {A} (l : list A) : forall n m, skipn m (skipn n l) = skipn (n + m) l.
Proof. induction l as [|x l IH]; intros n m; [now rewrite !skipn_nil|]. destruct n; [reflexivity|]. cbn. apply IH. Qed.

Lemma slice_app l a m b : 0 <= a <= m -> m <= b -> slice l a m ++ slice l m b = slice l a b.
Proof.
  intros H1 H2. unfold slice.
  replace (Z.to_nat (b - a)) with (Z.to_nat (m - a) + Z.to_nat (b - m))%nat by lia.
  rewrite firstn_plus. f_equal. f_equal. rewrite skipn_plus. f_equal. lia.
Qed.

Lemma ss_app_cross {A} (R : A -> A -> Prop) a b x y : StronglySorted R (a ++ b) -> In x a -> In y b -> R x y.
Proof.
  induction a as [|z a IH]; intros Hs Hx Hy; [contradiction|].
  cbn in Hs. apply StronglySorted_inv in Hs. destruct Hs as [Hs Hf].
  destruct Hx as [<-|Hx]; [|now apply IH]. rewrite Forall_forall in Hf. apply Hf. apply in_or_app. now right.
Qed.

Lemma r_new_in s : In (r_new s) (Rcur s :: Rpend s).
Proof. unfold r_new, last_of. rewrite <- (last_cons_default (Rcur s) (Rpend s) (Rcur s)). apply last_in. discriminate. Qed.

Lemma rcur_le_r_new s : Inv s -> rec_le (Rcur s) (r_new s).
Proof.
  intros HI. pose proof (r_new_in s) as [E|Hin]; [rewrite <- E; split; lia|].
  pose proof (I_sorted s HI) as Hs. unfold chain in Hs. cbn [app] in Hs.
  eapply ss_head_le; [exact Hs|]. apply in_or_app. now left.
Qed.

Lemma acquire_all k : forall cur pend, (length pend <= k)%nat -> fst (acquire k cur pend) = last_of cur pend.
Proof.
  unfold last_of. induction k as [|k IH]; intros cur pend H.
  - destruct pend; [reflexivity|simpl in H; lia].
  - destruct pend as [|x r]; [reflexivity|]. cbn [acquire]. rewrite IH by (simpl in H; lia).
    now rewrite <- (last_cons_default x r cur).
Qed.

(** The batch shown by beginRead is exactly the committed bytes between what the consumer has released and
    the store it acquired; each of the two pieces is delimited by commit boundaries. *)
Theorem cread_batch k s s' p1 p2 : Inv s -> cread k s = (s', (p1, p2)) ->
  Inv s' /\ strm s' = strm s /\ r_new s' = r_new s /\ cuts s' = cuts s /\
  In (Wcur s') (Wcur s :: Wpend s) /\ rec_le (Wcur s) (Wcur s') /\
  ((length (Wpend s) <= k)%nat -> Wcur s' = w_new s) /\
  exists m, sT (r_new s) <= m <= sT (Wcur s') /\ In m (cuts s) /\ sT (Wcur s') <= lenS s /\ 0 <= sT (r_new s) /\
            p1 = slice (strm s) (sT (r_new s)) m /\ p2 = slice (strm s) m (sT (Wcur s')).
Proof.
  intros HI Hrd. unfold cread in Hrd.
  pose proof (acquire_all k (Wcur s) (Wpend s)) as Hall.
  destruct (acquire k (Wcur s) (Wpend s)) as [wc wp'] eqn:E. cbn [fst] in Hall.
  apply acquire_suffix in E. destruct E as [d E].
  pose proof (inv_advW_read s d wc wp' HI E) as HI2. cbv zeta in HI2.
  assert (Hwcin : In wc (Wcur s :: Wpend s)) by (rewrite E; apply in_or_app; right; now left).
  assert (Hwcchain : In wc (chain s)) by (unfold chain; apply in_or_app; now right).
  pose proof (rec_ok_of s wc HI Hwcchain) as (Cv & Cvr & Cbt & Ccut & Cbase).
  pose proof (rec_ok_of s (r_new s) HI (chain_in_R s _ (r_new_in s))) as (Nv & Nvr & Nbt & Ncut & Nbase).
  pose proof (rec_ok_of s (Rcur s) HI (chain_in_R s _ (or_introl eq_refl))) as (Rv & Rvr & Rbt & Rcut & _).
  assert (Hnc : rec_le (r_new s) wc).
  { apply (ss_app_cross rec_le (Rcur s :: Rpend s) (Wcur s :: Wpend s)); [exact (I_sorted s HI)|apply r_new_in|exact Hwcin]. }
  assert (Hcw : rec_le (Wcur s) wc).
  { destruct d as [|x d']; cbn in E; inversion E; subst; [split; lia|].
    pose proof (I_sorted s HI) as Hs. unfold chain in Hs. rewrite H1 in Hs.
    apply (ss_app_drop rec_le [] (Rcur s :: Rpend s)) in Hs. cbn [app] in Hs.
    eapply ss_head_le; [exact Hs|]. apply in_or_app. right. now left. }
  pose proof (chain_le_w_new s wc HI Hwcchain) as [CWt _].
  pose proof (rcur_le_r_new s HI) as [RNt RNb].
  destruct Hnc as [NCt NCb].
  pose proof (I_T s HI) as HT. pose proof (I_ahead s HI) as Hah. pose proof (I_content s HI) as Hco.
  pose proof (I_pos s HI) as Hpos. pose proof (I_bp s HI) as Hbp. pose proof (I_cuts s HI) as [_ Hcf].
  assert (HN0 : 0 <= sT (r_new s)) by (rewrite Forall_forall in Hcf; apply (Hcf _ Ncut)).
  unfold cread0 in Hrd. cbn [cap Wcur Wpend Rcur Rpend dataEnd wpos wend readEnd buf bp strm cuts setW] in Hrd.
  change (r_new (setW s wc wp')) with (r_new s) in Hrd.
  unfold b0, r0, lenS in *.
  (* which lap each end is in *)
  destruct (Z.eq_dec (sb (r_new s)) (sb wc)) as [Hsame|Hdiff].
  - (* same lap: one piece *)
    destruct (Z.leb_spec (sv (r_new s)) (sv wc)) as [Hle|Hgt]; [|lia].
    inversion Hrd; subst s' p1 p2. clear Hrd.
    split; [exact HI2|]. cbn [strm cuts Wcur]. split; [reflexivity|]. split; [reflexivity|]. split; [reflexivity|]. split; [exact Hwcin|]. split; [exact Hcw|]. split; [intros Hk; exact (Hall Hk)|].
    exists (sT wc). repeat split; try lia; try assumption.
    + rewrite Nv, Cv, Hsame. apply read_cells_slice; [lia|lia|].
      intros x Hx. rewrite <- (Hco x ltac:(lia)). f_equal. unfold phys, b0.
      destruct (Z.ltb_spec x (bp s)).
      * destruct Cbase as [[B _]|B]; [lia|]. lia.
      * destruct Cbase as [[B B2]|B]; [|lia]. destruct Nbase as [[N1 N2]|N1]; lia.
    + unfold slice. rewrite Z.sub_diag. reflexivity.
  - (* the store acquired is one lap ahead of what has been released *)
    assert (Hb : sb (r_new s) = sb (Rcur s) /\ sb wc = bp s /\ bp s <> sb (Rcur s) /\ sT (r_new s) <= bp s).
    { destruct Nbase as [[N1 N2]|N1]; destruct Cbase as [[C1 C2]|C1]; try lia. }
    destruct Hb as (Hb1 & Hb2 & Hne & Hb3). specialize (Hah Hne). destruct Hah as (HE & HrE & Hwe).
    destruct (Z.leb_spec (sv (r_new s)) (sv wc)) as [Hle|Hgt]; [lia|].
    destruct (Z.ltb_spec (sv (r_new s)) (dataEnd s)) as [Hlt|Hge].
    + inversion Hrd; subst s' p1 p2. clear Hrd.
      split; [exact HI2|]. cbn [strm cuts Wcur]. split; [reflexivity|]. split; [reflexivity|]. split; [reflexivity|]. split; [exact Hwcin|]. split; [exact Hcw|]. split; [intros Hk; exact (Hall Hk)|].
      exists (bp s). repeat split; try lia; try tauto.
      * rewrite Nv, HE, Hb1. apply read_cells_slice; [lia|lia|].
        intros x Hx. rewrite <- (Hco x ltac:(lia)). f_equal. unfold phys, b0. destruct (Z.ltb_spec x (bp s)); lia.
      * rewrite Cv, Hb2. replace 0 with (bp s - bp s) by lia. apply read_cells_slice; [lia|lia|].
        intros x Hx. rewrite <- (Hco x ltac:(lia)). f_equal. unfold phys, b0. destruct (Z.ltb_spec x (bp s)); lia.
    + inversion Hrd; subst s' p1 p2. clear Hrd.
      split; [exact HI2|]. cbn [strm cuts Wcur]. split; [reflexivity|]. split; [reflexivity|]. split; [reflexivity|]. split; [exact Hwcin|]. split; [exact Hcw|]. split; [intros Hk; exact (Hall Hk)|].
      exists (sT wc). repeat split; try lia; try assumption.
      * assert (sT (r_new s) = bp s) by lia.
        rewrite Cv, Hb2, H. replace 0 with (bp s - bp s) by lia. apply read_cells_slice; [lia|lia|].
        intros x Hx. rewrite <- (Hco x ltac:(lia)). f_equal. unfold phys, b0. destruct (Z.ltb_spec x (bp s)); lia.
      * unfold slice. rewrite Z.sub_diag. reflexivity.
Qed.

(** ** endRead *)
Lemma inv_cend s : Inv s -> Inv (cend s).
Proof.
  intros HI.
  set (c := mkS (readEnd s) (sT (Wcur s)) (sb (Wcur s))).
  assert (Hwin : In (Wcur s) (chain s)) by (unfold chain; apply in_or_app; right; now left).
  pose proof (rec_ok_of s (Wcur s) HI Hwin) as Wok.
  assert (Hchain : chain (cend s) = (Rcur s :: Rpend s) ++ [c] ++ (Wcur s :: Wpend s)).
  { unfold chain, cend. cbn [Rcur Rpend Wcur Wpend]. fold c. cbn [app]. now rewrite <- app_assoc. }
  destruct HI as [Hcap Hs Hrec HT Hpos Hbp Hah Hpe Hre Hco Hcu].
  assert (Hrn : r_new (cend s) = c).
  { unfold r_new, last_of, cend. cbn [Rcur Rpend]. fold c. now rewrite last_last. }
  constructor; unfold lenS, b0, r0, w_new in *; cbn [cap Wcur Wpend Rcur Rpend dataEnd wpos wend readEnd buf bp strm cuts cend]; try assumption.
  - (* sorted *)
    rewrite Hchain. unfold chain in Hs. revert Hs. generalize (Rcur s :: Rpend s) as rs. induction rs as [|x rs IH]; intros Hs.
    + cbn [app] in *. constructor; [exact Hs|]. apply StronglySorted_inv in Hs. destruct Hs as [_ Hf].
      constructor; [unfold rec_le, c; cbn; lia|]. eapply Forall_impl; [|exact Hf]. intros a [A1 A2]. unfold rec_le, c in *. cbn [sT sb]. lia.
    + cbn [app] in *. apply StronglySorted_inv in Hs. destruct Hs as [Hs' Hf]. constructor; [now apply IH|].
      rewrite Forall_app in *. destruct Hf as [F1 F2]. split; [exact F1|]. constructor; [|exact F2].
      inversion F2; subst. unfold rec_le, c in *. cbn [sT sb]. lia.
  - rewrite Hchain. unfold chain in Hrec. rewrite Forall_app in *. destruct Hrec as [R1 R2]. split; [exact R1|].
    cbn [app]. constructor; [|exact R2]. destruct Wok as (A1 & A2 & A3 & A4 & A5). unfold rec_ok, c, b0 in *. cbn [sv sT sb cap cuts bp Rcur cend]. rewrite Hre. tauto.
Qed.

Lemma inv_qstep s o : Inv s -> Inv (fst (qstep s o)).
Proof.
  intros HI. destruct o as [k bytes|k n|k|]; cbn [qstep].
  - pose proof (inv_pwrite k bytes s HI). destruct (pwrite k bytes s). exact H.
  - pose proof (inv_pbegin k n s HI). destruct (pbegin k n s). exact H.
  - destruct (cread k s) as [s' [p1 p2]] eqn:E. cbn [fst]. now destruct (cread_batch k s s' p1 p2 HI E).
  - now apply inv_cend.
Qed.

(** every reachable state, for every capacity, operation sequence and reads-from choice *)
Theorem queue_inv_reachable c ops : 0 <= c -> Inv (fst (qrun (init c) ops)).
Proof.
  intros Hc. assert (HI : Inv (init c)) by now apply inv_init. revert HI. generalize (init c).
  induction ops as [|o ops IH]; intros s HI; [exact HI|].
  cbn [qrun]. pose proof (inv_qstep s o HI) as H1. destruct (qstep s o) as [s1 out]. cbn [fst] in H1.
  specialize (IH s1 H1). destruct (qrun s1 ops). exact IH.
Qed.

(** ** the abstract queue: a log of commits, how much of it the consumer has released / seen *)
Record aq := mkAQ { a_log : list byte; a_cuts : list Z; a_released : Z; a_seen : Z }.
Definition abs (s : qstate) : aq := mkAQ (strm s) (cuts s) (sT (r_new s)) (sT (Wcur s)).

Definition spec_step (a : aq) (o : qop) (out : qout) (a' : aq) : Prop :=
  match o, out with
  | OpWrite _ bytes, OutGrant true =>
      a' = mkAQ (a_log a ++ bytes) ((Z.of_nat (length (a_log a)) + Z.of_nat (length bytes)) :: a_cuts a) (a_released a) (a_seen a)
  | OpWrite _ _, OutGrant false => a' = a        (* a failed request loses nothing *)
  | OpBegin _ _, OutGrant _ => a' = a
  | OpRead k, OutBatch p1 p2 =>
      exists m seen', a_seen a <= seen' <= Z.of_nat (length (a_log a)) /\ In seen' (a_cuts a) /\
        a_released a <= m <= seen' /\ In m (a_cuts a) /\
        p1 = slice (a_log a) (a_released a) m /\ p2 = slice (a_log a) m seen' /\
        a' = mkAQ (a_log a) (a_cuts a) (a_released a) seen'
  | OpEndRead, OutNone => a' = mkAQ (a_log a) (a_cuts a) (a_seen a) (a_seen a)
  | _, _ => False
  end.

Lemma abs_pmax k s : abs (pmax k s) = abs s.
Proof.
  unfold pmax. destruct (acquire k (Rcur s) (Rpend s)) as [rc rp] eqn:Ea.
  apply acquire_suffix in Ea. destruct Ea as [d Ea].
  assert (Hr : last_of rc rp = last_of (Rcur s) (Rpend s)) by now apply (last_of_suffix d).
  unfold pmax0, abs, r_new. cbn [Rcur Rpend Wcur Wpend setR strm cuts].
  destruct (_ <? _); [|destruct (_ <=? _)]; cbn [strm cuts Rcur Rpend Wcur]; now rewrite Hr.
Qed.

Lemma abs_pbegin k n s : abs (fst (pbegin k n s)) = abs s.
Proof. unfold pbegin. destruct (n <=? wend s - wpos s); cbn [fst]; [reflexivity|apply abs_pmax]. Qed.

Theorem queue_refines_fifo s o : Inv s ->
  let (s', out) := qstep s o in spec_step (abs s) o out (abs s').
Proof.
  intros HI. destruct o as [k bytes|k n|k|]; cbn [qstep].
  - unfold pwrite. pose proof (abs_pbegin k (Z.of_nat (length bytes)) s) as Habs.
    destruct (pbegin k (Z.of_nat (length bytes)) s) as [s1 ok]. cbn [fst] in Habs.
    destruct ok; cbn [spec_step]; [|exact Habs].
    rewrite <- Habs. unfold abs, pcommit, r_new, lenS. cbn [strm cuts Rcur Rpend Wcur a_log a_cuts a_released a_seen]. reflexivity.
  - pose proof (abs_pbegin k n s) as Habs. destruct (pbegin k n s) as [s1 ok]. cbn [fst spec_step] in *. exact Habs.
  - destruct (cread k s) as [s' [p1 p2]] eqn:E. cbn [fst snd spec_step].
    destruct (cread_batch k s s' p1 p2 HI E) as (HI' & Hst & Hrn & Hcu & Hin & Hle & _ & m & Hm & Hmc & HT & H0 & Hp1 & Hp2).
    exists m, (sT (Wcur s')). unfold abs. cbn [a_log a_cuts a_released a_seen]. rewrite Hst, Hrn, Hcu.
    assert (Hcin : In (Wcur s') (chain s)) by (unfold chain; apply in_or_app; now right).
    pose proof (rec_ok_of s _ HI Hcin) as (_ & _ & _ & Hc & _). destruct Hle as [Hle _].
    unfold lenS in HT. repeat split; try assumption; lia.
  - cbn [spec_step]. unfold abs, cend, r_new, last_of. cbn [strm cuts Rcur Rpend Wcur]. now rewrite last_last.
Qed.

(** quiescence: if the consumer's load reads the newest store, the batch reaches the last commit *)
Theorem quiescent_delivers_all k s s' p1 p2 : Inv s -> (length (Wpend s) <= k)%nat ->
  cread k s = (s', (p1, p2)) -> p1 ++ p2 = slice (strm s) (sT (r_new s)) (lenS s).
Proof.
  intros HI Hk E. destruct (cread_batch k s s' p1 p2 HI E) as (_ & _ & _ & _ & _ & _ & Hq & m & Hm & _ & _ & H0 & -> & ->).
  rewrite (Hq Hk), (I_T s HI) in *. apply slice_app; lia.
Qed.

(** the producer is never granted space overlapping bytes the consumer has not released:
    no unreleased committed byte lives in the granted window [wpos, wend) *)
Theorem window_disjoint_unreleased s x : Inv s -> sT (Rcur s) <= x < lenS s ->
  ~ (wpos s <= phys s x < wend s).
Proof.
  intros HI Hx. pose proof (I_pos s HI) as Hpos. pose proof (I_ahead s HI) as Hah. pose proof (I_bp s HI) as Hbp.
  pose proof (rec_ok_of s (Rcur s) HI (chain_in_R s _ (or_introl eq_refl))) as (Rv & Rvr & Rbt & _).
  unfold phys, b0, r0 in *. destruct (Z.ltb_spec x (bp s)).
  - assert (Hne : bp s <> sb (Rcur s)) by lia. specialize (Hah Hne). lia.
  - lia.
Qed.

(** dataEnd is only rewritten (wrap) when no store the consumer can still acquire is a lap ahead of
    what it has released: the consumer cannot be reading dataEnd concurrently *)
Theorem wrap_excludes_dataEnd_reader s : Inv s ->
  dataEnd (pmax0 s) <> dataEnd s ->
  forall a, In a (Wcur s :: Wpend s) -> sb a = sb (r_new s).
Proof.
  intros HI Hchg a Ha.
  pose proof (rec_ok_of s (w_new s) HI (w_new_in_chain s)) as (Wv & Wvr & Wbt & Wcut & Wbase).
  pose proof (rec_ok_of s (Rcur s) HI (chain_in_R s _ (or_introl eq_refl))) as (Rv & Rvr & Rbt & Rcut & _).
  assert (Hain : In a (chain s)) by (unfold chain; apply in_or_app; now right).
  pose proof (rec_ok_of s a HI Hain) as (_ & _ & _ & _ & Abase).
  pose proof (rec_ok_of s (r_new s) HI (chain_in_R s _ (r_new_in s))) as (_ & _ & _ & _ & Nbase).
  pose proof (chain_le_w_new s a HI Hain) as [_ Aw].
  pose proof (rcur_le_r_new s HI) as [_ RN].
  assert (Hna : rec_le (r_new s) a) by (apply (ss_app_cross rec_le (Rcur s :: Rpend s) (Wcur s :: Wpend s)); [exact (I_sorted s HI)|apply r_new_in|exact Ha]).
  destruct Hna as [_ Hna].
  pose proof (I_ahead s HI) as Hah. pose proof (I_pending s HI) as Hpe. pose proof (I_pos s HI) as Hpos. pose proof (I_T s HI) as HT.
  unfold pmax0 in Hchg. unfold b0, r0 in *.
  destruct (Z.ltb_spec (sv (w_new s)) (sv (Rcur s))); [cbn in Hchg; congruence|].
  destruct (Z.leb_spec (sv (Rcur s) - 1) (cap s - sv (w_new s))); [cbn in Hchg; congruence|].
  (* the wrap branch: w_new is in the lap of Rcur, hence so is everything in between *)
  assert (Hwb : sb (w_new s) = sb (Rcur s)).
  { destruct Wbase as [[B1 B2]|B]; [exact B1|]. destruct (Z.eq_dec (bp s) (sb (Rcur s))) as [Q|Q]; [congruence|]. specialize (Hah Q). lia. }
  lia.
Qed.
