(** C17: the printed time denotes sync + (clock - syncClock)/frequency. *)
From Coq Require Import List ZArith NArith Bool Lia String.
From BL Require Import Base.Bytes Reader.Entry Render.Time Render.Calendar.
Local Open Scope string_scope.
Import ListNotations.
Local Open Scope Z_scope.

Lemma wrap64_id z : - two63 <= z < two63 -> wrap64 z = z.
Proof. unfold wrap64, two63, two64z. intros H. rewrite Z.mod_small; lia. Qed.
Lemma wrap32_id z : - 2147483648 <= z < 2147483648 -> wrap32 z = z.
Proof. unfold wrap32. intros H. rewrite Z.mod_small; lia. Qed.
Lemma wrap64_range z : - two63 <= wrap64 z < two63.
Proof. unfold wrap64, two63, two64z. pose proof (Z.mod_pos_bound (z + 9223372036854775808) 18446744073709551616 ltac:(lia)). lia. Qed.
Lemma s64_small x : (x < 9223372036854775808)%N -> s64 x = Z.of_N x.
Proof. intros H. unfold s64. apply wrap64_id. unfold two63. lia. Qed.

(** the exact quotient d*10^9/f truncated toward zero *)
Definition trunc_ns (d f : Z) : Z := Z.quot (d * giga) f.
Definition max_freq : Z := 9223372036.

Lemma div_split d f : 0 <= d -> 0 < f -> (d * giga) / f = (d / f) * giga + ((d mod f) * giga) / f.
Proof.
  intros Hd Hf. pose proof (Z.div_mod d f ltac:(lia)) as E.
  replace (d * giga) with ((d mod f) * giga + ((d / f) * giga) * f) by (unfold giga; nia).
  rewrite Z.div_add by lia. lia.
Qed.

(** nonnegative tick counts *)
Lemma ticks_nonneg f d : 0 < f <= max_freq -> 0 <= d -> (d * giga) / f < two63 ->
  Z.quot d f * giga + Z.quot (Z.rem d f * giga) f = (d * giga) / f
  /\ 0 <= Z.quot d f * giga < two63 /\ 0 <= Z.rem d f * giga < two63.
Proof.
  intros [Hf Hm] Hd Hb. unfold max_freq in Hm.
  rewrite Z.quot_div_nonneg, Z.rem_mod_nonneg by lia.
  pose proof (Z.mod_pos_bound d f Hf) as Hr.
  assert (Hq : 0 <= d / f) by (apply Z.div_pos; lia).
  rewrite Z.quot_div_nonneg by (unfold giga; nia).
  pose proof (div_split d f Hd Hf) as E.
  assert (0 <= (d mod f * giga) / f) by (apply Z.div_pos; unfold giga; nia).
  unfold giga, two63 in *. repeat split; nia.
Qed.

Theorem ticks_exact f d : (0 < f)%N -> Z.of_N f <= max_freq -> - two63 <= d < two63 ->
  - two63 < trunc_ns d (Z.of_N f) < two63 ->
  ticks_to_ns f d = trunc_ns d (Z.of_N f).
Proof.
  intros Hf Hm Hd Hb. unfold ticks_to_ns, trunc_ns in *.
  assert (Hs : s64 f = Z.of_N f) by (apply s64_small; unfold max_freq in Hm; lia). rewrite Hs.
  set (F := Z.of_N f) in *. assert (HF : 0 < F <= max_freq) by (unfold F; lia).
  destruct (Z_le_gt_dec 0 d) as [Hp|Hn].
  - rewrite Z.quot_div_nonneg in Hb by (unfold giga; nia).
    destruct (ticks_nonneg F d HF Hp ltac:(lia)) as (E & B1 & B2).
    rewrite (wrap64_id (Z.quot d F * giga)), (wrap64_id (Z.rem d F * giga)) by lia.
    rewrite E. rewrite Z.quot_div_nonneg by (unfold giga; nia). apply wrap64_id. lia.
  - set (d' := - d). assert (Hd' : 0 <= d') by (unfold d'; lia).
    replace d with (- d') in * by (unfold d'; lia).
    rewrite Z.mul_opp_l, Z.quot_opp_l in Hb by lia.
    rewrite Z.quot_opp_l, Z.rem_opp_l by lia.
    rewrite Z.quot_div_nonneg in Hb by (unfold giga; nia).
    destruct (ticks_nonneg F d' HF Hd' ltac:(lia)) as (E & B1 & B2).
    rewrite !Z.mul_opp_l. rewrite (wrap64_id (- (Z.quot d' F * giga))), (wrap64_id (- (Z.rem d' F * giga))) by lia.
    rewrite Z.quot_opp_l by lia.
    replace (- (Z.quot d' F * giga) + - Z.quot (Z.rem d' F * giga) F) with (- (Z.quot d' F * giga + Z.quot (Z.rem d' F * giga) F)) by lia.
    rewrite E. rewrite Z.quot_opp_l by lia. rewrite (Z.quot_div_nonneg (d' * giga)) by (unfold giga; nia).
    apply wrap64_id. lia.
Qed.

(** the truncated quotient is within one nanosecond of the exact value: |d*10^9 - f*t| < f *)
Lemma trunc_ns_error d f : 0 < f -> Z.abs (d * giga - f * trunc_ns d f) < f.
Proof.
  intros Hf. unfold trunc_ns. pose proof (Z.quot_rem' (d * giga) f) as E.
  assert (Z.abs (Z.rem (d * giga) f) < f).
  { pose proof (Z.rem_bound_abs (d * giga) f ltac:(lia)). lia. }
  lia.
Qed.

(** ** clockToNsSinceEpoch *)
Theorem clock_to_ns_exact cs clock :
  let f := Z.of_N (cs_freq cs) in
  let d := wrap64 (Z.of_N clock - Z.of_N (cs_clock cs)) in      (* signed 64-bit wrap-around difference *)
  (0 < cs_freq cs)%N -> f <= max_freq -> (cs_ns cs < 9223372036854775808)%N ->
  - two63 < trunc_ns d f < two63 ->
  0 <= Z.of_N (cs_ns cs) + trunc_ns d f < two63 ->
  clock_to_ns cs clock = Z.of_N (cs_ns cs) + trunc_ns d f.
Proof.
  intros f d Hf Hm Hns Hb Hr. unfold clock_to_ns. fold d.
  rewrite ticks_exact; try assumption; [|apply wrap64_range].
  rewrite s64_small by exact Hns. apply wrap64_id. fold f. lia.
Qed.

(** ** nsSinceEpochToBrokenDownTimeUTC (with the floor) *)
Definition bdt_denotes (b : bdt) (ns : Z) : Prop :=
  valid_date (b_year b) (b_mon b) (b_mday b) /\ 0 <= b_hour b < 24 /\ 0 <= b_min b < 60 /\ 0 <= b_sec b < 60
  /\ 0 <= b_nsec b < giga
  /\ ((days_from_civil (b_year b) (b_mon b) (b_mday b) * 86400 + b_hour b * 3600 + b_min b * 60 + b_sec b) * giga + b_nsec b = ns).

Lemma gmtime_correct tt :
  let '(y, m, d, hh, mm, ss) := gmtime tt in
  valid_date y m d /\ 0 <= hh < 24 /\ 0 <= mm < 60 /\ 0 <= ss < 60 /\
  days_from_civil y m d * 86400 + hh * 3600 + mm * 60 + ss = tt.
Proof.
  unfold gmtime. pose proof (civil_from_days_correct (tt / 86400)) as Hc.
  destruct (civil_from_days (tt / 86400)) as [[y m] d]. destruct Hc as [Hv Hd].
  set (rem := tt - tt / 86400 * 86400).
  assert (Hrem : 0 <= rem < 86400).
  { unfold rem. pose proof (Z.div_mod tt 86400 ltac:(lia)). pose proof (Z.mod_pos_bound tt 86400 ltac:(lia)). lia. }
  split; [exact Hv|].
  pose proof (Z.div_mod rem 3600 ltac:(lia)). pose proof (Z.mod_pos_bound rem 3600 ltac:(lia)).
  pose proof (Z.div_mod rem 60 ltac:(lia)). pose proof (Z.mod_pos_bound rem 60 ltac:(lia)).
  pose proof (Z.div_mod (rem / 60) 60 ltac:(lia)). pose proof (Z.mod_pos_bound (rem / 60) 60 ltac:(lia)).
  assert (rem / 3600 = rem / 60 / 60) by (rewrite Z.div_div by lia; reflexivity).
  assert (0 <= rem / 3600 < 24) by (split; [apply Z.div_pos; lia|apply Z.div_lt_upper_bound; lia]).
  rewrite Hd. unfold rem in *. repeat split; lia.
Qed.

Theorem broken_down_correct ns : - two63 + giga <= ns < two63 -> bdt_denotes (broken_down true ns) ns.
Proof.
  intros Hns. unfold broken_down. cbn [andb].
  set (s0 := Z.quot ns giga).
  set (secs := if s0 * giga >? ns then s0 - 1 else s0).
  assert (Hfloor : secs * giga <= ns < secs * giga + giga).
  { unfold secs, s0. pose proof (Z.quot_rem' ns giga) as E.
    pose proof (Z.rem_bound_abs ns giga ltac:(unfold giga; lia)) as Hb. unfold giga in *.
    destruct (Z_le_gt_dec 0 ns) as [Hp|Hn].
    - pose proof (Z.rem_bound_pos ns 1000000000 Hp ltac:(lia)).
      destruct (Z.gtb_spec (Z.quot ns 1000000000 * 1000000000) ns); lia.
    - pose proof (Z.rem_sign_mul ns 1000000000 ltac:(lia)) as Hsg.
      assert (Z.rem ns 1000000000 <= 0) by nia.
      destruct (Z.gtb_spec (Z.quot ns 1000000000 * 1000000000) ns); lia. }
  assert (Hw : wrap64 (secs * giga) = secs * giga) by (apply wrap64_id; unfold two63, giga in *; lia).
  rewrite Hw.
  assert (Htt : Z.quot (secs * giga) giga = secs) by (apply Z.quot_mul; unfold giga; lia).
  rewrite Htt.
  pose proof (gmtime_correct secs) as Hg. destruct (gmtime secs) as [[[[[y m] d] hh] mm] ss].
  destruct Hg as (Hv & Hh & Hm & Hs & Hd).
  assert (Hrem : 0 <= ns - secs * giga < giga) by lia.
  rewrite (wrap64_id (ns - secs * giga)) by (unfold two63, giga in *; lia).
  rewrite wrap32_id by (unfold giga in *; lia).
  unfold bdt_denotes. cbn [b_year b_mon b_mday b_hour b_min b_sec b_nsec].
  split; [exact Hv|]. repeat split; try lia; rewrite Hd; lia.
Qed.

(** the unfixed truncation (tree before D3) is wrong for a negative instant with a sub-second part *)
Lemma broken_down_trunc_refuted : ~ bdt_denotes (broken_down false (-1799500000000)) (-1799500000000).
Proof. unfold bdt_denotes. vm_compute. intros (_ & _ & _ & _ & (H & _) & _). apply H. reflexivity. Qed.

(** ** the placeholder without a usable clock sync *)
Theorem no_sync_placeholder cfg local tfmt cs clock :
  s64 (cs_freq cs) <= 0 -> render_clock cfg local tfmt cs clock = (str "no_clock_sync?", true).
Proof. intros H. unfold render_clock. destruct (Z.ltb_spec 0 (s64 (cs_freq cs))); [lia|reflexivity]. Qed.

(** ** every printTwoDigits assertion holds, for EVERY input (used by C09) *)
Lemma two_digits_ok_range i : 0 <= i < 100 -> two_digits_ok i = true.
Proof. intros H. unfold two_digits_ok. destruct (Z.leb_spec 0 i), (Z.ltb_spec i 100); try lia; reflexivity. Qed.

Lemma days_in_month_le y m : days_in_month y m <= 31.
Proof. unfold days_in_month. destruct (m =? 2); [destruct (is_leap y); lia|]. destruct (_ || _); lia. Qed.

Lemma broken_down_fields fl ns : let b := broken_down fl ns in
  1 <= b_mon b <= 12 /\ 1 <= b_mday b <= 31 /\ 0 <= b_hour b < 24 /\ 0 <= b_min b < 60 /\ 0 <= b_sec b < 60.
Proof.
  unfold broken_down.
  match goal with |- context [gmtime ?t] => pose proof (gmtime_correct t) as Hg; destruct (gmtime t) as [[[[[y m] d] hh] mm] ss] end.
  destruct Hg as ((Hm & Hd) & Hh & Hmi & Hs & _). cbn. pose proof (days_in_month_le y m). lia.
Qed.

Lemma yy_range t : 0 <= yy true t < 100.
Proof.
  unfold yy. pose proof (Z.rem_bound_abs t 100 ltac:(lia)).
  assert (0 <= Z.rem t 100 + 100 < 200) by lia.
  pose proof (Z.rem_bound_pos (Z.rem t 100 + 100) 100 ltac:(lia) ltac:(lia)). lia.
Qed.

Lemma tz_offset_ok seconds : - 2147483648 <= seconds < 2147483648 -> snd (tz_offset_text true seconds) = true.
Proof.
  intros Hs. unfold tz_offset_text. cbn [snd].
  set (p := Z.abs seconds). assert (Hp : 0 <= p <= 2147483648) by (unfold p; lia).
  assert (Hh : 0 <= Z.quot p 3600 <= 596524).
  { rewrite Z.quot_div_nonneg by lia. split; [apply Z.div_pos; lia|]. apply Z.div_le_upper_bound; lia. }
  rewrite (wrap32_id (Z.quot p 3600)) by lia.
  assert (Hm : 0 <= Z.quot p 60 - 60 * Z.quot p 3600 < 60).
  { rewrite !Z.quot_div_nonneg by lia. pose proof (Z.div_mod p 60 ltac:(lia)). pose proof (Z.mod_pos_bound p 60 ltac:(lia)).
    pose proof (Z.div_mod (p / 60) 60 ltac:(lia)). pose proof (Z.mod_pos_bound (p / 60) 60 ltac:(lia)).
    assert (p / 3600 = p / 60 / 60) by (rewrite Z.div_div by lia; reflexivity). lia. }
  rewrite (wrap32_id (Z.quot p 60 - 60 * Z.quot p 3600)) by lia.
  apply andb_true_iff. split; apply two_digits_ok_range.
  - destruct (Z.ltb_spec (Z.quot p 3600) 100); lia.
  - destruct (Z.ltb_spec (Z.quot p 60 - 60 * Z.quot p 3600) 100); lia.
Qed.

Lemma time_field_ok fl spec ns tz name : - 2147483648 <= tz < 2147483648 ->
  snd (time_field (mkTC fl true true) spec (broken_down fl ns) tz name) = true.
Proof.
  intros Htz. pose proof (broken_down_fields fl ns) as Hf. cbv zeta in Hf.
  set (b := broken_down fl ns) in *. destruct Hf as (H1 & H2 & H3 & H4 & H5).
  unfold time_field. cbn [tc_yy_nonneg tc_tz_wide].
  repeat match goal with |- context [if N.eqb ?a ?b then _ else _] => destruct (N.eqb a b) end; cbn [snd]; try reflexivity;
    try (apply two_digits_ok_range; lia).
  - apply two_digits_ok_range. apply yy_range.
  - now apply tz_offset_ok.
Qed.

Theorem time_assertions_hold fl ns tz name : - 2147483648 <= tz < 2147483648 ->
  forall tfmt, snd (time_loop (mkTC fl true true) tfmt (broken_down fl ns) tz name) = true.
Proof.
  intros Htz tfmt.
  assert (G : forall n tfmt, (List.length tfmt <= n)%nat -> snd (time_loop (mkTC fl true true) tfmt (broken_down fl ns) tz name) = true).
  { induction n as [|n IH]; intros f Hl.
    - destruct f; [reflexivity|simpl in Hl; lia].
    - destruct f as [|c r]; [reflexivity|]. cbn [time_loop]. destruct (N.eqb c 37).
      + destruct r as [|spec r']; [reflexivity|].
        pose proof (time_field_ok fl spec ns tz name Htz) as Hfield.
        destruct (time_field (mkTC fl true true) spec (broken_down fl ns) tz name) as [t ok]. cbn [snd] in Hfield. subst ok.
        specialize (IH r' ltac:(simpl in Hl; lia)).
        destruct (time_loop (mkTC fl true true) r' (broken_down fl ns) tz name) as [t' ok']. cbn [snd] in *. now subst.
      + specialize (IH r ltac:(simpl in Hl; lia)).
        destruct (time_loop (mkTC fl true true) r (broken_down fl ns) tz name) as [t' ok']. cbn [snd] in *. exact IH. }
  apply (G (List.length tfmt)). lia.
Qed.

(** hence for every clock sync, clock value and format: no printTwoDigits assertion can fire *)
Theorem render_clock_assertions_hold local tfmt cs clock :
  snd (render_clock (mkTC true true true) local tfmt cs clock) = true.
Proof.
  unfold render_clock. destruct (0 <? s64 (cs_freq cs)); [|reflexivity].
  destruct local; cbn [tc_floor]; apply time_assertions_hold; try lia.
  unfold s32, wrap32. pose proof (Z.mod_pos_bound (Z.of_N (cs_tz cs) + 2147483648) 4294967296 ltac:(lia)). lia.
Qed.

(** the tree before the D4/D5 fixes trips them *)
Lemma yy_without_fix_refuted : snd (time_field (mkTC true false true) 121 (broken_down true (-3000000000000000000)) 0 []) = false.
Proof. vm_compute. reflexivity. Qed.
Lemma tz_without_fix_refuted : snd (tz_offset_text false (-2147483648)) = false.
Proof. vm_compute. reflexivity. Qed.

(** ** C17 assembled: what %u and %d print *)
Section Denotes.
Variables (cs : clocksync) (clock : N).
Let f := Z.of_N (cs_freq cs).
Let d := wrap64 (Z.of_N clock - Z.of_N (cs_clock cs)).
Let t := Z.of_N (cs_ns cs) + trunc_ns d f.          (* the instant, in ns since the epoch *)
Let tz := s32 (cs_tz cs).
Hypothesis Hf : (0 < cs_freq cs)%N.
Hypothesis Hm : f <= max_freq.
Hypothesis Hns : (cs_ns cs < 9223372036854775808)%N.
Hypothesis Hb : - two63 < trunc_ns d f < two63.
Hypothesis Hr : 0 <= t < two63.

Theorem utc_time_denotes tfmt :
  render_clock (mkTC true true true) false tfmt cs clock = time_loop (mkTC true true true) tfmt (broken_down true t) 0 (str "UTC")
  /\ bdt_denotes (broken_down true t) t
  /\ Z.abs (d * giga - f * (t - Z.of_N (cs_ns cs))) < f.
Proof.
  assert (Hc : clock_to_ns cs clock = t) by (apply clock_to_ns_exact; assumption).
  split; [|split].
  - unfold render_clock. rewrite s64_small by (unfold max_freq, f in Hm; lia).
    destruct (Z.ltb_spec 0 (Z.of_N (cs_freq cs))); [|lia]. now rewrite Hc.
  - apply broken_down_correct. unfold two63, giga in *. lia.
  - replace (t - Z.of_N (cs_ns cs)) with (trunc_ns d f) by (unfold t; lia). apply trunc_ns_error. unfold f. lia.
Qed.

Theorem local_time_denotes tfmt : - two63 + giga <= t + tz * giga < two63 ->
  render_clock (mkTC true true true) true tfmt cs clock
    = time_loop (mkTC true true true) tfmt (broken_down true (t + tz * giga)) tz (cstr_t (cs_tzname cs))
  /\ bdt_denotes (broken_down true (t + tz * giga)) (t + tz * giga).
Proof.
  intros Hl. assert (Hc : clock_to_ns cs clock = t) by (apply clock_to_ns_exact; assumption).
  assert (Htz : - 2147483648 <= tz < 2147483648).
  { unfold tz, s32, wrap32. pose proof (Z.mod_pos_bound (Z.of_N (cs_tz cs) + 2147483648) 4294967296 ltac:(lia)). lia. }
  split.
  - unfold render_clock. rewrite s64_small by (unfold max_freq, f in Hm; lia).
    destruct (Z.ltb_spec 0 (Z.of_N (cs_freq cs))); [|lia]. rewrite Hc.
    unfold tz in *. set (z := s32 (cs_tz cs)) in *.
    rewrite (wrap64_id (z * giga)) by (unfold two63, giga; lia). now rewrite wrap64_id by (unfold two63, giga in *; lia).
  - now apply broken_down_correct.
Qed.
End Denotes.
