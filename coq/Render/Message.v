(** ToStringVisitor.cpp (the comma / depth / empty-struct state machine), PrettyPrinter::printStruct and
    printEventMessage. Floating point rendering (%.16g) is a parameter. Definitions only. *)
From Coq Require Import List NArith ZArith Bool String.
From BL Require Import Base.Bytes Reader.Entry Reader.EventStream Mser.Types Mser.Tag Mser.Visit Render.Time.
Import ListNotations.
Local Open Scope N_scope.

Inductive tstate := TNormal | TSeqBegin | TSeq.
Record ts := mkTS { t_state : tstate; t_depth : Z; t_empty : bool }.
Definition ts_init := mkTS TNormal 0 false.

Definition comma (s : ts) : ts * bytes :=
  match t_state s with
  | TSeqBegin => (mkTS TSeq (t_depth s) (t_empty s), [])
  | TSeq => (s, [44; 32])
  | TNormal => (s, [])
  end.
Definition enter_seq (s : ts) : ts := mkTS TSeqBegin (t_depth s + 1) (t_empty s).
Definition leave_seq (s : ts) : ts :=
  let d := (t_depth s - 1)%Z in mkTS (if (d =? 0)%Z then TNormal else TSeq) d (t_empty s).

Section ToString.
(** snprintf("%.16g") of the double/float with these object bytes, snprintf("%.16Lg") of the long double *)
Variable float_text : aty -> N -> bytes.

Definition arith_text (letter raw : N) : bytes :=
  match arith_of_letter letter with
  | Some ABool => if raw =? 0 then str "false" else str "true"
  | Some AChar => [raw]
  | Some a => match a with
              | AF32 | AF64 | AF80 => float_text a raw
              | _ => decZ (raw_to_Z a raw)
              end
  | None => []
  end.

Fixpoint before_lt (l : bytes) : bytes := match l with [] => [] | c :: r => if c =? 60 then [] else c :: before_lt r end.

Definition tostring_step (s : ts) (c : cb) : ts * bytes :=
  match c with
  | CArith letter raw => let (s1, t) := comma s in (s1, t ++ arith_text letter raw)
  | CSeqBegin _ _ => let (s1, t) := comma s in (enter_seq s1, t ++ [91])
  | CSeqEnd => (leave_seq s, [93])
  | CSeqChars chars => let (s1, t) := comma s in (s1, t ++ chars)
  | CTupleBegin _ => let (s1, t) := comma s in (enter_seq s1, t ++ [40])
  | CTupleEnd => (leave_seq s, [41])
  | CVariantBegin _ _ | CVariantEnd => (s, [])
  | CNull => let (s1, t) := comma s in (s1, t ++ str "{null}")
  | CEnum _ enumerator _ hexv => let (s1, t) := comma s in (s1, t ++ (match enumerator with [] => str "0x" ++ hexv | _ => enumerator end))
  | CStructBegin name tag =>
      let (s1, t) := comma s in
      match tag with
      | [] => (mkTS (t_state s1) (t_depth s1) true, t ++ before_lt name)
      | _ => (enter_seq s1, t ++ before_lt name ++ str "{ ")
      end
  | CStructEnd => if t_empty s then (mkTS (t_state s) (t_depth s) false, []) else (leave_seq s, str " }")
  | CFieldBegin name _ => let (s1, t) := comma s in
                          (mkTS TNormal (t_depth s1) (t_empty s1), t ++ (match name with [] => [] | _ => name ++ str ": " end))
  | CFieldEnd => (mkTS TSeq (t_depth s) (t_empty s), [])
  | CRepeatBegin _ _ => (s, [])
  | CRepeatEnd size _ => (s, if 1 <? size then str " ... <repeats " ++ dec size ++ str " times>" else [])
  | CSpecial txt => let (s1, t) := comma s in (s1, t ++ txt)
  end.

Fixpoint tostring (s : ts) (cs : list cb) : ts * bytes :=
  match cs with [] => (s, []) | c :: r => let (s1, t1) := tostring_step s c in let (s2, t2) := tostring s1 r in (s2, t1 ++ t2) end.

(** PrettyPrinter::printStruct *)
Definition ends_with (s suffix : bytes) : bool := is_prefix (rev suffix) (rev s).
Definition beq (a b : bytes) : bool := is_prefix a b && is_prefix b a.

Variable cfg : timecfg.
Definition print_struct (local : bool) (tfmt : bytes) (cs : clocksync) (name tag input : bytes) : option (option (bytes * bytes)) :=
  if beq name (str "binlog::address") && beq tag (str "`value'L") then
    Some (match take_n 8 input with Some (h, r) => Some (str "0x" ++ hex_up (le_dec h), r) | None => None end)
  else if beq name (str "std::chrono::system_clock::time_point") && beq tag (str "`ns'l") then
    Some (match take_n 8 input with
          | Some (h, r) =>
            let ns := s64 (le_dec h) in
            if local then
              let tz := s32 (cs_tz cs) in
              Some (fst (time_loop cfg tfmt (broken_down (tc_floor cfg) (wrap64 (ns + wrap64 (tz * giga))%Z)) tz (cstr_t (cs_tzname cs))), r)
            else Some (fst (time_loop cfg tfmt (broken_down (tc_floor cfg) ns) 0 (str "UTC")), r)
          | None => None end)
  else if is_prefix (str "std::chrono::duration<Rep,") name then
    let suffix := if ends_with name (str "std::nano>") then Some (str "ns") else if ends_with name (str "std::micro>") then Some (str "us")
                  else if ends_with name (str "std::milli>") then Some (str "ms") else if ends_with name (str "std::ratio<1>>") then Some (str "s")
                  else if ends_with name (str "std::ratio<60>>") then Some (str "m") else if ends_with name (str "std::ratio<3600>>") then Some (str "h") else None in
    match suffix with
    | None => None
    | Some sf =>
      if beq tag (str "`count'l") then Some (match take_n 8 input with Some (h, r) => Some (decZ (s64 (le_dec h)) ++ sf, r) | None => None end)
      else if beq tag (str "`count'i") then Some (match take_n 4 input with Some (h, r) => Some (decZ (s32 (le_dec h)) ++ sf, r) | None => None end)
      else None
    end
  else if (beq name (str "std::filesystem::path") && beq tag (str "`str'[c"))
       || (beq name (str "std::filesystem::directory_entry") && beq tag (str "`path'{std::filesystem::path`str'[c}"))
       || (beq name (str "std::error_code") && beq tag (str "`message'[c")) then
    Some (match take_n 4 input with
          | Some (h, r) => match takeN (le_dec h) r with Some (chars, r') => Some (chars, r') | None => None end
          | None => None end)
  else None.

(** printEventMessage: the format string with each {} replaced by the rendering of the next argument *)
Fixpoint message_loop (fuel : nat) (local : bool) (tfmt : bytes) (cs : clocksync) (fmt tags args : bytes) (s : ts) : bytes * bool :=
  match fuel with O => ([], true) | S f =>
  match fmt with
  | [] => ([], true)
  | 123 :: 125 :: r =>
      let (tg, tags') := tag_pop tags in
      match visit true (print_struct local tfmt cs) 2048 tg tg args with
      | VOk (cbs, args') => let (s', t) := tostring s cbs in
                            let (t', ok) := message_loop f local tfmt cs r tags' args' s' in (t ++ t', ok)
      | VErr _ partial => (snd (tostring s partial), false)
      end
  | c :: r => let (t', ok) := message_loop f local tfmt cs r tags args s in (c :: t', ok)
  end end.

Definition render_message (local : bool) (tfmt : bytes) (v : view) : bytes * bool :=
  message_loop (S (List.length (s_format (v_src v)))) local tfmt (v_cs v) (s_format (v_src v)) (s_argtags (v_src v)) (v_args v) ts_init.

End ToString.
