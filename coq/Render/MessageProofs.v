(** printEventMessage on arithmetic arguments: the format string with each {} replaced, in order, by the text of the
    corresponding logged value.  Composite arguments are covered by C06 (visit agrees with serialization) + correspondence. *)
From Coq Require Import List NArith ZArith Bool Lia.
From BL Require Import Base.Bytes Reader.Entry Reader.EventStream Mser.Types Mser.Encode Mser.Tag Mser.Visit Mser.TagProofs Mser.VisitProofs Render.Time Render.Message.
Import ListNotations.
Local Open Scope N_scope.

Section Msg.
Variable ft : aty -> N -> bytes.
Variable cfg : timecfg.

(** the documented substitution *)
Fixpoint subst (fmt : bytes) (texts : list bytes) {struct fmt} : bytes :=
  match fmt with
  | [] => []
  | c :: r =>
    if (c =? 123) && (match r with d :: _ => d =? 125 | [] => false end) then
      match texts with
      | t :: ts => t ++ (match r with _ :: r' => subst r' ts | [] => [] end)
      | [] => match r with _ :: r' => subst r' [] | [] => [] end
      end
    else c :: subst r texts
  end.
Fixpoint count_ph (fmt : bytes) : nat :=
  match fmt with
  | [] => O
  | c :: r => if (c =? 123) && (match r with d :: _ => d =? 125 | [] => false end)
              then S (match r with _ :: r' => count_ph r' | [] => O end) else count_ph r
  end.

Lemma ml_other f local tfmt cs c r tags args s : c <> 123 ->
  message_loop ft cfg (S f) local tfmt cs (c :: r) tags args s = let (t', ok) := message_loop ft cfg f local tfmt cs r tags args s in (c :: t', ok).
Proof.
  intros H. cbn [message_loop]. destruct c as [|p]; [reflexivity|].
  do 7 (destruct p as [p|p|]; try reflexivity). congruence.
Qed.
Lemma ml_brace_other f local tfmt cs d r tags args s : d <> 125 ->
  message_loop ft cfg (S f) local tfmt cs (123 :: d :: r) tags args s = let (t', ok) := message_loop ft cfg f local tfmt cs (d :: r) tags args s in (123 :: t', ok).
Proof.
  intros H. cbn [message_loop]. destruct d as [|p]; [reflexivity|].
  do 7 (destruct p as [p|p|]; try reflexivity). congruence.
Qed.
Lemma ml_brace_end f local tfmt cs tags args s :
  message_loop ft cfg (S f) local tfmt cs [123] tags args s = let (t', ok) := message_loop ft cfg f local tfmt cs [] tags args s in (123 :: t', ok).
Proof. reflexivity. Qed.

Definition arg := (aty * N)%type.
Definition arg_ok (p : arg) : bool := snd p <? 256 ^ N.of_nat (awidth (fst p)).
Definition arg_tags (l : list arg) : bytes := map (fun p => atag (fst p)) l.
Definition arg_bytes (l : list arg) : bytes := concat (map (fun p => le_enc (awidth (fst p)) (snd p)) l).
Definition arg_texts (l : list arg) : list bytes := map (fun p => arith_text ft (atag (fst p)) (snd p)) l.

Lemma visit_arith_arg local tfmt cs a x rest : x < 256 ^ N.of_nat (awidth a) ->
  visit true (print_struct cfg local tfmt cs) 2048 [atag a] [atag a] (le_enc (awidth a) x ++ rest) = VOk ([CArith (atag a) x], rest).
Proof.
  intros Hx.
  assert (E : visit true (print_struct cfg local tfmt cs) 2048 [atag a] [atag a] (le_enc (awidth a) x ++ rest) = visit_arith (atag a) (le_enc (awidth a) x ++ rest))
    by (destruct a; reflexivity).
  rewrite E. unfold visit_arith. rewrite arith_of_atag, take_n_le_enc, le_dec_enc by exact Hx. reflexivity.
Qed.

Lemma tag_pop_letter a rest : tag_pop (atag a :: rest) = ([atag a], rest).
Proof. exact (tag_pop_tag (TArith a) rest eq_refl). Qed.

Theorem message_of_arith_args local tfmt cs : forall fuel fmt (args : list arg),
  (length fmt < fuel)%nat -> count_ph fmt = length args -> forallb arg_ok args = true ->
  message_loop ft cfg fuel local tfmt cs fmt (arg_tags args) (arg_bytes args) ts_init = (subst fmt (arg_texts args), true).
Proof.
  induction fuel as [|f IH]; intros fmt args Hl Hc Hok; [lia|].
  destruct fmt as [|c r]; [reflexivity|].
  cbn [subst count_ph] in *. destruct (N.eqb_spec c 123) as [->|Hne]; cbn [andb] in *.
  - destruct r as [|d r'].
    + rewrite ml_brace_end. destruct f; [cbn in Hl; lia|]. reflexivity.
    + destruct (N.eqb_spec d 125) as [->|Hd].
      * destruct args as [|[a x] args']; [discriminate|]. cbn [length] in Hc. injection Hc as Hc.
        cbn [forallb] in Hok. apply andb_true_iff in Hok. destruct Hok as [Hx Hok]. apply N.ltb_lt in Hx. cbn [fst snd] in Hx.
        cbn [message_loop]. unfold arg_tags, arg_bytes, arg_texts. cbn [map concat fst snd].
        rewrite tag_pop_letter, visit_arith_arg by exact Hx.
        cbn [tostring tostring_step comma ts_init t_state]. rewrite app_nil_r. cbn [app].
        change (mkTS TNormal 0 false) with ts_init.
        fold (arg_tags args') (arg_bytes args') (arg_texts args').
        rewrite (IH r' args') by (try assumption; cbn [length] in Hl; lia). reflexivity.
      * rewrite ml_brace_other by exact Hd.
        rewrite (IH (d :: r') args) by (try assumption; cbn [length] in *; lia). reflexivity.
  - rewrite ml_other by exact Hne. rewrite (IH r args) by (try assumption; cbn [length] in *; lia). reflexivity.
Qed.

End Msg.

(** ** any arguments of the [simple] universe: each {} is replaced by the documented notation of the value *)
From BL Require Import Mser.EncodeProofs Render.ToStringProofs.
Section MsgAny.
Variable ft : aty -> N -> bytes.
Variable cfg : timecfg.

Record targ := mkArg { a_ty : ty; a_val : val }.
Definition targ_ok sp (a : targ) : Prop :=
  wt (a_ty a) (a_val a) = true /\ simple false (a_ty a) = true /\ ty_ok (a_ty a) = true /\ plain sp (a_ty a) /\ empties (tag (a_ty a)) (a_ty a) /\ (depth (a_ty a) <= 2048)%nat.
Definition targs_tags (l : list targ) : bytes := concat (map (fun a => tag (a_ty a)) l).
Definition targs_bytes (l : list targ) : bytes := concat (map (fun a => enc (a_ty a) (a_val a)) l).
Definition targs_texts (l : list targ) : list bytes := map (fun a => text_of ft (a_ty a) (a_val a)) l.

Theorem message_of_simple_args local tfmt cs : forall fuel fmt (args : list targ),
  (length fmt < fuel)%nat -> count_ph fmt = length args -> Forall (targ_ok (print_struct cfg local tfmt cs)) args ->
  message_loop ft cfg fuel local tfmt cs fmt (targs_tags args) (targs_bytes args) ts_init = (subst fmt (targs_texts args), true).
Proof.
  induction fuel as [|f IH]; intros fmt args Hl Hc Hok; [lia|].
  destruct fmt as [|c r]; [reflexivity|].
  cbn [subst count_ph] in *. destruct (N.eqb_spec c 123) as [->|Hne]; cbn [andb] in *.
  - destruct r as [|d r'].
    + rewrite ml_brace_end. destruct f; [cbn in Hl; lia|]. reflexivity.
    + destruct (N.eqb_spec d 125) as [->|Hd].
      * destruct args as [|[t v] args']; [discriminate|]. cbn [length] in Hc. injection Hc as Hc.
        inversion Hok as [|? ? (Hwt & Hs & Hty & Hpl & Hem & Hdp) Hok']; subst. cbn [a_ty a_val] in *.
        cbn [message_loop]. unfold targs_tags, targs_bytes, targs_texts. cbn [map concat a_ty a_val].
        rewrite (tag_pop_tag t _ Hty). rewrite (enc_is_documented v t Hwt).
        assert (Hnu : t <> TUnit) by (intros ->; discriminate Hs).
        rewrite (visit_agrees_gen (tag t) true (print_struct cfg local tfmt cs) v t false Hwt Hs Hnu Hty Hpl Hem 2048%nat _ Hdp).
        rewrite (tostring_value ft t v Hwt Hs).
        fold (targs_tags args') (targs_bytes args') (targs_texts args').
        rewrite (IH r' args') by (try assumption; cbn [length] in Hl; lia). reflexivity.
      * rewrite ml_brace_other by exact Hd.
        rewrite (IH (d :: r') args) by (try assumption; cbn [length] in *; lia). reflexivity.
  - rewrite ml_other by exact Hne. rewrite (IH r args) by (try assumption; cbn [length] in *; lia). reflexivity.
Qed.
End MsgAny.
