(** printf("%.16g") on IEEE binary32 (widened to double), binary64 and x87 80-bit extended values, as OstreamBuffer uses it
    (include/binlog/detail/OstreamBuffer.cpp: operator<<(double) and operator<<(long double)).
    The value is m * 2^e exactly; the 16 significant decimal digits are computed with integer arithmetic and
    round-half-to-even on the exact value (what glibc does in the default rounding mode). *)
From Coq Require Import List NArith ZArith Bool.
From BL Require Import Base.Bytes Mser.Types.
Import ListNotations.
Local Open Scope Z_scope.

Inductive fval :=
| FNan (neg : bool)
| FInf (neg : bool)
| FFin (neg : bool) (m e : Z)       (* (-1)^neg * m * 2^e, m >= 0 *)
| FWeird.                            (* x87 pseudo-NaN / pseudo-infinity / unnormal, or outside the executable range of the model *)

Definition decode32 (raw : N) : fval :=
  let r := Z.of_N raw mod 2 ^ 32 in
  let neg := Z.testbit r 31 in
  let ex := (r / 2 ^ 23) mod 2 ^ 8 in
  let fr := r mod 2 ^ 23 in
  if ex =? 255 then (if fr =? 0 then FInf neg else FNan neg)
  else if ex =? 0 then FFin neg fr (-149) else FFin neg (fr + 2 ^ 23) (ex - 150).

Definition decode64 (raw : N) : fval :=
  let r := Z.of_N raw mod 2 ^ 64 in
  let neg := Z.testbit r 63 in
  let ex := (r / 2 ^ 52) mod 2 ^ 11 in
  let fr := r mod 2 ^ 52 in
  if ex =? 2047 then (if fr =? 0 then FInf neg else FNan neg)
  else if ex =? 0 then FFin neg fr (-1074) else FFin neg (fr + 2 ^ 52) (ex - 1075).

(** sizeof(long double) = 16 on x86-64; the upper 6 bytes are padding *)
Definition decode80 (raw : N) : fval :=
  let r := Z.of_N raw mod 2 ^ 80 in
  let neg := Z.testbit r 79 in
  let ex := (r / 2 ^ 64) mod 2 ^ 15 in
  let m := r mod 2 ^ 64 in
  let intbit := Z.testbit m 63 in
  if ex =? 32767 then (if negb intbit then FWeird else if m =? 2 ^ 63 then FInf neg else FNan neg)
  else if negb ((15183 <=? ex) && (ex <=? 17583)) then FWeird    (* |binary exponent| > 1200: exact big-number arithmetic too slow to execute; outside the model *)
  else if intbit then FFin neg m (ex - 16446) else FWeird.

(** v = num / den >= 10^x ? *)
Definition ge_pow10 (num den x : Z) : bool :=
  if 0 <=? x then den * 10 ^ x <=? num else den <=? num * 10 ^ (- x).

Fixpoint adjust_exp (fuel : nat) (num den x : Z) : Z :=
  match fuel with
  | O => x
  | S f => if ge_pow10 num den (x + 1) then adjust_exp f num den (x + 1)
           else if ge_pow10 num den x then x else adjust_exp f num den (x - 1)
  end.

(** round-half-even of n / d (n >= 0, d > 0) *)
Definition rhe (n d : Z) : Z :=
  let q := n / d in let r := n mod d in
  if (d <? 2 * r) || ((d =? 2 * r) && Z.odd q) then q + 1 else q.

(** (decimal exponent X, 16-digit integer q) with v ~ q * 10^(X-15), 10^15 <= q < 10^16; m > 0 *)
Definition sig16 (m e : Z) : Z * Z :=
  let num := if 0 <=? e then m * 2 ^ e else m in
  let den := if 0 <=? e then 1 else 2 ^ (- e) in
  let b := Z.log2 m + 1 + e in
  let x0 := ((b - 1) * 30103) / 100000 in
  let x := adjust_exp 8 num den x0 in
  let k := 15 - x in
  let q := if 0 <=? k then rhe (num * 10 ^ k) den else rhe num (den * 10 ^ (- k)) in
  if 10 ^ 16 <=? q then (x + 1, 10 ^ 15) else (x, q).

Fixpoint digits_aux (n : nat) (q : Z) (acc : bytes) : bytes :=
  match n with
  | O => acc
  | S n' => digits_aux n' (q / 10) (Z.to_N (48 + q mod 10) :: acc)
  end.
Definition digits16 (q : Z) : bytes := digits_aux 16 q [].

Fixpoint strip_zeros_rev (l : bytes) : bytes :=          (* on the reversed list *)
  match l with
  | 48%N :: t => strip_zeros_rev t
  | _ => l
  end.
Definition strip_zeros (l : bytes) : bytes := rev (strip_zeros_rev (rev l)).

Definition with_point (ip fp : bytes) : bytes :=
  match strip_zeros fp with
  | [] => ip
  | fp' => ip ++ [46%N] ++ fp'
  end.

Definition exp_text (x : Z) : bytes :=
  let a := dec (Z.to_N (Z.abs x)) in
  [101%N; if x <? 0 then 45%N else 43%N] ++ (match a with [d] => [48%N; d] | _ => a end).

Definition g16 (m e : Z) : bytes :=
  if m =? 0 then [48%N] else
  let (x, q) := sig16 m e in
  let ds := digits16 q in
  if (x <? -4) || (16 <=? x) then with_point (firstn 1 ds) (skipn 1 ds) ++ exp_text x
  else if 0 <=? x then with_point (firstn (Z.to_nat (x + 1)) ds) (skipn (Z.to_nat (x + 1)) ds)
  else with_point [48%N] (repeat 48%N (Z.to_nat (- x - 1)) ++ ds).

Definition minus (neg : bool) : bytes := if neg then [45%N] else [].
Definition fval_text (v : fval) : bytes :=
  match v with
  | FNan neg => minus neg ++ [110; 97; 110]%N
  | FInf neg => minus neg ++ [105; 110; 102]%N
  | FFin neg m e => minus neg ++ g16 m e
  | FWeird => [60; 120; 56; 55; 45; 105; 110; 118; 97; 108; 105; 100; 62]%N      (* "<x87-invalid>": outside the model; the harness skips the text comparison *)
  end.

Definition float_text (a : aty) (raw : N) : bytes :=
  match a with
  | AF32 => fval_text (decode32 raw)
  | AF64 => fval_text (decode64 raw)
  | _ => fval_text (decode80 raw)
  end.
