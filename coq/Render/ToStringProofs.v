(** C07: the text ToStringVisitor produces for the callbacks of a value is the documented notation of the value:
    strings verbatim, [a, b], (a, b), Name{ f: v, g: w }, {null}, the active alternative of a variant as itself. *)
From Coq Require Import List NArith ZArith Bool Lia.
From BL Require Import Base.Bytes Mser.Types Mser.Encode Mser.EncodeProofs Mser.Tag Mser.Visit Mser.TagProofs Mser.EnumProofs Mser.VisitProofs Render.Time Render.Message.
Import ListNotations.
Local Open Scope N_scope.

Section TS.
Variable ft : aty -> N -> bytes.

Definition sepb : bytes := [44; 32].
Definition null_text : bytes := [123; 110; 117; 108; 108; 125].     (* {null} *)
Fixpoint joinl (l : list bytes) : bytes :=
  match l with [] => [] | [x] => x | x :: r => x ++ sepb ++ joinl r end.

Definition rep_text (n : N) : bytes := [32; 46; 46; 46; 32; 60; 114; 101; 112; 101; 97; 116; 115; 32] ++ dec n ++ [32; 116; 105; 109; 101; 115; 62].    (* " ... <repeats N times>" *)

(** the documented notation, directly on the value *)
Fixpoint text_of (t : ty) (v : val) {struct v} : bytes :=
  match t, v with
  | TArith a, VRaw x => arith_text ft (atag a) x
  | TEnum _ a es, VRaw x => match lookup a es (hex_Z (raw_to_Z a x)) with [] => [48; 120] ++ hex_Z (raw_to_Z a x) | nm => nm end   (* the enumerator, or 0xHEX *)
  | Types.TSeq _ e, VSeq vs =>
      if is_char e then map raw_of vs
      else if (32 <? N.of_nat (List.length vs)) && zero_size e then
        [91] ++ (match vs with v1 :: _ => text_of e v1 | [] => [] end) ++ rep_text (N.of_nat (List.length vs)) ++ [93]     (* one element and the count *)
      else [91] ++ joinl (map (text_of e) vs) ++ [93]
  | TTuple ts, VTup vs =>
      [40] ++ joinl ((fix go (vs : list val) (ts : list ty) {struct vs} : list bytes :=
                        match vs, ts with v :: vs', t :: ts' => text_of t v :: go vs' ts' | _, _ => [] end) vs ts) ++ [41]
  | TStruct n [], VTup _ => before_lt n                                   (* an empty struct: its name *)
  | TStruct n fs, VTup vs =>
      before_lt n ++ [123; 32] ++
      joinl ((fix go (vs : list val) (fs : list (bytes * ty)) {struct vs} : list bytes :=
                match vs, fs with v :: vs', f :: fs' => ((match fst f with [] => [] | _ => fst f ++ [58; 32] end) ++ text_of (snd f) v) :: go vs' fs' | _, _ => [] end) vs fs)
      ++ [32; 125]
  | TOpt _, VNone => null_text
  | TOpt e, VSome v' => text_of e v'
  | TVariant ts, VAlt i v' => match nth_error ts i with Some TUnit => null_text | Some ti => text_of ti v' | None => [] end
  | TVariant _, VValueless => null_text
  | _, _ => []
  end.

Fixpoint tmembers (vs : list val) (ts : list ty) : list bytes :=
  match vs, ts with v :: vs', t :: ts' => text_of t v :: tmembers vs' ts' | _, _ => [] end.
Definition flabel (f : bytes * ty) : bytes := match fst f with [] => [] | _ => fst f ++ [58; 32] end.
Fixpoint tfields (vs : list val) (fs : list (bytes * ty)) : list bytes :=
  match vs, fs with v :: vs', f :: fs' => (flabel f ++ text_of (snd f) v) :: tfields vs' fs' | _, _ => [] end.
Fixpoint cmembers (vs : list val) (ts : list ty) : list (list cb) :=
  match vs, ts with v :: vs', t :: ts' => callbacks_b true t v :: cmembers vs' ts' | _, _ => [] end.
Fixpoint cfields (vs : list val) (fs : list (bytes * ty)) : list (list cb) :=
  match vs, fs with v :: vs', f :: fs' => ([CFieldBegin (fst f) (tag (snd f))] ++ callbacks_b true (snd f) v ++ [CFieldEnd]) :: cfields vs' fs' | _, _ => [] end.

Lemma text_tuple ts vs : text_of (TTuple ts) (VTup vs) = [40] ++ joinl (tmembers vs ts) ++ [41].
Proof.
  cbn [text_of].
  match goal with |- [40] ++ joinl (?f vs ts) ++ [41] = _ =>
    assert (E : forall a c, f a c = tmembers a c);
    [ intro a; induction a as [|v a IH]; intros [|t c]; try reflexivity;
      change (f (v :: a) (t :: c)) with (text_of t v :: f a c); cbn [tmembers]; f_equal; apply IH
    | rewrite E; reflexivity ] end.
Qed.
Lemma text_struct n f0 fs0 vs : text_of (TStruct n (f0 :: fs0)) (VTup vs) = before_lt n ++ [123; 32] ++ joinl (tfields vs (f0 :: fs0)) ++ [32; 125].
Proof.
  cbn [text_of].
  match goal with |- before_lt n ++ [123; 32] ++ joinl (?f vs (f0 :: fs0)) ++ [32; 125] = _ =>
    assert (E : forall a c, f a c = tfields a c);
    [ intro a; induction a as [|v a IH]; intros [|t c]; try reflexivity;
      change (f (v :: a) (t :: c)) with ((match fst t with [] => [] | _ => fst t ++ [58; 32] end ++ text_of (snd t) v) :: f a c); cbn [tfields]; unfold flabel; f_equal; apply IH
    | rewrite E; reflexivity ] end.
Qed.
Lemma cb_tuple ts vs : callbacks_b true (TTuple ts) (VTup vs) = [CTupleBegin (concat (map tag ts))] ++ concat (cmembers vs ts) ++ [CTupleEnd].
Proof.
  cbn [callbacks_b].
  match goal with |- _ ++ ?f vs ts ++ _ = _ =>
    assert (E : forall a c, f a c = concat (cmembers a c));
    [ intro a; induction a as [|v a IH]; intros [|t c]; try reflexivity;
      change (f (v :: a) (t :: c)) with (callbacks_b true t v ++ f a c); cbn [cmembers concat]; f_equal; apply IH
    | rewrite E; reflexivity ] end.
Qed.
Lemma cb_struct n fs vs : callbacks_b true (TStruct n fs) (VTup vs) = [CStructBegin n (fields_tag fs)] ++ concat (cfields vs fs) ++ [CStructEnd].
Proof.
  cbn [callbacks_b]. fold (fields_tag fs).
  match goal with |- _ ++ ?f vs fs ++ _ = _ =>
    assert (E : forall a c, f a c = concat (cfields a c));
    [ intro a; induction a as [|v a IH]; intros [|t c]; try reflexivity;
      change (f (v :: a) (t :: c)) with ([CFieldBegin (fst t) (tag (snd t))] ++ callbacks_b true (snd t) v ++ [CFieldEnd] ++ f a c); cbn [cfields concat]; rewrite <- !app_assoc; do 3 f_equal; apply IH
    | rewrite E; reflexivity ] end.
Qed.

(** ** the state machine *)
Definition wf (s : ts) : Prop := t_empty s = false /\ (0 <= t_depth s)%Z /\ (t_state s <> TNormal -> (0 < t_depth s)%Z).
Definition sep (s : ts) : bytes := match t_state s with Message.TSeq => sepb | _ => [] end.
Definition post (s s' : ts) : Prop :=
  wf s' /\ t_depth s' = t_depth s /\ (t_state s <> TNormal -> t_state s' = Message.TSeq) /\ (t_state s = TNormal -> t_depth s = 0%Z -> t_state s' = TNormal).
(** what printing one value does, from any well-formed state *)
Definition prints (cbs : list cb) (txt : bytes) : Prop :=
  forall s, wf s -> exists s', tostring ft s cbs = (s', sep s ++ txt) /\ post s s'.

Lemma tostring_app s a c : tostring ft s (a ++ c) = let (s1, t1) := tostring ft s a in let (s2, t2) := tostring ft s1 c in (s2, t1 ++ t2).
Proof.
  revert s. induction a as [|x a IH]; intros s; cbn [app tostring].
  - destruct (tostring ft s c). reflexivity.
  - destruct (tostring_step ft s x) as [s1 t1]. rewrite IH. destruct (tostring ft s1 a) as [s2 t2]. destruct (tostring ft s2 c) as [s3 t3].
    now rewrite app_assoc.
Qed.

Lemma comma_spec s : wf s -> exists s1, comma s = (s1, sep s) /\ t_depth s1 = t_depth s /\ t_empty s1 = false /\
  (t_state s <> TNormal -> t_state s1 = Message.TSeq) /\ (t_state s = TNormal -> t_state s1 = TNormal).
Proof.
  intros (He & Hd & Hst). unfold comma, sep. destruct s as [st d e]. cbn [t_state t_depth t_empty] in *. subst e.
  destruct st; eexists; (split; [reflexivity|]); cbn [t_state t_depth t_empty]; repeat split; congruence.
Qed.

(** a leaf: comma, then text, state as after the comma *)
Lemma leaf_prints c txt : (forall s, tostring_step ft s c = let (s1, t) := comma s in (s1, t ++ txt)) -> prints [c] txt.
Proof.
  intros Hc s Hwf. destruct (comma_spec s Hwf) as (s1 & Ec & Hd & He & H1 & H2).
  exists s1. cbn [tostring]. rewrite Hc, Ec. rewrite app_nil_r. split; [reflexivity|].
  destruct Hwf as (We & Wd & Wst). unfold post, wf. repeat split; try lia; try assumption.
  - intros Hn. rewrite Hd. destruct (t_state s) eqn:Es; [rewrite (H2 eq_refl) in Hn; congruence|apply Wst; congruence|apply Wst; congruence].
  - intros Hn _. apply H2. exact Hn.
Qed.

(** an item inside brackets (the state is never TNormal there) *)
Definition prints_in (cbs : list cb) (txt : bytes) : Prop :=
  forall s, wf s -> t_state s <> TNormal -> exists s', tostring ft s cbs = (s', sep s ++ txt) /\ wf s' /\ t_depth s' = t_depth s /\ t_state s' = Message.TSeq.
Lemma prints_prints_in cbs txt : prints cbs txt -> prints_in cbs txt.
Proof. intros H s Hwf Hn. destruct (H s Hwf) as (s' & E & (W & D & S1 & _)). exists s'. auto. Qed.

(** a list of values inside brackets: separated by ", " *)
Lemma items_join : forall cbs txts, Forall2 prints_in cbs txts -> forall s, wf s -> t_state s <> TNormal ->
  exists s', tostring ft s (concat cbs) = (s', match txts with [] => [] | _ => sep s ++ joinl txts end) /\
             wf s' /\ t_depth s' = t_depth s /\ t_state s' <> TNormal.
Proof.
  induction 1 as [|c t cbs txts Hp Hrest IH]; intros s Hwf Hn.
  - exists s. cbn. auto.
  - cbn [concat]. rewrite tostring_app. destruct (Hp s Hwf Hn) as (s1 & E1 & W1 & D1 & S1). rewrite E1.
    assert (Hn1 : t_state s1 <> TNormal) by (rewrite S1; discriminate).
    destruct (IH s1 W1 Hn1) as (s2 & E2 & W2 & D2 & S2). rewrite E2.
    exists s2. split; [|split; [exact W2|split; [lia|exact S2]]].
    f_equal. destruct txts as [|t2 txts'].
    + cbn [joinl]. now rewrite app_nil_r.
    + cbn [joinl]. unfold sep at 2. rewrite S1. rewrite <- !app_assoc. reflexivity.
Qed.

(** brackets around items: [open] items [close] with enter_seq / leave_seq *)
Lemma bracket_prints cb_open cb_close cbs txts op cl :
  (forall s, tostring_step ft s cb_open = let (s1, t) := comma s in (enter_seq s1, t ++ op)) ->
  (forall s, t_empty s = false -> tostring_step ft s cb_close = (leave_seq s, cl)) ->
  Forall2 prints_in cbs txts ->
  prints ([cb_open] ++ concat cbs ++ [cb_close]) (op ++ joinl txts ++ cl).
Proof.
  intros Ho Hc Hitems s Hwf. destruct (comma_spec s Hwf) as (s1 & Ec & Hd & He & H1 & H2).
  destruct Hwf as (We & Wd & Wst).
  cbn [app tostring]. rewrite Ho, Ec.
  assert (Wen : wf (enter_seq s1)) by (unfold wf, enter_seq; cbn [t_state t_depth t_empty]; repeat split; try lia; assumption).
  assert (Nen : t_state (enter_seq s1) <> TNormal) by (cbn; discriminate).
  rewrite tostring_app. destruct (items_join cbs txts Hitems (enter_seq s1) Wen Nen) as (s2 & E2 & W2 & D2 & S2). rewrite E2.
  cbn [tostring]. rewrite Hc by (apply W2).
  exists (leave_seq s2). split.
  - f_equal. rewrite <- !app_assoc. f_equal. f_equal. rewrite app_nil_r.
    destruct txts; [reflexivity|]. unfold sep, enter_seq. cbn [t_state]. reflexivity.
  - assert (Dl : (t_depth s2 - 1 = t_depth s)%Z) by (rewrite D2; unfold enter_seq; cbn [t_depth]; lia).
    unfold post, wf, leave_seq. cbn [t_state t_depth t_empty]. rewrite Dl.
    destruct W2 as (E2' & _ & _).
    repeat split; try assumption; try lia.
    + destruct (t_depth s =? 0)%Z eqn:Ez; [congruence|]. intros _. apply Z.eqb_neq in Ez. lia.
    + intros Hn. destruct (t_depth s =? 0)%Z eqn:Ez; [|reflexivity]. apply Z.eqb_eq in Ez. specialize (Wst Hn). lia.
    + intros _ Hz. rewrite Hz. reflexivity.
Qed.

(** a struct field: "name: " then the value; fields only occur between the brackets of their struct *)
Lemma field_prints fname ftag cbs txt : prints cbs txt ->
  prints_in ([CFieldBegin fname ftag] ++ cbs ++ [CFieldEnd]) ((match fname with [] => [] | _ => fname ++ [58; 32] end) ++ txt).
Proof.
  intros Hv s Hwf Hns. destruct (comma_spec s Hwf) as (s1 & Ec & Hd & He & H1 & H2). destruct Hwf as (We & Wd & Wst).
  cbn [app tostring tostring_step]. rewrite Ec.
  set (sn := mkTS TNormal (t_depth s1) (t_empty s1)).
  assert (Wn : wf sn) by (unfold wf, sn; cbn [t_state t_depth t_empty]; repeat split; try lia; try assumption; congruence).
  rewrite tostring_app. destruct (Hv sn Wn) as (s2 & E2 & (W2 & D2 & _ & _)). rewrite E2.
  cbn [tostring tostring_step].
  exists (mkTS Message.TSeq (t_depth s2) (t_empty s2)). split.
  - f_equal. unfold sep at 2. cbn [sn t_state]. rewrite app_nil_r. cbn [app]. rewrite <- !app_assoc. reflexivity.
  - destruct W2 as (E2' & Dp & _). unfold wf. cbn [t_state t_depth t_empty]. unfold sn in D2. cbn [t_depth] in D2.
    specialize (Wst Hns). repeat split; try assumption; try lia.
Qed.
Lemma repeat_end_step s n tg : tostring_step ft s (CRepeatEnd n tg) = (s, if 1 <? n then rep_text n else []).
Proof. cbn [tostring_step]. destruct (1 <? n); reflexivity. Qed.

(** more than one zero-size element: the element once, then the count *)
Lemma repeat_prints n tg cbs txt : 1 < n -> prints cbs txt ->
  prints ([CSeqBegin n tg; CRepeatBegin n tg] ++ cbs ++ [CRepeatEnd n tg; CSeqEnd]) ([91] ++ txt ++ rep_text n ++ [93]).
Proof.
  intros Hn Hv s Hwf. destruct (comma_spec s Hwf) as (s1 & Ec & Hd & He & H1 & H2). destruct Hwf as (We & Wd & Wst).
  cbn [app tostring tostring_step]. rewrite Ec.
  assert (Wen : wf (enter_seq s1)) by (unfold wf, enter_seq; cbn [t_state t_depth t_empty]; repeat split; try lia; assumption).
  rewrite tostring_app. destruct (Hv (enter_seq s1) Wen) as (s2 & E2 & (W2 & D2 & S2 & _)). rewrite E2.
  cbn [tostring]. rewrite repeat_end_step. apply N.ltb_lt in Hn. rewrite Hn. cbn [tostring_step].
  exists (leave_seq s2). split.
  - f_equal. replace (sep (enter_seq s1)) with (@nil N) by reflexivity. rewrite app_nil_r. cbn [app]. rewrite <- !app_assoc. reflexivity.
  - assert (Dl : (t_depth s2 - 1 = t_depth s)%Z) by (rewrite D2; unfold enter_seq; cbn [t_depth]; lia).
    unfold post, wf, leave_seq. cbn [t_state t_depth t_empty]. rewrite Dl. destruct W2 as (E2' & _ & _).
    repeat split; try assumption; try lia.
    + destruct (t_depth s =? 0)%Z eqn:Ez; [congruence|]. intros _. apply Z.eqb_neq in Ez. lia.
    + intros Hn'. destruct (t_depth s =? 0)%Z eqn:Ez; [|reflexivity]. apply Z.eqb_eq in Ez. specialize (Wst Hn'). lia.
    + intros _ Hz. rewrite Hz. reflexivity.
Qed.

(** an optional / variant prints as its content *)
Lemma variant_prints d tg cbs txt : prints cbs txt -> prints ([CVariantBegin d tg] ++ cbs ++ [CVariantEnd]) txt.
Proof.
  intros H s Hwf. destruct (H s Hwf) as (s' & E & P). exists s'. split; [|exact P].
  cbn [app tostring tostring_step]. rewrite tostring_app, E. cbn [tostring tostring_step]. now rewrite !app_nil_r.
Qed.
Lemma null_prints : prints [CNull] null_text.
Proof. apply leaf_prints. intros s. reflexivity. Qed.

Lemma simple_not_unit t : simple false t = true -> t <> TUnit.
Proof. intros H ->. discriminate H. Qed.

Theorem tostring_prints : forall v t inv, wt t v = true -> simple inv t = true -> t <> TUnit ->
  prints (callbacks_b true t v) (text_of t v).
Proof.
  induction v using val_ind'; intros t inv Hwt Hs Hnu; destruct t; try discriminate; try congruence.
  - (* arithmetic *) cbn [callbacks_b text_of]. apply leaf_prints. intros s. reflexivity.
  - (* adapted enum *) cbn [callbacks_b text_of]. apply leaf_prints. intros s. cbn [tostring_step]. destruct (comma s) as [s1 t]. destruct (lookup a enumerators (hex_Z (raw_to_Z a x))); reflexivity.
  - (* sequence *)
    cbn [wt] in Hwt. apply andb_true_iff in Hwt. destruct Hwt as [Hwt _]. apply andb_true_iff in Hwt. destruct Hwt as [Hall _].
    rewrite forallb_forall in Hall. cbn [simple] in Hs. cbn [callbacks_b text_of andb].
    destruct (is_char t) eqn:Ec.
    + apply leaf_prints. intros s. reflexivity.
    + destruct ((32 <? N.of_nat (List.length vs)) && zero_size t) eqn:Erep.
      * apply andb_true_iff in Erep. destruct Erep as [H32 _]. apply N.ltb_lt in H32.
        destruct vs as [|v1 vs']; [cbn in H32; lia|].
        apply repeat_prints; [lia|]. inversion H as [|? ? Hv1 _]; subst.
        apply (Hv1 t false (Hall v1 (or_introl eq_refl)) Hs). apply simple_not_unit; exact Hs.
      * apply (bracket_prints (CSeqBegin (N.of_nat (List.length vs)) (tag t)) CSeqEnd (map (callbacks_b true t) vs) (map (text_of t) vs) [91] [93]).
        -- intros s. reflexivity.
        -- intros s _. reflexivity.
        -- assert (Hall' : Forall (fun x => wt t x = true) vs) by (apply Forall_forall; exact Hall). clear Hall Ec Erep.
           induction H as [|v vs Hv _ IHF]; [constructor|]. inversion Hall' as [|? ? W1 W2]; subst. cbn [map]. constructor.
           ++ apply prints_prints_in. apply (Hv t false W1 Hs). apply simple_not_unit; exact Hs.
           ++ apply IHF. exact W2.
  - (* tuple *)
    rewrite wt_tuple in Hwt. cbn [simple] in Hs. rewrite cb_tuple, text_tuple.
    apply (bracket_prints (CTupleBegin (concat (map tag ts))) CTupleEnd (cmembers vs ts) (tmembers vs ts) [40] [41]).
    + intros s. reflexivity.
    + intros s _. reflexivity.
    + clear Hnu. revert ts Hwt Hs. induction H as [|v vs Hv _ IH]; intros ts Hwt Hs; destruct ts as [|t ts]; try discriminate; [constructor|].
      cbn [wt_members forallb cmembers tmembers] in *. apply andb_true_iff in Hwt. destruct Hwt as [W1 W2]. apply andb_true_iff in Hs. destruct Hs as [S1 S2].
      constructor; [apply prints_prints_in; apply (Hv t false W1 S1); apply simple_not_unit; exact S1|apply IH; assumption].
  - (* struct *)
    rewrite wt_struct in Hwt. cbn [simple] in Hs. rewrite cb_struct.
    destruct fields as [|f0 fs0].
    + (* empty struct: the name; the visitor's empty-struct flag is set and cleared *)
      destruct vs as [|v0 vs0]; [|discriminate Hwt]. cbn [text_of cfields concat app]. change (fields_tag []) with (@nil N).
      intros s Hwf. destruct (comma_spec s Hwf) as (s1 & Ec & Hd & He & H1 & H2). destruct Hwf as (We & Wd & Wst).
      cbn [tostring tostring_step]. rewrite Ec. cbn [t_empty t_state t_depth].
      exists (mkTS (t_state s1) (t_depth s1) false). split; [now rewrite !app_nil_r|].
      unfold post, wf. cbn [t_state t_depth t_empty]. repeat split; try lia; try assumption.
      * intros Hn. rewrite Hd. destruct (t_state s) eqn:Es; [rewrite (H2 eq_refl) in Hn; congruence|apply Wst; congruence|apply Wst; congruence].
      * intros Hn _. apply H2. exact Hn.
    + rewrite text_struct.
      assert (Hft : fields_tag (f0 :: fs0) <> []) by (unfold fields_tag; cbn [map concat app]; discriminate).
      replace (before_lt name ++ [123; 32] ++ joinl (tfields vs (f0 :: fs0)) ++ [32; 125]) with ((before_lt name ++ [123; 32]) ++ joinl (tfields vs (f0 :: fs0)) ++ [32; 125]) by (now rewrite <- app_assoc).
      apply (bracket_prints (CStructBegin name (fields_tag (f0 :: fs0))) CStructEnd (cfields vs (f0 :: fs0)) (tfields vs (f0 :: fs0)) (before_lt name ++ [123; 32]) [32; 125]).
      * intros s. cbn [tostring_step]. destruct (comma s) as [s1 t]. destruct (fields_tag (f0 :: fs0)); [congruence|]. reflexivity.
      * intros s He. cbn [tostring_step]. rewrite He. reflexivity.
      * clear Hnu Hft. revert Hwt Hs. generalize (f0 :: fs0) as fs. induction H as [|v vs Hv _ IH]; intros fs Hwt Hs; destruct fs as [|fd fs]; try discriminate; [constructor|].
        cbn [wt_members forallb map cfields tfields] in *. apply andb_true_iff in Hwt. destruct Hwt as [W1 W2]. apply andb_true_iff in Hs. destruct Hs as [S1 S2].
        constructor; [|apply IH; assumption].
        unfold flabel. apply field_prints. apply (Hv (snd fd) false W1 S1). apply simple_not_unit. exact S1.
  - (* null *) cbn [callbacks_b text_of]. apply (variant_prints 0 [48] [CNull] null_text). apply null_prints.
  - (* engaged optional / pointer *)
    cbn [wt simple callbacks_b text_of] in *. apply variant_prints. apply (IHv t false Hwt Hs). apply simple_not_unit. exact Hs.
  - (* variant alternative *)
    cbn [wt simple callbacks_b text_of] in *. apply andb_true_iff in Hs. destruct Hs as [Hs _].
    destruct (nth_error ts i) as [ti|] eqn:Ei; [|discriminate].
    rewrite forallb_forall in Hs. pose proof (Hs ti (nth_error_In _ _ Ei)) as Hsi.
    destruct (ty_eq_unit ti) as [->|Hnt].
    + apply (variant_prints (N.of_nat i) [48] [CNull] null_text). apply null_prints.
    + assert (E : forall A (x y : A), match ti with TUnit => x | _ => y end = y) by (intros; destruct ti; congruence). rewrite !E.
      apply variant_prints. apply (IHv ti true Hwt Hsi Hnt).
  - (* valueless *) cbn [callbacks_b text_of]. apply (variant_prints (N.of_nat (length ts)) [48] [CNull] null_text). apply null_prints.
Qed.

(** at top level (message placeholder): no separator, the state returns to normal *)
Corollary tostring_value t v : wt t v = true -> simple false t = true ->
  tostring ft ts_init (callbacks_b true t v) = (ts_init, text_of t v).
Proof.
  intros Hwt Hs. destruct (tostring_prints v t false Hwt Hs (simple_not_unit t Hs) ts_init) as (s' & E & (W & D & _ & N)).
  { unfold wf, ts_init. cbn. repeat split; try lia. congruence. }
  rewrite E. unfold sep, ts_init. cbn [t_state app]. f_equal.
  destruct s' as [st d e]. destruct W as (We & _ & _). cbn [t_state t_depth t_empty ts_init] in *.
  rewrite (N eq_refl eq_refl), D, We. reflexivity.
Qed.

End TS.
