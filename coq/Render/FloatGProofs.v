(** What the 16 digits printed for a floating point value denote: the nearest 16-significant-digit decimal (ties to even). *)
From Coq Require Import List NArith ZArith Bool Lia.
From BL Require Import Base.Bytes Mser.Types Render.FloatG.
Local Open Scope Z_scope.

(** round-half-even is within half a unit of the exact quotient: 2 * |n - q*d| <= d *)
Lemma rhe_close n d : 0 < d -> 0 <= n -> 2 * Z.abs (n - rhe n d * d) <= d.
Proof.
  intros Hd Hn. unfold rhe.
  pose proof (Z.div_mod n d ltac:(lia)) as E. pose proof (Z.mod_pos_bound n d Hd) as B.
  set (q := n / d) in *. set (r := n mod d) in *. clearbody q r.
  destruct (d <? 2 * r) eqn:H1; cbn [orb].
  - apply Z.ltb_lt in H1. replace (n - (q + 1) * d) with (r - d) by lia. lia.
  - apply Z.ltb_ge in H1. destruct (d =? 2 * r) eqn:H2; cbn [andb].
    + apply Z.eqb_eq in H2. destruct (Z.odd q).
      * replace (n - (q + 1) * d) with (r - d) by lia. lia.
      * replace (n - q * d) with r by lia. lia.
    + replace (n - q * d) with r by lia. lia.
Qed.

(** ties go to the even neighbour *)
Lemma rhe_tie_even n d : 0 < d -> 0 <= n -> 2 * (n mod d) = d -> Z.even (rhe n d) = true.
Proof.
  intros Hd Hn Ht. unfold rhe. rewrite Ht, Z.ltb_irrefl, Z.eqb_refl. cbn [orb andb].
  destruct (Z.odd (n / d)) eqn:Ho.
  - rewrite Z.even_add, <- Z.negb_odd, Ho. reflexivity.
  - rewrite <- Z.negb_odd, Ho. reflexivity.
Qed.

Lemma rhe_exact n d : 0 < d -> 0 <= n -> n mod d = 0 -> rhe n d * d = n.
Proof.
  intros Hd Hn H0. unfold rhe. rewrite H0.
  replace (d <? 2 * 0) with false by (symmetry; apply Z.ltb_ge; lia).
  replace (d =? 2 * 0) with false by (symmetry; apply Z.eqb_neq; lia). cbn [orb andb].
  pose proof (Z.div_mod n d ltac:(lia)). lia.
Qed.

(** the value printed: v = m * 2^e = num / den; the digits q at decimal exponent x: q * 10^(x-15).
    Stated without rationals: for k = 15 - x', scaled numerator N and denominator D with v * 10^k = N / D, 2 * |N - q * D| <= D;
    when the rounding carries to 10^16 the exponent moves up by one and the digits are 10^15 (the same number). *)
Definition scaled (m e k : Z) : Z * Z :=
  let num := if 0 <=? e then m * 2 ^ e else m in
  let den := if 0 <=? e then 1 else 2 ^ (- e) in
  if 0 <=? k then (num * 10 ^ k, den) else (num, den * 10 ^ (- k)).

Lemma scaled_pos m e k : 0 < m -> 0 <= fst (scaled m e k) /\ 0 < snd (scaled m e k).
Proof.
  intros Hm. unfold scaled. destruct (0 <=? e) eqn:He; destruct (0 <=? k) eqn:Hk; cbn [fst snd];
    try apply Z.leb_le in He; try apply Z.leb_le in Hk; try apply Z.leb_gt in He; try apply Z.leb_gt in Hk.
  - split; [|lia]. pose proof (Z.pow_pos_nonneg 2 e ltac:(lia) He). pose proof (Z.pow_pos_nonneg 10 k ltac:(lia) Hk). nia.
  - split. { pose proof (Z.pow_pos_nonneg 2 e ltac:(lia) He). nia. } pose proof (Z.pow_pos_nonneg 10 (-k) ltac:(lia) ltac:(lia)). lia.
  - split. { pose proof (Z.pow_pos_nonneg 10 k ltac:(lia) Hk). nia. } apply Z.pow_pos_nonneg; lia.
  - split; [lia|]. pose proof (Z.pow_pos_nonneg 2 (-e) ltac:(lia) ltac:(lia)). pose proof (Z.pow_pos_nonneg 10 (-k) ltac:(lia) ltac:(lia)). nia.
Qed.

Theorem sig16_nearest m e : 0 < m ->
  let (x, q) := sig16 m e in
  exists x0, (q = rhe (fst (scaled m e (15 - x0))) (snd (scaled m e (15 - x0))) /\ x = x0 \/
              10 ^ 16 <= rhe (fst (scaled m e (15 - x0))) (snd (scaled m e (15 - x0))) /\ x = x0 + 1 /\ q = 10 ^ 15) /\
             2 * Z.abs (fst (scaled m e (15 - x0)) - rhe (fst (scaled m e (15 - x0))) (snd (scaled m e (15 - x0))) * snd (scaled m e (15 - x0)))
               <= snd (scaled m e (15 - x0)).
Proof.
  intros Hm. unfold sig16.
  set (num := if 0 <=? e then m * 2 ^ e else m). set (den := if 0 <=? e then 1 else 2 ^ (- e)).
  set (x0 := adjust_exp 8 num den _).
  assert (Hs : (if 0 <=? 15 - x0 then rhe (num * 10 ^ (15 - x0)) den else rhe num (den * 10 ^ (- (15 - x0))))
               = rhe (fst (scaled m e (15 - x0))) (snd (scaled m e (15 - x0)))).
  { unfold scaled. fold num den. destruct (0 <=? 15 - x0); reflexivity. }
  rewrite Hs. clearbody x0.
  destruct (scaled_pos m e (15 - x0) Hm) as [Hn Hd].
  destruct (10 ^ 16 <=? rhe _ _) eqn:Hc; exists x0; split; try (apply rhe_close; assumption).
  - right. apply Z.leb_le in Hc. auto.
  - left. auto.
Qed.
