(** The proleptic Gregorian calendar, written as one would count it, and the proof that
    civil_from_days (the model of gmtime_r's date part) inverts it for EVERY integer day number. *)
From Coq Require Import List ZArith Bool Lia.
From BL Require Import Render.Time.
Import ListNotations.
Local Open Scope Z_scope.

Definition is_leap (y : Z) : bool := ((y mod 4 =? 0) && negb (y mod 100 =? 0)) || (y mod 400 =? 0).
(** number of leap years among the years 1 .. y-1 (floor division extends it to y <= 0 consistently) *)
Definition leaps_before (y : Z) : Z := (y - 1) / 4 - (y - 1) / 100 + (y - 1) / 400.
Definition days_before_year (y : Z) : Z := 365 * (y - 1) + leaps_before y.
Definition cum_days (m : Z) : Z := nth (Z.to_nat (m - 1)) [0; 31; 59; 90; 120; 151; 181; 212; 243; 273; 304; 334] 0.
Definition days_before_month (y m : Z) : Z := cum_days m + (if is_leap y && (2 <? m) then 1 else 0).
Definition days_in_month (y m : Z) : Z :=
  if m =? 2 then (if is_leap y then 29 else 28)
  else if (m =? 4) || (m =? 6) || (m =? 9) || (m =? 11) then 30 else 31.
Definition valid_date (y m d : Z) : Prop := 1 <= m <= 12 /\ 1 <= d <= days_in_month y m.
(** days since 1970-01-01 of the civil date y-m-d *)
Definition days_from_civil (y m d : Z) : Z :=
  days_before_year y + days_before_month y m + (d - 1) - days_before_year 1970.

(** civil_from_days for era 0, as a function of the day of era *)
Definition civ_doe (doe : Z) : Z * Z * Z :=
  let yoe := (doe - doe / 1460 + doe / 36524 - doe / 146096) / 365 in
  let doy := doe - (365 * yoe + yoe / 4 - yoe / 100) in
  let mp := (5 * doy + 2) / 153 in
  let d := doy - (153 * mp + 2) / 5 + 1 in
  let m := if mp <? 10 then mp + 3 else mp - 9 in
  (if m <=? 2 then yoe + 1 else yoe, m, d).

Definition check_doe (doe : Z) : bool :=
  let '(y, m, d) := civ_doe doe in
  (1 <=? m) && (m <=? 12) && (1 <=? d) && (d <=? days_in_month y m) &&
  (days_from_civil y m d =? doe - 719468) && (0 <=? y) && (y <=? 400).

(** checks f (k-1), f (k-2), ..., f (k-n) *)
Fixpoint all_below (n : nat) (k : Z) (f : Z -> bool) : bool :=
  match n with O => true | S n' => f (k - 1) && all_below n' (k - 1) f end.

Lemma all_below_spec n f : forall k, all_below n k f = true -> forall j, k - Z.of_nat n <= j < k -> f j = true.
Proof.
  induction n as [|n IH]; intros k H j Hj; [lia|].
  cbn [all_below] in H. apply andb_true_iff in H. destruct H as [H1 H2].
  destruct (Z.eq_dec j (k - 1)) as [->|Hne]; [exact H1|]. apply (IH (k - 1)); [exact H2|lia].
Qed.

(** the finite part: every day of one 400-year era, checked by computation inside the kernel *)
Lemma era_sweep : all_below (Z.to_nat 146097) 146097 check_doe = true.
Proof. vm_cast_no_check (eq_refl true). Qed.

Lemma check_doe_all doe : 0 <= doe < 146097 -> check_doe doe = true.
Proof. intros H. apply (all_below_spec _ _ _ era_sweep). rewrite Z2Nat.id; lia. Qed.

(** shifting by whole eras *)
Lemma leaps_before_shift y k : leaps_before (y + 400 * k) = leaps_before y + 97 * k.
Proof.
  unfold leaps_before.
  replace (y + 400 * k - 1) with ((y - 1) + (100 * k) * 4) at 1 by lia.
  replace (y + 400 * k - 1) with ((y - 1) + (4 * k) * 100) at 1 by lia.
  replace (y + 400 * k - 1) with ((y - 1) + k * 400) by lia.
  rewrite !Z.div_add by lia. lia.
Qed.

Lemma is_leap_shift y k : is_leap (y + 400 * k) = is_leap y.
Proof.
  unfold is_leap.
  replace ((y + 400 * k) mod 4) with (y mod 4) by (replace (400 * k) with ((100 * k) * 4) by lia; now rewrite Z.mod_add by lia).
  replace ((y + 400 * k) mod 100) with (y mod 100) by (replace (400 * k) with ((4 * k) * 100) by lia; now rewrite Z.mod_add by lia).
  replace ((y + 400 * k) mod 400) with (y mod 400) by (replace (400 * k) with (k * 400) by lia; now rewrite Z.mod_add by lia).
  reflexivity.
Qed.

Lemma days_from_civil_shift y m d k : days_from_civil (y + 400 * k) m d = days_from_civil y m d + 146097 * k.
Proof.
  unfold days_from_civil, days_before_year, days_before_month. rewrite leaps_before_shift, is_leap_shift. lia.
Qed.

Lemma days_in_month_shift y m k : days_in_month (y + 400 * k) m = days_in_month y m.
Proof. unfold days_in_month. now rewrite is_leap_shift. Qed.

Lemma civil_from_days_era z :
  let era := (z + 719468) / 146097 in
  let doe := (z + 719468) - era * 146097 in
  civil_from_days z = let '(y, m, d) := civ_doe doe in (y + 400 * era, m, d).
Proof.
  cbv zeta. unfold civil_from_days, civ_doe.
  set (era := (z + 719468) / 146097). set (doe := z + 719468 - era * 146097).
  set (yoe := (doe - doe / 1460 + doe / 36524 - doe / 146096) / 365).
  set (doy := doe - (365 * yoe + yoe / 4 - yoe / 100)).
  set (mp := (5 * doy + 2) / 153).
  destruct (mp <? 10); (match goal with |- context [?m <=? 2] => destruct (m <=? 2) end); f_equal; f_equal; lia.
Qed.

(** For EVERY day number: the date computed is a valid date and denotes that day. *)
Theorem civil_from_days_correct z :
  let '(y, m, d) := civil_from_days z in valid_date y m d /\ days_from_civil y m d = z.
Proof.
  rewrite civil_from_days_era.
  set (era := (z + 719468) / 146097). set (doe := z + 719468 - era * 146097).
  assert (Hdoe : 0 <= doe < 146097).
  { unfold doe, era. pose proof (Z.div_mod (z + 719468) 146097 ltac:(lia)).
    pose proof (Z.mod_pos_bound (z + 719468) 146097 ltac:(lia)). lia. }
  pose proof (check_doe_all doe Hdoe) as Hc. unfold check_doe in Hc.
  destruct (civ_doe doe) as [[y m] d].
  repeat (apply andb_true_iff in Hc; destruct Hc as [Hc ?]).
  unfold valid_date. rewrite days_in_month_shift, days_from_civil_shift.
  repeat match goal with H : (_ <=? _) = true |- _ => apply Z.leb_le in H | H : (_ =? _) = true |- _ => apply Z.eqb_eq in H end.
  unfold doe in *. lia.
Qed.
