(** PrettyPrinter.cpp: the %-placeholder interpreter for event formats.
    Message (%m) and time (%d, %u) rendering are parameters here; Render/Message.v and
    Render/Time.v provide them. Definitions only. *)
From Coq Require Import List NArith ZArith Bool String.
From BL Require Import Base.Bytes Reader.Entry Reader.EventStream.
Import ListNotations.
Local Open Scope N_scope.

Definition severity_string (sev : N) : bytes :=
  if sev =? 32 then str "TRAC" else if sev =? 64 then str "DEBG" else if sev =? 128 then str "INFO"
  else if sev =? 256 then str "WARN" else if sev =? 512 then str "ERRO" else if sev =? 1024 then str "CRIT"
  else if sev =? 32768 then str "NOLG" else str "UNKW".

(** printFilename: the part after the last '/' or '\' *)
Fixpoint basename_aux (l acc : bytes) : bytes :=
  match l with
  | [] => acc
  | c :: r => if (c =? 47) || (c =? 92) then basename_aux r r else basename_aux r acc
  end.
Definition basename (l : bytes) : bytes := basename_aux l l.

(** a const char* printed with operator<<: stops at the first NUL *)
Fixpoint cstr (l : bytes) : bytes :=
  match l with
  | [] => []
  | c :: r => if c =? 0 then [] else c :: cstr r
  end.

(** useLocaltime(eventFormat): first of %d / %u decides; default true *)
Fixpoint use_localtime_aux (placeholder : bool) (fmt : bytes) : bool :=
  match fmt with
  | [] => true
  | c :: r =>
    if placeholder then
      if c =? 100 then true else if c =? 117 then false else use_localtime_aux false r
    else use_localtime_aux (c =? 37) r
  end.
Definition use_localtime (fmt : bytes) : bool := use_localtime_aux false fmt.

Section Pretty.
(** %m: text and whether visitation completed (an exception leaves the partial text flushed) *)
Variable render_msg : bool (* useLocaltime *) -> bytes (* time format *) -> view -> bytes * bool.
(** %d (local=true) / %u (local=false) *)
Variable render_time : bool -> bytes -> clocksync -> N -> bytes.

Definition event_field (local : bool) (tfmt : bytes) (spec : N) (v : view) : bytes * bool :=
  let s := v_src v in
  if spec =? 73 (* I *) then (dec (s_id s), true)
  else if spec =? 83 (* S *) then (severity_string (s_sev s), true)
  else if spec =? 67 (* C *) then (s_category s, true)
  else if spec =? 77 (* M *) then (s_function s, true)
  else if spec =? 70 (* F *) then (s_file s, true)
  else if spec =? 71 (* G *) then (basename (s_file s), true)
  else if spec =? 76 (* L *) then (dec (s_line s), true)
  else if spec =? 80 (* P *) then (s_format s, true)
  else if spec =? 84 (* T *) then (s_argtags s, true)
  else if spec =? 110 (* n *) then (wp_name (v_wp v), true)
  else if spec =? 116 (* t *) then (dec (wp_id (v_wp v)), true)
  else if spec =? 100 (* d *) then (render_time true tfmt (v_cs v) (v_clock v), true)
  else if spec =? 117 (* u *) then (render_time false tfmt (v_cs v) (v_clock v), true)
  else if spec =? 114 (* r *) then (dec (v_clock v), true)
  else if spec =? 109 (* m *) then render_msg local tfmt v
  else if spec =? 37 (* % *) then ([37], true)
  else ([37; spec], true).

(** printEvent's loop: '%' followed by a spec, a trailing '%' is printed as is *)
Fixpoint event_loop (local : bool) (tfmt : bytes) (fmt : bytes) (v : view) : bytes * bool :=
  match fmt with
  | [] => ([], true)
  | c :: r =>
    if c =? 37 then
      match r with
      | [] => ([37], true)
      | spec :: r' =>
        let (t, ok) := event_field local tfmt spec v in
        if ok then let (t', ok') := event_loop local tfmt r' v in (t ++ t', ok') else (t, false)
      end
    else let (t', ok') := event_loop local tfmt r v in (c :: t', ok')
  end.

Definition print_event (fmt tfmt : bytes) (v : view) : bytes * bool :=
  event_loop (use_localtime fmt) tfmt fmt v.

End Pretty.
