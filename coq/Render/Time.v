(** Time.cpp (ticksToNanoseconds, clockToNsSinceEpoch, nsSinceEpochToBrokenDownTimeUTC with gmtime_r
    modelled by civil_from_days) and the date part of PrettyPrinter.cpp. Machine arithmetic is explicit:
    int64 operations wrap (the drivers are compiled with -fwrapv; the theorems of C17 show that no wrap
    happens in the stated range). Definitions only. *)
From Coq Require Import List NArith ZArith Bool String.
From BL Require Import Base.Bytes Reader.Entry.
Import ListNotations.
Local Open Scope Z_scope.

Definition two63 : Z := 9223372036854775808.
Definition two64z : Z := 18446744073709551616.
Definition wrap64 (z : Z) : Z := (z + two63) mod two64z - two63.
Definition wrap32 (z : Z) : Z := (z + 2147483648) mod 4294967296 - 2147483648.
Definition s64 (x : N) : Z := wrap64 (Z.of_N x).     (* reinterpret a u64 as int64 *)
Definition s32 (x : N) : Z := wrap32 (Z.of_N x).
Definition giga : Z := 1000000000.

(** ticksToNanoseconds(frequency, ticks); precondition int64(frequency) > 0 is checked by the callers *)
Definition ticks_to_ns (freq : N) (ticks : Z) : Z :=
  let sf := s64 freq in
  let q := Z.quot ticks sf in
  let r := Z.rem ticks sf in
  wrap64 (wrap64 (q * giga) + Z.quot (wrap64 (r * giga)) sf).

Definition clock_to_ns (cs : clocksync) (clock : N) : Z :=
  let diff := wrap64 (Z.of_N clock - Z.of_N (cs_clock cs)) in
  wrap64 (s64 (cs_ns cs) + ticks_to_ns (cs_freq cs) diff).

(** proleptic Gregorian calendar from a day count relative to 1970-01-01 (what gmtime_r computes) *)
Definition civil_from_days (z0 : Z) : Z * Z * Z :=
  let z := z0 + 719468 in
  let era := z / 146097 in
  let doe := z - era * 146097 in
  let yoe := (doe - doe / 1460 + doe / 36524 - doe / 146096) / 365 in
  let y := yoe + era * 400 in
  let doy := doe - (365 * yoe + yoe / 4 - yoe / 100) in
  let mp := (5 * doy + 2) / 153 in
  let d := doy - (153 * mp + 2) / 5 + 1 in
  let m := if mp <? 10 then mp + 3 else mp - 9 in
  (if m <=? 2 then y + 1 else y, m, d).

Record bdt := mkBdt { b_year : Z (* full year *); b_mon : Z (* 1..12 *); b_mday : Z; b_hour : Z; b_min : Z; b_sec : Z; b_nsec : Z }.

Definition gmtime (tt : Z) : Z * Z * Z * Z * Z * Z :=
  let days := tt / 86400 in
  let rem := tt - days * 86400 in
  let '(y, m, d) := civil_from_days days in
  (y, m, d, rem / 3600, (rem / 60) mod 60, rem mod 60).

(** nsSinceEpochToBrokenDownTimeUTC, with the floor of the D3 fix when [floor_fix] *)
Definition broken_down (floor_fix : bool) (ns : Z) : bdt :=
  let s0 := Z.quot ns giga in
  let secs := if floor_fix && (s0 * giga >? ns) then s0 - 1 else s0 in
  let tp := wrap64 (secs * giga) in
  let tt := Z.quot tp giga in
  let '(y, m, d, hh, mm, ss) := gmtime tt in
  let remainder := wrap64 (ns - wrap64 (secs * giga)) in
  mkBdt y m d hh mm ss (wrap32 remainder).

Local Open Scope N_scope.
(** printTwoDigits: with assertions off, the two chars computed from any int *)
Definition two_digits (i : Z) : bytes :=
  let b := Z.rem i 10 in let a := Z.quot (i - b) 10 in
  [Z.to_N ((48 + a) mod 256); Z.to_N ((48 + b) mod 256)].
Definition two_digits_ok (i : Z) : bool := ((0 <=? i) && (i <? 100))%Z.

Definition pad_left (w : nat) (l : bytes) : bytes := repeat 48 (w - List.length l) ++ l.
(** printNineDigits: first 9 chars of snprintf("%.9d") *)
Definition nine_digits (i : Z) : bytes :=
  firstn 9 (match i with Zneg p => 45 :: pad_left 9 (dec (Npos p)) | _ => pad_left 9 (dec (Z.to_N i)) end).

(** printTimeZoneOffset; [wide] = absolute value taken in 64 bits (D5 fix). Without it abs(INT_MIN) is
    INT_MIN with -fwrapv *)
Definition tz_offset_text (wide : bool) (seconds : Z) : bytes * bool :=
  let sign := if (0 <=? seconds)%Z then 43 else 45 in
  let psecs := if wide then Z.abs seconds else wrap32 (Z.abs seconds) in
  let hours := wrap32 (Z.quot psecs 3600) in
  let mins := wrap32 (Z.quot psecs 60 - 60 * hours)%Z in
  let h := if (hours <? 100)%Z then hours else 0%Z in
  let m := if (mins <? 100)%Z then mins else 0%Z in
  (sign :: two_digits h ++ two_digits m, two_digits_ok h && two_digits_ok m).

(** C modulo of the year for %y; [nonneg] = the D4 fix *)
Definition yy (nonneg : bool) (tm_year : Z) : Z :=
  if nonneg then Z.rem (Z.rem tm_year 100 + 100) 100 else Z.rem tm_year 100.

Record timecfg := mkTC { tc_floor : bool; tc_yy_nonneg : bool; tc_tz_wide : bool }.

Definition time_field (cfg : timecfg) (spec : N) (b : bdt) (tzoffset : Z) (tzname : bytes) : bytes * bool :=
  let td i := (two_digits i, two_digits_ok i) in
  if spec =? 89 (* Y *) then (decZ (wrap32 (b_year b - 1900 + 1900)), true)
  else if spec =? 121 (* y *) then td (yy (tc_yy_nonneg cfg) (b_year b - 1900))
  else if spec =? 109 (* m *) then td (b_mon b)
  else if spec =? 100 (* d *) then td (b_mday b)
  else if spec =? 72 (* H *) then td (b_hour b)
  else if spec =? 77 (* M *) then td (b_min b)
  else if spec =? 83 (* S *) then td (b_sec b)
  else if spec =? 122 (* z *) then tz_offset_text (tc_tz_wide cfg) tzoffset
  else if spec =? 90 (* Z *) then (tzname, true)
  else if spec =? 78 (* N *) then (nine_digits (b_nsec b), true)
  else ([37; spec], true).

(** printTime: returns the text and whether every printTwoDigits assertion held *)
Fixpoint time_loop (cfg : timecfg) (fmt : bytes) (b : bdt) (tzoffset : Z) (tzname : bytes) : bytes * bool :=
  match fmt with
  | [] => ([], true)
  | c :: r =>
    if c =? 37 then
      match r with
      | [] => ([37], true)
      | spec :: r' => let (t, ok) := time_field cfg spec b tzoffset tzname in
                      let (t', ok') := time_loop cfg r' b tzoffset tzname in (t ++ t', ok && ok')
      end
    else let (t', ok') := time_loop cfg r b tzoffset tzname in (c :: t', ok')
  end.

Fixpoint cstr_t (l : bytes) : bytes := match l with [] => [] | c :: r => if c =? 0 then [] else c :: cstr_t r end.

(** printProducerLocalTime / printUTCTime *)
Definition render_clock (cfg : timecfg) (local : bool) (tfmt : bytes) (cs : clocksync) (clock : N) : bytes * bool :=
  if (0 <? s64 (cs_freq cs))%Z then
    let ns := clock_to_ns cs clock in
    if local then
      let tz := s32 (cs_tz cs) in
      time_loop cfg tfmt (broken_down (tc_floor cfg) (wrap64 (ns + wrap64 (tz * giga)))) tz (cstr_t (cs_tzname cs))
    else time_loop cfg tfmt (broken_down (tc_floor cfg) ns) 0 (str "UTC")
  else (str "no_clock_sync?", true).
