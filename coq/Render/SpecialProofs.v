(** PrettyPrinter::printStruct takes over only structs that occupy at least four bytes: whenever it renders one itself it consumes input *)
From Coq Require Import List NArith ZArith Bool Lia.
From BL Require Import Base.Bytes Reader.Entry Render.Time Render.Message.
Import ListNotations.
Local Open Scope N_scope.

Lemma take_n_shorter n l h r : take_n n l = Some (h, r) -> (0 < n)%nat -> (length r < length l)%nat.
Proof. intros H Hn. apply take_n_app in H. destruct H as [-> Hh]. rewrite app_length. lia. Qed.

Local Opaque take_n takeN.
Lemma print_struct_consumes cfg local tfmt cs : forall n t i txt r,
  print_struct cfg local tfmt cs n t i = Some (Some (txt, r)) -> (length r < length i)%nat.
Proof.
  intros n t i txt r. unfold print_struct. cbv zeta.
  repeat (match goal with |- context [if ?c then _ else _] => destruct c end); intros H; try discriminate;
    try (injection H as H);
    repeat (match type of H with
            | context [take_n ?k ?l] => let E := fresh "E" in destruct (take_n k l) as [[? ?]|] eqn:E; [apply take_n_shorter in E; [|lia]|discriminate]
            | context [takeN ?k ?l] => let E := fresh "E" in destruct (takeN k l) as [[? ?]|] eqn:E; [apply takeN_app in E; destruct E as [-> _]|discriminate]
            end);
    try discriminate; injection H as H1 H2; subst; rewrite ?app_length in *; lia.
Qed.
