(** M1/M4: entry framing and the three metadata structs (Entries.hpp), decoded the way
    mserialize::deserialize does it for these types (fields in wire order, u32-counted strings,
    trailing bytes ignored). Definitions only. *)
From Coq Require Import List NArith ZArith Bool.
From BL Require Import Base.Bytes.
Import ListNotations.
Local Open Scope N_scope.

Inductive errk := EShort | EUnknownSource (id : N) | ERender | ESizeHdr (got : N) | EPayload (got want : N) | EOther.

Inductive res (A : Type) := Ok (a : A) | Err (e : errk).
Arguments Ok {A} a. Arguments Err {A} e.

Definition bind {A B} (r : res A) (f : A -> res B) : res B :=
  match r with Ok a => f a | Err e => Err e end.
Notation "'do' x <- r ; k" := (bind r (fun x => k)) (at level 200, x pattern, r at level 100, k at level 200).

Definition rdN (n : nat) (l : bytes) : res (N * bytes) :=
  match rd n l with Some p => Ok p | None => Err EShort end.

(** std::string / sequence of char: u32 count, then the bytes (resize + batch read) *)
Definition rd_string (l : bytes) : res (bytes * bytes) :=
  do (n, r) <- rdN 4 l;
  match takeN n r with Some p => Ok p | None => Err EShort end.

Definition wr_string (s : bytes) : bytes := le_enc 4 (lenN s) ++ s.

Record source := mkSource {
  s_id : N; s_sev : N; s_category : bytes; s_function : bytes; s_file : bytes;
  s_line : N; s_format : bytes; s_argtags : bytes }.

Record writerprop := mkWP { wp_id : N; wp_name : bytes; wp_batch : N }.

Record clocksync := mkCS { cs_clock : N; cs_freq : N; cs_ns : N; cs_tz : N (* raw u32 bits of the int32 *); cs_tzname : bytes }.

Definition default_wp := mkWP 0 [] 0.
Definition default_cs := mkCS 0 0 0 0 [].

Definition dec_source (l : bytes) : res source :=
  do (id, l) <- rdN 8 l;
  do (sev, l) <- rdN 2 l;
  do (cat, l) <- rd_string l;
  do (fn, l) <- rd_string l;
  do (file, l) <- rd_string l;
  do (line, l) <- rdN 8 l;
  do (fmt, l) <- rd_string l;
  do (tags, l) <- rd_string l;
  Ok (mkSource id sev cat fn file line fmt tags).

Definition enc_source (s : source) : bytes :=
  le_enc 8 (s_id s) ++ le_enc 2 (s_sev s) ++ wr_string (s_category s) ++ wr_string (s_function s)
  ++ wr_string (s_file s) ++ le_enc 8 (s_line s) ++ wr_string (s_format s) ++ wr_string (s_argtags s).

Definition dec_wp (l : bytes) : res writerprop :=
  do (id, l) <- rdN 8 l;
  do (name, l) <- rd_string l;
  do (b, l) <- rdN 8 l;
  Ok (mkWP id name b).

Definition enc_wp (w : writerprop) : bytes :=
  le_enc 8 (wp_id w) ++ wr_string (wp_name w) ++ le_enc 8 (wp_batch w).

Definition dec_cs (l : bytes) : res clocksync :=
  do (c, l) <- rdN 8 l;
  do (f, l) <- rdN 8 l;
  do (ns, l) <- rdN 8 l;
  do (tz, l) <- rdN 4 l;
  do (name, l) <- rd_string l;
  Ok (mkCS c f ns tz name).

Definition enc_cs (c : clocksync) : bytes :=
  le_enc 8 (cs_clock c) ++ le_enc 8 (cs_freq c) ++ le_enc 8 (cs_ns c) ++ le_enc 4 (cs_tz c) ++ wr_string (cs_tzname c).

(** special tags: u64(-1), u64(-2), u64(-3); top bit set = special *)
Definition two64 : N := 18446744073709551616.
Definition tag_source : N := two64 - 1.
Definition tag_wp : N := two64 - 2.
Definition tag_cs : N := two64 - 3.
Definition is_special (tag : N) : bool := 9223372036854775808 <=? tag.

(** An entry on the wire: u32 size | payload *)
Definition frame (payload : bytes) : bytes := le_enc 4 (lenN payload) ++ payload.
Definition entry_special (tag : N) (body : bytes) : bytes := frame (le_enc 8 tag ++ body).
Definition entry_event (id clock : N) (args : bytes) : bytes := frame (le_enc 8 id ++ le_enc 8 clock ++ args).

(** Split a buffer of whole entries (what EventFilter / checkEntryBuffer do):
    None if the buffer does not consist of complete entries. Structural on a fuel = length. *)
Fixpoint split_entries (fuel : nat) (l : bytes) : option (list bytes) :=
  match l with
  | [] => Some []
  | _ =>
    match fuel with
    | O => None
    | S f =>
      match rd 4 l with
      | None => None
      | Some (n, r) =>
        match takeN n r with
        | None => None
        | Some (p, r') => match split_entries f r' with
                          | Some ps => Some (p :: ps)
                          | None => None
                          end
        end
      end
    end
  end.
Definition payloads_of (l : bytes) : option (list bytes) := split_entries (length l) l.
