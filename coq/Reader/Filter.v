(** EventFilter::writeAllowed (EventFilter.hpp). Definitions only. *)
From Coq Require Import List NArith Bool.
From BL Require Import Base.Bytes Reader.Entry Reader.EventStream.
Import ListNotations.
Local Open Scope N_scope.

Definition idset := list N.
Definition ids_mem (k : N) (s : idset) : bool := existsb (N.eqb k) s.
Definition ids_insert (k : N) (s : idset) : idset := if ids_mem k s then s else k :: s.
Definition ids_erase (k : N) (s : idset) : idset := filter (fun x => negb (N.eqb k x)) s.

Section Filter.
Variable pred : source -> bool.
(** does the code remove an id when it is redefined by a source failing the predicate (D1 fix) *)
Variable erase_on_fail : bool.

Inductive fres := FPass | FDrop | FErr (e : errk).

(** one entry of the buffer, given its payload *)
Definition filter_step (allowed : idset) (payload : bytes) : idset * fres :=
  match rdN 8 payload with
  | Err e => (allowed, FErr e)
  | Ok (tag, body) =>
    if is_special tag then
      if tag =? tag_source then
        match dec_source body with
        | Err e => (allowed, FErr e)
        | Ok s => if pred s then (ids_insert (s_id s) allowed, FPass)
                  else ((if erase_on_fail then ids_erase (s_id s) allowed else allowed), FPass)
        end
      else (allowed, FPass)
    else if ids_mem tag allowed then (allowed, FPass) else (allowed, FDrop)
  end.

(** over the payloads of a chunk: the list of out.write calls, the end status, the new set *)
Fixpoint filter_fold (allowed : idset) (ps : list bytes) (tail : endst) : list bytes * endst * idset :=
  match ps with
  | [] => ([], tail, allowed)
  | p :: ps' =>
    match filter_step allowed p with
    | (a', FErr e) => ([], EndErr e, a')
    | (a', FDrop) => filter_fold a' ps' tail
    | (a', FPass) => match filter_fold a' ps' tail with
                     | (ws, st, af) => (frame p :: ws, st, af)
                     end
    end
  end.

(** writeAllowed on one buffer. A partial trailing entry is an error (Range overflow) raised
    after the entries before it have been written. *)
Definition write_allowed (allowed : idset) (chunk : bytes) : list bytes * endst * idset :=
  let (ps, e) := scan chunk in
  filter_fold allowed ps (match e with SEof => EndOk | _ => EndErr EShort end).

Fixpoint write_allowed_chunks (allowed : idset) (chunks : list bytes) : list (list bytes * endst) :=
  match chunks with
  | [] => []
  | c :: r => match write_allowed allowed c with
              | (ws, st, a') => (ws, st) :: write_allowed_chunks a' r
              end
  end.

End Filter.
