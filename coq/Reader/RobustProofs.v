(** Arbitrary input bytes: the entries the reader interprets tile a prefix of the input; what is left is the
    incomplete tail it reports.  No hypothesis on the bytes. *)
From Coq Require Import List NArith Lia.
From BL Require Import Base.Bytes Reader.Entry Reader.EventStream.
Import ListNotations.

Inductive tiles : bytes -> list bytes -> bytes -> Prop :=
| tiles_end pending : tiles pending [] pending
| tiles_entry h p rest ps pending :
    length h = 4%nat -> le_dec h = lenN p -> tiles rest ps pending -> tiles (h ++ p ++ rest) (p :: ps) pending.

Lemma next_entry_spec data :
  match next_entry data with
  | NEof => data = []
  | NErrHdr => (0 < length data < 4)%nat
  | NErrPayload n => exists h r, data = h ++ r /\ length h = 4%nat /\ le_dec h = n /\ (lenN r < n)%N
  | NEntry p rest => exists h, data = h ++ p ++ rest /\ length h = 4%nat /\ le_dec h = lenN p
  end.
Proof.
  unfold next_entry. destruct data as [|b data']; [reflexivity|].
  set (data := b :: data'). unfold rd.
  destruct (take_n 4 data) as [[h r]|] eqn:Eh.
  - apply take_n_app in Eh. destruct Eh as [Ed Hh].
    destruct (takeN (le_dec h) r) as [[p rest]|] eqn:Ep.
    + apply takeN_app in Ep. destruct Ep as [-> Hp]. exists h. rewrite Ed. auto.
    + apply takeN_none in Ep. exists h, r. auto.
  - apply take_n_none in Eh. subst data. cbn [length] in *. lia.
Qed.

Theorem scan_tiles data : let (ps, e) := scan data in
  tiles data ps (pending_of e) /\
  match e with
  | SEof => True
  | SErrHdr r => (0 < length r < 4)%nat
  | SErrPayload r n => exists h t, r = h ++ t /\ length h = 4%nat /\ le_dec h = n /\ (lenN t < n)%N
  end.
Proof.
  unfold scan. assert (G : forall fuel d, (length d < fuel)%nat ->
    let (ps, e) := scan_aux fuel d in
    tiles d ps (pending_of e) /\
    match e with
    | SEof => True
    | SErrHdr r => (0 < length r < 4)%nat
    | SErrPayload r n => exists h t, r = h ++ t /\ length h = 4%nat /\ le_dec h = n /\ (lenN t < n)%N
    end).
  { induction fuel as [|f IH]; intros d Hl; [lia|]. cbn [scan_aux].
    pose proof (next_entry_spec d) as Hs. destruct (next_entry d) as [|p rest| |n].
    - subst d. split; [constructor|exact I].
    - destruct Hs as (h & -> & Hh & Hp).
      specialize (IH rest). rewrite !app_length in Hl.
      destruct (scan_aux f rest) as [ps e]. destruct (IH ltac:(lia)) as [Ht He].
      split; [constructor; assumption|exact He].
    - split; [constructor|exact Hs].
    - split; [constructor|exact Hs]. }
  apply G. lia.
Qed.

(** the tiling determines the split: total length is conserved, so nothing outside the input is ever interpreted *)
Lemma tiles_length data ps pending : tiles data ps pending ->
  length data = (fold_right (fun p acc => 4 + length p + acc) (length pending) ps)%nat.
Proof. induction 1 as [|h p rest ps pending Hh Hd Ht IH]; cbn [fold_right]; [reflexivity|]. rewrite !app_length, IH. lia. Qed.
