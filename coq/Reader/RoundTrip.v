(** What the writer side serializes is what the reader side recovers: metadata entries and events. *)
From Coq Require Import List NArith Bool Lia.
From BL Require Import Base.Bytes Reader.Entry Reader.SegMap Reader.EventStream.
Import ListNotations.
Local Open Scope N_scope.

Lemma rdN_enc n x t : x < 256 ^ N.of_nat n -> rdN n (le_enc n x ++ t) = Ok (x, t).
Proof. intros H. unfold rdN. now rewrite rd_enc. Qed.

Lemma rd_string_wr s t : lenN s < 4294967296 -> rd_string (wr_string s ++ t) = Ok (s, t).
Proof.
  intros H. unfold rd_string, wr_string. rewrite <- app_assoc. rewrite rdN_enc by exact H. cbn [bind]. now rewrite takeN_exact.
Qed.

Definition short (s : bytes) : Prop := lenN s < 4294967296.
Definition wf_source (s : source) : Prop :=
  s_id s < two64 /\ s_sev s < 65536 /\ s_line s < two64 /\ short (s_category s) /\ short (s_function s) /\ short (s_file s) /\ short (s_format s) /\ short (s_argtags s).
Definition wf_wp (w : writerprop) : Prop := wp_id w < two64 /\ wp_batch w < two64 /\ short (wp_name w).
Definition wf_cs (c : clocksync) : Prop := cs_clock c < two64 /\ cs_freq c < two64 /\ cs_ns c < two64 /\ cs_tz c < 4294967296 /\ short (cs_tzname c).

Theorem dec_enc_source s extra : wf_source s -> dec_source (enc_source s ++ extra) = Ok s.
Proof.
  intros (H1 & H2 & H3 & H4 & H5 & H6 & H7 & H8). unfold dec_source, enc_source. rewrite <- !app_assoc.
  rewrite rdN_enc by exact H1. cbn [bind]. rewrite rdN_enc by exact H2. cbn [bind].
  rewrite rd_string_wr by exact H4. cbn [bind]. rewrite rd_string_wr by exact H5. cbn [bind]. rewrite rd_string_wr by exact H6. cbn [bind].
  rewrite rdN_enc by exact H3. cbn [bind]. rewrite rd_string_wr by exact H7. cbn [bind]. rewrite rd_string_wr by exact H8. cbn [bind].
  destruct s; reflexivity.
Qed.

Theorem dec_enc_wp w extra : wf_wp w -> dec_wp (enc_wp w ++ extra) = Ok w.
Proof.
  intros (H1 & H2 & H3). unfold dec_wp, enc_wp. rewrite <- !app_assoc.
  rewrite rdN_enc by exact H1. cbn [bind]. rewrite rd_string_wr by exact H3. cbn [bind]. rewrite rdN_enc by exact H2. cbn [bind].
  destruct w; reflexivity.
Qed.

Theorem dec_enc_cs c extra : wf_cs c -> dec_cs (enc_cs c ++ extra) = Ok c.
Proof.
  intros (H1 & H2 & H3 & H4 & H5). unfold dec_cs, enc_cs. rewrite <- !app_assoc.
  rewrite rdN_enc by exact H1. cbn [bind]. rewrite rdN_enc by exact H2. cbn [bind]. rewrite rdN_enc by exact H3. cbn [bind].
  rewrite rdN_enc by exact H4. cbn [bind]. rewrite rd_string_wr by exact H5. cbn [bind].
  destruct c; reflexivity.
Qed.

(** an event entry is read back as: the source registered under its id, the current writer properties and clock sync,
    its clock value, and its argument bytes verbatim *)
Theorem event_read_back rs id clock args s :
  id < 9223372036854775808 -> clock < two64 -> sm_find (rs_sources rs) id = Some s ->
  es_step rs (le_enc 8 id ++ le_enc 8 clock ++ args) = (rs, OEvent (mkView s (rs_wp rs) (rs_cs rs) clock args)).
Proof.
  intros Hid Hc Hf. unfold es_step. rewrite rdN_enc by (cbn; lia).
  unfold is_special. destruct (N.leb_spec 9223372036854775808 id); [lia|].
  rewrite Hf, rdN_enc by exact Hc. reflexivity.
Qed.
