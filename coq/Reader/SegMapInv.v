(** SegmentedMap refines a finite map: find after emplace. For every key order, no bound. *)
From Coq Require Import List NArith Bool Lia.
From BL Require Import Base.Bytes Reader.SegMap.
Import ListNotations.
Local Open Scope N_scope.

Section Proofs.
Context {V : Type}.
Implicit Types (m rest : segmap V) (seg : list V).

Definition head_off m : option N := match m with [] => None | (o, _) :: _ => Some o end.

Lemma emplace_head m k (v : V) : head_off (sm_emplace m k v) = head_off m.
Proof.
  destruct m as [|[off seg] rest]; [reflexivity|].
  cbn [sm_emplace]. destruct rest as [|[off' seg'] rest'].
  - unfold emplace_here. destruct (_ =? _); [reflexivity|]. destruct (_ <? _); reflexivity.
  - destruct (off' <=? k); [reflexivity|].
    unfold emplace_here. destruct (_ =? _); [reflexivity|]. destruct (_ <? _); reflexivity.
Qed.

Lemma nth_error_set_nth_eq seg i (v : V) : (i < length seg)%nat -> nth_error (set_nth seg i v) i = Some v.
Proof.
  revert i; induction seg as [|x r IH]; intros i H; simpl in H; [lia|].
  destruct i; simpl; [reflexivity|]. apply IH. lia.
Qed.

Lemma nth_error_set_nth_ne seg i j (v : V) : i <> j -> nth_error (set_nth seg i v) j = nth_error seg j.
Proof.
  revert i j; induction seg as [|x r IH]; intros i j H; [destruct i; reflexivity|].
  destruct i, j; simpl; try reflexivity; [congruence|]. apply IH. congruence.
Qed.

Lemma set_nth_length seg i (v : V) : length (set_nth seg i v) = length seg.
Proof. revert i; induction seg as [|x r IH]; intros i; [destruct i; reflexivity|]. destruct i; simpl; [reflexivity|]. now rewrite IH. Qed.

Lemma find_here_app_same off seg k (v : V) :
  off <= k -> lenV seg = k - off -> find_here off (seg ++ [v]) k = Some v.
Proof.
  intros Hk Hl. unfold find_here, lenV in *. rewrite app_length. simpl.
  destruct (N.ltb_spec (k - off) (N.of_nat (length seg + 1))); [|lia].
  rewrite <- Hl, Nat2N.id. rewrite nth_error_app2 by lia. now rewrite PeanoNat.Nat.sub_diag.
Qed.

Lemma find_here_app_other off seg k k' (v : V) :
  off <= k -> off <= k' -> k <> k' -> lenV seg = k' - off ->
  find_here off (seg ++ [v]) k = find_here off seg k.
Proof.
  intros Hk Hk' Hne Hl. unfold find_here, lenV in *. rewrite app_length. simpl.
  destruct (N.ltb_spec (k - off) (N.of_nat (length seg + 1))) as [H1|H1];
  destruct (N.ltb_spec (k - off) (N.of_nat (length seg))) as [H2|H2]; try lia; try reflexivity.
  apply nth_error_app1. lia.
Qed.

Lemma find_here_set_same off seg k (v : V) :
  off <= k -> k - off < lenV seg -> find_here off (set_nth seg (N.to_nat (k - off)) v) k = Some v.
Proof.
  intros Hk Hl. unfold find_here, lenV in *. rewrite set_nth_length.
  destruct (N.ltb_spec (k - off) (N.of_nat (length seg))); [|lia].
  apply nth_error_set_nth_eq. lia.
Qed.

Lemma find_here_set_other off seg k k' (v : V) :
  off <= k -> off <= k' -> k <> k' ->
  find_here off (set_nth seg (N.to_nat (k' - off)) v) k = find_here off seg k.
Proof.
  intros Hk Hk' Hne. unfold find_here, lenV in *. rewrite set_nth_length.
  destruct (N.ltb_spec (k - off) (N.of_nat (length seg))); [|reflexivity].
  apply nth_error_set_nth_ne. lia.
Qed.

(** The main lemma, generalised over the offset of the head (which both walks have passed). *)
Lemma find_emplace_gen m k k' (v : V) :
  (forall o, head_off m = Some o -> o <= k /\ o <= k') ->
  m <> [] ->
  sm_find (sm_emplace m k' v) k = if k =? k' then Some v else sm_find m k.
Proof.
  revert k k' v. induction m as [|[off seg] rest IH]; intros k k' v Hh Hne; [congruence|].
  destruct (Hh off eq_refl) as [Hk Hk']. clear Hh Hne.
  cbn [sm_emplace].
  assert (Here : forall nxt_gt_k' : (match rest with (o', _) :: _ => k' < o' | [] => True end),
     sm_find (emplace_here off seg rest k' v) k =
     if k =? k' then Some v else sm_find ((off, seg) :: rest) k).
  { intros Hn. unfold emplace_here.
    destruct (N.eqb_spec (lenV seg) (k' - off)) as [El|El].
    - (* append *)
      cbn [sm_find]. destruct rest as [|[o' s'] rest'].
      + destruct (N.eqb_spec k k') as [->|Hkk].
        * now apply find_here_app_same.
        * now apply find_here_app_other with (k' := k').
      + destruct (N.leb_spec o' k) as [Ho|Ho].
        * destruct (N.eqb_spec k k') as [->|Hkk]; [lia|reflexivity].
        * destruct (N.eqb_spec k k') as [->|Hkk].
          -- now apply find_here_app_same.
          -- now apply find_here_app_other with (k' := k').
    - destruct (N.ltb_spec (k' - off) (lenV seg)) as [Lt|Ge].
      + (* overwrite *)
        cbn [sm_find]. destruct rest as [|[o' s'] rest'].
        * destruct (N.eqb_spec k k') as [->|Hkk].
          -- now apply find_here_set_same.
          -- now apply find_here_set_other.
        * destruct (N.leb_spec o' k) as [Ho|Ho].
          -- destruct (N.eqb_spec k k') as [->|Hkk]; [lia|reflexivity].
          -- destruct (N.eqb_spec k k') as [->|Hkk].
             ++ now apply find_here_set_same.
             ++ now apply find_here_set_other.
      + (* new segment *)
        assert (Hgt : lenV seg < k' - off) by lia.
        cbn [sm_find].
        destruct (N.leb_spec k' k) as [Hle|Hlt].
        * (* lookup walks to the new segment or beyond *)
          destruct rest as [|[o' s'] rest'].
          -- unfold find_here. change (lenV [v]) with 1. destruct (N.eqb_spec k k') as [->|Hkk].
             ++ rewrite N.sub_diag. reflexivity.
             ++ destruct (N.ltb_spec (k - k') 1); [lia|].
                destruct (N.ltb_spec (k - off) (lenV seg)); [lia|reflexivity].
          -- destruct (N.leb_spec o' k) as [Ho|Ho].
             ++ destruct (N.eqb_spec k k') as [->|Hkk]; [lia|reflexivity].
             ++ unfold find_here. change (lenV [v]) with 1. destruct (N.eqb_spec k k') as [->|Hkk].
                ** rewrite N.sub_diag. reflexivity.
                ** destruct (N.ltb_spec (k - k') 1); [lia|].
                   destruct (N.ltb_spec (k - off) (lenV seg)); [lia|reflexivity].
        * (* lookup stays in the old segment *)
          destruct (N.eqb_spec k k') as [->|Hkk]; [lia|].
          destruct rest as [|[o' s'] rest']; [reflexivity|].
          destruct (N.leb_spec o' k) as [Ho|Ho]; [lia|reflexivity]. }
  destruct rest as [|[o' s'] rest'].
  - apply Here. exact I.
  - destruct (N.leb_spec o' k') as [Ho'|Ho'].
    + (* emplace walks on *)
      cbn [sm_find].
      pose proof (emplace_head ((o', s') :: rest') k' v) as Hhd. cbn [head_off] in Hhd.
      destruct (sm_emplace ((o', s') :: rest') k' v) as [|[o2 s2] r2] eqn:E; [discriminate|].
      cbn [head_off] in Hhd. inversion Hhd; subst o2.
      destruct (N.leb_spec o' k) as [Ho|Ho].
      * rewrite <- E. apply IH; [|discriminate].
        intros o Ho2. cbn [head_off] in Ho2. inversion Ho2; subst. split; assumption.
      * destruct (N.eqb_spec k k') as [->|Hkk]; [lia|reflexivity].
    + apply Here. exact Ho'.
Qed.

Definition sm_wf m : Prop := head_off m = Some 0.

Lemma sm_empty_wf : sm_wf (@sm_empty V).
Proof. reflexivity. Qed.

Lemma sm_emplace_wf m k (v : V) : sm_wf m -> sm_wf (sm_emplace m k v).
Proof. unfold sm_wf. now rewrite emplace_head. Qed.

Theorem sm_find_emplace m k k' (v : V) :
  sm_wf m -> sm_find (sm_emplace m k' v) k = if k =? k' then Some v else sm_find m k.
Proof.
  intros H. apply find_emplace_gen.
  - intros o Ho. unfold sm_wf in H. rewrite H in Ho. inversion Ho; subst. split; apply N.le_0_l.
  - intros ->. discriminate.
Qed.

Lemma sm_find_empty k : sm_find (@sm_empty V) k = None.
Proof. unfold sm_empty, sm_find, find_here. cbn. destruct (k - 0); reflexivity. Qed.

(** Refinement to "last binding wins" over any list of emplaces *)
Definition sm_of (kvs : list (N * V)) : segmap V :=
  fold_left (fun m kv => sm_emplace m (fst kv) (snd kv)) kvs sm_empty.

Fixpoint last_binding (kvs : list (N * V)) (k : N) (acc : option V) : option V :=
  match kvs with
  | [] => acc
  | (k', v) :: r => last_binding r k (if k =? k' then Some v else acc)
  end.

Lemma sm_fold_wf kvs m : sm_wf m -> sm_wf (fold_left (fun m kv => sm_emplace m (fst kv) (snd kv)) kvs m).
Proof. revert m; induction kvs as [|[k v] r IH]; intros m H; [exact H|]. cbn [fold_left]. apply IH. now apply sm_emplace_wf. Qed.

Theorem segmap_is_map kvs k : sm_find (sm_of kvs) k = last_binding kvs k None.
Proof.
  unfold sm_of.
  assert (G : forall m, sm_wf m ->
     sm_find (fold_left (fun m kv => sm_emplace m (fst kv) (snd kv)) kvs m) k = last_binding kvs k (sm_find m k)).
  { induction kvs as [|[k' v] r IH]; intros m Hm; [reflexivity|].
    cbn [fold_left last_binding fst snd]. rewrite IH by now apply sm_emplace_wf.
    now rewrite sm_find_emplace. }
  rewrite G by apply sm_empty_wf. now rewrite sm_find_empty.
Qed.

End Proofs.
