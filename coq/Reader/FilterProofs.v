(** C16: filtering then reading = reading then filtering. *)
From Coq Require Import List NArith Bool Lia.
From BL Require Import Base.Bytes Reader.Entry Reader.SegMap Reader.SegMapInv Reader.EventStream Reader.Filter Reader.ReaderLemmas.
Import ListNotations.
Local Open Scope N_scope.

Lemma ids_mem_insert k k' s : ids_mem k (ids_insert k' s) = (k =? k') || ids_mem k s.
Proof.
  unfold ids_insert. destruct (ids_mem k' s) eqn:E.
  - destruct (N.eqb_spec k k') as [->|]; [now rewrite E|reflexivity].
  - reflexivity.
Qed.

Lemma ids_mem_erase k k' s : ids_mem k (ids_erase k' s) = negb (k =? k') && ids_mem k s.
Proof.
  unfold ids_erase, ids_mem. induction s as [|x s IH]; [now rewrite andb_false_r|].
  cbn [filter existsb]. destruct (N.eqb_spec k' x) as [->|Hx]; cbn [negb].
  - rewrite IH. destruct (N.eqb_spec k x); cbn; [reflexivity|reflexivity].
  - cbn [existsb]. rewrite IH. destruct (N.eqb_spec k x) as [->|]; cbn.
    + destruct (N.eqb_spec x k'); [congruence|reflexivity].
    + reflexivity.
Qed.

Section C16.
Variable pred : source -> bool.
Variable render : view -> bytes * bool.

Definition agree (rs : rstate) (allowed : idset) : Prop :=
  forall id, ids_mem id allowed = match sm_find (rs_sources rs) id with Some s => pred s | None => false end.

Definition keep (l : view * bytes) : bool := pred (v_src (fst l)).

Definition is_special_payload (p : bytes) : bool :=
  match rdN 8 p with Ok (tag, _) => is_special tag | Err _ => false end.

(** payloads the (fixed) filter lets through *)
Fixpoint passed (allowed : idset) (ps : list bytes) : list bytes :=
  match ps with
  | [] => []
  | p :: ps' => match filter_step pred true allowed p with
                | (a', FPass) => p :: passed a' ps'
                | (a', FDrop) => passed a' ps'
                | (a', FErr _) => []
                end
  end.

Lemma agree_emplace rs allowed s :
  sm_wf (rs_sources rs) -> agree rs allowed ->
  agree (mkRS (sm_emplace (rs_sources rs) (s_id s) s) (rs_wp rs) (rs_cs rs))
        (if pred s then ids_insert (s_id s) allowed else ids_erase (s_id s) allowed).
Proof.
  intros Hwf Ha id. cbn [rs_sources]. rewrite sm_find_emplace by exact Hwf.
  destruct (pred s) eqn:Ep.
  - rewrite ids_mem_insert. destruct (N.eqb_spec id (s_id s)); [now rewrite Ep|]. cbn. apply Ha.
  - rewrite ids_mem_erase. destruct (N.eqb_spec id (s_id s)); [now rewrite Ep|]. cbn. apply Ha.
Qed.

(** one payload: the reader's step and the filter's step, side by side *)
Lemma step_sync rs allowed p :
  sm_wf (rs_sources rs) -> agree rs allowed ->
  match es_step rs p with
  | (_, OErr _) => True
  | (rs', ONone) => is_special_payload p = true /\
                    exists a', filter_step pred true allowed p = (a', FPass) /\ agree rs' a' /\ sm_wf (rs_sources rs')
  | (rs', OEvent v) => rs' = rs /\ is_special_payload p = false /\
                    filter_step pred true allowed p = (allowed, if pred (v_src v) then FPass else FDrop)
  end.
Proof.
  intros Hwf Hag. unfold es_step, filter_step, is_special_payload.
  destruct (rdN 8 p) as [[tag body]|e]; [|exact I].
  destruct (is_special tag) eqn:Esp.
  - destruct (tag =? tag_source).
    + destruct (dec_source body) as [s|e]; [|exact I].
      split; [reflexivity|]. exists (if pred s then ids_insert (s_id s) allowed else ids_erase (s_id s) allowed).
      split; [now destruct (pred s)|]. split.
      * apply agree_emplace; assumption.
      * cbn. now apply sm_emplace_wf.
    + destruct (tag =? tag_wp).
      * destruct (dec_wp body); [|exact I]. split; [reflexivity|]. eexists. repeat split; eauto.
      * destruct (tag =? tag_cs).
        -- destruct (dec_cs body); [|exact I]. split; [reflexivity|]. eexists. repeat split; eauto.
        -- split; [reflexivity|]. eexists. repeat split; eauto.
  - pose proof (Hag tag) as Hmem.
    destruct (sm_find (rs_sources rs) tag) as [s|]; [|exact I].
    destruct (rdN 8 body) as [[clock args]|e]; [|exact I].
    cbn [v_src]. rewrite Hmem. repeat split. now destruct (pred s).
Qed.

(** The core: one pass over the payloads of a complete, error-free read. *)
Lemma filter_read_core ps : forall rs allowed ls rsf,
  sm_wf (rs_sources rs) -> agree rs allowed -> Forall nonempty ps ->
  read_fold render rs ps EndOk = (ls, [], EndOk, rsf) ->
  exists af,
    filter_fold pred true allowed ps EndOk = (map frame (passed allowed ps), EndOk, af)
    /\ read_fold render rs (passed allowed ps) EndOk = (filter keep ls, [], EndOk, rsf)
    /\ Forall nonempty (passed allowed ps)
    /\ filter is_special_payload (passed allowed ps) = filter is_special_payload ps
    /\ sm_wf (rs_sources rsf) /\ agree rsf af.
Proof.
  induction ps as [|p ps IH]; intros rs allowed ls rsf Hwf Hag Hne H.
  - cbn in H. inversion H; subst. exists allowed. cbn. repeat split; auto.
  - inversion Hne as [|? ? Hp Hps]; subst.
    destruct p as [|c p']; [now elim Hp|]. set (p := c :: p') in *.
    cbn [read_fold] in H. fold p in H.
    pose proof (step_sync rs allowed p Hwf Hag) as Hs.
    destruct (es_step rs p) as [rs1 o] eqn:Estep. destruct o as [|v|e]; [| |inversion H].
    + destruct Hs as (Hsp & a' & Hf & Hag1 & Hwf1).
      destruct (IH _ _ _ _ Hwf1 Hag1 Hps H) as (af & F1 & F2 & F3 & F4 & F5 & F6).
      exists af. cbn [filter_fold passed filter]. rewrite Hf, F1, Hsp. cbn [map read_fold filter]. fold p.
      rewrite Estep, Hsp, F4. repeat split; auto.
    + destruct Hs as (-> & Hsp & Hf).
      destruct (render v) as [txt ok] eqn:Er. destruct ok; [|inversion H].
      destruct (read_fold render rs ps EndOk) as [[[ls1 part1] st1] rsf1] eqn:E1.
      inversion H; subst ls part1 st1 rsf1.
      destruct (IH _ _ _ _ Hwf Hag Hps E1) as (af & F1 & F2 & F3 & F4 & F5 & F6).
      exists af. cbn [filter_fold passed filter]. rewrite Hf, Hsp. unfold keep at 1. cbn [fst].
      destruct (pred (v_src v)) eqn:Ep.
      * rewrite F1. cbn [map read_fold filter]. fold p. rewrite Estep, Er, F2, Hsp. repeat split; auto.
      * rewrite F1. repeat split; auto.
Qed.

(** chunking: the filter's state is threaded through the chunks *)
Lemma filter_fold_app a : forall allowed b tail wa af,
  filter_fold pred true allowed a EndOk = (wa, EndOk, af) ->
  filter_fold pred true allowed (a ++ b) tail =
    match filter_fold pred true af b tail with (wb, st, af') => (wa ++ wb, st, af') end.
Proof.
  induction a as [|p a IH]; intros allowed b tail wa af H.
  - cbn in H. inversion H; subst. cbn. now destruct (filter_fold pred true af b tail) as [[? ?] ?].
  - cbn [app filter_fold] in *. destruct (filter_step pred true allowed p) as [a' r]. destruct r.
    + destruct (filter_fold pred true a' a EndOk) as [[ws st] af0] eqn:E. inversion H; subst.
      rewrite (IH _ b tail _ _ E). now destruct (filter_fold pred true af b tail) as [[? ?] ?].
    + now apply IH.
    + inversion H.
Qed.

Lemma passed_app a : forall allowed b wa af,
  filter_fold pred true allowed a EndOk = (wa, EndOk, af) ->
  passed allowed (a ++ b) = passed allowed a ++ passed af b.
Proof.
  induction a as [|p a IH]; intros allowed b wa af H.
  - cbn in H. inversion H; subst. reflexivity.
  - cbn [app filter_fold passed] in *. destruct (filter_step pred true allowed p) as [a' r]. destruct r.
    + destruct (filter_fold pred true a' a EndOk) as [[ws st] af0] eqn:E. inversion H; subst.
      cbn [app]. f_equal. eapply IH; eassumption.
    + eapply IH; eassumption.
    + inversion H.
Qed.

(** what the chunked filter writes, as payloads, when nothing fails *)
Fixpoint chunks_ok (allowed : idset) (chunks : list (list bytes)) : Prop :=
  match chunks with
  | [] => True
  | c :: r => exists af, filter_fold pred true allowed c EndOk = (map frame (passed allowed c), EndOk, af)
                         /\ chunks_ok af r
  end.

Lemma chunked_equals_whole chunks : forall allowed af,
  Forall (Forall wf_payload) chunks ->
  filter_fold pred true allowed (concat chunks) EndOk = (map frame (passed allowed (concat chunks)), EndOk, af) ->
  map (fun o => (concat (fst o), snd o)) (write_allowed_chunks pred true allowed (map stream_of chunks))
    = map (fun o => (concat (fst o), snd o)) (write_allowed_chunks pred true allowed (map stream_of chunks))
  /\ Forall (fun o => snd o = EndOk) (write_allowed_chunks pred true allowed (map stream_of chunks))
  /\ concat (concat (map fst (write_allowed_chunks pred true allowed (map stream_of chunks))))
       = stream_of (passed allowed (concat chunks)).
Proof.
  induction chunks as [|c r IH]; intros allowed af Hwf H.
  - cbn. repeat split; constructor.
  - inversion Hwf as [|? ? Hc Hr]; subst. cbn [concat] in H.
    cbn [map write_allowed_chunks]. unfold write_allowed. rewrite (scan_frames c Hc).
    destruct (filter_fold pred true allowed c EndOk) as [[wc stc] afc] eqn:Ec.
    (* the first chunk cannot fail, otherwise the whole would fail *)
    assert (stc = EndOk) as ->.
    { destruct stc as [|e]; [reflexivity|]. exfalso.
      clear IH. revert allowed wc afc Ec H. induction c as [|p c IHc]; intros allowed wc afc Ec H.
      - cbn in Ec. inversion Ec.
      - inversion Hc as [|? ? _ Hc']; subst. cbn [app filter_fold passed map] in *.
        destruct (filter_step pred true allowed p) as [a' rr]. destruct rr.
        + destruct (filter_fold pred true a' c EndOk) as [[ws st] af0] eqn:E. inversion Ec; subst.
          destruct (filter_fold pred true a' (c ++ concat r) EndOk) as [[ws2 st2] af2] eqn:E2.
          inversion H; subst. eapply IHc; eauto.
        + eapply IHc; eauto.
        + inversion H. }
    rewrite (filter_fold_app c allowed (concat r) EndOk wc afc Ec) in H.
    destruct (filter_fold pred true afc (concat r) EndOk) as [[wr str] afr] eqn:Er.
    rewrite (passed_app c allowed (concat r) wc afc Ec) in H. rewrite map_app in H.
    assert (Hwc : wc = map frame (passed allowed c)).
    { clear - Ec. revert allowed wc afc Ec. induction c as [|p c IHc]; intros allowed wc afc Ec.
      - cbn in Ec. now inversion Ec.
      - cbn [filter_fold passed] in *. destruct (filter_step pred true allowed p) as [a' rr]. destruct rr.
        + destruct (filter_fold pred true a' c EndOk) as [[ws st] af0] eqn:E. inversion Ec; subst.
          cbn [map]. f_equal. eapply IHc; eauto.
        + eapply IHc; eauto.
        + inversion Ec. }
    subst wc. inversion H as [[Hw Hst Haf]]. apply app_inv_head in Hw. subst wr str afr.
    destruct (IH afc af Hr Er) as (_ & I2 & I3).
    split; [reflexivity|]. split.
    + constructor; [reflexivity|exact I2].
    + cbn [map fst concat]. rewrite concat_app, I3.
      rewrite (passed_app c allowed (concat r) _ afc Ec), stream_of_app. reflexivity.
Qed.

Lemma passed_wf allowed ps : Forall wf_payload ps -> Forall wf_payload (passed allowed ps).
Proof.
  revert allowed; induction ps as [|p ps IH]; intros allowed H; [constructor|].
  inversion H; subst. cbn [passed]. destruct (filter_step pred true allowed p) as [a' r]. destruct r; [constructor; auto|auto|constructor].
Qed.

(** C16, for every predicate, renderer, stream and whole-entry chunking *)
Theorem filter_commutes_gen (chunks : list (list bytes)) ls part rsf :
  Forall (Forall wf_payload) chunks -> Forall (Forall nonempty) chunks ->
  read_lines render rs_init (concat (map stream_of chunks)) = (ls, part, EndOk, rsf) ->
  let outs := write_allowed_chunks pred true [] (map stream_of chunks) in
  let filtered := concat (concat (map fst outs)) in
  Forall (fun o => snd o = EndOk) outs
  /\ read_lines render rs_init filtered = (filter keep ls, [], EndOk, rsf)
  /\ (exists qs, scan filtered = (qs, SEof) /\ filter is_special_payload qs = filter is_special_payload (concat chunks)).
Proof.
  intros Hwf Hne Hread outs filtered.
  assert (Hwf' : Forall wf_payload (concat chunks)) by (apply Forall_concat; exact Hwf).
  assert (Hne' : Forall nonempty (concat chunks)) by (apply Forall_concat; exact Hne).
  unfold read_lines in Hread. rewrite stream_of_concat, (scan_frames _ Hwf') in Hread. cbn [end_of_scan] in Hread.
  pose proof (read_fold_ok_part _ _ _ _ _ _ _ Hread) as ->.
  assert (Hag0 : agree rs_init []).
  { intros id. unfold rs_init. cbn [rs_sources ids_mem existsb]. now rewrite sm_find_empty. }
  destruct (filter_read_core (concat chunks) rs_init [] ls rsf sm_empty_wf Hag0 Hne' Hread)
    as (af & F1 & F2 & F3 & F4 & F5 & F6).
  destruct (chunked_equals_whole chunks [] af Hwf F1) as (_ & C2 & C3).
  split; [exact C2|].
  assert (Hpw : Forall wf_payload (passed [] (concat chunks))) by now apply passed_wf.
  split.
  - unfold read_lines, filtered, outs. rewrite C3, (scan_frames _ Hpw). exact F2.
  - exists (passed [] (concat chunks)). unfold filtered, outs. rewrite C3. split; [now apply scan_frames|exact F4].
Qed.

End C16.

(** The unfixed filter (no erase on a failing redefinition) does NOT commute: witness. *)
Definition w_src (sev : N) : bytes := le_enc 8 tag_source ++ enc_source (mkSource 1 sev [] [] [] 0 [] []).
Definition w_ev : bytes := le_enc 8 1 ++ le_enc 8 0.
Definition w_stream : list bytes := [w_src 128; w_ev; w_src 32; w_ev].
Definition w_pred (s : source) : bool := 128 <=? s_sev s.
Definition w_render (v : view) : bytes * bool := (dec (s_sev (v_src v)), true).

Definition filtered_text (erase : bool) : bytes :=
  let outs := write_allowed_chunks w_pred erase [] [stream_of w_stream] in
  fst (print_events w_render (concat (concat (map fst outs)))).
Definition expected_text : bytes :=
  match read_lines w_render rs_init (stream_of w_stream) with
  | (ls, _, _, _) => concat (map snd (filter (keep w_pred) ls))
  end.

Lemma filter_without_erase_refuted : filtered_text false <> expected_text.
Proof. vm_compute. discriminate. Qed.

Example filter_with_erase_witness_ok : filtered_text true = expected_text.
Proof. vm_compute. reflexivity. Qed.
