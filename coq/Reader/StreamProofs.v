(** C14 (latest definition wins; invalid entries are isolated) and C15 (unknown specials and
    trailing bytes are invisible) for the EventStream model. *)
From Coq Require Import List NArith Bool Lia.
From BL Require Import Base.Bytes Reader.Entry Reader.SegMap Reader.SegMapInv Reader.EventStream Reader.ReaderLemmas.
Import ListNotations.
Local Open Scope N_scope.

(** * C14a: an invalid entry leaves the reader state unchanged *)
Theorem invalid_entry_isolated rs p rs' e : es_step rs p = (rs', OErr e) -> rs' = rs.
Proof.
  unfold es_step. destruct (rdN 8 p) as [[tag body]|e0]; [|now inversion 1].
  destruct (is_special tag).
  - destruct (tag =? tag_source); [destruct (dec_source body); now inversion 1|].
    destruct (tag =? tag_wp); [destruct (dec_wp body); now inversion 1|].
    destruct (tag =? tag_cs); [destruct (dec_cs body); now inversion 1|]. now inversion 1.
  - destruct (sm_find (rs_sources rs) tag); [|now inversion 1].
    destruct (rdN 8 body) as [[c a]|]; now inversion 1.
Qed.

(** dropping the entries that are invalid (at the point where they occur) changes nothing else *)
Fixpoint drop_invalid (rs : rstate) (ps : list bytes) : list bytes :=
  match ps with
  | [] => []
  | [] :: _ => []
  | p :: ps' => match es_step rs p with
                | (_, OErr _) => drop_invalid rs ps'
                | (rs', _) => p :: drop_invalid rs' ps'
                end
  end.

Definition is_event (o : outcome) : bool := match o with OEvent _ => true | _ => false end.

Theorem invalid_entries_absent ps : forall rs os rsf,
  events_fold rs ps = (os, rsf) ->
  events_fold rs (drop_invalid rs ps) = (filter is_event os, rsf).
Proof.
  induction ps as [|p ps IH]; intros rs os rsf H; [now inversion H|].
  destruct p as [|c p']; [now inversion H|]. set (p := c :: p') in *.
  cbn [events_fold] in H. fold p in H. cbn [drop_invalid]. fold p.
  destruct (es_step rs p) as [rs' o] eqn:E.
  destruct (events_fold rs' ps) as [os1 rsf1] eqn:E2. inversion H; subst os rsf.
  specialize (IH rs' os1 rsf1 E2).
  destruct o as [|v|e].
  - unfold p at 1. cbn [events_fold]. fold p. rewrite E, IH. reflexivity.
  - unfold p at 1. cbn [events_fold]. fold p. rewrite E, IH. reflexivity.
  - apply invalid_entry_isolated in E as Hrs. subst rs'. cbn [filter is_event]. exact IH.
Qed.

(** * C14b: latest definition wins — refinement to a reader whose source table is a plain function *)
Record astate := mkAS { as_src : N -> option source; as_wp : writerprop; as_cs : clocksync }.
Definition as_init := mkAS (fun _ => None) default_wp default_cs.
Definition override (f : N -> option source) (k : N) (s : source) : N -> option source :=
  fun k' => if k' =? k then Some s else f k'.

Definition spec_step (a : astate) (payload : bytes) : astate * outcome :=
  match rdN 8 payload with
  | Err e => (a, OErr e)
  | Ok (tag, body) =>
    if is_special tag then
      if tag =? tag_source then
        match dec_source body with
        | Ok s => (mkAS (override (as_src a) (s_id s) s) (as_wp a) (as_cs a), ONone)
        | Err e => (a, OErr e)
        end
      else if tag =? tag_wp then
        match dec_wp body with Ok w => (mkAS (as_src a) w (as_cs a), ONone) | Err e => (a, OErr e) end
      else if tag =? tag_cs then
        match dec_cs body with Ok c => (mkAS (as_src a) (as_wp a) c, ONone) | Err e => (a, OErr e) end
      else (a, ONone)
    else
      match as_src a tag with
      | None => (a, OErr (EUnknownSource tag))
      | Some s => match rdN 8 body with
                  | Err e => (a, OErr e)
                  | Ok (clock, args) => (a, OEvent (mkView s (as_wp a) (as_cs a) clock args))
                  end
      end
  end.

Definition abs_ok (rs : rstate) (a : astate) : Prop :=
  sm_wf (rs_sources rs) /\ (forall k, sm_find (rs_sources rs) k = as_src a k) /\ rs_wp rs = as_wp a /\ rs_cs rs = as_cs a.

Theorem es_step_refines rs a p : abs_ok rs a ->
  let (rs', o) := es_step rs p in let (a', o') := spec_step a p in o = o' /\ abs_ok rs' a'.
Proof.
  intros (Hwf & Hsrc & Hwp & Hcs). unfold es_step, spec_step.
  destruct (rdN 8 p) as [[tag body]|e]; [|split; [reflexivity|repeat split; auto]].
  destruct (is_special tag).
  - destruct (tag =? tag_source).
    + destruct (dec_source body) as [s|e]; (split; [reflexivity|]); [|repeat split; auto].
      repeat split; cbn; auto. * now apply sm_emplace_wf.
      * intros k. rewrite sm_find_emplace by exact Hwf. unfold override. now rewrite Hsrc.
    + destruct (tag =? tag_wp); [destruct (dec_wp body); split; try reflexivity; repeat split; auto|].
      destruct (tag =? tag_cs); [destruct (dec_cs body); split; try reflexivity; repeat split; auto|].
      split; [reflexivity|repeat split; auto].
  - rewrite Hsrc. destruct (as_src a tag) as [s|]; [|split; [reflexivity|repeat split; auto]].
    destruct (rdN 8 body) as [[c ar]|e]; (split; [now rewrite ?Hwp, ?Hcs|repeat split; auto]).
Qed.

Fixpoint spec_fold (a : astate) (ps : list bytes) : list outcome :=
  match ps with
  | [] => []
  | [] :: _ => []
  | p :: ps' => let (a', o) := spec_step a p in
                match o with ONone => spec_fold a' ps' | _ => o :: spec_fold a' ps' end
  end.

Theorem latest_definition_wins ps : forall rs a, abs_ok rs a -> fst (events_fold rs ps) = spec_fold a ps.
Proof.
  induction ps as [|p ps IH]; intros rs a Hab; [reflexivity|].
  destruct p as [|c p']; [reflexivity|]. set (p := c :: p').
  cbn [events_fold spec_fold]. fold p.
  pose proof (es_step_refines rs a p Hab) as Hr.
  destruct (es_step rs p) as [rs' o]. destruct (spec_step a p) as [a' o']. destruct Hr as [-> Hab'].
  specialize (IH rs' a' Hab'). destruct (events_fold rs' ps) as [os rsf]. cbn [fst] in *. rewrite IH.
  now destruct o'.
Qed.

Lemma abs_ok_init : abs_ok rs_init as_init.
Proof. split; [apply sm_empty_wf|]. split; [intros k; apply sm_find_empty|]. split; reflexivity. Qed.

(** * C15: decoration is invisible *)
Lemma rdN_app n l x r e : rdN n l = Ok (x, r) -> rdN n (l ++ e) = Ok (x, r ++ e).
Proof.
  unfold rdN, rd. destruct (take_n n l) as [[h t]|] eqn:E; [|discriminate]. intros H; inversion H; subst.
  apply take_n_app in E. destruct E as [-> <-]. rewrite <- app_assoc. now rewrite take_n_exact.
Qed.

Lemma rd_string_app l x r e : rd_string l = Ok (x, r) -> rd_string (l ++ e) = Ok (x, r ++ e).
Proof.
  unfold rd_string. destruct (rdN 4 l) as [[n r0]|] eqn:E; cbn [bind]; [|discriminate].
  rewrite (rdN_app _ _ _ _ e E). cbn [bind].
  destruct (takeN n r0) as [[h t]|] eqn:Et; [|discriminate]. intros H; inversion H; subst.
  apply takeN_app in Et. destruct Et as [-> <-]. rewrite <- app_assoc. now rewrite takeN_exact.
Qed.

Ltac step_rd e :=
  match goal with
  | H : context [bind (rdN ?n ?l) _] |- _ =>
      let x := fresh "x" in let r := fresh "r" in let E := fresh "E" in
      destruct (rdN n l) as [[x r]|] eqn:E; cbn [bind] in H; [|discriminate];
      rewrite (rdN_app _ _ _ _ e E); cbn [bind]
  | H : context [bind (rd_string ?l) _] |- _ =>
      let x := fresh "x" in let r := fresh "r" in let E := fresh "E" in
      destruct (rd_string l) as [[x r]|] eqn:E; cbn [bind] in H; [|discriminate];
      rewrite (rd_string_app _ _ _ e E); cbn [bind]
  end.

Lemma dec_source_app l s e : dec_source l = Ok s -> dec_source (l ++ e) = Ok s.
Proof. unfold dec_source. intros H. repeat step_rd e. exact H. Qed.
Lemma dec_wp_app l s e : dec_wp l = Ok s -> dec_wp (l ++ e) = Ok s.
Proof. unfold dec_wp. intros H. repeat step_rd e. exact H. Qed.
Lemma dec_cs_app l s e : dec_cs l = Ok s -> dec_cs (l ++ e) = Ok s.
Proof. unfold dec_cs. intros H. repeat step_rd e. exact H. Qed.

Definition unknown_special (p : bytes) : Prop :=
  exists tag body, rdN 8 p = Ok (tag, body) /\ is_special tag = true /\
                   tag <> tag_source /\ tag <> tag_wp /\ tag <> tag_cs.

Lemma unknown_special_step rs p : unknown_special p -> es_step rs p = (rs, ONone).
Proof.
  intros (tag & body & E & Hs & H1 & H2 & H3). unfold es_step. rewrite E, Hs.
  destruct (N.eqb_spec tag tag_source); [contradiction|].
  destruct (N.eqb_spec tag tag_wp); [contradiction|].
  destruct (N.eqb_spec tag tag_cs); [contradiction|]. reflexivity.
Qed.

Lemma unknown_special_nonempty p : unknown_special p -> p <> [].
Proof. intros (tag & body & E & _) ->. cbn in E. discriminate. Qed.

Section C15.
Variable render : view -> bytes * bool.
(** the renderer reads a prefix of the argument bytes determined by the tags: extra bytes behind
    the arguments are not looked at (proved for the real renderer in Render/) *)
Variable render_ignores_suffix :
  forall s w c k args extra txt, render (mkView s w c k args) = (txt, true) ->
                                 render (mkView s w c k (args ++ extra)) = (txt, true).

(** one entry with extra bytes appended behaves like the original entry, whenever the original is valid
    and renders *)
Lemma es_step_trailing rs p extra :
  match es_step rs p with
  | (_, OErr _) => True
  | (rs', ONone) => es_step rs (p ++ extra) = (rs', ONone)
  | (rs', OEvent v) => es_step rs (p ++ extra) = (rs', OEvent (mkView (v_src v) (v_wp v) (v_cs v) (v_clock v) (v_args v ++ extra)))
  end.
Proof.
  unfold es_step. destruct (rdN 8 p) as [[tag body]|e] eqn:E; [|exact I].
  rewrite (rdN_app _ _ _ _ extra E).
  destruct (is_special tag).
  - destruct (tag =? tag_source).
    + destruct (dec_source body) as [s|] eqn:Ed; [|exact I]. now rewrite (dec_source_app _ _ extra Ed).
    + destruct (tag =? tag_wp).
      * destruct (dec_wp body) as [s|] eqn:Ed; [|exact I]. now rewrite (dec_wp_app _ _ extra Ed).
      * destruct (tag =? tag_cs); [|reflexivity].
        destruct (dec_cs body) as [s|] eqn:Ed; [|exact I]. now rewrite (dec_cs_app _ _ extra Ed).
  - destruct (sm_find (rs_sources rs) tag); [|exact I].
    destruct (rdN 8 body) as [[c a]|] eqn:Ec; [|exact I]. now rewrite (rdN_app _ _ _ _ extra Ec).
Qed.

(** [decorated ps ps']: ps' is ps with unknown special entries inserted anywhere and arbitrary bytes
    appended to any entries *)
Inductive decorated : list bytes -> list bytes -> Prop :=
| dec_nil : decorated [] []
| dec_keep p extra ps ps' : decorated ps ps' -> decorated (p :: ps) ((p ++ extra) :: ps')
| dec_insert u ps ps' : unknown_special u -> decorated ps ps' -> decorated ps (u :: ps').

Theorem decoration_invisible ps ps' : decorated ps ps' -> forall rs ls rsf tail,
  Forall nonempty ps ->
  read_fold render rs ps tail = (ls, [], EndOk, rsf) ->
  exists ls', read_fold render rs ps' tail = (ls', [], EndOk, rsf) /\ map snd ls' = map snd ls
              /\ map (fun l => v_src (fst l)) ls' = map (fun l => v_src (fst l)) ls.
Proof.
  induction 1 as [|p extra ps ps' Hd IH|u ps ps' Hu Hd IH]; intros rs ls rsf tail Hne H.
  - exists ls. auto.
  - inversion Hne as [|? ? Hp Hps]; subst.
    destruct p as [|c p0]; [now elim Hp|]. set (p := c :: p0) in *.
    cbn [read_fold] in H. fold p in H.
    pose proof (es_step_trailing rs p extra) as Ht.
    destruct (es_step rs p) as [rs1 o] eqn:Es. destruct o as [|v|e]; [| |inversion H].
    + destruct (IH _ _ _ _ Hps H) as (ls' & R & T & S).
      exists ls'. split; [|auto]. assert (Hx : p ++ extra = c :: (p0 ++ extra)) by reflexivity.
      rewrite Hx. cbn [read_fold]. rewrite <- Hx, Ht. exact R.
    + destruct (render v) as [txt ok] eqn:Er. destruct ok; [|inversion H].
      destruct (read_fold render rs1 ps tail) as [[[ls1 part1] st1] rsf1] eqn:E1.
      inversion H; subst ls part1 st1 rsf1.
      destruct (IH _ _ _ _ Hps E1) as (ls' & R & T & S).
      destruct v as [s w cs k args]. cbn [v_src v_wp v_cs v_clock v_args] in Ht.
      exists ((mkView s w cs k (args ++ extra), txt) :: ls').
      assert (Hx : p ++ extra = c :: (p0 ++ extra)) by reflexivity.
      rewrite Hx. cbn [read_fold]. rewrite <- Hx, Ht, (render_ignores_suffix _ _ _ _ _ extra _ Er), R.
      cbn [map fst snd v_src]. rewrite T, S. auto.
  - destruct (IH _ _ _ _ Hne H) as (ls' & R & T & S).
    exists ls'. split; [|auto].
    pose proof (unknown_special_nonempty u Hu) as Hun. destruct u as [|c u0]; [now elim Hun|].
    cbn [read_fold]. rewrite (unknown_special_step rs _ Hu). exact R.
Qed.

End C15.
