(** C12: reading any prefix of a well-formed log; resuming after more bytes arrive. *)
From Coq Require Import List NArith Bool Lia PeanoNat.
From BL Require Import Base.Bytes Reader.Entry Reader.SegMap Reader.EventStream Reader.ReaderLemmas.
Import ListNotations.
Local Open Scope N_scope.

(** whole entries inside the first [c] bytes, and the bytes of the incomplete one *)
Fixpoint cut_split (ps : list bytes) (c : nat) : list bytes * bytes :=
  match ps with
  | [] => ([], [])
  | p :: r => if (length (frame p) <=? c)%nat
              then let (w, part) := cut_split r (c - length (frame p)) in (p :: w, part)
              else ([], firstn c (frame p))
  end.

Definition end_of_partial (part : bytes) : scan_end :=
  match part with
  | [] => SEof
  | _ => if (length part <? 4)%nat then SErrHdr part else SErrPayload part (le_dec (firstn 4 part))
  end.

Lemma cut_split_spec ps : forall c,
  let (w, part) := cut_split ps c in
  firstn c (stream_of ps) = stream_of w ++ part /\ (exists b, ps = w ++ b) /\
  (part = [] \/ exists p b, ps = w ++ p :: b /\ part = firstn (length part) (frame p) /\ (0 < length part < length (frame p))%nat).
Proof.
  induction ps as [|p r IH]; intros c; cbn [cut_split].
  - rewrite firstn_nil. repeat split; [exists []; reflexivity|now left].
  - unfold stream_of. cbn [map concat]. fold (stream_of r).
    destruct (Nat.leb_spec (length (frame p)) c) as [Hle|Hgt].
    + specialize (IH (c - length (frame p))%nat). destruct (cut_split r (c - length (frame p))) as [w part].
      destruct IH as (I1 & (b & I2) & I3).
      rewrite firstn_app, firstn_all2 by lia. rewrite I1.
      split; [unfold stream_of; cbn [map concat]; now rewrite app_assoc|].
      split; [exists b; cbn; now rewrite I2|].
      destruct I3 as [->|(q & b' & E1 & E2 & E3)]; [now left|right].
      exists q, b'. cbn. rewrite E1. auto.
    + rewrite firstn_app. replace (c - length (frame p))%nat with 0%nat by lia. rewrite firstn_O, app_nil_r.
      split; [reflexivity|]. split; [exists (p :: r); reflexivity|].
      destruct c as [|c']; [now left|right].
      exists p, r. rewrite firstn_length_le by lia. repeat split; try lia; now rewrite ?firstn_firstn, ?Nat.min_id.
Qed.

Lemma next_entry_partial p k : wf_payload p -> (0 < k < length (frame p))%nat ->
  next_entry (firstn k (frame p)) =
    if (k <? 4)%nat then NErrHdr else NErrPayload (lenN p).
Proof.
  intros Hp Hk. unfold frame in *. rewrite app_length, le_enc_length in Hk.
  unfold next_entry.
  destruct (firstn k (le_enc 4 (lenN p) ++ p)) as [|b0 d0] eqn:Ef.
  { apply (f_equal (@length _)) in Ef. rewrite firstn_length, app_length, le_enc_length in Ef. simpl in Ef. lia. }
  rewrite <- Ef. clear Ef b0 d0.
  destruct (Nat.ltb_spec k 4) as [Hlt|Hge].
  - unfold rd. destruct (take_n 4 (firstn k (le_enc 4 (lenN p) ++ p))) as [[h t]|] eqn:E; [|reflexivity].
    exfalso. apply take_n_app in E. destruct E as [E L]. apply (f_equal (@length _)) in E.
    rewrite firstn_length, !app_length, le_enc_length, L in E. lia.
  - rewrite firstn_app, le_enc_length. rewrite firstn_all2 by (rewrite le_enc_length; lia).
    rewrite rd_enc by (unfold wf_payload, two32 in Hp; simpl; lia).
    destruct (takeN (lenN p) (firstn (k - 4) p)) as [[h t]|] eqn:E; [|reflexivity].
    exfalso. apply takeN_app in E. destruct E as [E L]. apply (f_equal (@length _)) in E.
    rewrite firstn_length, app_length in E. unfold lenN in L. lia.
Qed.

Lemma scan_aux_frames_then ps tail_data : Forall wf_payload ps ->
  forall fuel, (length ps < fuel)%nat ->
  scan_aux fuel (stream_of ps ++ tail_data) =
    let (qs, e) := scan_aux (fuel - length ps) tail_data in (ps ++ qs, e).
Proof.
  induction 1 as [|p ps Hp Hps IH]; intros fuel Hf.
  - cbn. rewrite Nat.sub_0_r. now destruct (scan_aux fuel tail_data).
  - destruct fuel; [simpl in Hf; lia|]. cbn [scan_aux]. unfold stream_of. cbn [map concat].
    rewrite <- app_assoc, next_entry_frame by exact Hp. fold (stream_of ps).
    rewrite IH by (simpl in Hf; lia). cbn [length Nat.sub].
    now destruct (scan_aux (fuel - length ps) tail_data).
Qed.

Lemma firstn4_frame p k : (4 <= k)%nat -> firstn 4 (firstn k (frame p)) = le_enc 4 (lenN p).
Proof.
  intros Hk. rewrite firstn_firstn. replace (Nat.min 4 k) with 4%nat by lia.
  unfold frame. rewrite firstn_app, le_enc_length. replace (4 - 4)%nat with 0%nat by lia. rewrite firstn_O, app_nil_r.
  apply firstn_all2. rewrite le_enc_length. lia.
Qed.

(** scanning the first [c] bytes of a well-formed log *)
Theorem scan_cut ps c : Forall wf_payload ps ->
  let (w, part) := cut_split ps c in
  scan (firstn c (stream_of ps)) = (w, end_of_partial part).
Proof.
  intros Hwf. pose proof (cut_split_spec ps c) as Hs. destruct (cut_split ps c) as [w part].
  destruct Hs as (E1 & (b & E2) & E3). rewrite E1.
  assert (Hw : Forall wf_payload w). { rewrite E2 in Hwf. now apply Forall_app in Hwf. }
  unfold scan. rewrite scan_aux_frames_then; [|exact Hw|].
  2:{ rewrite app_length. pose proof (stream_of_length w). lia. }
  destruct E3 as [->|(p & b' & P1 & P2 & P3)].
  - rewrite app_nil_r. destruct (S (length (stream_of w)) - length w)%nat eqn:Ef; [pose proof (stream_of_length w); lia|].
    cbn. now rewrite app_nil_r.
  - assert (Hp : wf_payload p). { rewrite P1 in Hwf. apply Forall_app in Hwf. destruct Hwf as [_ Hx]. now inversion Hx. }
    destruct (S (length (stream_of w ++ part)) - length w)%nat eqn:Ef.
    { rewrite app_length in Ef. pose proof (stream_of_length w). lia. }
    cbn [scan_aux]. rewrite P2, next_entry_partial by (exact Hp || lia). rewrite <- P2.
    unfold end_of_partial. destruct part as [|x xs] eqn:Ep; [simpl in P3; lia|]. rewrite <- Ep in *.
    destruct (Nat.ltb_spec (length part) 4) as [Hlt|Hge]; [now rewrite app_nil_r|].
    rewrite P2, firstn4_frame by lia.
    rewrite le_dec_enc by (unfold wf_payload, two32 in Hp; simpl; lia). now rewrite app_nil_r.
Qed.

Section C12.
Variable render : view -> bytes * bool.

(** what reading the first [c] bytes yields: exactly the whole entries inside the prefix are processed,
    and the end status is an error iff the cut is inside an entry *)
Theorem prefix_reads_whole_entries ps c rs : Forall wf_payload ps ->
  let (w, part) := cut_split ps c in
  read_lines render rs (firstn c (stream_of ps)) = read_fold render rs w (end_of_scan (end_of_partial part))
  /\ (part = [] <-> end_of_scan (end_of_partial part) = EndOk).
Proof.
  intros Hwf. pose proof (scan_cut ps c Hwf) as Hs. destruct (cut_split ps c) as [w part].
  unfold read_lines. rewrite Hs. split; [reflexivity|].
  unfold end_of_partial. destruct part; [tauto|]. destruct (_ <? _)%nat; cbn; split; discriminate.
Qed.

(** if the whole log reads without error, the lines of a prefix are a prefix of the lines of the log *)
Theorem prefix_prints_prefix ps c ls rsf : Forall wf_payload ps -> Forall nonempty ps ->
  read_fold render rs_init ps EndOk = (ls, [], EndOk, rsf) ->
  let (w, part) := cut_split ps c in
  exists lw lrest rsw, read_fold render rs_init w EndOk = (lw, [], EndOk, rsw) /\ ls = lw ++ lrest /\
    read_lines render rs_init (firstn c (stream_of ps)) = (lw, [], end_of_scan (end_of_partial part), rsw).
Proof.
  intros Hwf Hne Hfull. pose proof (prefix_reads_whole_entries ps c rs_init Hwf) as Hp.
  pose proof (cut_split_spec ps c) as Hs. destruct (cut_split ps c) as [w part].
  destruct Hp as [Hp _]. destruct Hs as (_ & (b & E2) & _). subst ps.
  apply Forall_app in Hne. destruct Hne as [Hnw Hnb].
  (* split the full read at w *)
  assert (G : forall a rs ls rsf tail, Forall nonempty a ->
     read_fold render rs (a ++ b) tail = (ls, [], EndOk, rsf) ->
     exists la lb rsa, read_fold render rs a EndOk = (la, [], EndOk, rsa) /\ ls = la ++ lb /\
       forall tail', read_fold render rs a tail' = (la, [], tail', rsa)).
  { clear. induction a as [|p a IH]; intros rs ls rsf tail Hn H.
    - exists [], ls, rs. cbn. auto.
    - inversion Hn as [|? ? Hp Ha]; subst. destruct p as [|c p0]; [now elim Hp|].
      cbn [app read_fold] in *. destruct (es_step rs (c :: p0)) as [rs1 o]. destruct o as [|v|e]; [| |inversion H].
      + now apply IH with (tail := tail) (rsf := rsf).
      + destruct (render v) as [txt ok]. destruct ok; [|inversion H].
        destruct (read_fold render rs1 (a ++ b) tail) as [[[ls1 p1] s1] r1] eqn:E. inversion H; subst.
        destruct (IH _ _ _ _ Ha E) as (la & lb & rsa & I1 & I2 & I3).
        exists ((v, txt) :: la), lb, rsa. rewrite I1. split; [reflexivity|]. split; [now rewrite I2|].
        intros tail'. now rewrite I3. }
  destruct (G w rs_init ls rsf EndOk Hnw Hfull) as (la & lb & rsa & G1 & G2 & G3).
  exists la, lb, rsa. split; [exact G1|]. split; [exact G2|]. rewrite Hp. apply G3.
Qed.

Lemma read_fold_split b : forall a rs ls rsf tail, Forall nonempty a ->
  read_fold render rs (a ++ b) tail = (ls, [], EndOk, rsf) ->
  exists la lb rsa, read_fold render rs a EndOk = (la, [], EndOk, rsa) /\
                    read_fold render rsa b tail = (lb, [], EndOk, rsf) /\ ls = la ++ lb.
Proof.
  induction a as [|p a IH]; intros rs ls rsf tail Hn H.
  - exists [], ls, rs. cbn. auto.
  - inversion Hn as [|? ? Hp Ha]; subst. destruct p as [|c p0]; [now elim Hp|].
    cbn [app read_fold] in *. destruct (es_step rs (c :: p0)) as [rs1 o]. destruct o as [|v|e]; [| |inversion H].
    + now apply IH.
    + destruct (render v) as [txt ok]. destruct ok; [|inversion H].
      destruct (read_fold render rs1 (a ++ b) tail) as [[[ls1 p1] s1] r1] eqn:E. inversion H; subst.
      destruct (IH _ _ _ _ Ha E) as (la & lb & rsa & I1 & I2 & I3).
      exists ((v, txt) :: la), lb, rsa. rewrite I1. split; [reflexivity|]. split; [exact I2|now rewrite I3].
Qed.

Definition partial_of (pending : bytes) (ps : list bytes) : Prop :=
  pending = [] \/ exists p b, ps = p :: b /\ pending = firstn (length pending) (frame p) /\ (length pending < length (frame p))%nat.

Theorem resume_equals_uninterrupted_gen pieces : forall ps rs pending ls rsf,
  Forall wf_payload ps -> Forall nonempty ps -> partial_of pending ps ->
  pending ++ concat pieces = stream_of ps ->
  read_fold render rs ps EndOk = (ls, [], EndOk, rsf) ->
  resume render rs pending pieces = (ls, rsf, []).
Proof.
  induction pieces as [|d r IH]; intros ps rs pending ls rsf Hwf Hne Hpart Hcat Hread.
  - cbn [concat] in Hcat. rewrite app_nil_r in Hcat. cbn [resume].
    assert (pending = []) as ->.
    { destruct Hpart as [->|(p & b & -> & _ & Hl)]; [reflexivity|].
      exfalso. apply (f_equal (@length _)) in Hcat. unfold stream_of in Hcat. cbn [map concat] in Hcat.
      rewrite app_length in Hcat. lia. }
    destruct ps as [|p ps]; [cbn in Hread; now inversion Hread|].
    exfalso. symmetry in Hcat. unfold stream_of in Hcat. cbn [map concat] in Hcat.
    apply app_eq_nil in Hcat. destruct Hcat as [Hf _]. now apply frame_nonempty in Hf.
  - cbn [resume concat] in *. set (data := pending ++ d) in *.
    assert (Hdata : data = firstn (length data) (stream_of ps)).
    { rewrite <- Hcat, app_assoc. fold data. rewrite firstn_app, Nat.sub_diag, firstn_O, app_nil_r. now rewrite firstn_all. }
    pose proof (scan_cut ps (length data) Hwf) as Hscan.
    pose proof (cut_split_spec ps (length data)) as Hspec.
    destruct (cut_split ps (length data)) as [w part].
    rewrite <- Hdata in Hscan. rewrite Hscan.
    destruct Hspec as (S1 & (b & S2) & S3). rewrite <- Hdata in S1.
    subst ps. apply Forall_app in Hwf. destruct Hwf as [Hww Hwb]. apply Forall_app in Hne. destruct Hne as [Hnw Hnb].
    destruct (read_fold_split b w rs ls rsf EndOk Hnw Hread) as (la & lb & rsa & R1 & R2 & R3).
    rewrite R1.
    assert (Hpend : pending_of (end_of_partial part) = part).
    { unfold pending_of, end_of_partial. destruct part; [reflexivity|]. now destruct (_ <? _)%nat. }
    rewrite Hpend.
    assert (Hcat' : part ++ concat r = stream_of b).
    { rewrite stream_of_app in Hcat. rewrite app_assoc in Hcat. fold data in Hcat. rewrite S1, <- app_assoc in Hcat.
      now apply app_inv_head in Hcat. }
    assert (Hpart' : partial_of part b).
    { destruct S3 as [->|(p & b' & P1 & P2 & P3)]; [now left|right].
      apply app_inv_head in P1. exists p, b'. split; [exact P1|]. split; [exact P2|lia]. }
    rewrite (IH b rsa part lb rsf Hwb Hnb Hpart' Hcat' R2). now rewrite R3.
Qed.

(** reading with retry after each error yields the events of an uninterrupted read, same reader state *)
Theorem resume_equals_uninterrupted pieces ps ls rsf :
  Forall wf_payload ps -> Forall nonempty ps -> concat pieces = stream_of ps ->
  read_fold render rs_init ps EndOk = (ls, [], EndOk, rsf) ->
  resume render rs_init [] pieces = (ls, rsf, []).
Proof. intros. apply resume_equals_uninterrupted_gen with (ps := ps); auto. now left. Qed.

End C12.
