(** EntryStream.cpp (Istream/Range entry streams), EventStream.cpp, bin/printers.cpp,
    TextOutputStream.cpp. Definitions only. *)
From Coq Require Import List NArith Bool.
From BL Require Import Base.Bytes Reader.Entry Reader.SegMap.
Import ListNotations.
Local Open Scope N_scope.

(** * Entry scanning: u32 size | payload, repeatedly.  *)
Inductive scan_end :=
| SEof                                  (* no bytes left: gcount()==0 / Range empty *)
| SErrHdr (rest : bytes)                (* 1..3 bytes left *)
| SErrPayload (rest : bytes) (want : N) (* size read, payload incomplete; rest starts at the size field *).

Inductive nres := NEof | NEntry (p rest : bytes) | NErrHdr | NErrPayload (want : N).

(** one call of nextEntryPayload on the remaining input [data] *)
Definition next_entry (data : bytes) : nres :=
  match data with
  | [] => NEof
  | _ => match rd 4 data with
         | None => NErrHdr
         | Some (n, r) => match takeN n r with
                          | Some (p, rest) => NEntry p rest
                          | None => NErrPayload n
                          end
         end
  end.

Fixpoint scan_aux (fuel : nat) (data : bytes) : list bytes * scan_end :=
  match fuel with
  | O => ([], SEof)   (* unreachable with fuel = S (length data) *)
  | S f =>
    match next_entry data with
    | NEof => ([], SEof)
    | NErrHdr => ([], SErrHdr data)
    | NErrPayload n => ([], SErrPayload data n)
    | NEntry p rest => let (ps, e) := scan_aux f rest in (p :: ps, e)
    end
  end.
Definition scan (data : bytes) : list bytes * scan_end := scan_aux (S (length data)) data.

(** * EventStream *)
Record rstate := mkRS { rs_sources : segmap source; rs_wp : writerprop; rs_cs : clocksync }.
Definition rs_init := mkRS sm_empty default_wp default_cs.

Record view := mkView { v_src : source; v_wp : writerprop; v_cs : clocksync; v_clock : N; v_args : bytes }.

Inductive outcome := ONone | OEvent (v : view) | OErr (e : errk).

(** nextEvent's body for one non-empty payload *)
Definition es_step (rs : rstate) (payload : bytes) : rstate * outcome :=
  match rdN 8 payload with
  | Err e => (rs, OErr e)
  | Ok (tag, body) =>
    if is_special tag then
      if tag =? tag_source then
        match dec_source body with
        | Ok s => (mkRS (sm_emplace (rs_sources rs) (s_id s) s) (rs_wp rs) (rs_cs rs), ONone)
        | Err e => (rs, OErr e)
        end
      else if tag =? tag_wp then
        match dec_wp body with
        | Ok w => (mkRS (rs_sources rs) w (rs_cs rs), ONone)
        | Err e => (rs, OErr e)
        end
      else if tag =? tag_cs then
        match dec_cs body with
        | Ok c => (mkRS (rs_sources rs) (rs_wp rs) c, ONone)
        | Err e => (rs, OErr e)
        end
      else (rs, ONone)
    else
      match sm_find (rs_sources rs) tag with
      | None => (rs, OErr (EUnknownSource tag))
      | Some s =>
        match rdN 8 body with
        | Err e => (rs, OErr e)
        | Ok (clock, args) => (rs, OEvent (mkView s (rs_wp rs) (rs_cs rs) clock args))
        end
      end
  end.

(** * The printing loops (bin/printers.cpp) *)
Inductive endst := EndOk | EndErr (e : errk).

Section Print.
(** rendering of one event: text produced (possibly partial) and whether it completed *)
Variable render : view -> bytes * bool.

(** process scanned payloads until the first empty payload, event-level error or render failure.
    Result: completed lines with their clock, partial text of a failing render, end status,
    final reader state. [tail] is the status to report if all payloads are consumed. *)
Fixpoint read_fold (rs : rstate) (ps : list bytes) (tail : endst) : list (view * bytes) * bytes * endst * rstate :=
  match ps with
  | [] => ([], [], tail, rs)
  | [] :: _ => ([], [], EndOk, rs)          (* zero size entry: empty Range, nextEvent returns nullptr *)
  | p :: ps' =>
    let (rs', o) := es_step rs p in
    match o with
    | ONone => read_fold rs' ps' tail
    | OErr e => ([], [], EndErr e, rs')
    | OEvent v =>
      let (txt, ok) := render v in
      if ok then
        match read_fold rs' ps' tail with
        | (ls, part, st, rsf) => ((v, txt) :: ls, part, st, rsf)
        end
      else ([], txt, EndErr ERender, rs')
    end
  end.

Definition end_of_scan (e : scan_end) : endst :=
  match e with
  | SEof => EndOk
  | SErrHdr r => EndErr (ESizeHdr (lenN r))
  | SErrPayload r n => EndErr (EPayload (lenN r - 4) n)
  end.

Definition read_lines (rs : rstate) (data : bytes) :=
  let (ps, e) := scan data in read_fold rs ps (end_of_scan e).

(** printEvents: lines in file order, then whatever a failing render had flushed *)
Definition print_events (data : bytes) : bytes * endst :=
  match read_lines rs_init data with
  | (ls, part, st, _) => (concat (map snd ls) ++ part, st)
  end.

(** std::stable_sort by clock, modelled as insertion sort that inserts after equal keys *)
Definition line := (view * bytes)%type.
Definition lclock (x : line) : N := v_clock (fst x).
Fixpoint insert_stable (x : line) (l : list line) : list line :=
  match l with
  | [] => [x]
  | y :: r => if lclock x <? lclock y then x :: y :: r else y :: insert_stable x r
  end.
Definition stable_sort (l : list line) : list line :=
  fold_left (fun acc x => insert_stable x acc) l [].

(** printSortedEvents. [flush_on_error] = does the code print the buffered events before an
    exception leaves the function (the D2 fix); the partial text of a failing render stays in
    the local ostringstream and is never printed. *)
Definition print_sorted (flush_on_error : bool) (data : bytes) : bytes * endst :=
  match read_lines rs_init data with
  | (ls, part, st, _) =>
    match st with
    | EndOk => (concat (map snd (stable_sort ls)), st)
    | EndErr _ => (if flush_on_error then concat (map snd (stable_sort ls)) else [], st)
    end
  end.

(** TextOutputStream::write: one RangeEntryStream per chunk, reader state persists *)
Definition tos_write (rs : rstate) (chunk : bytes) : bytes * endst * rstate :=
  match read_lines rs chunk with
  | (ls, part, st, rs') => (concat (map snd ls) ++ part, st, rs')
  end.

Fixpoint tos_writes (rs : rstate) (chunks : list bytes) : list (bytes * endst) :=
  match chunks with
  | [] => []
  | c :: r => match tos_write rs c with (t, st, rs') => (t, st) :: tos_writes rs' r end
  end.

(** resuming: the input arrives in pieces; after each piece everything available is read; an incomplete
    trailing entry stays pending (the stream position is back at its start) *)
Definition pending_of (e : scan_end) : bytes :=
  match e with SEof => [] | SErrHdr rest => rest | SErrPayload rest _ => rest end.

Fixpoint resume (rs : rstate) (pending : bytes) (pieces : list bytes) : list (view * bytes) * rstate * bytes :=
  match pieces with
  | [] => ([], rs, pending)
  | d :: r =>
    let (ps, e) := scan (pending ++ d) in
    match read_fold rs ps EndOk with
    | (ls, _, _, rs') =>
      let pending' := pending_of e in
      match resume rs' pending' r with (ls2, rsf, pend) => (ls ++ ls2, rsf, pend) end
    end
  end.


End Print.

(** * nextEvent loop that continues after event-level errors (library users; C14) *)
Fixpoint events_fold (rs : rstate) (ps : list bytes) : list outcome * rstate :=
  match ps with
  | [] => ([], rs)
  | [] :: _ => ([], rs)
  | p :: ps' =>
    let (rs', o) := es_step rs p in
    let (os, rsf) := events_fold rs' ps' in
    (match o with ONone => os | _ => o :: os end, rsf)
  end.
