(** detail::SegmentedMap<V> (SegmentedMap.hpp): parallel vectors of offsets and segments,
    modelled as a list of (offset, segment). Definitions only; proofs in SegMapInv.v *)
From Coq Require Import List NArith Bool.
From BL Require Import Base.Bytes.
Import ListNotations.
Local Open Scope N_scope.

Section SegMap.
Context {V : Type}.

Definition segmap := list (N * list V).
Definition sm_empty : segmap := [(0, [])].

Definition lenV (l : list V) : N := N.of_nat (length l).

Fixpoint set_nth (l : list V) (i : nat) (v : V) : list V :=
  match l, i with
  | [], _ => []
  | _ :: r, O => v :: r
  | x :: r, S i' => x :: set_nth r i' v
  end.

(** the body of emplace once the segment index is known *)
Definition emplace_here (off : N) (seg : list V) (rest : segmap) (key : N) (v : V) : segmap :=
  let vi := key - off in
  if lenV seg =? vi then (off, seg ++ [v]) :: rest
  else if vi <? lenV seg then (off, set_nth seg (N.to_nat vi) v) :: rest
  else (off, seg) :: (key, [v]) :: rest.

(** segmentIndex walks from index 1 while offsets[si] <= key *)
Fixpoint sm_emplace (m : segmap) (key : N) (v : V) : segmap :=
  match m with
  | [] => []
  | (off, seg) :: rest =>
    match rest with
    | (off', _) :: _ =>
      if off' <=? key then (off, seg) :: sm_emplace rest key v
      else emplace_here off seg rest key v
    | [] => emplace_here off seg rest key v
    end
  end.

Definition find_here (off : N) (seg : list V) (key : N) : option V :=
  let vi := key - off in
  if vi <? lenV seg then nth_error seg (N.to_nat vi) else None.

Fixpoint sm_find (m : segmap) (key : N) : option V :=
  match m with
  | [] => None
  | (off, seg) :: rest =>
    match rest with
    | (off', _) :: _ => if off' <=? key then sm_find rest key else find_here off seg key
    | [] => find_here off seg key
    end
  end.

End SegMap.
Arguments segmap V : clear implicits.
