(** C18: the stable insertion sort used as model of std::stable_sort is a stable sort,
    and sorted printing prints the stable sort of what unsorted printing prints. *)
From Coq Require Import List NArith Bool Lia Permutation Sorted.
From BL Require Import Base.Bytes Reader.Entry Reader.EventStream.
Import ListNotations.
Local Open Scope N_scope.

Definition cle (x y : line) : Prop := lclock x <= lclock y.
Definition has_clock (c : N) (x : line) : bool := lclock x =? c.

Lemma insert_perm x l : Permutation (insert_stable x l) (x :: l).
Proof.
  induction l as [|y r IH]; cbn [insert_stable]; [reflexivity|].
  destruct (lclock x <? lclock y); [reflexivity|].
  rewrite IH. apply perm_swap.
Qed.

Lemma insert_hdrel a x l : cle a x -> HdRel cle a l -> HdRel cle a (insert_stable x l).
Proof.
  intros Hax Hal. destruct l as [|y r]; cbn [insert_stable]; [now constructor|].
  destruct (lclock x <? lclock y); constructor; [exact Hax|]. now inversion Hal.
Qed.

Lemma insert_sorted x l : Sorted cle l -> Sorted cle (insert_stable x l).
Proof.
  induction l as [|y r IH]; intros Hs; cbn [insert_stable]; [repeat constructor|].
  inversion Hs as [|? ? Hr Hy]; subst.
  destruct (N.ltb_spec (lclock x) (lclock y)) as [Hlt|Hge].
  - constructor; [exact Hs|]. constructor. unfold cle. lia.
  - constructor; [now apply IH|]. apply insert_hdrel; [exact Hge|exact Hy].
Qed.

Lemma filter_all_gt c l : Forall (fun z => c < lclock z) l -> filter (has_clock c) l = [].
Proof.
  induction 1 as [|z l Hz _ IH]; [reflexivity|]. cbn [filter]. unfold has_clock at 1.
  destruct (N.eqb_spec (lclock z) c); [lia|exact IH].
Qed.

(** in a sorted list, everything after an element with a larger clock has a larger clock *)
Lemma sorted_tail_gt c y r : Sorted cle (y :: r) -> c < lclock y -> filter (has_clock c) (y :: r) = [].
Proof.
  intros Hs Hc. apply Sorted_StronglySorted in Hs; [|intros a b d Hab Hbd; unfold cle in *; lia].
  inversion Hs as [|? ? Hr Hall]; subst. apply filter_all_gt. constructor; [exact Hc|].
  eapply Forall_impl; [|exact Hall]. intros z Hz. unfold cle in Hz. lia.
Qed.

Lemma insert_filter c x l : Sorted cle l ->
  filter (has_clock c) (insert_stable x l) = filter (has_clock c) l ++ (if has_clock c x then [x] else []).
Proof.
  induction l as [|y r IH]; intros Hs; cbn [insert_stable].
  - cbn. destruct (has_clock c x); reflexivity.
  - destruct (N.ltb_spec (lclock x) (lclock y)) as [Hlt|Hge].
    + cbn [filter]. destruct (has_clock c x) eqn:Ex.
      * unfold has_clock in Ex. apply N.eqb_eq in Ex. subst c.
        change (if has_clock (lclock x) y then y :: filter (has_clock (lclock x)) r else filter (has_clock (lclock x)) r)
          with (filter (has_clock (lclock x)) (y :: r)).
        now rewrite (sorted_tail_gt (lclock x) y r Hs Hlt).
      * now rewrite app_nil_r.
    + inversion Hs; subst. cbn [filter]. rewrite IH by assumption.
      destruct (has_clock c y); reflexivity.
Qed.

Lemma fold_insert_props l : forall acc, Sorted cle acc ->
  let r := fold_left (fun a x => insert_stable x a) l acc in
  Sorted cle r /\ Permutation r (acc ++ l) /\ (forall c, filter (has_clock c) r = filter (has_clock c) acc ++ filter (has_clock c) l).
Proof.
  induction l as [|x l IH]; intros acc Hs; cbn [fold_left].
  - rewrite app_nil_r. repeat split; auto. intros c. now rewrite app_nil_r.
  - destruct (IH (insert_stable x acc) (insert_sorted x acc Hs)) as (S1 & P1 & F1).
    repeat split; [exact S1| |].
    + rewrite P1, insert_perm. change (acc ++ x :: l) with (acc ++ [x] ++ l).
      rewrite app_assoc. apply Permutation_app_tail. rewrite Permutation_app_comm. reflexivity.
    + intros c. rewrite F1, insert_filter by exact Hs. cbn [filter]. rewrite <- app_assoc.
      destruct (has_clock c x); reflexivity.
Qed.

(** stable_sort is: sorted by clock, a permutation, and keeps file order among equal clocks *)
Theorem stable_sort_spec l :
  Sorted cle (stable_sort l) /\ Permutation (stable_sort l) l /\
  (forall c, filter (has_clock c) (stable_sort l) = filter (has_clock c) l).
Proof. unfold stable_sort. destruct (fold_insert_props l [] (Sorted_nil _)) as (S & P & F). repeat split; auto. Qed.

Section C18.
Variable render : view -> bytes * bool.

Theorem sorted_is_stable_sort_of_unsorted data ls part st rsf :
  read_lines render rs_init data = (ls, part, st, rsf) ->
  print_events render data = (concat (map snd ls) ++ part, st) /\
  print_sorted render true data = (concat (map snd (stable_sort ls)), st).
Proof.
  intros H. unfold print_events, print_sorted. rewrite H. split; [reflexivity|]. now destruct st.
Qed.

End C18.

(** the code before the D2 fix loses every event when the log ends in an error *)
Definition w18_src : bytes := le_enc 8 tag_source ++ enc_source (mkSource 1 128 [] [] [] 0 [] []).
Definition w18_log : bytes :=
  frame w18_src ++ entry_event 1 30 [] ++ entry_event 1 10 [] ++ [7; 0; 0].
Definition w18_render (v : view) : bytes * bool := (dec (v_clock v) ++ [10], true).

Lemma sorted_without_flush_refuted :
  fst (print_events w18_render w18_log) <> [] /\ fst (print_sorted w18_render false w18_log) = [].
Proof. vm_compute. split; [discriminate|reflexivity]. Qed.

Example sorted_with_flush_witness :
  print_sorted w18_render true w18_log = ([49; 48; 10; 51; 48; 10], EndErr (ESizeHdr 3)).
Proof. vm_compute. reflexivity. Qed.
