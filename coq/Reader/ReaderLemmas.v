(** Lemmas about scanning framed entries and composing the read/filter folds. *)
From Coq Require Import List NArith Bool Lia.
From BL Require Import Base.Bytes Reader.Entry Reader.SegMap Reader.SegMapInv Reader.EventStream.
Import ListNotations.
Local Open Scope N_scope.

Definition two32 : N := 4294967296.
Definition wf_payload (p : bytes) : Prop := lenN p < two32.
Definition stream_of (ps : list bytes) : bytes := concat (map frame ps).

Lemma frame_nonempty p : frame p <> [].
Proof. unfold frame. pose proof (le_enc_length 4 (lenN p)). destruct (le_enc 4 (lenN p)); simpl in *; [lia|discriminate]. Qed.

Lemma next_entry_frame p rest : wf_payload p -> next_entry (frame p ++ rest) = NEntry p rest.
Proof.
  intros Hp. unfold next_entry.
  destruct (frame p ++ rest) eqn:E.
  - exfalso. apply app_eq_nil in E. destruct E as [E _]. now apply frame_nonempty in E.
  - rewrite <- E. unfold frame. rewrite <- app_assoc.
    rewrite rd_enc by (unfold wf_payload, two32 in Hp; simpl; lia).
    now rewrite takeN_exact.
Qed.

Lemma scan_aux_frames ps : Forall wf_payload ps ->
  forall fuel, (length ps < fuel)%nat -> scan_aux fuel (stream_of ps) = (ps, SEof).
Proof.
  induction 1 as [|p ps Hp Hps IH]; intros fuel Hf.
  - destruct fuel; [lia|]. reflexivity.
  - destruct fuel; [simpl in Hf; lia|]. cbn [scan_aux]. unfold stream_of. cbn [map concat].
    rewrite next_entry_frame by exact Hp. fold (stream_of ps).
    rewrite IH by (simpl in Hf; lia). reflexivity.
Qed.

Lemma frame_length p : length (frame p) = (4 + length p)%nat.
Proof. unfold frame. now rewrite app_length, le_enc_length. Qed.

Lemma stream_of_length ps : (length ps <= length (stream_of ps))%nat.
Proof.
  induction ps as [|p ps IH]; [simpl; lia|]. unfold stream_of in *. cbn [map concat length].
  rewrite app_length, frame_length. lia.
Qed.

Theorem scan_frames ps : Forall wf_payload ps -> scan (stream_of ps) = (ps, SEof).
Proof.
  intros H. unfold scan. apply scan_aux_frames; [exact H|]. pose proof (stream_of_length ps). lia.
Qed.

Lemma stream_of_app a b : stream_of (a ++ b) = stream_of a ++ stream_of b.
Proof. unfold stream_of. now rewrite map_app, concat_app. Qed.

Lemma stream_of_concat (chunks : list (list bytes)) : concat (map stream_of chunks) = stream_of (concat chunks).
Proof.
  induction chunks as [|c r IH]; [reflexivity|]. cbn [map concat]. now rewrite stream_of_app, IH.
Qed.


(** * composing read_fold over concatenated payload lists *)
Section Compose.
Variable render : view -> bytes * bool.

Definition nonempty (p : bytes) : Prop := p <> [].

Lemma read_fold_ok_part rs ps tail ls part rsf :
  read_fold render rs ps tail = (ls, part, EndOk, rsf) -> part = [].
Proof.
  revert rs ls part rsf; induction ps as [|p ps IH]; intros rs ls part rsf H; cbn [read_fold] in H.
  - now inversion H.
  - destruct p as [|b p']; [now inversion H|].
    destruct (es_step rs (b :: p')) as [rs' o]. destruct o as [|v|e].
    + eapply IH; eassumption.
    + destruct (render v) as [txt ok]. destruct ok; [|inversion H].
      destruct (read_fold render rs' ps tail) as [[[ls' part'] st'] rsf'] eqn:E.
      inversion H; subst. eapply IH; eassumption.
    + inversion H.
Qed.

Lemma read_fold_app rs a b tail la rs' :
  Forall nonempty a ->
  read_fold render rs a EndOk = (la, [], EndOk, rs') ->
  read_fold render rs (a ++ b) tail =
    match read_fold render rs' b tail with (lb, pb, st, rsf) => (la ++ lb, pb, st, rsf) end.
Proof.
  revert rs la rs'; induction a as [|p a IH]; intros rs la rs' Hne H.
  - cbn [read_fold] in H. inversion H; subst. cbn [app]. now destruct (read_fold render rs' b tail) as [[[? ?] ?] ?].
  - inversion Hne as [|? ? Hp Ha]; subst. cbn [app read_fold] in *.
    destruct p as [|c p']; [now elim Hp|].
    destruct (es_step rs (c :: p')) as [rs1 o]. destruct o as [|v|e].
    + now apply IH.
    + destruct (render v) as [txt ok]. destruct ok; [|inversion H].
      destruct (read_fold render rs1 a EndOk) as [[[ls1 part1] st1] rsf1] eqn:E.
      inversion H; subst.
      rewrite (IH rs1 ls1 rs' Ha E).
      now destruct (read_fold render rs' b tail) as [[[? ?] ?] ?].
    + inversion H.
Qed.

End Compose.
