(** Tag.hpp, make_enum_tag.hpp, make_struct_tag.hpp, adapt_stdvariant.hpp: the type tag. Definitions only. *)
From Coq Require Import List NArith ZArith Bool.
From BL Require Import Base.Bytes Mser.Types.
Import ListNotations.
Local Open Scope N_scope.

Definition hexdigit_up (n : N) : N := if n <? 10 then 48 + n else 55 + n.
Fixpoint hex_aux (fuel : nat) (n : N) (acc : bytes) : bytes :=
  match fuel with
  | O => acc
  | S f => let acc' := hexdigit_up (n mod 16) :: acc in if n <? 16 then acc' else hex_aux f (n / 16) acc'
  end.
(** write_integer_as_hex for a non-negative value *)
Definition hex_up (n : N) : bytes := hex_aux (S (N.to_nat (N.size n))) n [].

Definition a_signed (a : aty) : bool := match a with AChar | AI8 | AI16 | AI32 | AI64 => true | _ => false end.
(** the integer an enum's object bytes denote *)
Definition raw_to_Z (a : aty) (raw : N) : Z :=
  if a_signed a && (256 ^ N.of_nat (awidth a) / 2 <=? raw) then (Z.of_N raw - Z.of_N (256 ^ N.of_nat (awidth a)))%Z else Z.of_N raw.
Definition hex_Z (z : Z) : bytes := match z with Zneg p => 45 :: hex_up (Npos p) | _ => hex_up (Z.to_N z) end.

Fixpoint tag (t : ty) : bytes :=
  match t with
  | TArith a => [atag a]
  | TEnum name a es =>
      [47; atag a; 96] ++ name ++ [39] ++
      concat (map (fun e => hex_Z (raw_to_Z a (fst e)) ++ [96] ++ snd e ++ [39]) es) ++ [92]
  | TSeq _ e => 91 :: tag e
  | TTuple ts => 40 :: concat (map tag ts) ++ [41]
  | TOpt e => [60; 48] ++ tag e ++ [62]
  | TVariant ts => 60 :: concat (map tag ts) ++ [48; 62]
  | TUnit => [48]
  | TStruct name fs => 123 :: name ++ concat (map (fun f => [96] ++ fst f ++ [39] ++ tag (snd f)) fs) ++ [125]
  end.
