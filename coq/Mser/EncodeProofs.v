(** C04: the size reported is the number of bytes written, and those bytes are the documented encoding. *)
From Coq Require Import List NArith ZArith Bool Lia.
From BL Require Import Base.Bytes Mser.Types Mser.Encode.
Import ListNotations.
Local Open Scope N_scope.

(** induction over values with the nested lists *)
Section ValInd.
Variable P : val -> Prop.
Hypothesis Hraw : forall x, P (VRaw x).
Hypothesis Hseq : forall vs, Forall P vs -> P (VSeq vs).
Hypothesis Htup : forall vs, Forall P vs -> P (VTup vs).
Hypothesis Hnone : P VNone.
Hypothesis Hsome : forall v, P v -> P (VSome v).
Hypothesis Halt : forall i v, P v -> P (VAlt i v).
Hypothesis Hvl : P VValueless.
Hypothesis Hunit : P VUnit.
Fixpoint val_ind' (v : val) : P v :=
  match v with
  | VRaw x => Hraw x
  | VSeq vs => Hseq vs ((fix go (l : list val) : Forall P l := match l with [] => Forall_nil _ | x :: r => Forall_cons _ (val_ind' x) (go r) end) vs)
  | VTup vs => Htup vs ((fix go (l : list val) : Forall P l := match l with [] => Forall_nil _ | x :: r => Forall_cons _ (val_ind' x) (go r) end) vs)
  | VNone => Hnone
  | VSome v' => Hsome v' (val_ind' v')
  | VAlt i v' => Halt i v' (val_ind' v')
  | VValueless => Hvl
  | VUnit => Hunit
  end.
End ValInd.

(** the tuple/struct member loops as plain functions *)
Fixpoint enc_members (vs : list val) (ts : list ty) : bytes :=
  match vs, ts with v :: vs', t :: ts' => enc t v ++ enc_members vs' ts' | _, _ => [] end.
Fixpoint spec_members (vs : list val) (ts : list ty) : bytes :=
  match vs, ts with v :: vs', t :: ts' => spec_enc t v ++ spec_members vs' ts' | _, _ => [] end.
Fixpoint size_members (vs : list val) (ts : list ty) : N :=
  match vs, ts with v :: vs', t :: ts' => size_of t v + size_members vs' ts' | _, _ => 0 end.
Fixpoint wt_members (vs : list val) (ts : list ty) : bool :=
  match vs, ts with [], [] => true | v :: vs', t :: ts' => wt t v && wt_members vs' ts' | _, _ => false end.

Lemma enc_tuple ts vs : enc (TTuple ts) (VTup vs) = enc_members vs ts.
Proof. revert ts. induction vs as [|v vs IH]; intros [|t ts]; try reflexivity;
  (change (enc (TTuple (t :: ts)) (VTup (v :: vs))) with (enc t v ++ enc (TTuple ts) (VTup vs)); cbn [enc_members]; f_equal; apply IH). Qed.
Lemma enc_struct n fs vs : enc (TStruct n fs) (VTup vs) = enc_members vs (map snd fs).
Proof. revert fs. induction vs as [|v vs IH]; intros [|[l t] fs]; try reflexivity;
  (change (enc (TStruct n ((l, t) :: fs)) (VTup (v :: vs))) with (enc t v ++ enc (TStruct n fs) (VTup vs)); cbn [enc_members map snd]; f_equal; apply IH). Qed.
Lemma spec_tuple ts vs : spec_enc (TTuple ts) (VTup vs) = spec_members vs ts.
Proof. revert ts. induction vs as [|v vs IH]; intros [|t ts]; try reflexivity;
  (change (spec_enc (TTuple (t :: ts)) (VTup (v :: vs))) with (spec_enc t v ++ spec_enc (TTuple ts) (VTup vs)); cbn [spec_members]; f_equal; apply IH). Qed.
Lemma spec_struct n fs vs : spec_enc (TStruct n fs) (VTup vs) = spec_members vs (map snd fs).
Proof. revert fs. induction vs as [|v vs IH]; intros [|[l t] fs]; try reflexivity;
  (change (spec_enc (TStruct n ((l, t) :: fs)) (VTup (v :: vs))) with (spec_enc t v ++ spec_enc (TStruct n fs) (VTup vs)); cbn [spec_members map snd]; f_equal; apply IH). Qed.
Lemma size_tuple ts vs : size_of (TTuple ts) (VTup vs) = size_members vs ts.
Proof. revert ts. induction vs as [|v vs IH]; intros [|t ts]; try reflexivity;
  (change (size_of (TTuple (t :: ts)) (VTup (v :: vs))) with (size_of t v + size_of (TTuple ts) (VTup vs)); cbn [size_members]; f_equal; apply IH). Qed.
Lemma size_struct n fs vs : size_of (TStruct n fs) (VTup vs) = size_members vs (map snd fs).
Proof. revert fs. induction vs as [|v vs IH]; intros [|[l t] fs]; try reflexivity;
  (change (size_of (TStruct n ((l, t) :: fs)) (VTup (v :: vs))) with (size_of t v + size_of (TStruct n fs) (VTup vs)); cbn [size_members map snd]; f_equal; apply IH). Qed.
Lemma wt_tuple ts vs : wt (TTuple ts) (VTup vs) = wt_members vs ts.
Proof. revert ts. induction vs as [|v vs IH]; intros [|t ts]; try reflexivity;
  (change (wt (TTuple (t :: ts)) (VTup (v :: vs))) with (wt t v && wt (TTuple ts) (VTup vs)); cbn [wt_members]; f_equal; apply IH). Qed.
Lemma wt_struct n fs vs : wt (TStruct n fs) (VTup vs) = wt_members vs (map snd fs).
Proof. revert fs. induction vs as [|v vs IH]; intros [|[l t] fs]; try reflexivity;
  (change (wt (TStruct n ((l, t) :: fs)) (VTup (v :: vs))) with (wt t v && wt (TStruct n fs) (VTup vs)); cbn [wt_members map snd]; f_equal; apply IH). Qed.

Lemma lenN_app (a b : bytes) : lenN (a ++ b) = lenN a + lenN b.
Proof. unfold lenN. rewrite app_length. lia. Qed.
Lemma lenN_le_enc n x : lenN (le_enc n x) = N.of_nat n.
Proof. unfold lenN. now rewrite le_enc_length. Qed.

Lemma batch_is_elementwise a vs : Forall (fun v => wt (TArith a) v = true) vs ->
  batch_bytes (awidth a) vs = concat (map (enc (TArith a)) vs).
Proof.
  induction 1 as [|v vs Hv _ IH]; [reflexivity|]. unfold batch_bytes in *. cbn [map concat]. rewrite IH. f_equal.
  destruct v; try discriminate. reflexivity.
Qed.

(** the bytes written are the documented encoding, whatever path the dispatch takes *)
Theorem enc_is_documented : forall v t, wt t v = true -> enc t v = spec_enc t v.
Proof.
  induction v using val_ind'; intros t Hwt; destruct t; try discriminate; try reflexivity.
  - (* sequence *)
    cbn [wt] in Hwt. apply andb_true_iff in Hwt. destruct Hwt as [Hwt _]. apply andb_true_iff in Hwt. destruct Hwt as [Hall _].
    rewrite forallb_forall in Hall.
    cbn [enc spec_enc]. f_equal.
    assert (Hel : concat (map (enc t) vs) = concat (map (spec_enc t) vs)).
    { f_equal. apply map_ext_in. intros v Hv. rewrite Forall_forall in H. apply H; auto. }
    destruct (sk_contig k && is_arith t) eqn:Eb; [|exact Hel].
    apply andb_true_iff in Eb. destruct Eb as [_ Ea]. destruct t; try discriminate.
    rewrite <- Hel. destruct vs as [|v0 vs']; [reflexivity|].
    apply batch_is_elementwise. rewrite Forall_forall. intros v Hv. now apply Hall.
  - (* tuple *)
    rewrite wt_tuple in Hwt. rewrite enc_tuple, spec_tuple. revert ts Hwt. induction H as [|v vs Hv _ IH]; intros ts Hwt; [reflexivity|].
    destruct ts as [|t ts]; [discriminate|]. cbn [wt_members enc_members spec_members] in *. apply andb_true_iff in Hwt. destruct Hwt as [H1 H2].
    rewrite (Hv t H1), (IH ts H2). reflexivity.
  - (* struct *)
    rewrite wt_struct in Hwt. rewrite enc_struct, spec_struct. revert Hwt. generalize (map snd fields) as ts. induction H as [|v vs Hv _ IH]; intros ts Hwt; [reflexivity|].
    destruct ts as [|t ts]; [discriminate|]. cbn [wt_members enc_members spec_members] in *. apply andb_true_iff in Hwt. destruct Hwt as [H1 H2].
    rewrite (Hv t H1), (IH ts H2). reflexivity.
  - (* optional *) cbn [wt enc spec_enc] in *. f_equal. now apply IHv.
  - (* variant *) cbn [wt enc spec_enc] in *. f_equal. destruct (nth_error ts i); [now apply IHv|reflexivity].
Qed.

(** the size reported equals the number of bytes written *)
Theorem size_exact : forall v t, wt t v = true -> size_of t v = lenN (enc t v).
Proof.
  induction v using val_ind'; intros t Hwt; destruct t; try discriminate; try reflexivity.
  - cbn [enc size_of]. now rewrite lenN_le_enc.
  - cbn [enc size_of]. now rewrite lenN_le_enc.
  - (* sequence *)
    cbn [wt] in Hwt. apply andb_true_iff in Hwt. destruct Hwt as [Hwt _]. apply andb_true_iff in Hwt. destruct Hwt as [Hall _].
    rewrite forallb_forall in Hall.
    cbn [enc size_of]. rewrite lenN_app, lenN_le_enc. f_equal.
    assert (Hsum : fold_right (fun v acc => size_of t v + acc) 0 vs = lenN (concat (map (enc t) vs))).
    { clear -H Hall. induction vs as [|v vs IH]; [reflexivity|]. inversion H; subst. cbn [fold_right map concat]. rewrite lenN_app.
      rewrite (H2 t) by (apply Hall; now left). rewrite IH; auto. intros x Hx. apply Hall. now right. }
    rewrite (andb_comm (is_arith t)). destruct (sk_contig k && is_arith t) eqn:Eb; [|exact Hsum].
    apply andb_true_iff in Eb. destruct Eb as [_ Ea]. destruct t; try discriminate. cbn [arith_width].
    destruct vs as [|v0 vs']; [reflexivity|].
    rewrite batch_is_elementwise by (rewrite Forall_forall; intros v Hv; now apply Hall).
    rewrite <- Hsum. clear -Hall. revert Hall. generalize (v0 :: vs') as l. induction l as [|v l IH]; intros Hall; [reflexivity|].
    cbn [fold_right length]. rewrite <- IH by (intros x Hx; apply Hall; now right).
    pose proof (Hall v (or_introl eq_refl)) as Hv. destruct v; try discriminate. cbn [size_of]. lia.
  - rewrite wt_tuple in Hwt. rewrite enc_tuple, size_tuple. revert ts Hwt. induction H as [|v vs Hv _ IH]; intros ts Hwt; [reflexivity|].
    destruct ts as [|t ts]; [discriminate|]. cbn [wt_members enc_members size_members] in *. apply andb_true_iff in Hwt. destruct Hwt as [H1 H2].
    rewrite lenN_app, (Hv t H1), (IH ts H2). reflexivity.
  - rewrite wt_struct in Hwt. rewrite enc_struct, size_struct. revert Hwt. generalize (map snd fields) as ts. induction H as [|v vs Hv _ IH]; intros ts Hwt; [reflexivity|].
    destruct ts as [|t ts]; [discriminate|]. cbn [wt_members enc_members size_members] in *. apply andb_true_iff in Hwt. destruct Hwt as [H1 H2].
    rewrite lenN_app, (Hv t H1), (IH ts H2). reflexivity.
  - cbn [wt enc size_of] in *. rewrite (IHv t Hwt). unfold lenN. cbn [length]. lia.
  - cbn [wt enc size_of] in *. destruct (nth_error ts i) as [ti|]; [|discriminate]. rewrite (IHv ti Hwt). unfold lenN. cbn [length]. lia.
Qed.

(** consequently an event occupies exactly the space reserved for it, and its size prefix is its payload length *)
Theorem event_within_reservation id clock ts vs : length ts = length vs -> Forall (fun p => wt (fst p) (snd p) = true) (combine ts vs) ->
  8 + 8 + args_size ts vs < 4294967296 ->
  lenN (event_bytes id clock ts vs) = event_total_size ts vs /\
  exists payload, event_bytes id clock ts vs = le_enc 4 (lenN payload) ++ payload.
Proof.
  intros Hlen Hwt Hsz. unfold event_bytes, event_total_size.
  assert (Ha : lenN (args_bytes ts vs) = args_size ts vs).
  { unfold args_bytes, args_size. induction Hwt as [|p l Hp _ IH]; [reflexivity|]. cbn [map concat fold_right]. rewrite lenN_app, IH.
    now rewrite (size_exact (snd p) (fst p) Hp). }
  split.
  - rewrite !lenN_app, !lenN_le_enc, Ha. lia.
  - exists (le_enc 8 id ++ le_enc 8 clock ++ args_bytes ts vs). rewrite !lenN_app, !lenN_le_enc, Ha.
    rewrite N.mod_small by exact Hsz. f_equal. f_equal. lia.
Qed.
