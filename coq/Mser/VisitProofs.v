(** C06, part 2: visiting the serialized bytes of a value with its type's tag reports exactly the value's structure
    and leaves and consumes exactly its bytes. Proved for the universe [simple] below (no adapted enums, no empty
    structs, monostate only inside variants) and values whose sequences have at most 32 elements (so that the
    repeat-collapsing of singular elements is not involved); the rest of the universe is tied by correspondence. *)
From Coq Require Import List NArith ZArith Bool Lia.
From BL Require Import Base.Bytes Mser.Types Mser.Encode Mser.EncodeProofs Mser.Tag Mser.Visit Mser.TagProofs Mser.EnumProofs.
Import ListNotations.
Local Open Scope N_scope.

Definition no_special (n t i : bytes) : option (option (bytes * bytes)) := None.

(** the callbacks a value should produce, defined directly on the value *)
Fixpoint zero_size (t : ty) : bool :=
  match t with
  | TTuple ts => forallb zero_size ts
  | TStruct _ fs => forallb (fun f => zero_size (snd f)) fs
  | _ => false
  end.

Definition raw_of (v : val) : N := match v with VRaw x => x | _ => 0 end.
Definition is_char (t : ty) : bool := match t with TArith AChar => true | _ => false end.

(** [b] = the visitor asks for whole strings (ToStringVisitor returns true from SequenceBegin of a char sequence) *)
Fixpoint callbacks_b (b : bool) (t : ty) (v : val) {struct v} : list cb :=
  match t, v with
  | TArith a, VRaw x => [CArith (atag a) x]
  | TEnum n a es, VRaw x => [CEnum n (lookup a es (hex_Z (raw_to_Z a x))) (atag a) (hex_Z (raw_to_Z a x))]
  | TSeq _ e, VSeq vs =>
      if b && is_char e then [CSeqChars (map raw_of vs)]
      else if (32 <? N.of_nat (length vs)) && zero_size e then
        (* more than 32 zero-size elements: visited once, with the count *)
        [CSeqBegin (N.of_nat (length vs)) (tag e); CRepeatBegin (N.of_nat (length vs)) (tag e)] ++
        (match vs with v1 :: _ => callbacks_b b e v1 | [] => [] end) ++ [CRepeatEnd (N.of_nat (length vs)) (tag e); CSeqEnd]
      else [CSeqBegin (N.of_nat (length vs)) (tag e)] ++ concat (map (callbacks_b b e) vs) ++ [CSeqEnd]
  | TTuple ts, VTup vs =>
      [CTupleBegin (concat (map tag ts))] ++
      (fix go (vs : list val) (ts : list ty) {struct vs} : list cb :=
         match vs, ts with v :: vs', t :: ts' => callbacks_b b t v ++ go vs' ts' | _, _ => [] end) vs ts ++ [CTupleEnd]
  | TStruct n fs, VTup vs =>
      [CStructBegin n (concat (map (fun f => [96] ++ fst f ++ [39] ++ tag (snd f)) fs))] ++
      (fix go (vs : list val) (fs : list (bytes * ty)) {struct vs} : list cb :=
         match vs, fs with v :: vs', f :: fs' => [CFieldBegin (fst f) (tag (snd f))] ++ callbacks_b b (snd f) v ++ [CFieldEnd] ++ go vs' fs' | _, _ => [] end) vs fs ++ [CStructEnd]
  | TOpt _, VNone => [CVariantBegin 0 [48]; CNull; CVariantEnd]
  | TOpt e, VSome v' => [CVariantBegin 1 (tag e)] ++ callbacks_b b e v' ++ [CVariantEnd]
  | TVariant ts, VAlt i v' =>
      match nth_error ts i with
      | Some TUnit => [CVariantBegin (N.of_nat i) [48]; CNull; CVariantEnd]
      | Some ti => [CVariantBegin (N.of_nat i) (tag ti)] ++ callbacks_b b ti v' ++ [CVariantEnd]
      | None => []
      end
  | TVariant ts, VValueless => [CVariantBegin (N.of_nat (length ts)) [48]; CNull; CVariantEnd]
  | _, _ => []
  end.
Notation callbacks := (callbacks_b false).

(** struct names the visitor's printStruct hook does not take over *)
Fixpoint plain (sp : bytes -> bytes -> bytes -> option (option (bytes * bytes))) (t : ty) : Prop :=
  match t with
  | TSeq _ e => plain sp e
  | TOpt e => plain sp e
  | TTuple ts => (fix all (l : list ty) : Prop := match l with [] => True | x :: r => plain sp x /\ all r end) ts
  | TVariant ts => (fix all (l : list ty) : Prop := match l with [] => True | x :: r => plain sp x /\ all r end) ts
  | TStruct n fs => (forall i, sp n (concat (map (fun f => [96] ++ fst f ++ [39] ++ tag (snd f)) fs)) i = None) /\
                    (fix all (l : list (bytes * ty)) : Prop := match l with [] => True | x :: r => plain sp (snd x) /\ all r end) fs
  | _ => True
  end.

(** an empty struct is written {Name}: the same text as a reference to a struct defined elsewhere in the complete tag. It denotes the empty
    struct when the complete tag [full] holds no definition of that name (what resolve_recursive_tag finds) *)
Fixpoint empties (full : bytes) (t : ty) : Prop :=
  match t with
  | TSeq _ e => empties full e
  | TOpt e => empties full e
  | TTuple ts => (fix all (l : list ty) : Prop := match l with [] => True | x :: r => empties full x /\ all r end) ts
  | TVariant ts => (fix all (l : list ty) : Prop := match l with [] => True | x :: r => empties full x /\ all r end) ts
  | TStruct n fs => (fs = [] -> resolve_recursive_tag full (123 :: n) = []) /\
                    (fix all (l : list (bytes * ty)) : Prop := match l with [] => True | x :: r => empties full (snd x) /\ all r end) fs
  | _ => True
  end.

Lemma empties_member full ts t :
  (fix all (l : list ty) : Prop := match l with [] => True | x :: r => empties full x /\ all r end) ts -> In t ts -> empties full t.
Proof. induction ts as [|x ts IH]; intros He Ht; [contradiction|]. destruct He as [E1 E2]. destruct Ht as [->|Ht]; [exact E1|now apply IH]. Qed.
Lemma empties_field full fs fd :
  (fix all (l : list (bytes * ty)) : Prop := match l with [] => True | x :: r => empties full (snd x) /\ all r end) fs -> In fd fs -> empties full (snd fd).
Proof. induction fs as [|x fs IH]; intros He Ht; [contradiction|]. destruct He as [E1 E2]. destruct Ht as [->|Ht]; [exact E1|now apply IH]. Qed.

(** the universe of the theorem; [inv] = may appear as a variant alternative (where monostate is allowed) *)
Fixpoint simple (inv : bool) (t : ty) : bool :=
  match t with
  | TArith _ => true
  | TEnum _ a _ => match a with ABool | AF32 | AF64 | AF80 => false | _ => true end
  | TSeq _ e => simple false e
  | TOpt e => simple false e
  | TTuple ts => forallb (simple false) ts
  | TVariant ts => forallb (simple true) ts && (N.of_nat (length ts) <? 256)
  | TUnit => inv
  | TStruct _ fs => forallb (fun f => simple false (snd f)) fs
  end.

Fixpoint short (v : val) : bool :=
  match v with
  | VSeq vs => (N.of_nat (length vs) <=? 32) && forallb short vs
  | VTup vs => forallb short vs
  | VSome v' => short v'
  | VAlt _ v' => short v'
  | _ => true
  end.

Fixpoint depth (t : ty) : nat :=
  match t with
  | TSeq _ e => S (depth e)
  | TOpt e => S (depth e)
  | TTuple ts => S (fold_right (fun t m => Nat.max (depth t) m) 0%nat ts)
  | TVariant ts => S (fold_right (fun t m => Nat.max (depth t) m) 0%nat ts)
  | TStruct _ fs => S (fold_right (fun f m => Nat.max (depth (snd f)) m) 0%nat fs)
  | _ => 1%nat
  end.

Lemma removelast_app_one {A} (l : list A) x : removelast (l ++ [x]) = l.
Proof. apply removelast_last. Qed.

Lemma tag_nonempty t : tag t <> [].
Proof. destruct t; cbn [tag]; discriminate. Qed.

Lemma arith_of_atag a : arith_of_letter (atag a) = Some a.
Proof. destruct a; reflexivity. Qed.

Lemma tag_head_cases t : simple true t = true ->
  match t with
  | TArith a => tag t = [atag a]
  | TUnit => tag t = [48]
  | _ => True
  end.
Proof. destruct t; intros; reflexivity || exact I. Qed.

Lemma tuple_loop_step rec n t e r l acc : e <> [] -> tag_pop t = (e, r) ->
  tuple_loop rec (S n) t l acc = match rec e l with VOk (cs, l') => tuple_loop rec n r l' (acc ++ cs) | VErr er p => VErr er (acc ++ p) end.
Proof. intros Hne Hp. cbn [tuple_loop]. rewrite Hp. destruct e; [congruence|reflexivity]. Qed.

Section Agree.
Variable full : bytes.
Variable b : bool.
Variable sp : bytes -> bytes -> bytes -> option (option (bytes * bytes)).

Definition agrees (t : ty) (v : val) : Prop :=
  forall fuel rest, (depth t <= fuel)%nat ->
    visit b sp fuel full (tag t) (spec_enc t v ++ rest) = VOk (callbacks_b b t v, rest).

(** tuple members: the loop pops the member tags one by one *)
Lemma tuple_loop_agrees f : forall vs ts rest acc n,
  Forall2 (fun v t => ty_ok t = true /\ forall r, visit b sp f full (tag t) (spec_enc t v ++ r) = VOk (callbacks_b b t v, r)) vs ts ->
  (length ts < n)%nat ->
  tuple_loop (visit b sp f full) n (concat (map tag ts)) (spec_members vs ts ++ rest) acc
    = VOk (acc ++ (fix go (vs : list val) (ts : list ty) {struct vs} : list cb :=
                     match vs, ts with v :: vs', t :: ts' => callbacks_b b t v ++ go vs' ts' | _, _ => [] end) vs ts ++ [CTupleEnd], rest).
Proof.
  induction vs as [|v vs IH]; intros ts rest acc n H Hn; inversion H as [|? t ? ts' [Hok Hv] Hrest]; subst.
  - destruct n; [lia|]. cbn. reflexivity.
  - destruct n; [cbn in Hn; lia|]. cbn [map concat spec_members]. rewrite <- !app_assoc.
    rewrite (tuple_loop_step _ n _ (tag t) _ _ _ (tag_nonempty t) (tag_pop_tag t _ Hok)).
    rewrite Hv. rewrite (IH ts' rest (acc ++ callbacks_b b t v) n Hrest) by (cbn in Hn; lia).
    rewrite <- !app_assoc. reflexivity.
Qed.

(** struct fields *)
Lemma tag_pop_label_spec label rest : ~ In 39 label -> tag_pop_label (96 :: label ++ 39 :: rest) = (label, rest).
Proof.
  intros H. unfold tag_pop_label, drop. change (skipn 1 (96 :: label ++ 39 :: rest)) with (label ++ 39 :: rest). cbv zeta.
  rewrite (find_pos_app_notin label 39 rest H). f_equal; [apply firstn_app_exact|].
  replace (S (length label)) with (length (label ++ [39])) by (rewrite app_length; cbn; lia).
  replace (label ++ 39 :: rest) with ((label ++ [39]) ++ rest) by (rewrite <- app_assoc; reflexivity).
  apply skipn_app_exact.
Qed.

Lemma struct_loop_step rec n t fname t1 ftag t2 l acc : t <> [] -> tag_pop_label t = (fname, t1) -> tag_pop t1 = (ftag, t2) ->
  struct_loop rec (S n) t l acc =
    match rec ftag l with
    | VOk (cs, l') => struct_loop rec n t2 l' (acc ++ [CFieldBegin fname ftag] ++ cs ++ [CFieldEnd])
    | VErr e p => VErr e (acc ++ [CFieldBegin fname ftag] ++ p)
    end.
Proof. intros Hne H1 H2. cbn [struct_loop]. destruct t; [congruence|]. now rewrite H1, H2. Qed.

Definition fields_tag (fs : list (bytes * ty)) : bytes := concat (map (fun f => [96] ++ fst f ++ [39] ++ tag (snd f)) fs).

Lemma struct_loop_agrees f : forall vs fs rest acc n,
  Forall2 (fun v fd => name_ok (fst fd) = true /\ ty_ok (snd fd) = true /\
             forall r, visit b sp f full (tag (snd fd)) (spec_enc (snd fd) v ++ r) = VOk (callbacks_b b (snd fd) v, r)) vs fs ->
  (length (fields_tag fs) < n)%nat ->
  struct_loop (visit b sp f full) n (fields_tag fs) (spec_members vs (map snd fs) ++ rest) acc
    = VOk (acc ++ (fix go (vs : list val) (fs : list (bytes * ty)) {struct vs} : list cb :=
                     match vs, fs with v :: vs', f :: fs' => [CFieldBegin (fst f) (tag (snd f))] ++ callbacks_b b (snd f) v ++ [CFieldEnd] ++ go vs' fs' | _, _ => [] end) vs fs ++ [CStructEnd], rest).
Proof.
  induction vs as [|v vs IH]; intros fs rest acc n H Hn; inversion H as [|? fd ? fs' (Hl & Hok & Hv) Hrest]; subst.
  - destruct n; [lia|]. cbn. reflexivity.
  - destruct n; [cbn in Hn; lia|]. unfold fields_tag in *. cbn [map concat spec_members] in *. rewrite <- !app_assoc in *.
    destruct (name_ok_transp _ Hl) as (_ & _ & _ & _ & _ & H39).
    cbn [app] in *.
    erewrite struct_loop_step; [|discriminate|apply tag_pop_label_spec; exact H39|apply tag_pop_tag; exact Hok].
    rewrite Hv. fold (fields_tag fs').
    rewrite (IH fs' rest _ n Hrest) by (unfold fields_tag; repeat (rewrite app_length in Hn || cbn [length] in Hn); lia).
    rewrite <- !app_assoc. reflexivity.
Qed.

Section LoopN.
Variable rec : bytes -> bytes -> vres (list cb * bytes).
Lemma seq_step_err etag e p : seq_step rec etag (VErr e p) = VErr e p. Proof. reflexivity. Qed.
Lemma iter_sc_iter etag : forall p st, iter_sc rec etag p st = Pos.iter (seq_step rec etag) st p.
Proof.
  assert (Herr : forall p e q, Pos.iter (seq_step rec etag) (VErr e q) p = VErr e q).
  { induction p as [p IH|p IH|]; intros e q; cbn [Pos.iter]; rewrite ?IH; reflexivity. }
  induction p as [p IH|p IH|]; intros st; destruct st as [[a l]|e q]; cbn [iter_sc Pos.iter]; rewrite ?Herr, ?IH; reflexivity.
Qed.
Lemma seq_loop_nat etag : forall n l acc,
  seq_loop rec etag n l acc =
  match nat_rect _ (VOk (acc, l)) (fun _ => seq_step rec etag) n with
  | VOk (acc', l') => VOk (acc' ++ [CSeqEnd], l')
  | VErr e p => VErr e p
  end.
Proof.
  assert (Hswap : forall n st, nat_rect (fun _ => vres (list cb * bytes)) (seq_step rec etag st) (fun _ => seq_step rec etag) n
                               = seq_step rec etag (nat_rect _ st (fun _ => seq_step rec etag) n)).
  { induction n as [|n IH]; intros st; cbn [nat_rect]; [reflexivity|rewrite IH; reflexivity]. }
  assert (Herr : forall n e q, nat_rect (fun _ => vres (list cb * bytes)) (VErr e q) (fun _ => seq_step rec etag) n = VErr e q).
  { induction n as [|n IH]; intros e q; cbn [nat_rect]; rewrite ?IH; reflexivity. }
  induction n as [|n IH]; intros l acc; cbn [seq_loop nat_rect]; [reflexivity|].
  rewrite <- Hswap. cbn [seq_step]. destruct (rec etag l) as [[cs l']|e q].
  - apply IH.
  - rewrite Herr. reflexivity.
Qed.
Lemma seq_loopN_eq etag size l acc : seq_loopN rec etag size l acc = seq_loop rec etag (N.to_nat size) l acc.
Proof.
  rewrite seq_loop_nat. unfold seq_loopN. destruct size as [|p]; [reflexivity|].
  rewrite iter_sc_iter, Pos2Nat.inj_iter. reflexivity.
Qed.
End LoopN.

Lemma seq_loop_agrees f e : forall vs rest acc,
  Forall (fun v => forall r, visit b sp f full (tag e) (spec_enc e v ++ r) = VOk (callbacks_b b e v, r)) vs ->
  seq_loop (visit b sp f full) (tag e) (length vs) (concat (map (spec_enc e) vs) ++ rest) acc
    = VOk (acc ++ concat (map (callbacks_b b e) vs) ++ [CSeqEnd], rest).
Proof.
  induction vs as [|v vs IH]; intros rest acc H; [cbn; reflexivity|]. inversion H; subst.
  cbn [length seq_loop map concat]. rewrite <- !app_assoc, H2, IH by assumption. rewrite <- !app_assoc. reflexivity.
Qed.

Lemma iter_shift {A} (f : A -> A) : forall i x, Nat.iter (S i) f x = Nat.iter i f (f x).
Proof. induction i as [|i IH]; intros x; [reflexivity|]. change (Nat.iter (S (S i)) f x) with (f (Nat.iter (S i) f x)). rewrite IH. reflexivity. Qed.

(** popping i alternatives of a variant tag *)
Lemma iter_pop ts : forall i, (i <= length ts)%nat -> forallb ty_ok ts = true ->
  Nat.iter i (fun t => snd (tag_pop t)) (concat (map tag ts) ++ [48]) = concat (map tag (skipn i ts)) ++ [48].
Proof.
  induction ts as [|t ts IH]; intros i Hi Hok.
  - destruct i; [reflexivity|cbn in Hi; lia].
  - destruct i as [|i]; [reflexivity|]. cbn [forallb] in Hok. apply andb_true_iff in Hok. destruct Hok as [H1 H2].
    rewrite iter_shift. cbn [map concat skipn]. rewrite <- app_assoc, (tag_pop_tag t _ H1). cbn [snd].
    apply IH; [cbn in Hi; lia|exact H2].
Qed.

End Agree.

Lemma tfs_pop_plain c rest : c <> 91 -> c <> 40 -> c <> 60 -> c <> 123 -> c <> 47 -> tag_pop (c :: rest) = ([c], rest).
Proof. intros. unfold tag_pop. rewrite tfs_plain by assumption. reflexivity. Qed.

(** * the main theorem *)
Lemma tags_length_le ts : (length ts <= length (concat (map tag ts)))%nat.
Proof.
  induction ts as [|t ts IH]; [cbn; lia|]. cbn [map concat length]. rewrite app_length.
  pose proof (tag_nonempty t). destruct (tag t); [congruence|]. cbn [length]. lia.
Qed.

Lemma not_null_tag t : simple false t = true -> is_null_tag (tag t) = false.
Proof.
  destruct t; cbn; try discriminate; try reflexivity; try (destruct a; reflexivity);
    intros _; match goal with |- match ?x with [] => _ | _ :: _ => _ end = _ => destruct x end; reflexivity.
Qed.

Lemma take_n_le_enc w x rest : take_n w (le_enc w x ++ rest) = Some (le_enc w x, rest).
Proof. pose proof (take_n_exact (le_enc w x) rest) as E. now rewrite le_enc_length in E. Qed.

Lemma find_pos_struct (n : bytes) fields : ~ In 96 n -> find_pos (123 :: n ++ 96 :: fields) 96 = S (length n).
Proof. intros H. cbn [find_pos]. cbn. f_equal. now apply find_pos_app_notin. Qed.

Lemma max_fold_ge ts t : In t ts -> (depth t <= fold_right (fun t m => Nat.max (depth t) m) 0 ts)%nat.
Proof. induction ts as [|x ts IH]; [contradiction|]. intros [->|H]; cbn [fold_right]; [lia|]. specialize (IH H). lia. Qed.
Lemma max_fold_ge_f (fs : list (bytes * ty)) f : In f fs -> (depth (snd f) <= fold_right (fun f m => Nat.max (depth (snd f)) m) 0 fs)%nat.
Proof. induction fs as [|x fs IH]; [contradiction|]. intros [->|H]; cbn [fold_right]; [lia|]. specialize (IH H). lia. Qed.

Lemma nth_error_skipn {A} (l : list A) : forall i x, nth_error l i = Some x -> exists tl, skipn i l = x :: tl.
Proof. induction l as [|y l IH]; intros [|i] x H; cbn in *; try discriminate; [inversion H; eauto|now apply IH]. Qed.
Lemma ty_eq_unit t : {t = TUnit} + {t <> TUnit}.
Proof. destruct t; (now left) || (right; discriminate). Qed.
Lemma simple_weaken t : simple true t = true -> t <> TUnit -> simple false t = true.
Proof. destruct t; cbn; auto; congruence. Qed.

(** * Singular.hpp: a tag is singular iff its values occupy zero bytes *)

Lemma list_eq_nil_dec {A} (l : list A) : {l = []} + {l <> []}.
Proof. destruct l; [now left|right; discriminate]. Qed.

Lemma find_pos_notin l c : ~ In c l -> find_pos l c = length l.
Proof.
  induction l as [|x l IH]; intros H; [reflexivity|]. cbn [find_pos length].
  destruct (N.eqb_spec x c) as [->|Hne]; [exfalso; apply H; now left|]. f_equal. apply IH. intros Q. apply H. now right.
Qed.

Lemma simple_weaken_rev t : simple false t = true -> simple true t = true.
Proof. destruct t; cbn; auto; discriminate. Qed.

Section Sing.
Variable full : bytes.

Fixpoint stl (f : nat) (n : nat) (t : bytes) : option bool :=
  match n with O => Some true | S n' =>
    let (e, r) := tag_pop t in
    match e with [] => Some true | _ =>
      match singular f full e with Some true => stl f n' r | other => other end end end.
Fixpoint sfl (f : nat) (n : nat) (t : bytes) : option bool :=
  match n with O => Some true | S n' =>
    match t with [] => Some true | _ =>
      let (_, t1) := tag_pop_label t in
      let (ft, t2) := tag_pop t1 in
      match singular f full ft with Some true => sfl f n' t2 | other => other end end end.

Lemma singular_tuple_unfold f inner : singular (S f) full (40 :: inner ++ [41]) = stl f (S (length inner)) inner.
Proof.
  cbn [singular]. unfold drop, drop_last. cbn [skipn].
  replace (removelast (inner ++ [41])) with inner by (symmetry; apply removelast_last).
  cbn [stl]. destruct (tag_pop inner) as [e r]. destruct e as [|c e]; [reflexivity|].
  destruct (singular f full (c :: e)) as [[|]|]; try reflexivity.
  generalize (length inner) as n. intros n. revert r. induction n as [|n IH]; intros r; [reflexivity|].
  cbn -[tag_pop singular]. destruct (tag_pop r) as [e' r']. destruct e' as [|c' e']; [reflexivity|].
  destruct (singular f full (c' :: e')) as [[|]|]; try reflexivity. apply IH.
Qed.

Lemma singular_members f : forall ts n, (length (concat (map tag ts)) < n)%nat ->
  Forall (fun t => ty_ok t = true /\ singular f full (tag t) = Some (zero_size t)) ts ->
  stl f n (concat (map tag ts))
  = Some (forallb zero_size ts).
Proof.
  induction ts as [|t ts IH]; intros n Hn H.
  - destruct n; [cbn in Hn; lia|]. reflexivity.
  - inversion H as [|? ? [Hok Hs] Hr]; subst. destruct n; [cbn in Hn; lia|].
    cbn [map concat stl]. rewrite (tag_pop_tag t _ Hok).
    pose proof (tag_nonempty t) as Hne. destruct (tag t) eqn:Et; [congruence|]. rewrite <- Et in *. rewrite Hs.
    cbn [forallb]. destruct (zero_size t); cbn [andb]; [|reflexivity].
    apply IH; [|exact Hr]. cbn [map concat] in Hn. rewrite app_length in Hn. rewrite Et in Hn. cbn [length] in Hn. lia.
Qed.

Lemma singular_fields f : forall fs n, (length (fields_tag fs) < n)%nat ->
  Forall (fun fd => name_ok (fst fd) = true /\ ty_ok (snd fd) = true /\ singular f full (tag (snd fd)) = Some (zero_size (snd fd))) fs ->
  sfl f n (fields_tag fs)
  = Some (forallb (fun fd => zero_size (snd fd)) fs).
Proof.
  induction fs as [|fd fs IH]; intros n Hn H.
  - destruct n; [cbn in Hn; lia|]. reflexivity.
  - inversion H as [|? ? (Hl & Hok & Hs) Hr]; subst. destruct n; [cbn in Hn; lia|].
    unfold fields_tag in *. cbn [map concat] in *. rewrite <- !app_assoc in *. cbn [app sfl] in *.
    destruct (name_ok_transp _ Hl) as (_ & _ & _ & _ & _ & H39).
    rewrite (tag_pop_label_spec (fst fd) _ H39). rewrite (tag_pop_tag (snd fd) _ Hok). rewrite Hs.
    cbn [forallb]. destruct (zero_size (snd fd)); cbn [andb]; [|reflexivity].
    apply IH; [|exact Hr]. repeat (rewrite app_length in Hn || cbn [length] in Hn). lia.
Qed.

Lemma singular_struct_unfold f name fs : fs <> [] -> ~ In 96 name -> singular (S f) full (123 :: name ++ fields_tag fs ++ [125]) =
  sfl f (S (length (fields_tag fs))) (fields_tag fs).
Proof.
  intros Hne H96. cbn [singular]. unfold drop_last.
  replace (123 :: name ++ fields_tag fs ++ [125]) with ((123 :: name ++ fields_tag fs) ++ [125]) by (cbn [app]; now rewrite <- app_assoc).
  rewrite removelast_last. unfold remove_prefix_before.
  destruct fs as [|f0 fs0]; [congruence|].
  assert (Hft : fields_tag (f0 :: fs0) = 96 :: (fst f0 ++ [39] ++ tag (snd f0)) ++ fields_tag fs0) by (unfold fields_tag; cbn [map concat app]; reflexivity).
  rewrite Hft. rewrite (find_pos_struct name _ H96).
  replace (123 :: name ++ 96 :: (fst f0 ++ [39] ++ tag (snd f0)) ++ fields_tag fs0) with ((123 :: name) ++ 96 :: (fst f0 ++ [39] ++ tag (snd f0)) ++ fields_tag fs0) by reflexivity.
  change (S (length name)) with (length (123 :: name)). rewrite firstn_app_exact, skipn_app_exact.
  set (T := 96 :: (fst f0 ++ [39] ++ tag (snd f0)) ++ fields_tag fs0).
  assert (G : forall n t, (fix loop (n : nat) (t : bytes) : option bool :=
     match n with O => Some true | S n' =>
       match t with [] => Some true | _ =>
         let (_, t1) := tag_pop_label t in
         let (ft, t2) := tag_pop t1 in
         match singular f full ft with Some true => loop n' t2 | other => other end end end) n t = sfl f n t).
  { induction n as [|n IH]; intros t; [reflexivity|]. cbn -[tag_pop tag_pop_label singular]. destruct t as [|c t]; [reflexivity|].
    destruct (tag_pop_label (c :: t)) as [lb t1]. destruct (tag_pop t1) as [ft t2]. destruct (singular f full ft) as [[|]|]; try reflexivity. apply IH. }
  subst T. cbn [sfl].
  match goal with |- context [tag_pop_label ?x] => destruct (tag_pop_label x) as [lb t1] end.
  destruct (tag_pop t1) as [ft t2]. destruct (singular f full ft) as [[|]|]; try reflexivity. apply G.
Qed.

Theorem singular_agrees : forall t fuel, simple true t = true -> ty_ok t = true -> empties full t -> (depth t <= fuel)%nat ->
  singular fuel full (tag t) = Some (zero_size t).
Proof.
  induction t using ty_ind'; intros fuel Hs Hok He Hd; (destruct fuel as [|f]; [cbn [depth] in Hd; lia|]).
  - destruct a; reflexivity.
  - reflexivity.
  - reflexivity.
  - (* tuple *)
    cbn [tag zero_size simple ty_ok depth] in *. rewrite singular_tuple_unfold.
    apply singular_members; [lia|].
    rewrite Forall_forall in *. rewrite forallb_forall in Hs, Hok. intros t Ht. split; [apply Hok; exact Ht|].
    apply (H t Ht f); [apply simple_weaken_rev; apply Hs; exact Ht|apply Hok; exact Ht|apply (empties_member full ts t He Ht)|pose proof (max_fold_ge ts t Ht); lia].
  - reflexivity.
  - reflexivity.
  - reflexivity.
  - (* struct *)
    cbn [tag zero_size simple ty_ok depth empties] in *. apply andb_true_iff in Hok. destruct Hok as [Hn Hfs]. destruct He as [He0 He].
    destruct (name_ok_transp _ Hn) as (_ & _ & _ & _ & H96 & _).
    destruct (list_eq_nil_dec fs) as [Efs|Efs].
    + (* empty struct: {Name} *)
      subst fs. cbn [map concat app forallb]. cbn [singular]. unfold drop_last.
      replace (123 :: n ++ [125]) with ((123 :: n) ++ [125]) by reflexivity. rewrite removelast_last.
      unfold remove_prefix_before. rewrite (find_pos_notin (123 :: n) 96) by (intros [Q|Q]; [discriminate|contradiction]).
      rewrite firstn_all, skipn_all. rewrite (He0 eq_refl). reflexivity.
    + fold (fields_tag fs). rewrite singular_struct_unfold; [|exact Efs|exact H96].
      apply singular_fields; [lia|].
      rewrite Forall_forall in *. rewrite forallb_forall in Hs, Hfs. intros fd Hfd. specialize (Hfs fd Hfd). apply andb_true_iff in Hfs. destruct Hfs as [L1 T1].
      split; [exact L1|split; [exact T1|]].
      apply (H fd Hfd f); [apply simple_weaken_rev; apply Hs; exact Hfd|exact T1|apply (empties_field full fs fd He Hfd)|pose proof (max_fold_ge_f fs fd Hfd); lia].
Qed.
End Sing.


Lemma is_c_tag t : (match tag t with [99] => true | _ => false end) = is_char t.
Proof. destruct t as [a| | | | | | |]; try reflexivity. destruct a; reflexivity. Qed.

Lemma chars_enc vs : (forall x, In x vs -> wt (TArith AChar) x = true) -> concat (map (spec_enc (TArith AChar)) vs) = map raw_of vs.
Proof.
  induction vs as [|v vs IH]; intros H; [reflexivity|]. cbn [map concat]. rewrite IH by (intros x Hx; apply H; now right). f_equal.
  specialize (H v (or_introl eq_refl)). destruct v; try discriminate H. cbn [wt] in H. apply N.ltb_lt in H. cbn [spec_enc raw_of awidth le_enc].
  rewrite N.mod_small by (cbn in H; lia). reflexivity.
Qed.

Lemma zero_enc : forall v t, zero_size t = true -> wt t v = true -> spec_enc t v = [].
Proof.
  induction v using val_ind'; intros t Hz Hwt; destruct t; try discriminate.
  - rewrite wt_tuple in Hwt. rewrite spec_tuple. cbn [zero_size] in Hz.
    revert ts Hz Hwt. induction H as [|v vs Hv _ IH]; intros [|t ts] Hz Hwt; try reflexivity; try discriminate.
    cbn [forallb wt_members spec_members] in *. apply andb_true_iff in Hz, Hwt. destruct Hz as [Z1 Z2], Hwt as [W1 W2].
    rewrite (Hv t Z1 W1), (IH ts Z2 W2). reflexivity.
  - rewrite wt_struct in Hwt. rewrite spec_struct. cbn [zero_size] in Hz.
    revert fields Hz Hwt. induction H as [|v vs Hv _ IH]; intros [|fd fs] Hz Hwt; try reflexivity; try discriminate.
    cbn [forallb wt_members spec_members map] in *. apply andb_true_iff in Hz, Hwt. destruct Hz as [Z1 Z2], Hwt as [W1 W2].
    rewrite (Hv (snd fd) Z1 W1), (IH fs Z2 W2). reflexivity.
Qed.

Theorem visit_agrees_gen full b sp : forall v t inv, wt t v = true -> simple inv t = true -> t <> TUnit -> ty_ok t = true -> plain sp t -> empties full t -> agrees full b sp t v.
Proof.
  induction v using val_ind'; intros t inv Hwt Hs Hnu Hok Hpl Hem; destruct t; try discriminate; try congruence; intros fuel rest Hfuel;
    (destruct fuel as [|f]; [cbn [depth] in Hfuel; lia|]).
  - (* arithmetic leaf *)
    cbn [wt] in Hwt. apply N.ltb_lt in Hwt. cbn [tag spec_enc callbacks].
    assert (E : visit b sp (S f) full [atag a] (le_enc (awidth a) x ++ rest) = visit_arith (atag a) (le_enc (awidth a) x ++ rest)) by (destruct a; reflexivity).
    rewrite E. unfold visit_arith. rewrite arith_of_atag, take_n_le_enc, le_dec_enc by exact Hwt. reflexivity.
  - (* adapted enum *)
    cbn [wt] in Hwt. apply N.ltb_lt in Hwt. cbn [simple] in Hs. cbn [ty_ok] in Hok. apply andb_true_iff in Hok. destruct Hok as [Hn Hes].
    cbn [spec_enc callbacks_b]. apply visit_enum_agrees; assumption.
  - (* sequence *)
    cbn [wt] in Hwt. apply andb_true_iff in Hwt. destruct Hwt as [Hwt _]. apply andb_true_iff in Hwt. destruct Hwt as [Hall Hlen].
    rewrite forallb_forall in Hall. apply N.ltb_lt in Hlen.
    cbn [simple ty_ok depth] in *.
    cbn [tag spec_enc visit]. rewrite <- app_assoc, take_n_le_enc, le_dec_enc by (cbn; lia).
    pose proof (tag_pop_tag t [] Hok) as Hp. rewrite app_nil_r in Hp. rewrite Hp.
    rewrite is_c_tag. cbn [callbacks_b].
    assert (Hnt : t <> TUnit) by (intros ->; discriminate Hs).
    destruct (b && is_char t) eqn:Ebc.
    + (* the visitor takes the whole string *)
      apply andb_true_iff in Ebc. destruct Ebc as [_ Hc]. destruct t as [a| | | | | | |]; try discriminate Hc. destruct a; try discriminate Hc.
      rewrite (chars_enc vs Hall).
      replace (N.of_nat (length vs)) with (lenN (map raw_of vs)) by (unfold lenN; now rewrite map_length).
      rewrite takeN_exact. reflexivity.
    + assert (Hloop : seq_loopN (visit b sp f full) (tag t) (N.of_nat (length vs)) (concat (map (spec_enc t) vs) ++ rest) []
                      = VOk ([] ++ concat (map (callbacks_b b t) vs) ++ [CSeqEnd], rest)).
      { rewrite seq_loopN_eq, Nat2N.id. apply seq_loop_agrees.
        rewrite Forall_forall in *. intros v Hv r. apply (H v Hv t false (Hall v Hv) Hs Hnt Hok Hpl Hem). lia. }
      destruct (N.ltb_spec 32 (N.of_nat (length vs))) as [H32|H32]; cbn [andb].
      * (* more than 32 elements: the singular check decides *)
        rewrite (singular_agrees full t f (simple_weaken_rev t Hs) Hok Hem ltac:(lia)).
        destruct (zero_size t) eqn:Ez.
        -- destruct vs as [|v1 vs']; [cbn in H32; lia|].
           assert (Hz : concat (map (spec_enc t) (v1 :: vs')) = []).
           { assert (G : forall l, (forall x, In x l -> wt t x = true) -> concat (map (spec_enc t) l) = []).
             { induction l as [|x l IHl]; intros Hl; [reflexivity|]. cbn [map concat]. rewrite (zero_enc x t Ez (Hl x (or_introl eq_refl))). apply IHl. intros y Hy. apply Hl. now right. }
             apply G. exact Hall. }
           rewrite Hz. cbn [app].
           rewrite Forall_forall in H.
           pose proof (H v1 (or_introl eq_refl) t false (Hall v1 (or_introl eq_refl)) Hs Hnt Hok Hpl Hem f rest ltac:(lia)) as Hv1.
           rewrite (zero_enc v1 t Ez (Hall v1 (or_introl eq_refl))) in Hv1. cbn [app] in Hv1. rewrite Hv1.
           cbn [prepend app]. reflexivity.
        -- rewrite Hloop. cbn [prepend app]. reflexivity.
      * rewrite Hloop. cbn [prepend app]. reflexivity.
  - (* tuple *)
    rewrite wt_tuple in Hwt. cbn [simple ty_ok depth] in *. rewrite spec_tuple.
    cbn [tag callbacks_b visit]. unfold drop, drop_last. cbn [skipn]. rewrite removelast_app_one.
    rewrite (tuple_loop_agrees full b sp f vs ts rest []); [cbn [prepend app]; reflexivity| |pose proof (tags_length_le ts); lia].
    clear rest Hnu. cbn [plain empties] in Hpl, Hem. revert ts Hwt Hs Hok Hfuel Hpl Hem. induction H as [|v vs Hv _ IH]; intros ts Hwt Hs Hok Hfuel Hpl Hem; destruct ts as [|t ts]; try discriminate; [constructor|]. destruct Hpl as [P1 P2]. destruct Hem as [M1 M2].
    cbn [wt_members forallb fold_right] in *. apply andb_true_iff in Hwt. destruct Hwt as [W1 W2]. apply andb_true_iff in Hs. destruct Hs as [S1 S2].
    apply andb_true_iff in Hok. destruct Hok as [O1 O2].
    constructor; [split; [exact O1|]|apply IH; auto; lia].
    assert (Hnt : t <> TUnit) by (intros ->; discriminate S1).
    intros r. apply (Hv t false W1 S1 Hnt O1 P1 M1). lia.
  - (* struct *)
    rewrite wt_struct in Hwt. cbn [simple ty_ok depth] in *. rewrite spec_struct.
    apply andb_true_iff in Hok. destruct Hok as [Hn Hfs].
    destruct (name_ok_transp _ Hn) as (_ & _ & _ & _ & H96 & _).
    cbn [plain empties] in Hpl, Hem. destruct Hpl as [Hsp Hpl]. destruct Hem as [Hem0 Hem]. fold (fields_tag fields) in Hsp.
    destruct (list_eq_nil_dec fields) as [Ef|Ef].
    + (* empty struct: {Name}, nothing to read *)
      subst fields. destruct vs as [|v0 vs0]; [|discriminate Hwt].
      cbn [tag callbacks_b map concat app spec_members visit]. unfold drop_last.
      replace (123 :: name ++ [125]) with ((123 :: name) ++ [125]) by reflexivity. rewrite removelast_app_one.
      unfold remove_prefix_before. rewrite (find_pos_notin (123 :: name) 96) by (intros [Q|Q]; [discriminate|contradiction]).
      rewrite firstn_all, skipn_all. rewrite (Hem0 eq_refl). unfold drop. cbn [skipn].
      change (fields_tag []) with (@nil N) in Hsp. rewrite Hsp. reflexivity.
    + assert (Hex : exists f0 fs0, fields = f0 :: fs0) by (destruct fields; [congruence|eauto]). destruct Hex as (f0 & fs0 & Ef0).
      assert (Hft : fields_tag fields = 96 :: (fst f0 ++ [39] ++ tag (snd f0)) ++ fields_tag fs0) by (rewrite Ef0; unfold fields_tag; cbn [map concat app]; reflexivity).
      cbn [tag callbacks_b visit]. fold (fields_tag fields). unfold drop_last.
      replace (123 :: name ++ fields_tag fields ++ [125]) with ((123 :: name ++ fields_tag fields) ++ [125]) by (cbn [app]; now rewrite <- app_assoc).
      rewrite removelast_app_one. unfold remove_prefix_before. rewrite Hft. rewrite (find_pos_struct name _ H96).
      replace (123 :: name ++ 96 :: (fst f0 ++ [39] ++ tag (snd f0)) ++ fields_tag fs0) with ((123 :: name) ++ 96 :: (fst f0 ++ [39] ++ tag (snd f0)) ++ fields_tag fs0) by reflexivity.
      change (S (length name)) with (length (123 :: name)). rewrite firstn_app_exact, skipn_app_exact. rewrite <- Hft. unfold drop. cbn [skipn].
      rewrite Hsp.
      rewrite (struct_loop_agrees full b sp f vs fields rest []); [cbn [prepend app]; reflexivity| |lia].
      clear Hft Ef Ef0 f0 fs0 rest Hnu Hsp Hem0. revert Hwt Hs Hfs Hfuel Hpl Hem. generalize fields as fs. induction H as [|v vs Hv _ IH]; intros fs Hwt Hs Hfs Hfuel Hpl Hem; destruct fs as [|fd fs]; try discriminate; [constructor|]. destruct Hpl as [P1 P2]. destruct Hem as [M1 M2].
      cbn [wt_members forallb fold_right map] in *. apply andb_true_iff in Hwt. destruct Hwt as [W1 W2]. apply andb_true_iff in Hs. destruct Hs as [S1 S2].
      apply andb_true_iff in Hfs. destruct Hfs as [O1 O2]. apply andb_true_iff in O1. destruct O1 as [L1 T1].
      constructor; [split; [exact L1|split; [exact T1|]]|apply IH; auto; lia].
      assert (Hnt : snd fd <> TUnit) by (intros Q; rewrite Q in S1; discriminate S1).
      intros r. apply (Hv (snd fd) false W1 S1 Hnt T1 P1 M1). lia.
  - (* null pointer / empty optional *)
    cbn [tag spec_enc callbacks_b visit]. unfold drop, drop_last. cbn [skipn app].
    replace (48 :: tag t ++ [62]) with ((48 :: tag t) ++ [62]) by reflexivity. rewrite removelast_app_one.
    change (take_n 1 (0 :: rest)) with (take_n 1 (le_enc 1 0 ++ rest)). rewrite take_n_le_enc, le_dec_enc by (cbn; lia). cbn [N.iter].
    rewrite (tfs_pop_plain 48 (tag t)) by (intros Q; discriminate Q). cbn [is_null_tag N.eqb Pos.eqb prepend app]. reflexivity.
  - (* non-null *)
    cbn [wt simple ty_ok depth] in *.
    cbn [tag spec_enc callbacks_b visit]. unfold drop, drop_last. cbn [skipn app].
    replace (48 :: tag t ++ [62]) with ((48 :: tag t) ++ [62]) by reflexivity. rewrite removelast_app_one.
    change (take_n 1 (1 :: spec_enc t v ++ rest)) with (take_n 1 (le_enc 1 1 ++ spec_enc t v ++ rest)). rewrite take_n_le_enc, le_dec_enc by (cbn; lia). cbn [N.iter Pos.iter].
    rewrite (tfs_pop_plain 48 (tag t)) by (intros Q; discriminate Q). cbn [snd].
    pose proof (tag_pop_tag t [] Hok) as Hp. rewrite app_nil_r in Hp. rewrite Hp.
    rewrite (not_null_tag t Hs).
    rewrite (IHv t false Hwt Hs ltac:(destruct t; try discriminate; congruence) Hok Hpl Hem f rest ltac:(lia)).
    cbn [prepend app]. rewrite <- ?app_assoc. reflexivity.
  - (* variant alternative *)
    cbn [wt simple ty_ok depth] in *. apply andb_true_iff in Hs. destruct Hs as [Hs H256]. apply N.ltb_lt in H256.
    destruct (nth_error ts i) as [ti|] eqn:Ei; [|discriminate].
    assert (Hi : (i < length ts)%nat) by (apply nth_error_Some; congruence).
    cbn [tag spec_enc callbacks_b visit]. rewrite Ei. unfold drop, drop_last. cbn [skipn].
    replace (concat (map tag ts) ++ [48; 62]) with ((concat (map tag ts) ++ [48]) ++ [62]) by (now rewrite <- app_assoc).
    rewrite removelast_app_one.
    rewrite N.mod_small by lia.
    cbn [take_n app le_dec]. rewrite N.mul_0_r, N.add_0_r.
    rewrite N2Nat.inj_iter, Nat2N.id, (iter_pop ts i ltac:(lia) Hok).
    destruct (nth_error_skipn ts i ti Ei) as [tl Etl]. rewrite Etl. cbn [map concat]. rewrite <- app_assoc.
    rewrite forallb_forall in Hok, Hs.
    pose proof (nth_error_In _ _ Ei) as Hin.
    rewrite (tag_pop_tag ti _ (Hok ti Hin)).
    destruct (ty_eq_unit ti) as [->|Hnt].
    + destruct v; try discriminate Hwt. cbn [tag is_null_tag N.eqb Pos.eqb prepend app spec_enc]. reflexivity.
    + assert (Hsf : simple false ti = true) by (apply simple_weaken; [exact (Hs ti Hin)|exact Hnt]).
      rewrite (not_null_tag ti Hsf).
      assert (Hpti : plain sp ti).
      { clear - Hpl Hin. cbn [plain] in Hpl. induction ts as [|x ts IHts]; [contradiction|]. destruct Hpl as [P1 P2]. destruct Hin as [->|Hin]; [exact P1|apply IHts; assumption]. }
      rewrite (IHv ti false Hwt Hsf Hnt (Hok ti Hin) Hpti (empties_member full ts ti Hem Hin) f rest).
      * destruct ti; try congruence; cbn [prepend app]; rewrite <- ?app_assoc; reflexivity.
      * pose proof (max_fold_ge ts ti Hin). lia.
  - (* valueless *)
    cbn [wt simple ty_ok depth] in *. apply andb_true_iff in Hs. destruct Hs as [Hs H256]. apply N.ltb_lt in H256.
    cbn [tag spec_enc callbacks_b visit]. unfold drop, drop_last. cbn [skipn].
    replace (concat (map tag ts) ++ [48; 62]) with ((concat (map tag ts) ++ [48]) ++ [62]) by (now rewrite <- app_assoc).
    rewrite removelast_app_one. rewrite N.mod_small by lia.
    cbn [take_n app le_dec]. rewrite N.mul_0_r, N.add_0_r.
    rewrite N2Nat.inj_iter, Nat2N.id, (iter_pop ts (length ts) (le_n _) Hok).
    rewrite skipn_all. cbn [map concat app].
    rewrite (tfs_pop_plain 48 []) by (intros Q; discriminate Q). cbn [is_null_tag N.eqb Pos.eqb prepend app]. reflexivity.
Qed.


(** with the real serializer and the recursion limit of visit.hpp *)
Lemma plain_no_special t : plain no_special t.
Proof.
  induction t using ty_ind'; cbn [plain]; auto.
  - induction H as [|x l Hx _ IH]; [exact I|split; assumption].
  - induction H as [|x l Hx _ IH]; [exact I|split; assumption].
  - split; [reflexivity|]. induction H as [|x l Hx _ IH]; [exact I|split; assumption].
Qed.

Theorem visit_agrees_partial full : forall v t inv, wt t v = true -> simple inv t = true -> t <> TUnit -> ty_ok t = true -> empties full t -> agrees full false no_special t v.
Proof.
  intros v t inv Hwt Hs Hnu Hok Hem. apply (visit_agrees_gen full false no_special v t inv); auto. apply plain_no_special.
Qed.

Corollary visit_agrees_2048 v t rest : wt t v = true -> simple false t = true -> ty_ok t = true -> empties (tag t) t -> (depth t <= 2048)%nat ->
  visit false no_special 2048 (tag t) (tag t) (enc t v ++ rest) = VOk (callbacks t v, rest).
Proof.
  intros Hwt Hs Hok Hem Hd. rewrite enc_is_documented by exact Hwt.
  apply (visit_agrees_partial (tag t) v t false Hwt Hs); auto. intros ->. discriminate Hs.
Qed.
