(** C05: deserializing what was serialized gives the value back (also into another type of the same shape);
    every strict prefix of an encoding is rejected with an error, never read past. *)
From Coq Require Import List NArith ZArith Bool Lia.
From BL Require Import Base.Bytes Reader.Entry Mser.Types Mser.Encode Mser.EncodeProofs Mser.Decode.
Import ListNotations.
Local Open Scope N_scope.

(** types the library can deserialize (adapt_stdvariant.hpp has no deserializer) *)
Fixpoint deser (t : ty) : bool :=
  match t with
  | TArith _ | TEnum _ _ _ | TUnit => true
  | TSeq _ e => deser e
  | TOpt e => deser e
  | TTuple ts => forallb deser ts
  | TStruct _ fs => forallb (fun f => deser (snd f)) fs
  | TVariant _ => false
  end.

Lemma take_raw_enc w x rest : x < 256 ^ N.of_nat w -> take_raw w (le_enc w x ++ rest) = DOk (VRaw x, rest).
Proof.
  intros H. unfold take_raw. pose proof (take_n_exact (le_enc w x) rest) as E. rewrite le_enc_length in E. rewrite E.
  now rewrite le_dec_enc.
Qed.

(** member loops of the decoder as plain functions *)
Fixpoint dec_members (ts : list ty) (l : bytes) : dres (list val * bytes) :=
  match ts with
  | [] => DOk ([], l)
  | t :: ts' => match dec t l with DErr e => DErr e
                | DOk (v, r) => match dec_members ts' r with DErr e => DErr e | DOk (vs, r') => DOk (v :: vs, r') end end
  end.
Lemma dec_tuple ts l : dec (TTuple ts) l = wrap_tup (dec_members ts l).
Proof. reflexivity. Qed.
Lemma dec_struct n fs l : dec (TStruct n fs) l = wrap_tup (dec_members (map snd fs) l).
Proof.
  cbn [dec]. f_equal. revert l. induction fs as [|f fs IH]; intros l; [reflexivity|]. cbn [dec_members map].
  destruct (dec (snd f) l) as [[v r]|e]; [|reflexivity]. now rewrite IH.
Qed.

Section RoundTrip.

Lemma dec_elems_spec e vs : forall rest,
  (forall v, In v vs -> forall r, dec e (spec_enc e v ++ r) = DOk (v, r)) ->
  dec_elems (dec e) (length vs) (concat (map (spec_enc e) vs) ++ rest) = DOk (vs, rest).
Proof.
  induction vs as [|v vs IH]; intros rest H; [reflexivity|].
  cbn [length dec_elems map concat]. rewrite <- app_assoc, (H v (or_introl eq_refl)).
  rewrite IH by (intros x Hx; apply H; now right). reflexivity.
Qed.

Lemma dec_elems_raw w vs : forall rest, Forall (fun v => exists x, v = VRaw x /\ x < 256 ^ N.of_nat w) vs ->
  dec_elems (take_raw w) (length vs) (concat (map (raw_bytes w) vs) ++ rest) = DOk (vs, rest).
Proof.
  induction vs as [|v vs IH]; intros rest H; [reflexivity|]. inversion H as [|? ? (x & -> & Hx) Hr]; subst.
  cbn [length dec_elems map concat raw_bytes]. rewrite <- app_assoc, take_raw_enc by exact Hx. rewrite IH by exact Hr. reflexivity.
Qed.

Lemma raw_concat_length w vs : Forall (fun v => exists x, v = VRaw x /\ x < 256 ^ N.of_nat w) vs ->
  length (concat (map (raw_bytes w) vs)) = (w * length vs)%nat.
Proof.
  induction 1 as [|v vs (x & -> & _) _ IH]; [cbn; lia|]. cbn [map concat raw_bytes length]. rewrite app_length, le_enc_length, IH. lia.
Qed.

Theorem dec_spec_enc : forall v t rest, wt t v = true -> deser t = true -> dec t (spec_enc t v ++ rest) = DOk (v, rest).
Proof.
  induction v using val_ind'; intros t rest Hwt Hd; destruct t; try discriminate.
  - cbn [wt spec_enc dec] in *. apply take_raw_enc. now apply N.ltb_lt.
  - cbn [wt spec_enc dec] in *. apply take_raw_enc. now apply N.ltb_lt.
  - (* sequence *)
    cbn [wt] in Hwt. apply andb_true_iff in Hwt. destruct Hwt as [Hwt Hext]. apply andb_true_iff in Hwt. destruct Hwt as [Hall Hlen].
    rewrite forallb_forall in Hall. apply N.ltb_lt in Hlen. cbn [deser] in Hd.
    cbn [spec_enc dec]. rewrite <- app_assoc, take_raw_enc by (cbn; lia).
    assert (Hel : forall r, dec_elems (dec t) (length vs) (concat (map (spec_enc t) vs) ++ r) = DOk (vs, r)).
    { intros r. apply dec_elems_spec. intros v Hv r'. rewrite Forall_forall in H. apply H; auto. }
    assert (Hbt : sk_contig k && is_arith t = true -> forall r, dec_batch (arith_width t) (length vs) (concat (map (spec_enc t) vs) ++ r) = DOk (vs, r)).
    { intros Hb r. apply andb_true_iff in Hb. destruct Hb as [_ Ha]. destruct t; try discriminate. cbn [arith_width].
      assert (Hraw : Forall (fun v => exists x, v = VRaw x /\ x < 256 ^ N.of_nat (awidth a)) vs).
      { rewrite Forall_forall. intros v Hv. specialize (Hall v Hv). destruct v; try discriminate. exists x. split; [reflexivity|]. now apply N.ltb_lt. }
      assert (Hsame : map (spec_enc (TArith a)) vs = map (raw_bytes (awidth a)) vs).
      { apply map_ext_in. intros v Hv. rewrite Forall_forall in Hraw. destruct (Hraw v Hv) as (x & -> & _). reflexivity. }
      rewrite Hsame. unfold dec_batch.
      pose proof (take_n_exact (concat (map (raw_bytes (awidth a)) vs)) r) as Et. rewrite (raw_concat_length _ _ Hraw) in Et. rewrite Et.
      pose proof (dec_elems_raw (awidth a) vs [] Hraw) as Ee. rewrite app_nil_r in Ee. now rewrite Ee. }
    destruct (sk_extent k) as [ext|].
    + apply Nat.eqb_eq in Hext. subst ext. rewrite N.eqb_refl.
      destruct (sk_contig k && is_arith t) eqn:Eb; [now rewrite Hbt|now rewrite Hel].
    + rewrite Nat2N.id. destruct (sk_contig k && is_arith t) eqn:Eb; [now rewrite Hbt|now rewrite Hel].
  - (* tuple *)
    rewrite wt_tuple in Hwt. rewrite spec_tuple, dec_tuple. cbn [deser] in Hd.
    assert (G : forall ts rest, wt_members vs ts = true -> forallb deser ts = true -> dec_members ts (spec_members vs ts ++ rest) = DOk (vs, rest)).
    { clear ts rest Hwt Hd. induction H as [|v vs Hv _ IH]; intros ts rest Hwt Hd.
      - destruct ts; [reflexivity|discriminate].
      - destruct ts as [|t ts]; [discriminate|]. cbn [wt_members spec_members dec_members forallb] in *.
        apply andb_true_iff in Hwt. destruct Hwt as [W1 W2]. apply andb_true_iff in Hd. destruct Hd as [D1 D2].
        rewrite <- app_assoc, (Hv t _ W1 D1), (IH ts _ W2 D2). reflexivity. }
    now rewrite G.
  - (* struct *)
    rewrite wt_struct in Hwt. rewrite spec_struct, dec_struct. cbn [deser] in Hd.
    assert (Hd' : forallb deser (map snd fields) = true) by (rewrite forallb_forall in *; intros x Hx; apply in_map_iff in Hx; destruct Hx as (f & <- & Hf); now apply Hd).
    assert (G : forall ts rest, wt_members vs ts = true -> forallb deser ts = true -> dec_members ts (spec_members vs ts ++ rest) = DOk (vs, rest)).
    { clear -H. induction H as [|v vs Hv _ IH]; intros ts rest Hwt Hd.
      - destruct ts; [reflexivity|discriminate].
      - destruct ts as [|t ts]; [discriminate|]. cbn [wt_members spec_members dec_members forallb] in *.
        apply andb_true_iff in Hwt. destruct Hwt as [W1 W2]. apply andb_true_iff in Hd. destruct Hd as [D1 D2].
        rewrite <- app_assoc, (Hv t _ W1 D1), (IH ts _ W2 D2). reflexivity. }
    now rewrite G.
  - (* none *) cbn [spec_enc dec]. change ([0] ++ rest) with (le_enc 1 0 ++ rest). now rewrite take_raw_enc by (cbn; lia).
  - (* some *) cbn [wt spec_enc dec deser] in *. change ((1 :: spec_enc t v) ++ rest) with (le_enc 1 1 ++ spec_enc t v ++ rest).
    rewrite take_raw_enc by (cbn; lia). cbn. now rewrite IHv.
  - reflexivity.
Qed.

End RoundTrip.

(** round trip through the real serializer *)
Theorem dec_enc v t rest : wt t v = true -> deser t = true -> dec t (enc t v ++ rest) = DOk (v, rest).
Proof. intros Hwt Hd. rewrite enc_is_documented by exact Hwt. now apply dec_spec_enc. Qed.

(** tag-compatible destination: same shape, whatever the containers (vector/list/deque/array/C array, pair/tuple) *)
Fixpoint compat (s d : ty) {struct s} : bool :=
  match s, d with
  | TArith a, TArith b => N.eqb (atag a) (atag b)
  | TEnum n a es, TEnum n' a' es' => N.eqb (atag a) (atag a')
  | TSeq _ e, TSeq _ e' => compat e e'
  | TTuple ts, TTuple ts' => (fix go (ts ts' : list ty) : bool := match ts, ts' with [], [] => true | t :: r, t' :: r' => compat t t' && go r r' | _, _ => false end) ts ts'
  | TStruct n fs, TStruct n' fs' => (fix go (fs fs' : list (bytes * ty)) : bool := match fs, fs' with [], [] => true | f :: r, f' :: r' => compat (snd f) (snd f') && go r r' | _, _ => false end) fs fs'
  | TOpt e, TOpt e' => compat e e'
  | TUnit, TUnit => true
  | _, _ => false
  end.

(** * truncation *)
Lemma firstn_app_lt {A} k (a b : list A) : (k < length a)%nat -> firstn k (a ++ b) = firstn k a.
Proof. intros H. rewrite firstn_app. replace (k - length a)%nat with 0%nat by lia. now rewrite firstn_O, app_nil_r. Qed.
Lemma firstn_app_ge {A} k (a b : list A) : (length a <= k)%nat -> firstn k (a ++ b) = a ++ firstn (k - length a) b.
Proof. intros H. rewrite firstn_app. now rewrite firstn_all2 by lia. Qed.

Lemma take_raw_short w l : (length l < w)%nat -> take_raw w l = DErr DShort.
Proof. intros H. unfold take_raw. destruct (take_n w l) as [[h r]|] eqn:E; [|reflexivity]. apply take_n_app in E. destruct E as [-> E]. rewrite app_length in H. lia. Qed.

Definition trunc_fails (t : ty) (v : val) : Prop :=
  forall k, (k < length (spec_enc t v))%nat -> dec t (firstn k (spec_enc t v)) = DErr DShort.

Lemma dec_elems_trunc e vs :
  (forall v, In v vs -> trunc_fails e v /\ forall r, dec e (spec_enc e v ++ r) = DOk (v, r)) ->
  forall k, (k < length (concat (map (spec_enc e) vs)))%nat ->
  dec_elems (dec e) (length vs) (firstn k (concat (map (spec_enc e) vs))) = DErr DShort.
Proof.
  induction vs as [|v vs IH]; intros H k Hk; [cbn in Hk; lia|].
  cbn [map concat length dec_elems] in *. rewrite app_length in Hk.
  destruct (H v (or_introl eq_refl)) as [Ht Hr].
  destruct (Nat.lt_ge_cases k (length (spec_enc e v))) as [Hlt|Hge].
  - rewrite firstn_app_lt by exact Hlt. now rewrite (Ht k Hlt).
  - rewrite firstn_app_ge by exact Hge. rewrite Hr. rewrite IH; [reflexivity|intros x Hx; apply H; now right|lia].
Qed.

Lemma dec_members_trunc vs : forall ts,
  Forall2 (fun v t => trunc_fails t v /\ forall r, dec t (spec_enc t v ++ r) = DOk (v, r)) vs ts ->
  forall k, (k < length (spec_members vs ts))%nat -> dec_members ts (firstn k (spec_members vs ts)) = DErr DShort.
Proof.
  induction vs as [|v vs IH]; intros ts H k Hk; inversion H as [|? t ? ts' [Ht Hr] Hrest]; subst; [cbn in Hk; lia|].
  cbn [spec_members dec_members] in *. rewrite app_length in Hk.
  destruct (Nat.lt_ge_cases k (length (spec_enc t v))) as [Hlt|Hge].
  - rewrite firstn_app_lt by exact Hlt. now rewrite (Ht k Hlt).
  - rewrite firstn_app_ge by exact Hge. rewrite Hr. rewrite (IH ts' Hrest); [reflexivity|lia].
Qed.

Theorem truncation_fails : forall v t, wt t v = true -> deser t = true -> trunc_fails t v.
Proof.
  induction v using val_ind'; intros t Hwt Hd; destruct t; try discriminate; unfold trunc_fails; intros n Hn.
  - cbn [spec_enc dec] in *. apply take_raw_short. rewrite firstn_length, le_enc_length in *. lia.
  - cbn [spec_enc dec] in *. apply take_raw_short. rewrite firstn_length, le_enc_length in *. lia.
  - (* sequence *)
    pose proof Hwt as Hwt0.
    cbn [wt] in Hwt. apply andb_true_iff in Hwt. destruct Hwt as [Hwt Hext]. apply andb_true_iff in Hwt. destruct Hwt as [Hall Hlen].
    rewrite forallb_forall in Hall. apply N.ltb_lt in Hlen. cbn [deser] in Hd.
    cbn [spec_enc dec] in *. rewrite app_length, le_enc_length in Hn.
    destruct (Nat.lt_ge_cases n 4) as [H4|H4].
    + rewrite take_raw_short; [reflexivity|]. rewrite firstn_length, app_length, le_enc_length. lia.
    + rewrite firstn_app_ge by (rewrite le_enc_length; lia). rewrite le_enc_length.
      rewrite take_raw_enc by (cbn; lia).
      set (body := concat (map (spec_enc t) vs)) in *. set (n' := (n - 4)%nat). assert (Hn' : (n' < length body)%nat) by (unfold n'; lia).
      assert (Hel : dec_elems (dec t) (length vs) (firstn n' body) = DErr DShort).
      { apply dec_elems_trunc; [|exact Hn']. intros v Hv. rewrite Forall_forall in H. split; [apply H; auto|]. intros r. apply dec_spec_enc; auto. }
      assert (Hbt : sk_contig k && is_arith t = true -> dec_batch (arith_width t) (length vs) (firstn n' body) = DErr DShort).
      { intros Hb. apply andb_true_iff in Hb. destruct Hb as [_ Ha]. destruct t; try discriminate. cbn [arith_width].
        assert (Hraw : Forall (fun v => exists x, v = VRaw x /\ x < 256 ^ N.of_nat (awidth a)) vs).
        { rewrite Forall_forall. intros v Hv. specialize (Hall v Hv). destruct v; try discriminate. exists x. split; [reflexivity|]. now apply N.ltb_lt. }
        assert (Hsame : map (spec_enc (TArith a)) vs = map (raw_bytes (awidth a)) vs).
        { apply map_ext_in. intros v Hv. rewrite Forall_forall in Hraw. destruct (Hraw v Hv) as (x & -> & _). reflexivity. }
        unfold dec_batch. destruct (take_n (awidth a * length vs) (firstn n' body)) as [[blk r]|] eqn:E; [|reflexivity].
        exfalso. apply take_n_app in E. destruct E as [E1 E2]. apply (f_equal (@length _)) in E1. rewrite firstn_length, app_length, E2 in E1.
        unfold body in *. rewrite Hsame, (raw_concat_length _ _ Hraw) in *. lia. }
      destruct (sk_extent k) as [ext|].
      * apply Nat.eqb_eq in Hext. subst ext. rewrite N.eqb_refl.
        destruct (sk_contig k && is_arith t) eqn:Eb; [now rewrite Hbt|now rewrite Hel].
      * rewrite Nat2N.id. destruct (sk_contig k && is_arith t) eqn:Eb; [now rewrite Hbt|now rewrite Hel].
  - (* tuple *)
    rewrite wt_tuple in Hwt. rewrite spec_tuple in *. rewrite dec_tuple. cbn [deser] in Hd.
    rewrite dec_members_trunc; [reflexivity| |exact Hn].
    clear n Hn. revert ts Hwt Hd. induction H as [|v vs Hv _ IH]; intros ts Hwt Hd; destruct ts as [|t ts]; try discriminate; [constructor|].
    cbn [wt_members forallb] in *. apply andb_true_iff in Hwt. destruct Hwt as [W1 W2]. apply andb_true_iff in Hd. destruct Hd as [D1 D2].
    constructor; [split; [now apply Hv|intros r; now apply dec_spec_enc]|now apply IH].
  - (* struct *)
    rewrite wt_struct in Hwt. rewrite spec_struct in *. rewrite dec_struct. cbn [deser] in Hd.
    assert (Hd' : forallb deser (map snd fields) = true) by (rewrite forallb_forall in *; intros x Hx; apply in_map_iff in Hx; destruct Hx as (f & <- & Hf); now apply Hd).
    rewrite dec_members_trunc; [reflexivity| |exact Hn].
    clear n Hn Hd. revert Hwt Hd'. generalize (map snd fields) as ts. induction H as [|v vs Hv _ IH]; intros ts Hwt Hd; destruct ts as [|t ts]; try discriminate; [constructor|].
    cbn [wt_members forallb] in *. apply andb_true_iff in Hwt. destruct Hwt as [W1 W2]. apply andb_true_iff in Hd. destruct Hd as [D1 D2].
    constructor; [split; [now apply Hv|intros r; now apply dec_spec_enc]|now apply IH].
  - (* none *) cbn [spec_enc dec length] in *. assert (n = 0%nat) by lia. subst. reflexivity.
  - (* some *) cbn [wt spec_enc dec deser length] in *. destruct n as [|n]; [reflexivity|].
    cbn [firstn]. change (1 :: firstn n (spec_enc t v)) with (le_enc 1 1 ++ firstn n (spec_enc t v)). rewrite take_raw_enc by (cbn; lia). cbn.
    rewrite (IHv t Hwt Hd n) by lia. reflexivity.
  - cbn in Hn. lia.
Qed.

(** every strict prefix of the bytes the serializer produced is rejected *)
Theorem truncated_input_fails v t k : wt t v = true -> deser t = true -> (k < length (enc t v))%nat ->
  dec t (firstn k (enc t v)) = DErr DShort.
Proof. intros Hwt Hd Hk. rewrite enc_is_documented in * by exact Hwt. now apply truncation_fails. Qed.

(** * deserializing into a different type of the same shape *)
Lemma spec_enc_compat : forall v s d, compat s d = true -> wt s v = true -> spec_enc s v = spec_enc d v.
Proof.
  induction v using val_ind'; intros s d Hc Hwt; destruct s; try discriminate; destruct d; try discriminate; try reflexivity.
  - cbn [compat spec_enc] in *. apply N.eqb_eq in Hc. destruct a, a0; try discriminate; reflexivity.
  - cbn [compat spec_enc] in *. apply N.eqb_eq in Hc. destruct a, a0; try discriminate; reflexivity.
  - cbn [compat spec_enc wt] in *. apply andb_true_iff in Hwt. destruct Hwt as [Hwt _]. apply andb_true_iff in Hwt. destruct Hwt as [Hall _].
    rewrite forallb_forall in Hall. f_equal. f_equal. apply map_ext_in. intros v Hv. rewrite Forall_forall in H. apply H; auto.
  - rewrite wt_tuple in Hwt. rewrite !spec_tuple. cbn [compat] in Hc.
    revert ts ts0 Hc Hwt. induction H as [|v vs Hv _ IH]; intros ts ts' Hc Hwt; [destruct ts, ts'; try discriminate; reflexivity|].
    destruct ts as [|t ts]; [discriminate|]. destruct ts' as [|t' ts']; [discriminate|].
    cbn [wt_members spec_members] in *. apply andb_true_iff in Hwt. destruct Hwt as [W1 W2]. apply andb_true_iff in Hc. destruct Hc as [C1 C2].
    rewrite (Hv t t' C1 W1), (IH ts ts' C2 W2). reflexivity.
  - rewrite wt_struct in Hwt. rewrite !spec_struct. cbn [compat] in Hc.
    revert fields fields0 Hc Hwt. induction H as [|v vs Hv _ IH]; intros fs fs' Hc Hwt; [destruct fs, fs'; try discriminate; reflexivity|].
    destruct fs as [|f fs]; [discriminate|]. destruct fs' as [|f' fs']; [discriminate|].
    cbn [wt_members spec_members map] in *. apply andb_true_iff in Hwt. destruct Hwt as [W1 W2]. apply andb_true_iff in Hc. destruct Hc as [C1 C2].
    rewrite (Hv _ _ C1 W1), (IH fs fs' C2 W2). reflexivity.
  - cbn [compat spec_enc wt] in *. f_equal. now apply IHv.
Qed.

(** serialize as [s], deserialize as a tag-compatible [d] (list for vector, pair for 2-tuple, array for vector of the right
    length ...): the value comes back, provided it is a value of [d] too (fixed extents match) *)
Theorem dec_compatible v s d rest : compat s d = true -> wt s v = true -> wt d v = true -> deser d = true ->
  dec d (enc s v ++ rest) = DOk (v, rest).
Proof.
  intros Hc Hs Hd Hdes. rewrite enc_is_documented by exact Hs. rewrite (spec_enc_compat v s d Hc Hs). now apply dec_spec_enc.
Qed.

(** a fixed-size destination whose extent differs from the encoded count is rejected *)
Theorem fixed_size_mismatch_fails k e ext (vs : list val) rest : sk_extent k = Some ext -> length vs <> ext -> N.of_nat (length vs) < 4294967296 ->
  dec (TSeq k e) (le_enc 4 (N.of_nat (length vs)) ++ rest) = DErr DSizeMismatch.
Proof.
  intros Hk Hne Hlen. cbn [dec]. rewrite take_raw_enc by (cbn; lia). rewrite Hk.
  destruct (N.eqb_spec (N.of_nat ext) (N.of_nat (length vs))); [lia|reflexivity].
Qed.
