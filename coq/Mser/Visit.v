(** tag_util.hpp, Singular.hpp, Visit.hpp on tag STRINGS (any byte string, as read from a log file), producing
    the sequence of visitor callbacks. mserialize::string_view semantics (clamping remove_prefix / remove_suffix,
    find) are explicit. Definitions only. *)
From Coq Require Import List NArith ZArith Bool.
From BL Require Import Base.Bytes Mser.Types Mser.Tag.
Import ListNotations.
Local Open Scope N_scope.

Definition drop (n : nat) (s : bytes) : bytes := skipn n s.                       (* remove_prefix (clamped) *)
Definition drop_last (s : bytes) : bytes := removelast s.                        (* remove_suffix(1) (clamped) *)

(** size_between_balanced(s, open, close): s starts with [open] *)
Fixpoint sbb_aux (s : bytes) (op cl : N) (count : nat) (i : nat) : nat :=
  match s with
  | [] => i
  | c :: r => if c =? op then sbb_aux r op cl (S count) (S i)
              else if c =? cl then match count with
                                   | 1%nat => S i
                                   | _ => sbb_aux r op cl (pred count) (S i)
                                   end
              else sbb_aux r op cl count (S i)
  end.
Definition size_between_balanced (s : bytes) (op cl : N) : nat :=
  match s with [] => 1%nat | _ :: r => sbb_aux r op cl 1 1 end.

Fixpoint find_pos (s : bytes) (c : N) : nat := match s with [] => 0%nat | x :: r => if x =? c then 0%nat else S (find_pos r c) end.
Definition remove_prefix_before (s : bytes) (c : N) : bytes * bytes := (firstn (find_pos s c) s, skipn (find_pos s c) s).

Fixpoint count_seq_prefix (s : bytes) : nat := match s with 91 :: r => S (count_seq_prefix r) | _ => 0%nat end.
Definition tag_first_size (tags : bytes) : nat :=
  let n := count_seq_prefix tags in
  let rest := skipn n tags in
  match rest with
  | [] => n
  | c :: _ => let k := if c =? 40 then size_between_balanced rest 40 41
                        else if c =? 60 then size_between_balanced rest 60 62
                        else if c =? 123 then size_between_balanced rest 123 125
                        else if c =? 47 then size_between_balanced rest 47 92
                        else 1%nat in (n + k)%nat
  end.
Definition tag_pop (tags : bytes) : bytes * bytes := (firstn (tag_first_size tags) tags, skipn (tag_first_size tags) tags).
(** tag_pop_label: drop `, read up to ', drop ' *)
Definition tag_pop_label (tags : bytes) : bytes * bytes :=
  let t := drop 1 tags in let n := find_pos t 39 in (firstn n t, skipn (S n) t).

(** string_view::find: offset of the first occurrence, None = npos; empty needle found at 0 *)
Fixpoint is_prefix (p s : bytes) : bool := match p, s with [], _ => true | a :: p', b :: s' => (a =? b) && is_prefix p' s' | _, _ => false end.
Fixpoint find_sub (s needle : bytes) : option nat :=
  if is_prefix needle s then Some 0%nat else match s with [] => None | _ :: r => option_map S (find_sub r needle) end.

(** resolve_recursive_tag(full_tag, intro); fuel = length of full_tag *)
Fixpoint resolve_aux (fuel : nat) (full intro : bytes) : bytes :=
  match fuel with
  | O => []
  | S f =>
    match full with
    | [] => []
    | _ =>
      match find_sub full intro with
      | None => []       (* remove_prefix(npos) empties the view *)
      | Some p =>
        let rest := skipn (p + length intro) full in
        match rest with
        | [] => []
        | 125 :: _ => []                                            (* empty struct *)
        | 96 :: _ => firstn (pred (size_between_balanced rest 123 125)) rest   (* definition found *)
        | _ => resolve_aux f rest intro
        end
      end
    end
  end.
Definition resolve_recursive_tag (full intro : bytes) : bytes :=
  match intro with [] => [] | _ => resolve_aux (S (length full)) full intro end.

(** visitor callbacks *)
Inductive cb :=
| CArith (letter : N) (raw : N)                       (* visit(T): kind by tag letter, object bytes as a number *)
| CSeqBegin (size : N) (elem_tag : bytes) | CSeqEnd
| CSeqChars (chars : bytes)                           (* ToStringVisitor's shortcut for [c: the visitor consumes the bytes itself *)
| CTupleBegin (tag : bytes) | CTupleEnd
| CVariantBegin (disc : N) (opt_tag : bytes) | CVariantEnd | CNull
| CEnum (name enumerator : bytes) (under : N) (hexvalue : bytes)
| CStructBegin (name tag : bytes) | CStructEnd
| CFieldBegin (name tag : bytes) | CFieldEnd
| CRepeatBegin (size : N) (tag : bytes) | CRepeatEnd (size : N) (tag : bytes)
| CSpecial (text : bytes).                            (* a struct the visitor rendered itself (PrettyPrinter::printStruct) *)

Inductive verr := VShort | VBadArith (c : N) | VBadEnum | VRecursion.
Inductive vres (A : Type) := VOk (a : A) | VErr (e : verr) (partial : list cb).
Arguments VOk {A} a. Arguments VErr {A} e partial.

Definition arith_of_letter (c : N) : option aty :=
  if c =? 121 then Some ABool else if c =? 99 then Some AChar else if c =? 98 then Some AI8 else if c =? 115 then Some AI16
  else if c =? 105 then Some AI32 else if c =? 108 then Some AI64 else if c =? 66 then Some AU8 else if c =? 83 then Some AU16
  else if c =? 73 then Some AU32 else if c =? 76 then Some AU64 else if c =? 102 then Some AF32 else if c =? 100 then Some AF64
  else if c =? 68 then Some AF80 else None.

(** singular(full_tag, tag, max_recursion): does a value of this tag occupy zero bytes? None = recursion limit *)
Fixpoint singular (fuel : nat) (full tag : bytes) {struct fuel} : option bool :=
  match fuel with
  | O => None
  | S f =>
    match tag with
    | [] => Some true
    | 40 :: _ =>
      let inner := drop_last (drop 1 tag) in
      (fix loop (n : nat) (t : bytes) : option bool :=
         match n with O => Some true | S n' =>
           let (e, r) := tag_pop t in
           match e with [] => Some true | _ =>
             match singular f full e with Some true => loop n' r | other => other end end end) (S (length inner)) inner
    | 123 :: _ =>
      let body := drop_last tag in
      let (intro, t) := remove_prefix_before body 96 in
      match t with
      | [] => let rt := resolve_recursive_tag full intro in
              let (_, rest) := tag_pop_label rt in Some (match rest with [] => true | _ => false end)
      | _ => (fix loop (n : nat) (t : bytes) : option bool :=
                match n with O => Some true | S n' =>
                  match t with [] => Some true | _ =>
                    let (_, t1) := tag_pop_label t in
                    let (ft, t2) := tag_pop t1 in
                    match singular f full ft with Some true => loop n' t2 | other => other end end end) (S (length t)) t
      end
    | _ => Some false
    end
  end.

Definition is_null_tag (t : bytes) : bool := match t with [c] => c =? 48 | _ => false end.   (* option_tag == "0" *)

Section Visit.
(** does the visitor take over a sequence of chars / a special struct? (ToStringVisitor + PrettyPrinter::printStruct);
    plain mserialize visitors never skip *)
Variable seq_shortcut : bool.
(** PrettyPrinter::printStruct: None = not special; Some None = special but the input is too short;
    Some (Some (text, rest)) = rendered by the visitor itself *)
Variable struct_special : bytes -> bytes -> bytes -> option (option (bytes * bytes)).

Definition visit_arith (c : N) (l : bytes) : vres (list cb * bytes) :=
  match arith_of_letter c with
  | None => VErr (VBadArith c) []
  | Some a => match take_n (awidth a) l with
              | Some (h, r) => VOk ([CArith c (le_dec h)], r)
              | None => VErr VShort []
              end
  end.

Definition prepend (pre : list cb) (r : vres (list cb * bytes)) : vres (list cb * bytes) :=
  match r with VOk (cs, l) => VOk (pre ++ cs, l) | VErr e p => VErr e (pre ++ p) end.

(** the element / member loops, parameterised by the recursive call [rec tag input] *)
Section Loops.
Variable rec : bytes -> bytes -> vres (list cb * bytes).

Fixpoint seq_loop (etag : bytes) (n : nat) (l : bytes) (acc : list cb) : vres (list cb * bytes) :=
  match n with
  | O => VOk (acc ++ [CSeqEnd], l)
  | S n' => match rec etag l with
            | VOk (cs, l') => seq_loop etag n' l' (acc ++ cs)
            | VErr e p => VErr e (acc ++ p)
            end
  end.

(** the same loop with a binary counter: once an element fails, the pending iterations are skipped, so a hostile count
    of 2^32 costs the model what it costs the code (one failing read), not 2^32 Peano cells.
    [VisitProofs.seq_loopN_eq] proves it equal to [seq_loop] at [N.to_nat size]. *)
Definition seq_step (etag : bytes) (st : vres (list cb * bytes)) : vres (list cb * bytes) :=
  match st with
  | VOk (acc, l) => match rec etag l with
                    | VOk (cs, l') => VOk (acc ++ cs, l')
                    | VErr e p => VErr e (acc ++ p)
                    end
  | VErr e p => VErr e p
  end.
Fixpoint iter_sc (etag : bytes) (p : positive) (st : vres (list cb * bytes)) : vres (list cb * bytes) :=
  match st with
  | VErr e q => VErr e q
  | VOk _ =>
    match p with
    | xH => seq_step etag st
    | xO p' => iter_sc etag p' (iter_sc etag p' st)
    | xI p' => seq_step etag (iter_sc etag p' (iter_sc etag p' st))
    end
  end.
Definition seq_loopN (etag : bytes) (size : N) (l : bytes) (acc : list cb) : vres (list cb * bytes) :=
  match (match size with N0 => VOk (acc, l) | Npos p => iter_sc etag p (VOk (acc, l)) end) with
  | VOk (acc', l') => VOk (acc' ++ [CSeqEnd], l')
  | VErr e p => VErr e p
  end.

Fixpoint tuple_loop (n : nat) (t : bytes) (l : bytes) (acc : list cb) : vres (list cb * bytes) :=
  match n with
  | O => VOk (acc ++ [CTupleEnd], l)
  | S n' => let (e, r) := tag_pop t in
            match e with
            | [] => VOk (acc ++ [CTupleEnd], l)
            | _ => match rec e l with
                   | VOk (cs, l') => tuple_loop n' r l' (acc ++ cs)
                   | VErr er p => VErr er (acc ++ p)
                   end
            end
  end.

Fixpoint struct_loop (n : nat) (t : bytes) (l : bytes) (acc : list cb) : vres (list cb * bytes) :=
  match n with
  | O => VOk (acc ++ [CStructEnd], l)
  | S n' => match t with
            | [] => VOk (acc ++ [CStructEnd], l)
            | _ => let (fname, t1) := tag_pop_label t in
                   let (ftag, t2) := tag_pop t1 in
                   match rec ftag l with
                   | VOk (cs, l') => struct_loop n' t2 l' (acc ++ [CFieldBegin fname ftag] ++ cs ++ [CFieldEnd])
                   | VErr e p => VErr e (acc ++ [CFieldBegin fname ftag] ++ p)
                   end
            end
  end.
End Loops.

Definition enum_callback (inner : bytes) (a : aty) (u : N) (h : bytes) : cb :=
  (* IntegerToHex visits integral kinds only; for floating kinds the buffer stays empty *)
  let hexv := match a with AF32 | AF64 | AF80 => [] | ABool => [if le_dec h =? 0 then 48 else 49] | _ => hex_Z (raw_to_Z a (le_dec h)) end in
  let t := drop 2 inner in
  let (name, t1) := remove_prefix_before t 39 in
  let dvalue := [39] ++ hexv ++ [96] in
  let enumerator := match find_sub t1 dvalue with
                    | Some p => fst (tag_pop_label (skipn (p + length dvalue - 1) t1))
                    | None => []
                    end in
  CEnum name enumerator u hexv.

(** [fuel] is max_recursion (2048 in visit.hpp) *)
Fixpoint visit (fuel : nat) (full tag : bytes) (l : bytes) {struct fuel} : vres (list cb * bytes) :=
  match fuel with
  | O => VErr VRecursion []
  | S f =>
    match tag with
    | [] => VOk ([], l)
    | 91 :: t1 =>                                                     (* visit_sequence *)
      match take_n 4 l with
      | None => VErr VShort []
      | Some (h, r) =>
        let size := le_dec h in
        let (etag, _) := tag_pop t1 in
        if seq_shortcut && (match etag with [99] => true | _ => false end) then
          match takeN size r with
          | Some (chars, r') => VOk ([CSeqChars chars], r')
          | None => VErr VShort []
          end
        else
          prepend [CSeqBegin size etag]
            (match (if 32 <? size then singular f full etag else Some false) with
             | None => VErr VRecursion []
             | Some true =>
                 match visit f full etag r with
                 | VOk (cs, r') => VOk ([CRepeatBegin size etag] ++ cs ++ [CRepeatEnd size etag; CSeqEnd], r')
                 | VErr e p => VErr e (CRepeatBegin size etag :: p)
                 end
             | Some false => seq_loopN (visit f full) etag size r []
             end)
      end
    | 40 :: _ =>                                                      (* visit_tuple *)
      let inner := drop_last (drop 1 tag) in
      prepend [CTupleBegin inner] (tuple_loop (visit f full) (S (length inner)) inner l [])
    | 60 :: _ =>                                                      (* visit_variant *)
      let inner := drop_last (drop 1 tag) in
      match take_n 1 l with
      | None => VErr VShort []
      | Some (h, r) =>
        let disc := le_dec h in
        let t := N.iter disc (fun t => snd (tag_pop t)) inner in
        let (opt, _) := tag_pop t in
        prepend [CVariantBegin disc opt]
          (if is_null_tag opt then VOk ([CNull; CVariantEnd], r)
           else match visit f full opt r with
                | VOk (cs, r') => VOk (cs ++ [CVariantEnd], r')
                | VErr e p => VErr e p
                end)
      end
    | 123 :: _ =>                                                     (* visit_struct *)
      let body := drop_last tag in
      let (intro, t0) := remove_prefix_before body 96 in
      let t := match t0 with [] => resolve_recursive_tag full intro | _ => t0 end in
      let name := drop 1 intro in
      match struct_special name t l with
      | Some (Some (txt, r)) => VOk ([CSpecial txt], r)
      | Some None => VErr VShort []
      | None => prepend [CStructBegin name t] (struct_loop (visit f full) (S (length t)) t l [])
      end
    | 47 :: _ =>                                                      (* visit_enum *)
      let inner := drop_last (drop 1 tag) in
      match inner with
      | [] => VErr VBadEnum []
      | u :: _ =>
        match arith_of_letter u with
        | None => VErr (VBadArith u) []
        | Some a =>
          match take_n (awidth a) l with
          | None => VErr VShort []
          | Some (h, r) => VOk ([enum_callback inner a u h], r)
          end
        end
      end
    | c :: _ => visit_arith c l
    end
  end.

End Visit.
