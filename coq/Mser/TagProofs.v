(** C06, part 1: tags are well formed and split back: tag_pop on (tag t ++ rest) returns exactly (tag t, rest). *)
From Coq Require Import List NArith ZArith Bool Lia.
From BL Require Import Base.Bytes Mser.Types Mser.Tag Mser.Visit.
Import ListNotations.
Local Open Scope N_scope.

(** a word is transparent for the scanner of one bracket kind if scanning it with any counter >= 1 neither stops
    nor changes the counter *)
Definition transp (op cl : N) (u : bytes) : Prop :=
  forall r c i, (1 <= c)%nat -> sbb_aux (u ++ r) op cl c i = sbb_aux r op cl c (i + length u)%nat.

Lemma transp_nil op cl : transp op cl [].
Proof. intros r c i _. cbn. f_equal. lia. Qed.

Lemma transp_app op cl u w : transp op cl u -> transp op cl w -> transp op cl (u ++ w).
Proof. intros Hu Hw r c i Hc. rewrite <- app_assoc, Hu, Hw by exact Hc. rewrite app_length. f_equal. lia. Qed.

Lemma transp_char op cl x : x <> op -> x <> cl -> transp op cl [x].
Proof.
  intros H1 H2 r c i _. cbn [app sbb_aux].
  destruct (N.eqb_spec x op); [contradiction|]. destruct (N.eqb_spec x cl); [contradiction|]. cbn. f_equal. lia.
Qed.

Lemma transp_concat op cl us : Forall (transp op cl) us -> transp op cl (concat us).
Proof. induction 1; cbn [concat]; [apply transp_nil|now apply transp_app]. Qed.

Lemma transp_bracket op cl u : op <> cl -> transp op cl u -> transp op cl (op :: u ++ [cl]).
Proof.
  intros Hne Hu r c i Hc. cbn [app sbb_aux]. rewrite N.eqb_refl.
  rewrite <- app_assoc, Hu by lia. cbn [app sbb_aux].
  destruct (N.eqb_spec cl op); [congruence|]. rewrite N.eqb_refl.
  destruct c as [|c']; [lia|]. cbn [pred]. f_equal. cbn [length]. rewrite ?app_length. cbn [length]. lia.
Qed.

(** the whole bracketed word, from the top: size_between_balanced returns its length *)
Lemma sbb_bracket op cl u rest : op <> cl -> transp op cl u ->
  size_between_balanced ((op :: u ++ [cl]) ++ rest) op cl = length (op :: u ++ [cl]).
Proof.
  intros Hne Hu. unfold size_between_balanced. cbn [app]. rewrite <- app_assoc, Hu by lia. cbn [app sbb_aux].
  destruct (N.eqb_spec cl op); [congruence|]. rewrite N.eqb_refl. cbn [length]. rewrite ?app_length. cbn [length]. lia.
Qed.

(** names: no ` ' / \ and balanced ( ) < > { } *)
Fixpoint balanced_b (op cl : N) (depth : nat) (s : bytes) : bool :=
  match s with
  | [] => Nat.eqb depth 0
  | c :: r => if c =? op then balanced_b op cl (S depth) r
              else if c =? cl then match depth with O => false | S d => balanced_b op cl d r end
              else balanced_b op cl depth r
  end.
Definition name_ok (s : bytes) : bool :=
  forallb (fun c => negb ((c =? 96) || (c =? 39) || (c =? 47) || (c =? 92))) s &&
  balanced_b 40 41 0 s && balanced_b 60 62 0 s && balanced_b 123 125 0 s.

Lemma balanced_transp op cl : op <> cl -> forall s d, balanced_b op cl d s = true ->
  forall r c i, (1 <= c)%nat -> sbb_aux (s ++ r) op cl (c + d) i = sbb_aux r op cl c (i + length s)%nat.
Proof.
  intros Hne. induction s as [|x s IH]; intros d H r c i Hc.
  - cbn in *. apply Nat.eqb_eq in H. subst. rewrite !Nat.add_0_r. reflexivity.
  - cbn [balanced_b app sbb_aux length] in *. destruct (N.eqb_spec x op) as [->|Hxo].
    + replace (S (c + d)) with (c + S d)%nat by lia. rewrite (IH (S d) H) by exact Hc. f_equal. lia.
    + destruct (N.eqb_spec x cl) as [->|Hxc].
      * destruct d as [|d]; [discriminate|]. replace (c + S d)%nat with (S (c + d)) by lia.
        destruct (c + d)%nat eqn:E; [lia|]. cbn [pred]. rewrite <- E. rewrite (IH d H) by exact Hc. f_equal. lia.
      * rewrite (IH d H) by exact Hc. f_equal. lia.
Qed.

Lemma no_bracket_transp op cl s : forallb (fun c => negb ((c =? op) || (c =? cl))) s = true -> transp op cl s.
Proof.
  induction s as [|x s IH]; intros H; [apply transp_nil|]. cbn [forallb] in H. apply andb_true_iff in H. destruct H as [Hx Hs].
  change (x :: s) with ([x] ++ s). apply transp_app; [|now apply IH].
  apply negb_true_iff, orb_false_iff in Hx. destruct Hx as [H1 H2]. apply transp_char; [now apply N.eqb_neq|now apply N.eqb_neq].
Qed.

Lemma name_ok_transp s : name_ok s = true ->
  transp 40 41 s /\ transp 60 62 s /\ transp 123 125 s /\ transp 47 92 s /\ ~ In 96 s /\ ~ In 39 s.
Proof.
  unfold name_ok. intros H. repeat (apply andb_true_iff in H; destruct H as [H ?]).
  assert (Hb : forall op cl, op <> cl -> balanced_b op cl 0 s = true -> transp op cl s).
  { intros op cl Hne Hbal r c i Hc. pose proof (balanced_transp op cl Hne s 0%nat Hbal r c i Hc) as E. now rewrite Nat.add_0_r in E. }
  repeat split; try (apply Hb; [discriminate|assumption]).
  - apply no_bracket_transp. rewrite forallb_forall in *. intros c Hc. specialize (H c Hc).
    apply negb_true_iff in H. apply negb_true_iff. repeat (apply orb_false_iff in H; destruct H as [H ?]). now apply orb_false_iff.
  - intros Hin. rewrite forallb_forall in H. specialize (H 96 Hin). cbn in H. discriminate.
  - intros Hin. rewrite forallb_forall in H. specialize (H 39 Hin). cbn in H. discriminate.
Qed.

(** types all of whose names are ok *)
Fixpoint ty_ok (t : ty) : bool :=
  match t with
  | TArith _ | TUnit => true
  | TEnum n _ es => name_ok n && forallb (fun e => name_ok (snd e)) es
  | TSeq _ e => ty_ok e
  | TOpt e => ty_ok e
  | TTuple ts => forallb ty_ok ts
  | TVariant ts => forallb ty_ok ts
  | TStruct n fs => name_ok n && forallb (fun f => name_ok (fst f) && ty_ok (snd f)) fs
  end.

Section TyInd.
Variable P : ty -> Prop.
Hypothesis Ha : forall a, P (TArith a).
Hypothesis He : forall n a es, P (TEnum n a es).
Hypothesis Hs : forall k e, P e -> P (TSeq k e).
Hypothesis Ht : forall ts, Forall P ts -> P (TTuple ts).
Hypothesis Ho : forall e, P e -> P (TOpt e).
Hypothesis Hv : forall ts, Forall P ts -> P (TVariant ts).
Hypothesis Hu : P TUnit.
Hypothesis Hst : forall n fs, Forall (fun f => P (snd f)) fs -> P (TStruct n fs).
Fixpoint ty_ind' (t : ty) : P t :=
  match t with
  | TArith a => Ha a
  | TEnum n a es => He n a es
  | TSeq k e => Hs k e (ty_ind' e)
  | TTuple ts => Ht ts ((fix go (l : list ty) : Forall P l := match l with [] => Forall_nil _ | x :: r => Forall_cons _ (ty_ind' x) (go r) end) ts)
  | TOpt e => Ho e (ty_ind' e)
  | TVariant ts => Hv ts ((fix go (l : list ty) : Forall P l := match l with [] => Forall_nil _ | x :: r => Forall_cons _ (ty_ind' x) (go r) end) ts)
  | TUnit => Hu
  | TStruct n fs => Hst n fs ((fix go (l : list (bytes * ty)) : Forall (fun f => P (snd f)) l := match l with [] => Forall_nil _ | x :: r => Forall_cons _ (ty_ind' (snd x)) (go r) end) fs)
  end.
End TyInd.

Definition all_transp (u : bytes) : Prop := transp 40 41 u /\ transp 60 62 u /\ transp 123 125 u /\ transp 47 92 u.

Lemma all_transp_nil : all_transp []. Proof. repeat split; apply transp_nil. Qed.
Lemma all_transp_app u w : all_transp u -> all_transp w -> all_transp (u ++ w).
Proof. intros (A1 & A2 & A3 & A4) (B1 & B2 & B3 & B4). repeat split; now apply transp_app. Qed.
Lemma all_transp_plain x : x <> 40 -> x <> 41 -> x <> 60 -> x <> 62 -> x <> 123 -> x <> 125 -> x <> 47 -> x <> 92 -> all_transp [x].
Proof. intros. repeat split; now apply transp_char. Qed.
Lemma all_transp_concat us : Forall all_transp us -> all_transp (concat us).
Proof. induction 1; cbn [concat]; [apply all_transp_nil|now apply all_transp_app]. Qed.

(** wrapping a transparent word in one bracket kind keeps it transparent for all four kinds *)
Lemma all_transp_wrap op cl u : In (op, cl) [(40, 41); (60, 62); (123, 125); (47, 92)] -> all_transp u -> all_transp (op :: u ++ [cl]).
Proof.
  intros Hin (A1 & A2 & A3 & A4).
  assert (G : forall o c, In (o, c) [(40, 41); (60, 62); (123, 125); (47, 92)] -> transp o c u -> transp o c (op :: u ++ [cl])).
  { intros o c Hoc Hu. destruct (N.eq_dec o op) as [->|Hne].
    - assert (c = cl) as ->.
      { cbn in Hin, Hoc. repeat (destruct Hin as [Hin|Hin]; [inversion Hin; subst|]); try contradiction;
        repeat (destruct Hoc as [Hoc|Hoc]; [inversion Hoc; subst; try reflexivity; try congruence|]); try contradiction. }
      apply transp_bracket; [|exact Hu]. cbn in Hin. repeat (destruct Hin as [Hin|Hin]; [inversion Hin; subst; discriminate|]). contradiction.
    - assert (Hcl : cl <> o /\ cl <> c /\ op <> c).
      { cbn in Hin, Hoc. repeat (destruct Hin as [Hin|Hin]; [inversion Hin; subst|]); try contradiction;
        repeat (destruct Hoc as [Hoc|Hoc]; [inversion Hoc; subst|]); try contradiction; try congruence; repeat split; discriminate. }
      destruct Hcl as (C1 & C2 & C3).
      change (op :: u ++ [cl]) with ([op] ++ u ++ [cl]). apply transp_app; [apply transp_char; congruence|]. apply transp_app; [exact Hu|apply transp_char; congruence]. }
  repeat split; apply G; auto; cbn; tauto.
Qed.

Lemma hex_up_plain n : Forall (fun c => (48 <= c <= 57) \/ (65 <= c <= 70)) (hex_up n).
Proof.
  unfold hex_up. generalize (S (N.to_nat (N.size n))) as fuel. intros fuel.
  assert (G : forall fuel n acc, Forall (fun c => (48 <= c <= 57) \/ (65 <= c <= 70)) acc -> Forall (fun c => (48 <= c <= 57) \/ (65 <= c <= 70)) (hex_aux fuel n acc)).
  { induction fuel0 as [|f IH]; intros m acc Hacc; [exact Hacc|]. cbn [hex_aux].
    assert (Hd : (48 <= hexdigit_up (m mod 16) <= 57) \/ (65 <= hexdigit_up (m mod 16) <= 70)).
    { unfold hexdigit_up. pose proof (N.mod_lt m 16 ltac:(discriminate)) as Hm. set (x := m mod 16) in *. clearbody x. destruct (N.ltb_spec x 10); lia. }
    destruct (m <? 16); [constructor; assumption|]. apply IH. constructor; assumption. }
  apply G. constructor.
Qed.

Lemma hex_Z_transp z : all_transp (hex_Z z).
Proof.
  assert (G : forall l, Forall (fun c => (48 <= c <= 57) \/ (65 <= c <= 70)) l -> all_transp l).
  { induction 1 as [|c l Hc _ IH]; [apply all_transp_nil|]. change (c :: l) with ([c] ++ l). apply all_transp_app; [|exact IH].
    apply all_transp_plain; lia. }
  unfold hex_Z. destruct z; try (apply G, hex_up_plain).
  change (45 :: hex_up (N.pos p)) with ([45] ++ hex_up (N.pos p)). apply all_transp_app; [apply all_transp_plain; lia|apply G, hex_up_plain].
Qed.

(** every tag of a type with ok names is transparent for the four scanners *)
Theorem tag_transparent : forall t, ty_ok t = true -> all_transp (tag t).
Proof.
  induction t using ty_ind'; intros Hok; cbn [tag ty_ok] in *.
  - apply all_transp_plain; destruct a; cbn; lia.
  - (* enum *)
    apply andb_true_iff in Hok. destruct Hok as [Hn Hes]. destruct (name_ok_transp n Hn) as (N1 & N2 & N3 & N4 & _).
    set (C := concat (map (fun e => hex_Z (raw_to_Z a (fst e)) ++ [96] ++ snd e ++ [39]) es)).
    assert (E : [47; atag a; 96] ++ n ++ [39] ++ C ++ [92] = 47 :: ([atag a; 96] ++ n ++ [39] ++ C) ++ [92]).
    { cbn [app]. do 3 f_equal. rewrite <- !app_assoc. reflexivity. }
    rewrite E. unfold C.
    apply all_transp_wrap; [cbn; tauto|].
    apply all_transp_app; [change [atag a; 96] with ([atag a] ++ [96]); apply all_transp_app; apply all_transp_plain; destruct a; cbn; lia|].
    apply all_transp_app; [repeat split; assumption|]. apply all_transp_app; [apply all_transp_plain; lia|].
    apply all_transp_concat. rewrite Forall_forall. intros u Hu. apply in_map_iff in Hu. destruct Hu as (e & <- & He).
    rewrite forallb_forall in Hes. destruct (name_ok_transp _ (Hes e He)) as (E1 & E2 & E3 & E4 & _).
    apply all_transp_app; [apply hex_Z_transp|]. apply all_transp_app; [apply all_transp_plain; lia|].
    apply all_transp_app; [repeat split; assumption|apply all_transp_plain; lia].
  - change (91 :: tag t) with ([91] ++ tag t). apply all_transp_app; [apply all_transp_plain; lia|now apply IHt].
  - (* tuple *)
    apply all_transp_wrap; [cbn; tauto|]. apply all_transp_concat. rewrite Forall_forall. intros u Hu. apply in_map_iff in Hu. destruct Hu as (t & <- & Ht).
    rewrite Forall_forall in H. rewrite forallb_forall in Hok. now apply H; [|apply Hok].
  - (* optional *)
    change ([60; 48] ++ tag t ++ [62]) with (60 :: ([48] ++ tag t) ++ [62]). apply all_transp_wrap; [cbn; tauto|].
    apply all_transp_app; [apply all_transp_plain; lia|now apply IHt].
  - (* variant *)
    replace (60 :: concat (map tag ts) ++ [48; 62]) with (60 :: (concat (map tag ts) ++ [48]) ++ [62]) by (rewrite <- app_assoc; reflexivity).
    apply all_transp_wrap; [cbn; tauto|]. apply all_transp_app; [|apply all_transp_plain; lia].
    apply all_transp_concat. rewrite Forall_forall. intros u Hu. apply in_map_iff in Hu. destruct Hu as (t & <- & Ht).
    rewrite Forall_forall in H. rewrite forallb_forall in Hok. now apply H; [|apply Hok].
  - apply all_transp_plain; lia.
  - (* struct *)
    apply andb_true_iff in Hok. destruct Hok as [Hn Hfs]. destruct (name_ok_transp n Hn) as (N1 & N2 & N3 & N4 & _).
    replace (123 :: n ++ concat (map (fun f => [96] ++ fst f ++ [39] ++ tag (snd f)) fs) ++ [125])
      with (123 :: (n ++ concat (map (fun f => [96] ++ fst f ++ [39] ++ tag (snd f)) fs)) ++ [125]) by (rewrite <- app_assoc; reflexivity).
    apply all_transp_wrap; [cbn; tauto|]. apply all_transp_app; [repeat split; assumption|].
    apply all_transp_concat. rewrite Forall_forall. intros u Hu. apply in_map_iff in Hu. destruct Hu as (f & <- & Hf).
    rewrite forallb_forall in Hfs. specialize (Hfs f Hf). apply andb_true_iff in Hfs. destruct Hfs as [Hl Ht].
    destruct (name_ok_transp _ Hl) as (L1 & L2 & L3 & L4 & _).
    apply all_transp_app; [apply all_transp_plain; lia|]. apply all_transp_app; [repeat split; assumption|].
    apply all_transp_app; [apply all_transp_plain; lia|]. rewrite Forall_forall in H. now apply (H f Hf).
Qed.

(** * tag_first_size / tag_pop on a tag followed by anything *)
Lemma tfs_seq w : tag_first_size (91 :: w) = S (tag_first_size w).
Proof.
  unfold tag_first_size. cbn [count_seq_prefix skipn]. cbv zeta.
  match goal with |- context [match ?x with [] => _ | _ :: _ => _ end] => destruct x end; [reflexivity|]. lia.
Qed.

Lemma tfs_plain c rest : c <> 91 -> c <> 40 -> c <> 60 -> c <> 123 -> c <> 47 -> tag_first_size (c :: rest) = 1%nat.
Proof.
  intros H0 H1 H2 H3 H4. unfold tag_first_size.
  assert (E : count_seq_prefix (c :: rest) = 0%nat).
  { cbn [count_seq_prefix]. destruct c as [|p]; [reflexivity|]. repeat (destruct p as [p|p|]; try reflexivity); congruence. }
  rewrite E. cbn [skipn].
  destruct (N.eqb_spec c 40); [contradiction|]. destruct (N.eqb_spec c 60); [contradiction|].
  destruct (N.eqb_spec c 123); [contradiction|]. destruct (N.eqb_spec c 47); [contradiction|]. reflexivity.
Qed.

Lemma tfs_bracket op cl u rest : In (op, cl) [(40, 41); (60, 62); (123, 125); (47, 92)] -> transp op cl u ->
  tag_first_size ((op :: u ++ [cl]) ++ rest) = length (op :: u ++ [cl]).
Proof.
  intros Hin Hu. unfold tag_first_size.
  assert (E : count_seq_prefix ((op :: u ++ [cl]) ++ rest) = 0%nat).
  { cbn [app count_seq_prefix]. cbn in Hin. repeat (destruct Hin as [Hin|Hin]; [inversion Hin; subst; reflexivity|]). contradiction. }
  rewrite E. cbn [skipn]. cbn [app].
  assert (Hne : op <> cl) by (cbn in Hin; repeat (destruct Hin as [Hin|Hin]; [inversion Hin; subst; discriminate|]); contradiction).
  pose proof (sbb_bracket op cl u rest Hne Hu) as Hs. cbn [app] in Hs.
  cbn in Hin. repeat (destruct Hin as [Hin|Hin]; [inversion Hin; subst; cbn [N.eqb Pos.eqb]; exact Hs|]). contradiction.
Qed.

Theorem tag_first_size_tag : forall t rest, ty_ok t = true -> tag_first_size (tag t ++ rest) = length (tag t).
Proof.
  induction t using ty_ind'; intros rest Hok.
  - cbn [tag app length]. apply tfs_plain; destruct a; cbn; lia.
  - (* enum *)
    pose proof (tag_transparent (TEnum n a es) Hok) as _.
    cbn [tag ty_ok] in *. apply andb_true_iff in Hok. destruct Hok as [Hn Hes]. destruct (name_ok_transp n Hn) as (N1 & N2 & N3 & N4 & _).
    set (C := concat (map (fun e => hex_Z (raw_to_Z a (fst e)) ++ [96] ++ snd e ++ [39]) es)).
    assert (E : [47; atag a; 96] ++ n ++ [39] ++ C ++ [92] = 47 :: ([atag a; 96] ++ n ++ [39] ++ C) ++ [92]).
    { cbn [app]. do 3 f_equal. rewrite <- !app_assoc. reflexivity. }
    rewrite E. apply tfs_bracket; [cbn; tauto|].
    apply transp_app; [change [atag a; 96] with ([atag a] ++ [96]); apply transp_app; apply transp_char; destruct a; cbn; lia|].
    apply transp_app; [assumption|]. apply transp_app; [apply transp_char; lia|].
    apply transp_concat. rewrite Forall_forall. intros u Hu. apply in_map_iff in Hu. destruct Hu as (e & <- & He).
    rewrite forallb_forall in Hes. destruct (name_ok_transp _ (Hes e He)) as (E1 & E2 & E3 & E4 & _).
    apply transp_app; [apply hex_Z_transp|]. apply transp_app; [apply transp_char; lia|].
    apply transp_app; [assumption|apply transp_char; lia].
  - cbn [tag app]. rewrite tfs_seq. cbn [length]. f_equal. now apply IHt.
  - (* tuple *)
    cbn [tag]. apply tfs_bracket; [cbn; tauto|]. apply transp_concat. rewrite Forall_forall. intros u Hu. apply in_map_iff in Hu. destruct Hu as (t & <- & Ht).
    cbn [ty_ok] in Hok. rewrite forallb_forall in Hok. now destruct (tag_transparent t (Hok t Ht)).
  - (* optional *)
    cbn [tag ty_ok] in *. change ([60; 48] ++ tag t ++ [62]) with (60 :: ([48] ++ tag t) ++ [62]). apply tfs_bracket; [cbn; tauto|].
    apply transp_app; [apply transp_char; lia|]. now destruct (tag_transparent t Hok) as (_ & A & _).
  - (* variant *)
    cbn [tag ty_ok] in *. replace (60 :: concat (map tag ts) ++ [48; 62]) with (60 :: (concat (map tag ts) ++ [48]) ++ [62]) by (rewrite <- app_assoc; reflexivity).
    apply tfs_bracket; [cbn; tauto|]. apply transp_app; [|apply transp_char; lia].
    apply transp_concat. rewrite Forall_forall. intros u Hu. apply in_map_iff in Hu. destruct Hu as (t & <- & Ht).
    rewrite forallb_forall in Hok. now destruct (tag_transparent t (Hok t Ht)) as (_ & A & _).
  - cbn [tag app length]. apply tfs_plain; lia.
  - (* struct *)
    cbn [tag ty_ok] in *. apply andb_true_iff in Hok. destruct Hok as [Hn Hfs]. destruct (name_ok_transp n Hn) as (N1 & N2 & N3 & N4 & _).
    replace (123 :: n ++ concat (map (fun f => [96] ++ fst f ++ [39] ++ tag (snd f)) fs) ++ [125])
      with (123 :: (n ++ concat (map (fun f => [96] ++ fst f ++ [39] ++ tag (snd f)) fs)) ++ [125]) by (rewrite <- app_assoc; reflexivity).
    apply tfs_bracket; [cbn; tauto|]. apply transp_app; [assumption|].
    apply transp_concat. rewrite Forall_forall. intros u Hu. apply in_map_iff in Hu. destruct Hu as (f & <- & Hf).
    rewrite forallb_forall in Hfs. specialize (Hfs f Hf). apply andb_true_iff in Hfs. destruct Hfs as [Hl Ht].
    destruct (name_ok_transp _ Hl) as (L1 & L2 & L3 & L4 & _).
    apply transp_app; [apply transp_char; lia|]. apply transp_app; [assumption|].
    apply transp_app; [apply transp_char; lia|]. now destruct (tag_transparent (snd f) Ht) as (_ & _ & A & _).
Qed.

(** tag_pop splits a tag off whatever follows it *)
Theorem tag_pop_tag t rest : ty_ok t = true -> tag_pop (tag t ++ rest) = (tag t, rest).
Proof.
  intros Hok. unfold tag_pop. rewrite (tag_first_size_tag t rest Hok).
  rewrite firstn_app, firstn_all, Nat.sub_diag, firstn_O, app_nil_r.
  rewrite skipn_app, skipn_all, Nat.sub_diag. reflexivity.
Qed.

(** the concatenated tag of a log statement's arguments splits back into the individual argument tags *)
Fixpoint pop_all (n : nat) (s : bytes) : list bytes * bytes :=
  match n with O => ([], s) | S n' => let (t, r) := tag_pop s in let (ts, r') := pop_all n' r in (t :: ts, r') end.

Theorem tag_pop_concat ts rest : forallb ty_ok ts = true ->
  pop_all (length ts) (concat (map tag ts) ++ rest) = (map tag ts, rest).
Proof.
  revert rest. induction ts as [|t ts IH]; intros rest Hok; [reflexivity|].
  cbn [forallb] in Hok. apply andb_true_iff in Hok. destruct Hok as [H1 H2].
  cbn [length pop_all map concat]. rewrite <- app_assoc, (tag_pop_tag t _ H1), (IH rest H2). reflexivity.
Qed.

(** * the documented grammar *)
Inductive wf_tag : bytes -> Prop :=
| wf_arith a : wf_tag [atag a]
| wf_seq t : wf_tag t -> wf_tag (91 :: t)
| wf_tuple ts : Forall wf_tag ts -> wf_tag (40 :: concat ts ++ [41])
| wf_variant ts : Forall wf_tag ts -> wf_tag (60 :: concat ts ++ [62])
| wf_void : wf_tag [48]
| wf_enum a n (es : list (bytes * bytes)) :
    wf_tag ([47; atag a; 96] ++ n ++ [39] ++ concat (map (fun e => fst e ++ [96] ++ snd e ++ [39]) es) ++ [92])
| wf_struct n (fs : list (bytes * bytes)) : Forall (fun f => wf_tag (snd f)) fs ->
    wf_tag (123 :: n ++ concat (map (fun f => [96] ++ fst f ++ [39] ++ snd f) fs) ++ [125]).

Theorem tag_wellformed : forall t, wf_tag (tag t).
Proof.
  induction t using ty_ind'; cbn [tag].
  - constructor.
  - replace (concat (map (fun e => hex_Z (raw_to_Z a (fst e)) ++ [96] ++ snd e ++ [39]) es))
      with (concat (map (fun e : bytes * bytes => fst e ++ [96] ++ snd e ++ [39]) (map (fun e => (hex_Z (raw_to_Z a (fst e)), snd e)) es)))
      by (rewrite map_map; reflexivity).
    apply wf_enum.
  - now constructor.
  - apply wf_tuple. rewrite Forall_forall in *. intros u Hu. apply in_map_iff in Hu. destruct Hu as (t & <- & Ht). now apply H.
  - assert (E : [60; 48] ++ tag t ++ [62] = 60 :: concat [[48]; tag t] ++ [62]) by (cbn [concat app]; now rewrite app_nil_r).
    rewrite E. apply wf_variant. repeat constructor; auto.
  - replace (60 :: concat (map tag ts) ++ [48; 62]) with (60 :: concat (map tag ts ++ [[48]]) ++ [62]) by (rewrite concat_app; cbn; rewrite <- app_assoc; reflexivity).
    apply wf_variant. apply Forall_app. split; [|repeat constructor].
    rewrite Forall_forall in *. intros u Hu. apply in_map_iff in Hu. destruct Hu as (t & <- & Ht). now apply H.
  - constructor.
  - replace (concat (map (fun f => [96] ++ fst f ++ [39] ++ tag (snd f)) fs))
      with (concat (map (fun f : bytes * bytes => [96] ++ fst f ++ [39] ++ snd f) (map (fun f => (fst f, tag (snd f))) fs)))
      by (rewrite map_map; reflexivity).
    apply wf_struct. rewrite Forall_forall in *. intros f Hf. apply in_map_iff in Hf. destruct Hf as (g & <- & Hg). cbn [snd]. now apply H.
Qed.
