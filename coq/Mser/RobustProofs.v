(** Hostile tags and sizes: what the guards of mserialize::visit do in the model, for every input where a general statement is
    cheap, and machine-checked witnesses where the code does amplify (the recorded finding D6). *)
From Coq Require Import List NArith Bool Lia.
From BL Require Import Base.Bytes Mser.Types Mser.Tag Mser.Visit.
Import ListNotations.
Local Open Scope N_scope.

Definition nospec (n t i : bytes) : option (option (bytes * bytes)) := None.

(** a sequence of more than 32 zero-size (singular) elements is visited ONCE, whatever the count in the input says:
    the callbacks do not depend on the count except through the two numbers reported *)
Theorem singular_sequence_collapsed f full t1 l h r etag rest size :
  take_n 4 l = Some (h, r) -> le_dec h = size -> tag_pop t1 = (etag, rest) -> etag <> [99] -> 32 < size ->
  singular f full etag = Some true ->
  visit false nospec (S f) full (91 :: t1) l =
  prepend [CSeqBegin size etag]
    match visit false nospec f full etag r with
    | VOk (cs, r') => VOk ([CRepeatBegin size etag] ++ cs ++ [CRepeatEnd size etag; CSeqEnd], r')
    | VErr e p => VErr e (CRepeatBegin size etag :: p)
    end.
Proof.
  intros Ht Hs Hp Hc H32 Hsing. cbn [visit]. rewrite Ht, Hs, Hp. cbn [andb].
  apply N.ltb_lt in H32. rewrite H32, Hsing. reflexivity.
Qed.

(** an element that fails stops the sequence at once: a hostile count over truncated input costs one failing read *)
Lemma seq_loop_stops rec etag n l acc e p : rec etag l = VErr e p -> seq_loop rec etag (S n) l acc = VErr e (acc ++ p).
Proof. intros H. cbn [seq_loop]. rewrite H. reflexivity. Qed.

(** nesting beyond the recursion limit is rejected, not followed (2048 = max_recursion of visit.hpp) *)
Definition nested (c : byte) (n : nat) (leaf : bytes) : bytes := repeat c n ++ leaf.
Example deep_sequences_rejected :
  match visit false nospec 2048 (nested 91 2049 [105]) (nested 91 2049 [105]) (concat (repeat [1;0;0;0] 2100)) with VErr VRecursion _ => true | _ => false end = true.
Proof. vm_compute. reflexivity. Qed.
Example deep_tuples_rejected :
  match visit false nospec 2048 (repeat 40 2100 ++ repeat 41 2100) (repeat 40 2100 ++ repeat 41 2100) [] with VErr VRecursion _ => true | _ => false end = true.
Proof. vm_compute. reflexivity. Qed.
(** a struct that refers to itself without consuming input recurses only to the limit *)
Definition selfref : bytes := [123; 65; 96; 97; 39; 123; 65; 125; 125].        (* {A`a'{A}} *)
Example self_reference_rejected :
  match visit false nospec 2048 selfref selfref [] with VErr VRecursion _ => true | _ => false end = true.
Proof. vm_compute. reflexivity. Qed.

(** D6 (recorded finding): a back-reference {A} to a struct whose fields occupy zero bytes is not recognised as singular,
    so a 4-byte count yields that many visited elements: 20 bytes of tag+input, 6*n callbacks. *)
Definition d6a_tag : bytes := [40; 123; 65; 96; 97; 39; 40; 41; 125; 91; 123; 65; 125; 41].   (* ({A`a'()}[{A}) *)
Lemma d6a_not_singular : singular 2048 d6a_tag [123; 65; 125] = Some false.
Proof. vm_compute. reflexivity. Qed.
Theorem amplification_refuted : exists tag input, (length tag + length input <= 20)%nat /\
  match visit false nospec 2048 tag tag input with VOk (cbs, _) => (12000 <=? N.of_nat (length cbs)) | _ => false end = true.
Proof. exists d6a_tag, (le_enc 4 2000). split; [cbn; lia|]. vm_compute. reflexivity. Qed.
