(** Adapted enums: visiting the bytes of an enum value with the enum's tag reports the enum's name, the enumerator whose value it is (found by
    searching the tag text for 'HEX`), or no enumerator and the hex text when the value is not an enumerator. *)
From Coq Require Import List NArith ZArith Bool Lia.
From BL Require Import Base.Bytes Mser.Types Mser.Encode Mser.Tag Mser.Visit Mser.TagProofs.
Import ListNotations.
Local Open Scope N_scope.

Definition ehex (a : aty) (e : N * bytes) : bytes := hex_Z (raw_to_Z a (fst e)).
Definition es_tag (a : aty) (es : list (N * bytes)) : bytes := concat (map (fun e => ehex a e ++ [96] ++ snd e ++ [39]) es).

Definition beq (a b : bytes) : bool := is_prefix a b && is_prefix b a.

(** the documented lookup: the first enumerator whose hex text is that of the value *)
Fixpoint lookup (a : aty) (es : list (N * bytes)) (hexv : bytes) : bytes :=
  match es with
  | [] => []
  | e :: r => if beq (ehex a e) hexv then snd e else lookup a r hexv
  end.


Lemma find_pos_app_notin l c r : ~ In c l -> find_pos (l ++ c :: r) c = length l.
Proof.
  induction l as [|x l IH]; intros H; cbn [app find_pos length].
  - now rewrite N.eqb_refl.
  - destruct (N.eqb_spec x c) as [->|Hne]; [exfalso; apply H; now left|]. f_equal. apply IH. intros Hin. apply H. now right.
Qed.
Lemma firstn_app_exact {A} (a c : list A) : firstn (length a) (a ++ c) = a.
Proof. rewrite firstn_app, firstn_all, Nat.sub_diag, firstn_O. apply app_nil_r. Qed.
Lemma skipn_app_exact {A} (a c : list A) : skipn (length a) (a ++ c) = c.
Proof. rewrite skipn_app, skipn_all, Nat.sub_diag. reflexivity. Qed.

Lemma skipn_plus_here {A} (l : list A) : forall n m, skipn m (skipn n l) = skipn (n + m) l.
Proof. induction l as [|x l IH]; intros n m; [now rewrite !skipn_nil|]. destruct n; [reflexivity|]. cbn. apply IH. Qed.

Lemma is_prefix_app p s : is_prefix p (p ++ s) = true.
Proof. induction p as [|x p IH]; cbn [is_prefix app]; [reflexivity|]. now rewrite N.eqb_refl. Qed.
Lemma is_prefix_true p s : is_prefix p s = true -> exists r, s = p ++ r.
Proof.
  revert s. induction p as [|x p IH]; intros s H; [exists s; reflexivity|]. destruct s as [|y s]; [discriminate|]. cbn [is_prefix] in H.
  apply andb_true_iff in H. destruct H as [H1 H2]. apply N.eqb_eq in H1. destruct (IH s H2) as [r ->]. exists r. now subst.
Qed.

(** hex texts contain neither ' nor ` *)
Lemma hex_Z_no_quote z c : In c (hex_Z z) -> c <> 39 /\ c <> 96.
Proof.
  assert (G : forall l, Forall (fun c => (48 <= c <= 57) \/ (65 <= c <= 70)) l -> forall c, In c l -> c <> 39 /\ c <> 96).
  { intros l Hl x Hx. rewrite Forall_forall in Hl. specialize (Hl x Hx). lia. }
  unfold hex_Z. destruct z; intros H; try (apply (G _ (hex_up_plain _) c H)).
  destruct H as [<-|H]; [lia|apply (G _ (hex_up_plain _) c H)].
Qed.

(** two words without ` followed by `: one is a prefix of the other (with the `) only if they are equal *)
Lemma prefix_backtick u w r : ~ In 96 u -> ~ In 96 w -> is_prefix (u ++ [96]) (w ++ 96 :: r) = true -> u = w.
Proof.
  revert w. induction u as [|x u IH]; intros w Hu Hw H.
  - destruct w as [|y w]; [reflexivity|]. cbn [app is_prefix] in H. apply andb_true_iff in H. destruct H as [H _]. apply N.eqb_eq in H.
    exfalso. apply Hw. left. now symmetry.
  - destruct w as [|y w].
    + cbn [app is_prefix] in H. apply andb_true_iff in H. destruct H as [H _]. apply N.eqb_eq in H. exfalso. apply Hu. now left.
    + cbn [app is_prefix] in H. apply andb_true_iff in H. destruct H as [H1 H2]. apply N.eqb_eq in H1. subst y. f_equal.
      apply (IH w); [intros Q; apply Hu; now right|intros Q; apply Hw; now right|exact H2].
Qed.

(** a needle starting with a character that does not occur in [u] is not found inside [u] *)
Lemma find_sub_skip c needle u s : ~ In c u ->
  find_sub (u ++ s) (c :: needle) = option_map (fun p => (length u + p)%nat) (find_sub s (c :: needle)).
Proof.
  induction u as [|x u IH]; intros Hu.
  - cbn [app length]. destruct (find_sub s (c :: needle)); reflexivity.
  - cbn [app find_sub is_prefix]. destruct (N.eqb_spec c x) as [->|Hne]; [exfalso; apply Hu; now left|]. cbn [andb].
    rewrite IH by (intros Q; apply Hu; now right). destruct (find_sub s (c :: needle)); reflexivity.
Qed.

Definition es_ok (a : aty) (es : list (N * bytes)) : bool := forallb (fun e => name_ok (snd e)) es.

Lemma no39_entry a e : name_ok (snd e) = true -> ~ In 39 (ehex a e ++ [96] ++ snd e).
Proof.
  intros Hn Hin. destruct (name_ok_transp _ Hn) as (_ & _ & _ & _ & _ & H39).
  apply in_app_or in Hin. destruct Hin as [H|H]; [apply hex_Z_no_quote in H; lia|].
  apply in_app_or in H. destruct H as [[H|[]]|H]; [discriminate|contradiction].
Qed.

(** the search in the tag text finds the documented enumerator *)
Lemma find_enumerator a hexv : ~ In 96 hexv -> forall es, es_ok a es = true ->
  match find_sub (39 :: es_tag a es) ([39] ++ hexv ++ [96]) with
  | Some p => fst (tag_pop_label (skipn (p + length ([39] ++ hexv ++ [96]) - 1) (39 :: es_tag a es)))
  | None => []
  end = lookup a es hexv.
Proof.
  intros Hh. induction es as [|e es IH]; intros Hok.
  - cbn [es_tag map concat lookup]. cbn [find_sub app is_prefix]. rewrite N.eqb_refl. cbn [andb].
    destruct (hexv ++ [96]) eqn:E; [destruct hexv; discriminate|]. cbn [is_prefix option_map find_sub]. reflexivity.
  - cbn [es_ok forallb] in Hok. apply andb_true_iff in Hok. destruct Hok as [Hn Hok]. specialize (IH Hok).
    cbn [es_tag map concat lookup]. fold (es_tag a es). rewrite <- !app_assoc.
    assert (Hq : ~ In 96 (ehex a e)) by (intros Q; apply hex_Z_no_quote in Q; lia).
    unfold beq. destruct (is_prefix (ehex a e) hexv && is_prefix hexv (ehex a e)) eqn:Eq.
    + (* the first enumerator has this hex text *)
      apply andb_true_iff in Eq. destruct Eq as [E1 E2]. apply is_prefix_true in E1, E2. destruct E1 as [r1 E1], E2 as [r2 E2].
      assert (Hr : hexv = ehex a e).
      { assert (L : length (ehex a e) = length (hexv ++ r2)) by (now rewrite <- E2). rewrite E1, !app_length in L.
        destruct r1; [now rewrite app_nil_r in E1|cbn [length] in L; lia]. }
      clear E1 E2 r1 r2.
      subst hexv. cbn [app find_sub is_prefix]. rewrite N.eqb_refl. cbn [andb].
      assert (P : is_prefix (ehex a e ++ [96]) (ehex a e ++ 96 :: snd e ++ 39 :: es_tag a es) = true).
      { change (ehex a e ++ 96 :: snd e ++ 39 :: es_tag a es) with (ehex a e ++ [96] ++ (snd e ++ 39 :: es_tag a es)). rewrite app_assoc. apply is_prefix_app. }
      rewrite P.
      match goal with |- context [skipn ?n _] => replace n with (S (length (ehex a e))) by (cbn [length]; rewrite app_length; cbn [length]; lia) end.
      cbn [skipn]. rewrite skipn_app_exact.
      destruct (name_ok_transp _ Hn) as (_ & _ & _ & _ & _ & H39).
      unfold tag_pop_label, drop. cbn [skipn fst]. rewrite find_pos_app_notin by exact H39. apply firstn_app_exact.
    + (* it has another: no match inside its text, continue behind it *)
      cbn [app find_sub is_prefix]. rewrite N.eqb_refl. cbn [andb].
      set (body := ehex a e ++ 96 :: snd e).
      assert (Eb : ehex a e ++ 96 :: snd e ++ 39 :: es_tag a es = body ++ 39 :: es_tag a es) by (unfold body; now rewrite <- app_assoc).
      rewrite Eb.
      assert (Pf : is_prefix (hexv ++ [96]) (body ++ 39 :: es_tag a es) = false).
      { apply not_true_is_false. intros Q. rewrite <- Eb in Q. apply prefix_backtick in Q; [|exact Hh|exact Hq]. subst hexv.
        rewrite andb_diag in Eq. pose proof (is_prefix_app (ehex a e) []) as P. rewrite app_nil_r in P. congruence. }
      rewrite Pf.
      assert (N39 : ~ In 39 body).
      { unfold body. intros Hin. destruct (name_ok_transp _ Hn) as (_ & _ & _ & _ & _ & H39).
        apply in_app_or in Hin. destruct Hin as [H|[H|H]]; [apply hex_Z_no_quote in H; lia|discriminate|contradiction]. }
      rewrite (find_sub_skip 39 (hexv ++ [96]) body _ N39).
      change (39 :: hexv ++ [96]) with ([39] ++ hexv ++ [96]) in *.
      destruct (find_sub (39 :: es_tag a es) ([39] ++ hexv ++ [96])) as [p|] eqn:Ef; cbn [option_map]; [|exact IH].
      rewrite <- IH. f_equal. f_equal.
      change (39 :: body ++ 39 :: es_tag a es) with ((39 :: body) ++ 39 :: es_tag a es).
      match goal with |- context [skipn ?n ((39 :: body) ++ _)] =>
        replace n with (length (39%N :: body) + (p + length ([39%N] ++ hexv ++ [96%N]) - 1))%nat by (cbn [length app]; rewrite app_length; cbn [length]; lia) end.
      rewrite <- skipn_plus_here. rewrite skipn_app_exact. reflexivity.
Qed.

Definition enum_int (a : aty) : bool := match a with ABool | AF32 | AF64 | AF80 => false | _ => true end.

Lemma es_tag_norm a es : concat (map (fun e : N * bytes => hex_Z (raw_to_Z a (fst e)) ++ 96 :: snd e ++ [39]) es) = es_tag a es.
Proof. reflexivity. Qed.

Lemma visit_enum_agrees b sp f full name a es x rest :
  x < 256 ^ N.of_nat (awidth a) -> enum_int a = true -> name_ok name = true -> es_ok a es = true ->
  visit b sp (S f) full (tag (TEnum name a es)) (le_enc (awidth a) x ++ rest)
  = VOk ([CEnum name (lookup a es (hex_Z (raw_to_Z a x))) (atag a) (hex_Z (raw_to_Z a x))], rest).
Proof.
  intros Hx Hi Hn Hes. destruct (name_ok_transp _ Hn) as (_ & _ & _ & _ & _ & H39).
  cbn [tag]. cbn [app visit]. unfold drop, drop_last. cbn [skipn]. rewrite es_tag_norm.
  assert (Er : removelast (atag a :: 96 :: name ++ 39 :: es_tag a es ++ [92]) = atag a :: 96 :: name ++ 39 :: es_tag a es).
  { replace (atag a :: 96 :: name ++ 39 :: es_tag a es ++ [92]) with ((atag a :: 96 :: name ++ 39 :: es_tag a es) ++ [92])
      by (cbn [app]; do 2 f_equal; rewrite <- app_assoc; reflexivity).
    apply removelast_last. }
  rewrite Er. clear Er.
  assert (Ea : arith_of_letter (atag a) = Some a) by (destruct a; reflexivity). rewrite Ea.
  pose proof (take_n_exact (le_enc (awidth a) x) rest) as T. rewrite le_enc_length in T. rewrite T. clear T.
  f_equal. f_equal. f_equal.
  unfold enum_callback. rewrite le_dec_enc by exact Hx.
  assert (Eh : match a with AF32 | AF64 | AF80 => [] | ABool => [if x =? 0 then 48 else 49] | _ => hex_Z (raw_to_Z a x) end = hex_Z (raw_to_Z a x))
    by (destruct a; try discriminate Hi; reflexivity).
  rewrite Eh. clear Eh.
  unfold drop. cbn [skipn]. unfold remove_prefix_before.
  rewrite (find_pos_app_notin name 39 (es_tag a es) H39), firstn_app_exact, skipn_app_exact.
  f_equal. apply find_enumerator; [|exact Hes].
  intros Q. apply hex_Z_no_quote in Q. lia.
Qed.

(** ** the hex text determines the value: the lookup by text is the lookup by value *)
Definition dval (c : N) : N := if c <? 58 then c - 48 else c - 55.
Definition unhex (l : bytes) : N := fold_left (fun v c => v * 16 + dval c) l 0.

Lemma dval_digit d : d < 16 -> dval (hexdigit_up d) = d.
Proof. intros H. unfold dval, hexdigit_up. destruct (N.ltb_spec d 10); [destruct (N.ltb_spec (48 + d) 58); lia|destruct (N.ltb_spec (55 + d) 58); lia]. Qed.

Lemma fold_unhex l : forall v, fold_left (fun v c => v * 16 + dval c) l v = v * 16 ^ N.of_nat (length l) + unhex l.
Proof.
  unfold unhex. induction l as [|c l IH]; intros v; cbn [fold_left length].
  - cbn. lia.
  - rewrite IH, (IH (0 * 16 + dval c)). rewrite Nat2N.inj_succ, N.pow_succ_r'. lia.
Qed.

Lemma unhex_aux : forall fuel n acc, n < 16 ^ N.of_nat fuel ->
  unhex (hex_aux fuel n acc) = n * 16 ^ N.of_nat (length acc) + unhex acc.
Proof.
  induction fuel as [|f IH]; intros n acc Hn.
  - cbn in Hn. assert (n = 0) by lia. subst. cbn [hex_aux]. lia.
  - cbn [hex_aux]. pose proof (N.mod_lt n 16 ltac:(discriminate)) as Hm.
    assert (Hu : unhex (hexdigit_up (n mod 16) :: acc) = (n mod 16) * 16 ^ N.of_nat (length acc) + unhex acc).
    { unfold unhex at 1. cbn [fold_left]. rewrite fold_unhex, dval_digit by exact Hm. lia. }
    destruct (N.ltb_spec n 16) as [H16|H16].
    + rewrite Hu, N.mod_small by exact H16. reflexivity.
    + rewrite IH.
      * rewrite Hu. cbn [length]. rewrite Nat2N.inj_succ, N.pow_succ_r'.
        pose proof (N.div_mod n 16 ltac:(discriminate)) as D. set (q := n / 16) in *. set (r := n mod 16) in *. clearbody q r. subst n. lia.
      * rewrite Nat2N.inj_succ, N.pow_succ_r' in Hn. apply N.div_lt_upper_bound; lia.
Qed.

Lemma unhex_hex_up n : unhex (hex_up n) = n.
Proof.
  unfold hex_up. rewrite unhex_aux.
  - cbn [length]. cbn. lia.
  - destruct n as [|p]; [cbn; lia|].
    pose proof (N.size_gt (N.pos p)) as Hs. rewrite Nat2N.inj_succ, N2Nat.id.
    apply N.lt_le_trans with (2 ^ N.size (N.pos p)); [exact Hs|].
    rewrite N.pow_succ_r'. change 16 with (2 ^ 4). rewrite <- N.pow_mul_r.
    apply N.le_trans with (2 ^ (4 * N.size (N.pos p))); [apply N.pow_le_mono_r; lia|].
    pose proof (N.pow_nonzero 2 (4 * N.size (N.pos p)) ltac:(discriminate)). lia.
Qed.

Lemma hex_up_head n c r : hex_up n = c :: r -> c <> 45.
Proof.
  intros H. pose proof (hex_up_plain n) as P. rewrite H in P. inversion P as [|? ? Hc _]; subst. lia.
Qed.

Lemma hex_Z_inj z1 z2 : hex_Z z1 = hex_Z z2 -> z1 = z2.
Proof.
  assert (Hn : forall z, (0 <= z)%Z -> hex_Z z = hex_up (Z.to_N z)) by (intros [| |] Hz; try reflexivity; lia).
  destruct (Z.neg_nonneg_cases z1) as [N1|P1], (Z.neg_nonneg_cases z2) as [N2|P2]; intros H.
  - destruct z1 as [| |p1]; try lia. destruct z2 as [| |p2]; try lia. cbn [hex_Z] in H. injection H as H.
    apply (f_equal unhex) in H. rewrite !unhex_hex_up in H. congruence.
  - exfalso. destruct z1 as [| |p1]; try lia. rewrite (Hn z2 P2) in H. cbn [hex_Z] in H. symmetry in H. apply hex_up_head in H. congruence.
  - exfalso. destruct z2 as [| |p2]; try lia. rewrite (Hn z1 P1) in H. cbn [hex_Z] in H. apply hex_up_head in H. congruence.
  - rewrite (Hn z1 P1), (Hn z2 P2) in H. apply (f_equal unhex) in H. rewrite !unhex_hex_up in H. lia.
Qed.

Lemma raw_to_Z_inj a x y : x < 256 ^ N.of_nat (awidth a) -> y < 256 ^ N.of_nat (awidth a) -> raw_to_Z a x = raw_to_Z a y -> x = y.
Proof.
  intros Hx Hy. unfold raw_to_Z. set (m := 256 ^ N.of_nat (awidth a)) in *.
  destruct (a_signed a && (m / 2 <=? x)) eqn:E1, (a_signed a && (m / 2 <=? y)) eqn:E2; lia.
Qed.

Lemma beq_refl_iff u w : beq u w = true <-> u = w.
Proof.
  unfold beq. split.
  - intros H. apply andb_true_iff in H. destruct H as [H1 H2]. apply is_prefix_true in H1, H2. destruct H1 as [r1 E1], H2 as [r2 E2].
    assert (L : length u = length (w ++ r2)) by (now rewrite <- E2). rewrite E1, !app_length in L.
    destruct r1; [now rewrite app_nil_r in E1|cbn [length] in L; lia].
  - intros ->. pose proof (is_prefix_app w []) as P. rewrite app_nil_r in P. now rewrite P.
Qed.

(** the enumerator reported is the first one whose VALUE is the value visited *)
Fixpoint first_with_value (es : list (N * bytes)) (x : N) : bytes :=
  match es with [] => [] | e :: r => if fst e =? x then snd e else first_with_value r x end.

Theorem lookup_by_value a es x : x < 256 ^ N.of_nat (awidth a) -> Forall (fun e => fst e < 256 ^ N.of_nat (awidth a)) es ->
  lookup a es (hex_Z (raw_to_Z a x)) = first_with_value es x.
Proof.
  intros Hx. induction 1 as [|e es He _ IH]; [reflexivity|]. cbn [lookup first_with_value]. unfold ehex.
  destruct (N.eqb_spec (fst e) x) as [->|Hne].
  - replace (beq (hex_Z (raw_to_Z a x)) (hex_Z (raw_to_Z a x))) with true by (symmetry; now apply beq_refl_iff). reflexivity.
  - destruct (beq (hex_Z (raw_to_Z a (fst e))) (hex_Z (raw_to_Z a x))) eqn:E; [|exact IH].
    apply beq_refl_iff in E. apply hex_Z_inj in E. apply raw_to_Z_inj in E; [congruence|exact He|exact Hx].
Qed.
