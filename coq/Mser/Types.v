(** M2: the universe of loggable types (what the serializer's template dispatch looks at) and values. *)
From Coq Require Import List NArith ZArith Bool.
From BL Require Import Base.Bytes.
Import ListNotations.
Local Open Scope N_scope.

(** the 13 arithmetic kinds, by tag letter *)
Inductive aty := ABool | AChar | AI8 | AI16 | AI32 | AI64 | AU8 | AU16 | AU32 | AU64 | AF32 | AF64 | AF80.
Definition awidth (a : aty) : nat :=
  match a with ABool | AChar | AI8 | AU8 => 1 | AI16 | AU16 => 2 | AI32 | AU32 | AF32 => 4 | AI64 | AU64 | AF64 => 8 | AF80 => 16 end%nat.
Definition atag (a : aty) : N :=
  match a with ABool => 121 | AChar => 99 | AI8 => 98 | AI16 => 115 | AI32 => 105 | AI64 => 108
             | AU8 => 66 | AU16 => 83 | AU32 => 73 | AU64 => 76 | AF32 => 102 | AF64 => 100 | AF80 => 68 end.

(** sequence kinds: only what the dispatch inspects. [sk_contig] = the container exposes contiguous data() of its
    value type (vector, array, string, C array, ArrayView); [sk_extent] = Some n for fixed-size destinations
    (std::array, C arrays: no resize); proxy sequences (vector<bool>) and node containers are non-contiguous. *)
Record skind := mkSK { sk_contig : bool; sk_extent : option nat }.

Inductive ty :=
| TArith (a : aty)                                   (* fundamentals and plain enums (by underlying type) *)
| TEnum (name : bytes) (a : aty) (enumerators : list (N * bytes))   (* adapted enum: raw value (two's complement in awidth bytes) -> name *)
| TSeq (k : skind) (t : ty)
| TTuple (ts : list ty)                              (* pair, tuple *)
| TOpt (t : ty)                                      (* raw/smart pointers, optional *)
| TVariant (ts : list ty)                            (* std::variant; std::monostate is TUnit *)
| TUnit                                              (* std::monostate: tag "0", no bytes *)
| TStruct (name : bytes) (fields : list (bytes * ty)). (* adapted struct; bases of derived adaptations are fields with empty label *)

Inductive val :=
| VRaw (x : N)                 (* arithmetic / enum: the object bytes as a little-endian number *)
| VSeq (vs : list val)
| VTup (vs : list val)         (* tuple and struct members, in order *)
| VNone | VSome (v : val)
| VAlt (i : nat) (v : val)     (* variant holding alternative i *)
| VValueless                   (* valueless_by_exception *)
| VUnit.

Definition is_arith (t : ty) : bool := match t with TArith _ => true | _ => false end.
Definition arith_width (t : ty) : nat := match t with TArith a => awidth a | _ => 0%nat end.

(** well-typed values (lengths of sequences with a fixed extent must match it) *)
Fixpoint wt (t : ty) (v : val) {struct v} : bool :=
  match t, v with
  | TArith a, VRaw x => x <? 256 ^ N.of_nat (awidth a)
  | TEnum _ a _, VRaw x => x <? 256 ^ N.of_nat (awidth a)
  | TSeq k e, VSeq vs => forallb (wt e) vs && (N.of_nat (length vs) <? 4294967296) &&
                         match sk_extent k with Some n => Nat.eqb (length vs) n | None => true end
  | TTuple ts, VTup vs => (fix go (vs : list val) (ts : list ty) {struct vs} : bool :=
                             match vs, ts with [], [] => true | v :: vs', t :: ts' => wt t v && go vs' ts' | _, _ => false end) vs ts
  | TStruct _ fs, VTup vs => (fix go (vs : list val) (ts : list ty) {struct vs} : bool :=
                             match vs, ts with [], [] => true | v :: vs', t :: ts' => wt t v && go vs' ts' | _, _ => false end) vs (map snd fs)
  | TOpt _, VNone => true
  | TOpt e, VSome v' => wt e v'
  | TVariant ts, VAlt i v' => match nth_error ts i with Some ti => wt ti v' | None => false end
  | TVariant ts, VValueless => true
  | TUnit, VUnit => true
  | _, _ => false
  end.
