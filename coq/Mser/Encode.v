(** Serializer.hpp / StructSerializer.hpp / adapt_stdvariant.hpp: size and bytes with the CODE's dispatch, and the
    DOCUMENTED wire format (doc/Mserialize.md), written without any dispatch. Definitions only. *)
From Coq Require Import List NArith ZArith Bool.
From BL Require Import Base.Bytes Mser.Types.
Import ListNotations.
Local Open Scope N_scope.

Definition raw_bytes (w : nat) (v : val) : bytes := match v with VRaw x => le_enc w x | _ => [] end.

(** batch copy: sizeof(elem) * size bytes straight from data() *)
Definition batch_bytes (w : nat) (vs : list val) : bytes := concat (map (raw_bytes w) vs).

(** mserialize::serialize *)
Fixpoint enc (t : ty) (v : val) {struct v} : bytes :=
  match t, v with
  | TArith a, VRaw x => le_enc (awidth a) x                               (* TrivialSerializer: the object bytes *)
  | TEnum _ a _, VRaw x => le_enc (awidth a) x
  | TSeq k e, VSeq vs =>
      le_enc 4 (N.of_nat (length vs)) ++
      (if sk_contig k && is_arith e                                        (* is_sequence_batch_serializable *)
       then (match vs with [] => [] | _ => batch_bytes (arith_width e) vs end)   (* if (size) write(data, sizeof*size) *)
       else concat (map (enc e) vs))
  | TTuple ts, VTup vs => (fix go (vs : list val) (ts : list ty) {struct vs} : bytes :=
                             match vs, ts with v :: vs', t :: ts' => enc t v ++ go vs' ts' | _, _ => [] end) vs ts
  | TStruct _ fs, VTup vs => (fix go (vs : list val) (ts : list ty) {struct vs} : bytes :=
                             match vs, ts with v :: vs', t :: ts' => enc t v ++ go vs' ts' | _, _ => [] end) vs (map snd fs)
  | TOpt _, VNone => [0]
  | TOpt e, VSome v' => 1 :: enc e v'
  | TVariant ts, VAlt i v' => (N.of_nat i mod 256) :: (match nth_error ts i with Some ti => enc ti v' | None => [] end)
  | TVariant ts, VValueless => [N.of_nat (length ts) mod 256]
  | TUnit, VUnit => []
  | _, _ => []
  end.

(** mserialize::serialized_size *)
Fixpoint size_of (t : ty) (v : val) {struct v} : N :=
  match t, v with
  | TArith a, VRaw _ => N.of_nat (awidth a)
  | TEnum _ a _, VRaw _ => N.of_nat (awidth a)
  | TSeq k e, VSeq vs =>
      4 + (if is_arith e && sk_contig k                                   (* is_arithmetic<sequence_data_t>: only when data() exists *)
           then N.of_nat (length vs) * N.of_nat (arith_width e)
           else fold_right (fun v acc => size_of e v + acc) 0 vs)
  | TTuple ts, VTup vs => (fix go (vs : list val) (ts : list ty) {struct vs} : N :=
                             match vs, ts with v :: vs', t :: ts' => size_of t v + go vs' ts' | _, _ => 0 end) vs ts
  | TStruct _ fs, VTup vs => (fix go (vs : list val) (ts : list ty) {struct vs} : N :=
                             match vs, ts with v :: vs', t :: ts' => size_of t v + go vs' ts' | _, _ => 0 end) vs (map snd fs)
  | TOpt _, VNone => 1
  | TOpt e, VSome v' => 1 + size_of e v'
  | TVariant ts, VAlt i v' => 1 + (match nth_error ts i with Some ti => size_of ti v' | None => 0 end)
  | TVariant ts, VValueless => 1
  | TUnit, VUnit => 0
  | _, _ => 0
  end.

(** the documented format: arithmetic/enum = object bytes; sequence = u32 count, then each element; tuple/struct =
    members in order; optional/pointer = discriminator byte 0 / 1 then the value; variant = index byte then the
    alternative (index = number of alternatives, nothing else, when valueless) *)
Fixpoint spec_enc (t : ty) (v : val) {struct v} : bytes :=
  match t, v with
  | TArith a, VRaw x => le_enc (awidth a) x
  | TEnum _ a _, VRaw x => le_enc (awidth a) x
  | TSeq k e, VSeq vs => le_enc 4 (N.of_nat (length vs)) ++ concat (map (spec_enc e) vs)
  | TTuple ts, VTup vs => (fix go (vs : list val) (ts : list ty) {struct vs} : bytes :=
                             match vs, ts with v :: vs', t :: ts' => spec_enc t v ++ go vs' ts' | _, _ => [] end) vs ts
  | TStruct _ fs, VTup vs => (fix go (vs : list val) (ts : list ty) {struct vs} : bytes :=
                             match vs, ts with v :: vs', t :: ts' => spec_enc t v ++ go vs' ts' | _, _ => [] end) vs (map snd fs)
  | TOpt _, VNone => [0]
  | TOpt e, VSome v' => 1 :: spec_enc e v'
  | TVariant ts, VAlt i v' => (N.of_nat i mod 256) :: (match nth_error ts i with Some ti => spec_enc ti v' | None => [] end)
  | TVariant ts, VValueless => [N.of_nat (length ts) mod 256]
  | TUnit, VUnit => []
  | _, _ => []
  end.

(** SessionWriter::addEvent: the size it reserves and the bytes it writes for an event with these arguments *)
Definition args_size (ts : list ty) (vs : list val) : N := fold_right N.add 0 (map (fun p => size_of (fst p) (snd p)) (combine ts vs)).
Definition args_bytes (ts : list ty) (vs : list val) : bytes := concat (map (fun p => enc (fst p) (snd p)) (combine ts vs)).
Definition event_total_size (ts : list ty) (vs : list val) : N := (8 + 8 + args_size ts vs) + 4.
Definition event_bytes (id clock : N) (ts : list ty) (vs : list val) : bytes :=
  le_enc 4 ((8 + 8 + args_size ts vs) mod 4294967296) ++ le_enc 8 id ++ le_enc 8 clock ++ args_bytes ts vs.
