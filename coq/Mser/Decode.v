(** Deserializer.hpp / StructDeserializer.hpp with the code's dispatch. Definitions only. *)
From Coq Require Import List NArith ZArith Bool.
From BL Require Import Base.Bytes Reader.Entry Mser.Types.
Import ListNotations.
Local Open Scope N_scope.

Inductive derr := DShort | DSizeMismatch | DUnsupported.
Inductive dres (A : Type) := DOk (a : A) | DErr (e : derr).
Arguments DOk {A} a. Arguments DErr {A} e.

Definition take_raw (w : nat) (l : bytes) : dres (val * bytes) :=
  match take_n w l with Some (h, r) => DOk (VRaw (le_dec h), r) | None => DErr DShort end.

(** n elements, one after the other *)
Fixpoint dec_elems (f : bytes -> dres (val * bytes)) (n : nat) (l : bytes) : dres (list val * bytes) :=
  match n with
  | O => DOk ([], l)
  | S n' => match f l with
            | DErr e => DErr e
            | DOk (v, r) => match dec_elems f n' r with DErr e => DErr e | DOk (vs, r') => DOk (v :: vs, r') end
            end
  end.

(** batch: istream.read(data, sizeof(elem) * size) - one bounds check for the whole block *)
Definition dec_batch (w : nat) (n : nat) (l : bytes) : dres (list val * bytes) :=
  match take_n (w * n) l with
  | None => DErr DShort
  | Some (blk, r) => match dec_elems (take_raw w) n blk with DOk (vs, _) => DOk (vs, r) | DErr e => DErr e end
  end.

Definition wrap_tup (x : dres (list val * bytes)) : dres (val * bytes) :=
  match x with DOk (vs, r) => DOk (VTup vs, r) | DErr e => DErr e end.

Fixpoint dec (t : ty) (l : bytes) {struct t} : dres (val * bytes) :=
  match t with
  | TArith a => take_raw (awidth a) l
  | TEnum _ a _ => take_raw (awidth a) l
  | TSeq k e =>
      match take_raw 4 l with
      | DErr e' => DErr e'
      | DOk (VRaw n, r) =>
        (* resize: fixed-size destinations only accept their own size *)
        match sk_extent k with
        | Some ext => if N.of_nat ext =? n then
                        match (if sk_contig k && is_arith e then dec_batch (arith_width e) ext r else dec_elems (dec e) ext r) with
                        | DOk (vs, r') => DOk (VSeq vs, r') | DErr e' => DErr e' end
                      else DErr DSizeMismatch
        | None => match (if sk_contig k && is_arith e then dec_batch (arith_width e) (N.to_nat n) r else dec_elems (dec e) (N.to_nat n) r) with
                  | DOk (vs, r') => DOk (VSeq vs, r') | DErr e' => DErr e' end
        end
      | DOk _ => DErr DUnsupported
      end
  | TTuple ts =>
      wrap_tup ((fix go (ts : list ty) (l : bytes) : dres (list val * bytes) :=
         match ts with
         | [] => DOk ([], l)
         | t :: ts' => match dec t l with DErr e => DErr e
                       | DOk (v, r) => match go ts' r with DErr e => DErr e | DOk (vs, r') => DOk (v :: vs, r') end end
         end) ts l)
  | TStruct _ fs =>
      wrap_tup ((fix go (fs : list (bytes * ty)) (l : bytes) : dres (list val * bytes) :=
         match fs with
         | [] => DOk ([], l)
         | f :: fs' => match dec (snd f) l with DErr e => DErr e
                       | DOk (v, r) => match go fs' r with DErr e => DErr e | DOk (vs, r') => DOk (v :: vs, r') end end
         end) fs l)
  | TOpt e =>
      match take_raw 1 l with
      | DErr e' => DErr e'
      | DOk (VRaw d, r) => if d =? 0 then DOk (VNone, r)
                           else match dec e r with DOk (v, r') => DOk (VSome v, r') | DErr e' => DErr e' end
      | DOk _ => DErr DUnsupported
      end
  | TVariant _ => DErr DUnsupported          (* adapt_stdvariant.hpp provides no deserializer *)
  | TUnit => DOk (VUnit, l)
  end.
