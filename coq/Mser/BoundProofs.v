(** C09, output size: for ARBITRARY tag bytes and ARBITRARY input bytes, the number of visitor callbacks is bounded by a small polynomial
    of the sizes - except through the one construct recorded as finding D6 (a struct back-reference [{Name}] resolved through the full
    tag, which the singular test does not look through). [noback] is the computable predicate "no back-reference is ever resolved". *)
From Coq Require Import List NArith Bool Lia Arith.
From BL Require Import Base.Bytes Mser.Types Mser.Tag Mser.Visit Mser.RobustProofs.
From BL Require Mser.VisitProofs.
Import ListNotations.
Local Open Scope N_scope.

(** * the dispatch on the first byte of a tag *)
Definition dispatch {A} (c : N) (k91 k40 k60 k123 k47 d : A) : A :=
  match c with 91 => k91 | 40 => k40 | 60 => k60 | 123 => k123 | 47 => k47 | _ => d end.
Lemma dispatch_eq {A} c (k91 k40 k60 k123 k47 d : A) :
  dispatch c k91 k40 k60 k123 k47 d =
  if c =? 91 then k91 else if c =? 40 then k40 else if c =? 60 then k60 else if c =? 123 then k123 else if c =? 47 then k47 else d.
Proof.
  destruct c as [|p]; [reflexivity|].
  do 7 (destruct p as [p|p|]; try reflexivity).
Qed.
Definition dispatch3 {A} (c : N) (k40 k123 d : A) : A := match c with 40 => k40 | 123 => k123 | _ => d end.
Lemma dispatch3_eq {A} c (k40 k123 d : A) : dispatch3 c k40 k123 d = if c =? 40 then k40 else if c =? 123 then k123 else d.
Proof. destruct c as [|p]; [reflexivity|]. do 7 (destruct p as [p|p|]; try reflexivity). Qed.

Section Visitor.
(** any visitor: with or without the string shortcut of ToStringVisitor, with any hook rendering special structs itself
    (PrettyPrinter::printStruct) as long as a struct it takes over occupies at least one byte *)
Variable sb : bool.
Variable sp : bytes -> bytes -> bytes -> option (option (bytes * bytes)).
Hypothesis Hsp : forall n t i txt r, sp n t i = Some (Some (txt, r)) -> (length r < length i)%nat.
Notation pv := (visit sb sp).

(** the named member loops of [singular] (the definition uses anonymous fixpoints) *)
Fixpoint sg_tuple (rec : bytes -> option bool) (n : nat) (t : bytes) : option bool :=
  match n with O => Some true | S n' =>
    let (e, r) := tag_pop t in
    match e with [] => Some true | _ => match rec e with Some true => sg_tuple rec n' r | other => other end end end.
Fixpoint sg_struct (rec : bytes -> option bool) (n : nat) (t : bytes) : option bool :=
  match n with O => Some true | S n' =>
    match t with [] => Some true | _ =>
      let (_, t1) := tag_pop_label t in let (ft, t2) := tag_pop t1 in
      match rec ft with Some true => sg_struct rec n' t2 | other => other end end end.

Lemma visit_S f full c t1 l : pv (S f) full (c :: t1) l =
  dispatch c
    (match take_n 4 l with
     | None => VErr VShort []
     | Some (h, r) =>
       let size := le_dec h in let (etag, _) := tag_pop t1 in
       if sb && (match etag with [99] => true | _ => false end) then
         match takeN size r with
         | Some (chars, r') => VOk ([CSeqChars chars], r')
         | None => VErr VShort []
         end
       else
       prepend [CSeqBegin size etag]
         (match (if 32 <? size then singular f full etag else Some false) with
          | None => VErr VRecursion []
          | Some true => match pv f full etag r with
                         | VOk (cs, r') => VOk ([CRepeatBegin size etag] ++ cs ++ [CRepeatEnd size etag; CSeqEnd], r')
                         | VErr e p => VErr e (CRepeatBegin size etag :: p)
                         end
          | Some false => seq_loopN (pv f full) etag size r []
          end)
     end)
    (let inner := drop_last (drop 1 (c :: t1)) in
     prepend [CTupleBegin inner] (tuple_loop (pv f full) (S (length inner)) inner l []))
    (let inner := drop_last (drop 1 (c :: t1)) in
     match take_n 1 l with
     | None => VErr VShort []
     | Some (h, r) =>
       let disc := le_dec h in
       let t := N.iter disc (fun t => snd (tag_pop t)) inner in
       let (opt, _) := tag_pop t in
       prepend [CVariantBegin disc opt]
         (if is_null_tag opt then VOk ([CNull; CVariantEnd], r)
          else match pv f full opt r with VOk (cs, r') => VOk (cs ++ [CVariantEnd], r') | VErr e p => VErr e p end)
     end)
    (let body := drop_last (c :: t1) in
     let (intro, t0) := remove_prefix_before body 96 in
     let t := match t0 with [] => resolve_recursive_tag full intro | _ => t0 end in
     let name := drop 1 intro in
     match sp name t l with
     | Some (Some (txt, r)) => VOk ([CSpecial txt], r)
     | Some None => VErr VShort []
     | None => prepend [CStructBegin name t] (struct_loop (pv f full) (S (length t)) t l [])
     end)
    (let inner := drop_last (drop 1 (c :: t1)) in
     match inner with
     | [] => VErr VBadEnum []
     | u :: _ =>
       match arith_of_letter u with
       | None => VErr (VBadArith u) []
       | Some a => match take_n (awidth a) l with
                   | None => VErr VShort []
                   | Some (h, r) => VOk ([enum_callback inner a u h], r)
                   end
       end
     end)
    (visit_arith c l).
Proof. reflexivity. Qed.

(** * basic facts about popping tags, for arbitrary bytes *)
Lemma tag_pop_lengths t : (length (fst (tag_pop t)) + length (snd (tag_pop t)) = length t)%nat.
Proof. unfold tag_pop. cbn [fst snd]. rewrite <- app_length, firstn_skipn. reflexivity. Qed.
Lemma sbb_aux_pos s op cl : forall count i, (i <= sbb_aux s op cl count i)%nat.
Proof.
  induction s as [|c r IH]; intros count i; cbn [sbb_aux]; [lia|].
  destruct (c =? op); [specialize (IH (S count) (S i)); lia|]. destruct (c =? cl).
  - destruct count as [|[|k]]; cbn [pred]; [pose proof (IH 0%nat (S i)); lia|lia|pose proof (IH (S k) (S i)); lia].
  - specialize (IH count (S i)); lia.
Qed.
Lemma sbb_pos s op cl : (1 <= size_between_balanced s op cl)%nat.
Proof. unfold size_between_balanced. destruct s; [lia|]. apply sbb_aux_pos. Qed.
Lemma tfs_pos t : t <> [] -> (1 <= tag_first_size t)%nat.
Proof.
  intros Hne. unfold tag_first_size. destruct (skipn (count_seq_prefix t) t) as [|c r] eqn:E.
  - destruct t as [|x t]; [congruence|]. destruct (N.eqb_spec x 91) as [->|Hx]; [cbn [count_seq_prefix]; lia|].
    exfalso. assert (H0 : count_seq_prefix (x :: t) = 0%nat).
    { cbn [count_seq_prefix]. destruct x as [|p]; [reflexivity|]. do 7 (destruct p as [p|p|]; try reflexivity). congruence. }
    rewrite H0 in E. discriminate.
  - pose proof (sbb_pos (c :: r) 40 41). pose proof (sbb_pos (c :: r) 60 62). pose proof (sbb_pos (c :: r) 123 125). pose proof (sbb_pos (c :: r) 47 92).
    destruct (c =? 40); [lia|]. destruct (c =? 60); [lia|]. destruct (c =? 123); [lia|]. destruct (c =? 47); lia.
Qed.
Lemma tag_pop_nonempty t e r : t <> [] -> tag_pop t = (e, r) -> e <> [] /\ (length r < length t)%nat /\ (length e + length r = length t)%nat.
Proof.
  intros Hne E. pose proof (tag_pop_lengths t) as HL. rewrite E in HL. cbn [fst snd] in HL.
  assert (He : e <> []).
  { unfold tag_pop in E. inversion E; subst. pose proof (tfs_pos t Hne). destruct t; [congruence|]. destruct (tag_first_size (n :: t)); [lia|]. discriminate. }
  split; [exact He|]. destruct e; [congruence|]. cbn [length] in *. lia.
Qed.
Lemma tag_pop_nil : tag_pop [] = ([], []). Proof. reflexivity. Qed.

(** * a successful visit never returns more input than it was given *)
Section LoopMono.
Variable rec : bytes -> bytes -> vres (list cb * bytes).
Hypothesis Hrec : forall t l cs l', rec t l = VOk (cs, l') -> (length l' <= length l)%nat.

Lemma seq_loop_mono e : forall n l acc cs l', seq_loop rec e n l acc = VOk (cs, l') -> (length l' <= length l)%nat.
Proof.
  induction n as [|n IH]; intros l acc cs l' E; cbn [seq_loop] in E; [inversion E; subst; lia|].
  destruct (rec e l) as [[cs1 l1]|er p] eqn:E1; [|discriminate]. apply Hrec in E1. apply IH in E. lia.
Qed.
Lemma tuple_loop_mono : forall n t l acc cs l', tuple_loop rec n t l acc = VOk (cs, l') -> (length l' <= length l)%nat.
Proof.
  induction n as [|n IH]; intros t l acc cs l' E; cbn [tuple_loop] in E; [inversion E; subst; lia|].
  destruct (tag_pop t) as [e r]. destruct e as [|c e]; [inversion E; subst; lia|].
  destruct (rec (c :: e) l) as [[cs1 l1]|er p] eqn:E1; [|discriminate]. apply Hrec in E1. apply IH in E. lia.
Qed.
Lemma struct_loop_mono : forall n t l acc cs l', struct_loop rec n t l acc = VOk (cs, l') -> (length l' <= length l)%nat.
Proof.
  induction n as [|n IH]; intros t l acc cs l' E; cbn [struct_loop] in E; [inversion E; subst; lia|].
  destruct t as [|c t]; [inversion E; subst; lia|].
  destruct (tag_pop_label (c :: t)) as [fname t1]. destruct (tag_pop t1) as [ftag t2].
  destruct (rec ftag l) as [[cs1 l1]|er p] eqn:E1; [|discriminate]. apply Hrec in E1. apply IH in E. lia.
Qed.
End LoopMono.

Lemma take_n_len n l h r : take_n n l = Some (h, r) -> (length l = n + length r)%nat.
Proof. intros H. apply take_n_app in H. destruct H as [-> Hh]. rewrite app_length. lia. Qed.
Lemma prepend_ok pre r cs l' : prepend pre r = VOk (cs, l') -> exists cs0, r = VOk (cs0, l') /\ cs = pre ++ cs0.
Proof. destruct r as [[cs0 l0]|e p]; cbn; intros H; [inversion H; subst; eauto|discriminate]. Qed.

Lemma visit_mono full : forall f tag l cs l', pv f full tag l = VOk (cs, l') -> (length l' <= length l)%nat.
Proof.
  induction f as [|f IH]; intros tag l cs l' E; [discriminate|].
  destruct tag as [|c t1]; [cbn in E; inversion E; subst; lia|].
  rewrite visit_S, dispatch_eq in E.
  destruct (c =? 91).
  { destruct (take_n 4 l) as [[h r]|] eqn:E4; [|discriminate]. apply take_n_len in E4. cbv zeta in E.
    destruct (tag_pop t1) as [etag rest].
    destruct (sb && match etag with [99] => true | _ => false end).
    { destruct (takeN (le_dec h) r) as [[chars r']|] eqn:Et; [|discriminate]. inversion E; subst. apply takeN_app in Et. destruct Et as [-> _]. rewrite app_length in E4. lia. }
    apply prepend_ok in E. destruct E as (cs0 & E & _).
    destruct (if 32 <? le_dec h then singular f full etag else Some false) as [[|]|]; [| |discriminate].
    - destruct (pv f full etag r) as [[cs1 l1]|er p] eqn:E1; [|discriminate]. inversion E; subst. apply IH in E1. lia.
    - rewrite VisitProofs.seq_loopN_eq in E. apply (seq_loop_mono _ (IH)) in E. lia. }
  destruct (c =? 40).
  { cbv zeta in E. apply prepend_ok in E. destruct E as (cs0 & E & _). now apply (tuple_loop_mono _ IH) in E. }
  destruct (c =? 60).
  { cbv zeta in E. destruct (take_n 1 l) as [[h r]|] eqn:E1; [|discriminate]. apply take_n_len in E1.
    destruct (tag_pop _) as [opt rest]. apply prepend_ok in E. destruct E as (cs0 & E & _).
    destruct (is_null_tag opt); [inversion E; subst; lia|].
    destruct (pv f full opt r) as [[cs1 l1]|er p] eqn:E2; [|discriminate]. inversion E; subst. apply IH in E2. lia. }
  destruct (c =? 123).
  { cbv zeta in E. destruct (remove_prefix_before _ 96) as [intro t0].
    destruct (sp _ _ l) as [[[txt r]|]|] eqn:Es; [inversion E; subst; apply Hsp in Es; lia|discriminate|].
    apply prepend_ok in E. destruct E as (cs0 & E & _).
    now apply (struct_loop_mono _ IH) in E. }
  destruct (c =? 47).
  { cbv zeta in E. destruct (drop_last _) as [|u inner]; [discriminate|]. destruct (arith_of_letter u) as [a|]; [|discriminate].
    destruct (take_n (awidth a) l) as [[h r]|] eqn:E1; [|discriminate]. apply take_n_len in E1. inversion E; subst. lia. }
  unfold visit_arith in E. destruct (arith_of_letter c) as [a|]; [|discriminate].
  destruct (take_n (awidth a) l) as [[h r]|] eqn:E1; [|discriminate]. apply take_n_len in E1. inversion E; subst. lia.
Qed.

(** * [singular] on arbitrary tags *)
Import VisitProofs.
Lemma singular_tuple_gen f full t1 : singular (S f) full (40 :: t1) = stl full f (S (length (removelast t1))) (removelast t1).
Proof.
  cbn [singular]. unfold drop, drop_last. cbn [skipn]. generalize (removelast t1) as inner. intros inner.
  cbn [stl]. destruct (tag_pop inner) as [e r]. destruct e as [|c e]; [reflexivity|].
  destruct (singular f full (c :: e)) as [[|]|]; try reflexivity.
  generalize (length inner) as n. intros n. revert r. induction n as [|n IH]; intros r; [reflexivity|].
  cbn -[tag_pop singular]. destruct (tag_pop r) as [e' r']. destruct e' as [|c' e']; [reflexivity|].
  destruct (singular f full (c' :: e')) as [[|]|]; try reflexivity. apply IH.
Qed.
Lemma singular_struct_gen f full t1 : singular (S f) full (123 :: t1) =
  let (intro, t) := remove_prefix_before (removelast (123 :: t1)) 96 in
  match t with
  | [] => let rt := resolve_recursive_tag full intro in let (_, rest) := tag_pop_label rt in Some (match rest with [] => true | _ => false end)
  | _ => sfl full f (S (length t)) t
  end.
Proof.
  cbn [singular]. unfold drop_last. destruct (remove_prefix_before (removelast (123 :: t1)) 96) as [intro t].
  destruct t as [|c0 t0]; [reflexivity|].
  assert (G : forall n t, (fix loop (n : nat) (t : bytes) : option bool :=
     match n with O => Some true | S n' =>
       match t with [] => Some true | _ =>
         let (_, t1) := tag_pop_label t in
         let (ft, t2) := tag_pop t1 in
         match singular f full ft with Some true => loop n' t2 | other => other end end end) n t = sfl full f n t).
  { induction n as [|n IH]; intros t; [reflexivity|]. cbn -[tag_pop tag_pop_label singular]. destruct t as [|c t]; [reflexivity|].
    destruct (tag_pop_label (c :: t)) as [lb t1']. destruct (tag_pop t1') as [ft t2]. destruct (singular f full ft) as [[|]|]; try reflexivity. apply IH. }
  cbn [sfl].
  match goal with |- context [tag_pop_label ?x] => destruct (tag_pop_label x) as [lb t1'] end.
  destruct (tag_pop t1') as [ft t2]. destruct (singular f full ft) as [[|]|]; try reflexivity. apply G.
Qed.
Lemma singular_other f full c t1 : c <> 40 -> c <> 123 -> singular (S f) full (c :: t1) = Some false.
Proof.
  intros H1 H2. destruct c as [|p]; [reflexivity|].
  do 7 (destruct p as [p|p|]; try reflexivity; try congruence).
Qed.

(** * no back-reference is ever resolved (to a non-empty definition) while visiting [tag] *)
Fixpoint nb_members (rec : bytes -> bool) (n : nat) (t : bytes) : bool :=
  match n with O => true | S n' => let (e, r) := tag_pop t in match e with [] => true | _ => rec e && nb_members rec n' r end end.
Fixpoint nb_fields (rec : bytes -> bool) (n : nat) (t : bytes) : bool :=
  match n with O => true | S n' =>
    match t with [] => true | _ => let (_, t1) := tag_pop_label t in let (ft, t2) := tag_pop t1 in rec ft && nb_fields rec n' t2 end end.
Fixpoint noback (full : bytes) (fuel : nat) (tag : bytes) : bool :=
  match fuel with
  | O => true
  | S f =>
    match tag with
    | [] => true
    | c :: t1 =>
      if c =? 91 then noback full f (fst (tag_pop t1))
      else if (c =? 40) || (c =? 60) then nb_members (noback full f) (S (length (removelast t1))) (removelast t1)
      else if c =? 123 then
        let (intro, t0) := remove_prefix_before (removelast (c :: t1)) 96 in
        match t0 with
        | [] => match resolve_recursive_tag full intro with [] => true | _ => false end
        | _ => nb_fields (noback full f) (S (length t0)) t0
        end
      else true
    end
  end.

Lemma awidth_pos a : (1 <= awidth a)%nat. Proof. destruct a; cbn; lia. Qed.

(** * a value whose tag is not singular occupies at least one byte *)
Section Progress.
Variable full : bytes.
Variable f : nat.
Hypothesis IHf : forall tag l cs l', noback full f tag = true -> singular f full tag = Some false -> pv f full tag l = VOk (cs, l') -> (length l' < length l)%nat.

Lemma tuple_progress : forall n t l acc cs l', stl full f n t = Some false -> nb_members (noback full f) n t = true ->
  tuple_loop (pv f full) n t l acc = VOk (cs, l') -> (length l' < length l)%nat.
Proof.
  induction n as [|n IH]; intros t l acc cs l' Hs Hn E; [discriminate|].
  cbn [stl nb_members tuple_loop] in *. destruct (tag_pop t) as [e r]. destruct e as [|c e]; [discriminate|].
  apply andb_true_iff in Hn. destruct Hn as [Hn1 Hn2].
  destruct (pv f full (c :: e) l) as [[cs1 l1]|er p] eqn:E1; [|discriminate].
  destruct (singular f full (c :: e)) as [[|]|] eqn:Es; [| |discriminate].
  - pose proof (visit_mono _ _ _ _ _ _ E1). pose proof (IH _ _ _ _ _ Hs Hn2 E). lia.
  - pose proof (IHf _ _ _ _ Hn1 Es E1). pose proof (tuple_loop_mono _ (visit_mono full f) _ _ _ _ _ _ E). lia.
Qed.
Lemma struct_progress : forall n t l acc cs l', sfl full f n t = Some false -> nb_fields (noback full f) n t = true ->
  struct_loop (pv f full) n t l acc = VOk (cs, l') -> (length l' < length l)%nat.
Proof.
  induction n as [|n IH]; intros t l acc cs l' Hs Hn E; [discriminate|].
  cbn [sfl nb_fields struct_loop] in *. destruct t as [|c t]; [discriminate|].
  destruct (tag_pop_label (c :: t)) as [fname t1]. destruct (tag_pop t1) as [ftag t2].
  apply andb_true_iff in Hn. destruct Hn as [Hn1 Hn2].
  destruct (pv f full ftag l) as [[cs1 l1]|er p] eqn:E1; [|discriminate].
  destruct (singular f full ftag) as [[|]|] eqn:Es; [| |discriminate].
  - pose proof (visit_mono _ _ _ _ _ _ E1). pose proof (IH _ _ _ _ _ Hs Hn2 E). lia.
  - pose proof (IHf _ _ _ _ Hn1 Es E1). pose proof (struct_loop_mono _ (visit_mono full f) _ _ _ _ _ _ E). lia.
Qed.
End Progress.

Lemma progress full : forall f tag l cs l', noback full f tag = true -> singular f full tag = Some false -> pv f full tag l = VOk (cs, l') -> (length l' < length l)%nat.
Proof.
  induction f as [|f IH]; intros tag l cs l' Hn Hs E; [discriminate|].
  destruct tag as [|c t1]; [discriminate|].
  rewrite visit_S, dispatch_eq in E. cbn [noback] in Hn.
  destruct (N.eqb_spec c 91) as [->|N91].
  { destruct (take_n 4 l) as [[h r]|] eqn:E4; [|discriminate]. apply take_n_len in E4. cbv zeta in E.
    destruct (tag_pop t1) as [etag rest].
    destruct (sb && match etag with [99] => true | _ => false end).
    { destruct (takeN (le_dec h) r) as [[chars r']|] eqn:Et; [|discriminate]. inversion E; subst. apply takeN_app in Et. destruct Et as [-> _]. rewrite app_length in E4. lia. }
    apply prepend_ok in E. destruct E as (cs0 & E & _).
    destruct (if 32 <? le_dec h then singular f full etag else Some false) as [[|]|]; [| |discriminate].
    - destruct (pv f full etag r) as [[cs1 l1]|er p] eqn:E1; [|discriminate]. inversion E; subst. apply visit_mono in E1. lia.
    - rewrite seq_loopN_eq in E. apply (seq_loop_mono _ (visit_mono full f)) in E. lia. }
  destruct (N.eqb_spec c 40) as [->|N40].
  { cbn [orb] in Hn. rewrite singular_tuple_gen in Hs. unfold drop, drop_last in E. cbn [skipn] in E. cbv zeta in E.
    apply prepend_ok in E. destruct E as (cs0 & E & _). eapply tuple_progress; eauto. }
  destruct (N.eqb_spec c 60) as [->|N60].
  { cbv zeta in E. destruct (take_n 1 l) as [[h r]|] eqn:E1; [|discriminate]. apply take_n_len in E1.
    destruct (tag_pop _) as [opt rest]. apply prepend_ok in E. destruct E as (cs0 & E & _).
    destruct (is_null_tag opt); [inversion E; subst; lia|].
    destruct (pv f full opt r) as [[cs1 l1]|er p] eqn:E2; [|discriminate]. inversion E; subst. apply visit_mono in E2. lia. }
  destruct (N.eqb_spec c 123) as [->|N123].
  { cbn [orb] in Hn. rewrite singular_struct_gen in Hs. unfold drop_last in E. cbv zeta in E.
    destruct (remove_prefix_before (removelast (123 :: t1)) 96) as [intro t0].
    destruct (sp _ _ l) as [[[txt r]|]|] eqn:Es; [inversion E; subst; apply Hsp in Es; lia|discriminate|].
    destruct t0 as [|c0 t0].
    - destruct (resolve_recursive_tag full intro); [|discriminate]. cbn in Hs. discriminate.
    - apply prepend_ok in E. destruct E as (cs0 & E & _). eapply struct_progress; eauto. }
  destruct (c =? 47).
  { cbv zeta in E. destruct (drop_last _) as [|u inner]; [discriminate|]. destruct (arith_of_letter u) as [a|]; [|discriminate].
    destruct (take_n (awidth a) l) as [[h r]|] eqn:E1; [|discriminate]. apply take_n_len in E1. pose proof (awidth_pos a). inversion E; subst. lia. }
  unfold visit_arith in E. destruct (arith_of_letter c) as [a|]; [|discriminate].
  destruct (take_n (awidth a) l) as [[h r]|] eqn:E1; [|discriminate]. apply take_n_len in E1. pose proof (awidth_pos a). inversion E; subst. lia.
Qed.

(** * the bound *)
Definition Kb (n : nat) : nat := 16 * n * n.
Lemma Kb_mono m n : (m <= n)%nat -> (Kb m <= Kb n)%nat. Proof. unfold Kb. nia. Qed.
Lemma weaken_k a b k K x1 x : (x1 <= x)%nat -> (k <= K)%nat -> (a + k * x1 <= b + k * x)%nat -> (a + K * x1 <= b + K * x)%nat.
Proof. nia. Qed.

(** [good T l r]: with T = the length of the tag: at most 4T callbacks plus 16T^2 per input byte consumed (on failure: per input byte) *)
Definition good (T : nat) (l : bytes) (r : vres (list cb * bytes)) : Prop :=
  match r with
  | VOk (cs, l') => (length l' <= length l /\ length cs + Kb T * length l' <= 4 * T + Kb T * length l)%nat
  | VErr _ p => (length p <= 4 * T + Kb T * length l)%nat
  end.

Section LoopBound.
Variable rec : bytes -> bytes -> vres (list cb * bytes).
Variable nb : bytes -> bool.
Hypothesis Hrec : forall e l, nb e = true -> good (length e) l (rec e l).

Lemma tuple_bound K : forall n t l acc, nb_members nb n t = true -> (Kb (length t) <= K)%nat ->
  match tuple_loop rec n t l acc with
  | VOk (cs, l') => (length l' <= length l /\ length cs + K * length l' <= length acc + 1 + 4 * length t + K * length l)%nat
  | VErr _ p => (length p <= length acc + 4 * length t + K * length l)%nat
  end.
Proof.
  induction n as [|n IH]; intros t l acc Hn HK; cbn [tuple_loop nb_members] in *; [rewrite app_length; cbn [length]; lia|].
  pose proof (tag_pop_lengths t) as HL. destruct (tag_pop t) as [e r]. cbn [fst snd] in HL.
  destruct e as [|c e]; [rewrite app_length; cbn [length]; lia|].
  apply andb_true_iff in Hn. destruct Hn as [Hn1 Hn2].
  pose proof (Hrec (c :: e) l Hn1) as Hg. unfold good in Hg.
  assert (Hke : (Kb (length (c :: e)) <= K)%nat) by (etransitivity; [apply Kb_mono|exact HK]; lia).
  assert (Hkr : (Kb (length r) <= K)%nat) by (etransitivity; [apply Kb_mono|exact HK]; lia).
  destruct (rec (c :: e) l) as [[cs1 l1]|er p].
  - destruct Hg as [Hm Hb]. pose proof (weaken_k _ _ _ K _ _ Hm Hke Hb) as Hw.
    specialize (IH r l1 (acc ++ cs1) Hn2 Hkr). destruct (tuple_loop rec n r l1 (acc ++ cs1)) as [[cs l']|er p].
    + rewrite app_length in IH. lia.
    + rewrite app_length in IH. lia.
  - rewrite app_length. assert ((Kb (length (c :: e)) * length l <= K * length l)%nat) by (apply Nat.mul_le_mono_r; exact Hke). lia.
Qed.

Lemma tag_pop_label_len t : t <> [] -> (length (snd (tag_pop_label t)) < length t)%nat.
Proof. intros H. destruct t as [|c t]; [congruence|]. unfold tag_pop_label, drop. change (skipn 1 (c :: t)) with t. cbn [snd length]. rewrite skipn_length. lia. Qed.

Lemma struct_bound K : forall n t l acc, nb_fields nb n t = true -> (Kb (length t) <= K)%nat ->
  match struct_loop rec n t l acc with
  | VOk (cs, l') => (length l' <= length l /\ length cs + K * length l' <= length acc + 1 + 4 * length t + K * length l)%nat
  | VErr _ p => (length p <= length acc + 4 * length t + K * length l)%nat
  end.
Proof.
  induction n as [|n IH]; intros t l acc Hn HK; cbn [struct_loop nb_fields] in *; [rewrite app_length; cbn [length]; lia|].
  destruct t as [|c0 t0]; [rewrite app_length; cbn [length]; lia|].
  pose proof (tag_pop_label_len (c0 :: t0) ltac:(discriminate)) as HL1.
  destruct (tag_pop_label (c0 :: t0)) as [fname t1]. cbn [snd] in HL1.
  pose proof (tag_pop_lengths t1) as HL. destruct (tag_pop t1) as [ftag t2]. cbn [fst snd] in HL.
  apply andb_true_iff in Hn. destruct Hn as [Hn1 Hn2].
  pose proof (Hrec ftag l Hn1) as Hg. unfold good in Hg.
  assert (Hke : (Kb (length ftag) <= K)%nat) by (etransitivity; [apply Kb_mono|exact HK]; lia).
  assert (Hkr : (Kb (length t2) <= K)%nat) by (etransitivity; [apply Kb_mono|exact HK]; lia).
  destruct (rec ftag l) as [[cs1 l1]|er p].
  - destruct Hg as [Hm Hb]. pose proof (weaken_k _ _ _ K _ _ Hm Hke Hb) as Hw.
    specialize (IH t2 l1 (acc ++ [CFieldBegin fname ftag] ++ cs1 ++ [CFieldEnd]) Hn2 Hkr).
    destruct (struct_loop rec n t2 l1 _) as [[cs l']|er p]; rewrite !app_length in IH; cbn [length] in *; lia.
  - rewrite !app_length. cbn [length] in *. assert ((Kb (length ftag) * length l <= K * length l)%nat) by (apply Nat.mul_le_mono_r; exact Hke). lia.
Qed.

(** sequences: at most [n] elements, whatever they consume ... *)
Lemma seq_bound_few e : nb e = true -> forall n l acc,
  match seq_loop rec e n l acc with
  | VOk (cs, l') => (length l' <= length l /\ length cs + Kb (length e) * length l' <= length acc + 1 + n * (4 * length e) + Kb (length e) * length l)%nat
  | VErr _ p => (length p <= length acc + S n * (4 * length e) + Kb (length e) * length l)%nat
  end.
Proof.
  intros He. induction n as [|n IH]; intros l acc; cbn [seq_loop]; [rewrite app_length; cbn [length]; lia|].
  pose proof (Hrec e l He) as Hg. unfold good in Hg. destruct (rec e l) as [[cs1 l1]|er p].
  - destruct Hg as [Hm Hb]. specialize (IH l1 (acc ++ cs1)). destruct (seq_loop rec e n l1 (acc ++ cs1)) as [[cs l']|er p]; rewrite app_length in IH; lia.
  - rewrite app_length. lia.
Qed.

(** ... or any number of elements each of which occupies at least one byte *)
Lemma seq_bound_progress e : nb e = true -> (forall l cs l', rec e l = VOk (cs, l') -> length l' < length l)%nat -> forall n l acc,
  let k := (4 * length e + Kb (length e))%nat in
  match seq_loop rec e n l acc with
  | VOk (cs, l') => (length l' <= length l /\ length cs + k * length l' <= length acc + 1 + k * length l)%nat
  | VErr _ p => (length p <= length acc + 4 * length e + k * length l)%nat
  end.
Proof.
  intros He Hp n. induction n as [|n IH]; intros l acc k; cbn [seq_loop]; [rewrite app_length; cbn [length]; lia|].
  pose proof (Hrec e l He) as Hg. unfold good in Hg. pose proof (Hp l) as Hpl. destruct (rec e l) as [[cs1 l1]|er p].
  - destruct Hg as [Hm Hb]. specialize (Hpl _ _ eq_refl). specialize (IH l1 (acc ++ cs1)). cbv zeta in IH. fold k in IH.
    assert (Hstep : (length cs1 + k * length l1 <= k * length l)%nat) by (unfold k; nia).
    destruct (seq_loop rec e n l1 (acc ++ cs1)) as [[cs l']|er p]; rewrite app_length in IH; lia.
  - rewrite app_length. unfold k. nia.
Qed.
End LoopBound.

Lemma iter_pop_nil d : Nat.iter d (fun t => snd (tag_pop t)) [] = [].
Proof. induction d as [|d IH]; [reflexivity|]. change (Nat.iter (S d) (fun t => snd (tag_pop t)) []) with (snd (tag_pop (Nat.iter d (fun t => snd (tag_pop t)) []))). rewrite IH. reflexivity. Qed.
Lemma nb_members_alt rec : rec [] = true -> forall d n t, (length t < n)%nat -> nb_members rec n t = true ->
  rec (fst (tag_pop (Nat.iter d (fun t => snd (tag_pop t)) t))) = true.
Proof.
  intros H0. induction d as [|d IH]; intros n t Hl Hn.
  - destruct n as [|n]; [lia|]. change (Nat.iter 0 (fun t => snd (tag_pop t)) t) with t. cbn [nb_members] in *. destruct (tag_pop t) as [e r]. cbn [fst].
    destruct e; [exact H0|]. apply andb_true_iff in Hn. apply Hn.
  - rewrite iter_shift. destruct t as [|c t]; [cbv beta; change (snd (tag_pop [])) with (@nil N); rewrite iter_pop_nil; exact H0|].
    destruct n as [|n]; [lia|]. cbn [nb_members] in Hn.
    destruct (tag_pop (c :: t)) as [e r] eqn:E. destruct (tag_pop_nonempty (c :: t) _ _ ltac:(discriminate) E) as (He & Hr & _).
    destruct e; [congruence|]. apply andb_true_iff in Hn. cbn [snd]. apply (IH n r); [cbn [length] in *; lia|apply Hn].
Qed.

Lemma kb_step e T : (e < T)%nat -> (4 * e + Kb e <= Kb T)%nat. Proof. unfold Kb. nia. Qed.
Lemma kb_few e T n : (e < T)%nat -> (n <= 33)%nat -> (2 + n * (4 * e) <= 4 * T + 4 * Kb T)%nat. Proof. unfold Kb. nia. Qed.
Lemma noback_nil full f : noback full f [] = true. Proof. destruct f; reflexivity. Qed.

Lemma removelast_len {A} (l : list A) : (length (removelast l) <= length l)%nat.
Proof. induction l as [|x l IH]; [cbn; lia|]. cbn [removelast]. destruct l; [cbn; lia|]. cbn [length] in *. lia. Qed.
Lemma removelast_len_lt {A} (x : A) (l : list A) : (length (removelast (x :: l)) = length l)%nat.
Proof. revert x; induction l as [|y l IH]; intros x; [reflexivity|]. cbn [removelast length] in *. now rewrite IH. Qed.

Theorem visit_bound full : forall f tag l, noback full f tag = true -> good (length tag) l (pv f full tag l).
Proof.
  induction f as [|f IH]; intros tag l Hn; [cbn; lia|].
  destruct tag as [|c t1]; [cbn; lia|].
  rewrite visit_S, dispatch_eq. cbn [noback] in Hn. set (T := length (c :: t1)). assert (HT : T = S (length t1)) by reflexivity.
  destruct (N.eqb_spec c 91) as [->|N91].
  { destruct (take_n 4 l) as [[h r]|] eqn:E4; [|cbn; lia]. apply take_n_len in E4. cbv zeta.
    pose proof (tag_pop_lengths t1) as HL. destruct (tag_pop t1) as [etag rest]. cbn [fst snd] in HL, Hn.
    assert (He : (length etag < T)%nat) by lia.
    pose proof (kb_step _ _ He) as Hk1. pose proof (Kb_mono (length etag) T ltac:(lia)) as Hk2.
    destruct (sb && match etag with [99] => true | _ => false end).
    { destruct (takeN (le_dec h) r) as [[chars r']|] eqn:Et; [|cbn; lia]. apply takeN_app in Et. destruct Et as [Er _].
      cbn [good length]. rewrite E4, Er, app_length. nia. }
    destruct (32 <? le_dec h) eqn:E32.
    - destruct (singular f full etag) as [[|]|] eqn:Es.
      + pose proof (IH etag r Hn) as Hg. unfold good in Hg. destruct (pv f full etag r) as [[cs1 l1]|er p]; cbn [prepend good app length].
        * destruct Hg as [Hm Hb]. pose proof (weaken_k _ _ _ (Kb T) _ _ Hm Hk2 Hb) as Hw. rewrite !app_length. cbn [length]. rewrite E4. nia.
        * assert ((Kb (length etag) * length r <= Kb T * length r)%nat) by (apply Nat.mul_le_mono_r; exact Hk2). rewrite E4. nia.
      + rewrite seq_loopN_eq.
        pose proof (seq_bound_progress (pv f full) (noback full f) IH etag Hn (fun l0 cs l' E => progress full f etag l0 cs l' Hn Es E) (N.to_nat (le_dec h)) r []) as Hg.
        cbv zeta in Hg. destruct (seq_loop (pv f full) etag (N.to_nat (le_dec h)) r []) as [[cs1 l1]|er p]; cbn [prepend good app length] in *.
        * destruct Hg as [Hm Hb]. pose proof (weaken_k _ _ _ (Kb T) _ _ Hm Hk1 Hb) as Hw. rewrite E4. nia.
        * assert (((4 * length etag + Kb (length etag)) * length r <= Kb T * length r)%nat) by (apply Nat.mul_le_mono_r; exact Hk1). rewrite E4. nia.
      + cbn. lia.
    - apply N.ltb_ge in E32. rewrite seq_loopN_eq.
      pose proof (seq_bound_few (pv f full) (noback full f) IH etag Hn (N.to_nat (le_dec h)) r []) as Hg.
      pose proof (kb_few (length etag) T (S (N.to_nat (le_dec h))) He ltac:(lia)) as Hf.
      destruct (seq_loop (pv f full) etag (N.to_nat (le_dec h)) r []) as [[cs1 l1]|er p]; cbn [prepend good app length] in *.
      * destruct Hg as [Hm Hb]. pose proof (weaken_k _ _ _ (Kb T) _ _ Hm Hk2 Hb) as Hw. rewrite E4. nia.
      * assert ((Kb (length etag) * length r <= Kb T * length r)%nat) by (apply Nat.mul_le_mono_r; exact Hk2). rewrite E4. nia. }
  destruct (N.eqb_spec c 40) as [->|N40].
  { cbn [orb] in Hn. unfold drop, drop_last. cbn [skipn]. cbv zeta.
    pose proof (removelast_len t1) as Hi.
    pose proof (tuple_bound (pv f full) (noback full f) IH (Kb T) (S (length (removelast t1))) (removelast t1) l [] Hn (Kb_mono (length (removelast t1)) T ltac:(lia))) as Hg.
    destruct (tuple_loop _ _ _ l []) as [[cs1 l1]|er p]; cbn [prepend good app length] in *; lia. }
  destruct (N.eqb_spec c 60) as [->|N60].
  { cbn [orb] in Hn. unfold drop, drop_last. cbn [skipn]. cbv zeta.
    destruct (take_n 1 l) as [[h r]|] eqn:E1; [|cbn; lia]. apply take_n_len in E1.
    pose proof (removelast_len t1) as Hi. rewrite N2Nat.inj_iter.
    pose proof (nb_members_alt (noback full f) (noback_nil full f) (N.to_nat (le_dec h)) (S (length (removelast t1))) (removelast t1) ltac:(lia) Hn) as Ho.
    set (tt := Nat.iter (N.to_nat (le_dec h)) (fun t => snd (tag_pop t)) (removelast t1)) in *.
    assert (Htt : (length tt <= length (removelast t1))%nat).
    { unfold tt. generalize (N.to_nat (le_dec h)) as d. induction d as [|d IHd]; [cbn; lia|].
      change (Nat.iter (S d) (fun t => snd (tag_pop t)) (removelast t1)) with (snd (tag_pop (Nat.iter d (fun t => snd (tag_pop t)) (removelast t1)))).
      pose proof (tag_pop_lengths (Nat.iter d (fun t => snd (tag_pop t)) (removelast t1))). lia. }
    pose proof (tag_pop_lengths tt) as HL. destruct (tag_pop tt) as [opt rest]. cbn [fst snd] in HL, Ho.
    assert (He : (length opt < T)%nat) by lia. pose proof (Kb_mono (length opt) T ltac:(lia)) as Hk2.
    destruct (is_null_tag opt); [cbn [prepend good app length]; rewrite E1; nia|].
    pose proof (IH opt r Ho) as Hg. unfold good in Hg. destruct (pv f full opt r) as [[cs1 l1]|er p]; cbn [prepend good app length].
    - destruct Hg as [Hm Hb]. pose proof (weaken_k _ _ _ (Kb T) _ _ Hm Hk2 Hb) as Hw. rewrite !app_length. cbn [length]. rewrite E1. nia.
    - assert ((Kb (length opt) * length r <= Kb T * length r)%nat) by (apply Nat.mul_le_mono_r; exact Hk2). rewrite E1. nia. }
  destruct (N.eqb_spec c 123) as [->|N123].
  { cbn [orb] in Hn. unfold drop_last. cbv zeta.
    pose proof (removelast_len_lt 123 t1) as Hb. unfold remove_prefix_before in *.
    set (body := removelast (123 :: t1)) in *. set (k := find_pos body 96) in *.
    assert (Ht0 : (length (skipn k body) <= length t1)%nat) by (rewrite skipn_length; lia).
    assert (Hspecial : forall nm tt X, good T l (match sp nm tt l with Some (Some (txt, r)) => VOk ([CSpecial txt], r) | Some None => VErr VShort [] | None => X end) <-> (sp nm tt l = None -> good T l X) \/ sp nm tt l <> None).
    { intros nm tt X. destruct (sp nm tt l) as [[[txt r]|]|] eqn:Es; split; intros; auto; try (right; discriminate).
      - cbn [good length]. apply Hsp in Es. nia.
      - cbn. lia.
      - destruct H as [H|H]; [now apply H|congruence]. }
    destruct (skipn k body) as [|c0 t0] eqn:Et0.
    - destruct (resolve_recursive_tag full (firstn k body)); [|discriminate]. apply Hspecial. destruct (sp (drop 1 (firstn k body)) [] l) eqn:Es; [right; discriminate|left; intros _]. cbn. lia.
    - apply Hspecial. destruct (sp (drop 1 (firstn k body)) (c0 :: t0) l) eqn:Es; [right; discriminate|left; intros _].
      pose proof (struct_bound (pv f full) (noback full f) IH (Kb T) (S (length (c0 :: t0))) (c0 :: t0) l [] Hn (Kb_mono (length (c0 :: t0)) T ltac:(lia))) as Hg.
      destruct (struct_loop _ _ _ l []) as [[cs1 l1]|er p]; cbn [prepend good app length] in *; lia. }
  destruct (c =? 47).
  { cbv zeta. destruct (drop_last _) as [|u inner]; [cbn; lia|]. destruct (arith_of_letter u) as [a|]; [|cbn; lia].
    destruct (take_n (awidth a) l) as [[h r]|] eqn:E1; [|cbn; lia]. apply take_n_len in E1. cbn [good length]. rewrite E1. nia. }
  unfold visit_arith. destruct (arith_of_letter c) as [a|]; [|cbn; lia].
  destruct (take_n (awidth a) l) as [[h r]|] eqn:E1; [|cbn; lia]. apply take_n_len in E1. cbn [good length]. rewrite E1. nia.
Qed.

Definition callbacks_of (r : vres (list cb * bytes)) : nat := match r with VOk (cs, _) => length cs | VErr _ p => length p end.

(** for EVERY tag and EVERY input: unless a struct back-reference is resolved, the callbacks (delivered or made before the error) number
    at most 4|tag| + 16|tag|^2 |input| *)
Theorem callbacks_bounded full f tag input : noback full f tag = true ->
  (callbacks_of (pv f full tag input) <= 4 * length tag + 16 * length tag * length tag * length input)%nat.
Proof.
  intros H. pose proof (visit_bound full f tag input H) as Hg. unfold good, callbacks_of, Kb in *.
  destruct (pv f full tag input) as [[cs l']|e p]; [destruct Hg as [_ Hg]|]; lia.
Qed.

End Visitor.
Import VisitProofs.

Lemma nospec_consumes : forall n t i txt r, nospec n t i = Some (Some (txt, r)) -> (length r < length i)%nat.
Proof. discriminate. Qed.
(** the plain visitor of mserialize *)
Corollary callbacks_bounded_plain full f tag input : noback full f tag = true ->
  (callbacks_of (visit false nospec f full tag input) <= 4 * length tag + 16 * length tag * length tag * length input)%nat.
Proof. apply callbacks_bounded. exact nospec_consumes. Qed.

(** the recorded amplification D6 is exactly a resolved back-reference; ordinary tags (here: a sequence of structs holding a string,
    an optional and a nested tuple; an enum; a recursive-free variant) satisfy [noback] *)
Example d6a_has_backref : noback d6a_tag 2048 d6a_tag = false. Proof. vm_compute. reflexivity. Qed.
Definition ordinary_tag : bytes :=
  [91; 123; 83; 96; 97; 39; 91; 99; 96; 98; 39; 60; 48; 105; 62; 96; 99; 39; 40; 105; 40; 100; 91; 66; 41; 41; 125].  (* [{S`a'[c`b'<0i>`c'(i(d[B))} *)
Example ordinary_noback : noback ordinary_tag 2048 ordinary_tag = true. Proof. vm_compute. reflexivity. Qed.

(** * the tags of loggable types never need a back-reference: the bound holds for every (non-recursive) type of the C06 universe *)
From BL Require Import Mser.TagProofs Mser.EnumProofs.
Section Typed.
Variable full : bytes.

Lemma nb_members_tags f : forall ts n, (length (concat (map tag ts)) < n)%nat ->
  Forall (fun t => ty_ok t = true /\ noback full f (tag t) = true) ts -> nb_members (noback full f) n (concat (map tag ts)) = true.
Proof.
  induction ts as [|t ts IH]; intros n Hn H.
  - destruct n; [cbn in Hn; lia|]. reflexivity.
  - inversion H as [|? ? [Hok Hs] Hr]; subst. destruct n; [cbn in Hn; lia|].
    cbn [map concat nb_members]. rewrite (tag_pop_tag t _ Hok).
    pose proof (tag_nonempty t) as Hne. destruct (tag t) eqn:Et; [congruence|]. rewrite <- Et in *. rewrite Hs. cbn [andb].
    apply IH; [|exact Hr]. cbn [map concat] in Hn. rewrite app_length in Hn. rewrite Et in Hn. cbn [length] in Hn. lia.
Qed.

Lemma nb_fields_tags f : forall fs n, (length (fields_tag fs) < n)%nat ->
  Forall (fun fd => name_ok (fst fd) = true /\ ty_ok (snd fd) = true /\ noback full f (tag (snd fd)) = true) fs ->
  nb_fields (noback full f) n (fields_tag fs) = true.
Proof.
  induction fs as [|fd fs IH]; intros n Hn H.
  - destruct n; [cbn in Hn; lia|]. reflexivity.
  - inversion H as [|? ? (Hl & Hok & Hs) Hr]; subst. destruct n; [cbn in Hn; lia|].
    unfold fields_tag in *. cbn [map concat] in *. rewrite <- !app_assoc in *. cbn [app nb_fields] in *.
    destruct (name_ok_transp _ Hl) as (_ & _ & _ & _ & _ & H39).
    rewrite (tag_pop_label_spec (fst fd) _ H39). rewrite (tag_pop_tag (snd fd) _ Hok). rewrite Hs. cbn [andb].
    apply IH; [|exact Hr]. repeat (rewrite app_length in Hn || cbn [length] in Hn). lia.
Qed.

Theorem noback_tag : forall t f, ty_ok t = true -> empties full t -> noback full f (tag t) = true.
Proof.
  induction t using ty_ind'; intros f Hok He; (destruct f as [|f]; [reflexivity|]).
  - destruct a; reflexivity.
  - reflexivity.
  - (* sequence *) cbn [tag noback ty_ok empties] in *. change (91 =? 91) with true. cbv iota.
    rewrite <- (app_nil_r (tag t)). rewrite (tag_pop_tag t [] Hok). cbn [fst]. now apply IHt.
  - (* tuple *)
    cbn [tag ty_ok empties] in *. cbn [noback]. change (40 =? 91) with false. change ((40 =? 40) || (40 =? 60)) with true. cbv iota.
    rewrite removelast_last. apply nb_members_tags; [lia|].
    rewrite Forall_forall in *. rewrite forallb_forall in Hok. intros t Ht. split; [apply Hok; exact Ht|].
    apply (H t Ht f); [apply Hok; exact Ht|apply (empties_member full ts t He Ht)].
  - (* optional: <0T> *)
    cbn [tag ty_ok empties app] in *. cbn [noback]. change (60 =? 91) with false. change ((60 =? 40) || (60 =? 60)) with true. cbv iota.
    replace (48 :: tag t ++ [62]) with ((48 :: tag t) ++ [62]) by reflexivity. rewrite removelast_last.
    change (48 :: tag t) with (tag TUnit ++ tag t).
    replace (tag TUnit ++ tag t) with (concat (map tag [TUnit; t])) by (cbn [map concat]; now rewrite app_nil_r).
    apply nb_members_tags; [lia|]. constructor; [split; [reflexivity|destruct f; reflexivity]|]. constructor; [|constructor]. split; [exact Hok|now apply IHt].
  - (* variant *)
    cbn [tag ty_ok empties] in *. cbn [noback]. change (60 =? 91) with false. change ((60 =? 40) || (60 =? 60)) with true. cbv iota.
    replace (concat (map tag ts) ++ [48; 62]) with ((concat (map tag ts) ++ [48]) ++ [62]) by (now rewrite <- app_assoc). rewrite removelast_last.
    replace (concat (map tag ts) ++ [48]) with (concat (map tag (ts ++ [TUnit]))) by (rewrite map_app, concat_app; cbn [map concat tag]; now rewrite app_nil_r).
    apply nb_members_tags; [lia|]. apply Forall_app. split.
    + rewrite Forall_forall in *. rewrite forallb_forall in Hok. intros t Ht. split; [apply Hok; exact Ht|].
      apply (H t Ht f); [apply Hok; exact Ht|apply (empties_member full ts t He Ht)].
    + constructor; [split; [reflexivity|destruct f; reflexivity]|constructor].
  - reflexivity.
  - (* struct *)
    cbn [tag ty_ok empties] in *. apply andb_true_iff in Hok. destruct Hok as [Hn Hfs]. destruct He as [He0 He].
    destruct (name_ok_transp _ Hn) as (_ & _ & _ & _ & H96 & _).
    cbn [noback]. change (123 =? 91) with false. change ((123 =? 40) || (123 =? 60)) with false. change (123 =? 123) with true. cbv iota.
    destruct (list_eq_nil_dec fs) as [Efs|Efs].
    + subst fs. cbn [map concat app].
      replace (123 :: n ++ [125]) with ((123 :: n) ++ [125]) by reflexivity. rewrite removelast_last.
      unfold remove_prefix_before. rewrite (find_pos_notin (123 :: n) 96) by (intros [Q|Q]; [discriminate|contradiction]).
      rewrite firstn_all, skipn_all. rewrite (He0 eq_refl). reflexivity.
    + fold (fields_tag fs).
      replace (123 :: n ++ fields_tag fs ++ [125]) with ((123 :: n ++ fields_tag fs) ++ [125]) by (cbn [app]; now rewrite <- app_assoc).
      rewrite removelast_last. unfold remove_prefix_before.
      destruct fs as [|f0 fs0]; [congruence|].
      assert (Hft : fields_tag (f0 :: fs0) = 96 :: (fst f0 ++ [39] ++ tag (snd f0)) ++ fields_tag fs0) by (unfold fields_tag; cbn [map concat app]; reflexivity).
      set (T := fields_tag (f0 :: fs0)) in *.
      assert (Hfp : find_pos (123 :: n ++ T) 96 = S (length n)) by (rewrite Hft; apply (find_pos_struct n _ H96)).
      assert (Hsk : skipn (S (length n)) (123 :: n ++ T) = T) by (change (S (length n)) with (length (123 :: n)); change (123 :: n ++ T) with ((123 :: n) ++ T); apply skipn_app_exact).
      rewrite Hfp, Hsk. subst T. destruct (fields_tag (f0 :: fs0)) as [|c0 r0] eqn:Eft; [rewrite Hft in Eft; discriminate|]. rewrite <- Eft.
      apply nb_fields_tags; [lia|].
      rewrite Forall_forall in *. rewrite forallb_forall in Hfs. intros fd Hfd. specialize (Hfs fd Hfd). apply andb_true_iff in Hfs. destruct Hfs as [L1 T1].
      split; [exact L1|split; [exact T1|]]. apply (H fd Hfd f); [exact T1|apply (empties_field full (f0 :: fs0) fd He Hfd)].
Qed.
End Typed.

(** hence: for every loggable type of the C06 universe whose empty structs are not shadowed by a definition in the complete tag, and for
    EVERY input (not only serialized values of the type), the callbacks are bounded *)
Corollary callbacks_bounded_typed sb sp t input : (forall n t i txt r, sp n t i = Some (Some (txt, r)) -> (length r < length i)%nat) ->
  ty_ok t = true -> empties (tag t) t ->
  (callbacks_of (visit sb sp 2048 (tag t) (tag t) input) <= 4 * length (tag t) + 16 * length (tag t) * length (tag t) * length input)%nat.
Proof. intros Hsp Hok He. apply callbacks_bounded; [exact Hsp|]. now apply noback_tag. Qed.
