(** Bytes, little-endian integers, decimal printing. Definitions and their basic lemmas. *)
From Coq Require Import List NArith ZArith Lia Bool.
Import ListNotations.
Local Open Scope N_scope.

Notation byte := N (only parsing).            (* by convention < 256 *)
Notation bytes := (list N) (only parsing).

Definition is_byte (b : N) : Prop := b < 256.
Definition all_bytes (l : bytes) : Prop := Forall is_byte l.

(** [le_enc n x]: the [n] low-order bytes of [x], least significant first
    (what memcpy of an n-byte unsigned object writes on a little-endian machine). *)
Fixpoint le_enc (n : nat) (x : N) : bytes :=
  match n with
  | O => []
  | S n' => (x mod 256) :: le_enc n' (x / 256)
  end.

Fixpoint le_dec (l : bytes) : N :=
  match l with
  | [] => 0
  | b :: r => b + 256 * le_dec r
  end.

Lemma le_enc_length n x : length (le_enc n x) = n.
Proof. revert x; induction n as [|n IH]; intros x; simpl; [reflexivity|]. now rewrite IH. Qed.

Lemma le_enc_bytes n x : all_bytes (le_enc n x).
Proof.
  revert x; induction n as [|n IH]; intros x; simpl; constructor.
  - unfold is_byte. apply N.mod_lt. discriminate.
  - apply IH.
Qed.

Lemma le_dec_enc n x : x < 256 ^ (N.of_nat n) -> le_dec (le_enc n x) = x.
Proof.
  revert x; induction n as [|n IH]; intros x Hx.
  - simpl in *. lia.
  - cbn [le_enc le_dec]. rewrite IH.
    + pose proof (N.div_mod x 256 ltac:(discriminate)). lia.
    + rewrite Nat2N.inj_succ, N.pow_succ_r' in Hx.
      apply N.div_lt_upper_bound; [discriminate|exact Hx].
Qed.

Lemma le_dec_bound l : all_bytes l -> le_dec l < 256 ^ (N.of_nat (length l)).
Proof.
  induction l as [|b r IH]; intros H.
  - simpl. lia.
  - inversion H as [|? ? Hb Hr]; subst. specialize (IH Hr). unfold is_byte in Hb.
    cbn [le_dec length]. rewrite Nat2N.inj_succ, N.pow_succ_r'. lia.
Qed.

Lemma le_enc_dec l : all_bytes l -> le_enc (length l) (le_dec l) = l.
Proof.
  induction l as [|b r IH]; intros H; [reflexivity|].
  inversion H as [|? ? Hb Hr]; subst. unfold is_byte in Hb.
  cbn [le_dec length le_enc].
  assert (Hm : (b + 256 * le_dec r) mod 256 = b).
  { rewrite N.mul_comm, N.mod_add by discriminate. now apply N.mod_small. }
  assert (Hd : (b + 256 * le_dec r) / 256 = le_dec r).
  { rewrite N.mul_comm, N.div_add by discriminate. rewrite (N.div_small b) by exact Hb. lia. }
  rewrite Hm, Hd.
  now rewrite IH.
Qed.

(** [take_n n l] = Some (first n, rest) iff l has at least n elements
    (Range::read/view with throw_if_overflow). *)
Fixpoint take_n (n : nat) (l : bytes) : option (bytes * bytes) :=
  match n, l with
  | O, _ => Some ([], l)
  | S n', [] => None
  | S n', b :: r => match take_n n' r with
                    | Some (h, t) => Some (b :: h, t)
                    | None => None
                    end
  end.

Lemma take_n_app n l h t : take_n n l = Some (h, t) -> l = h ++ t /\ length h = n.
Proof.
  revert l h t; induction n as [|n IH]; intros l h t H.
  - simpl in H. inversion H; subst. split; reflexivity.
  - destruct l as [|b r]; simpl in H; [discriminate|].
    destruct (take_n n r) as [[h' t']|] eqn:E; [|discriminate].
    inversion H; subst. apply IH in E. destruct E as [-> <-]. split; reflexivity.
Qed.

Lemma take_n_exact h t : take_n (length h) (h ++ t) = Some (h, t).
Proof. induction h as [|b h IH]; simpl; [reflexivity|]. now rewrite IH. Qed.

Lemma take_n_none n l : take_n n l = None <-> (length l < n)%nat.
Proof.
  revert l; induction n as [|n IH]; intros l.
  - simpl. split; [discriminate|lia].
  - destruct l as [|b r]; simpl.
    + split; [lia|reflexivity].
    + specialize (IH r). destruct (take_n n r) as [[h t]|].
      * split; [discriminate|]. intros H. assert (length r < n)%nat by lia. apply IH in H0. discriminate.
      * split; [|reflexivity]. intros _. assert (length r < n)%nat by (apply IH; reflexivity). lia.
Qed.

(** Taking N-sized counts (sizes come from u32 fields; lists are never that long in practice,
    but the model must not build a 2^32-long unary nat): compare lengths first. *)
Definition lenN (l : bytes) : N := N.of_nat (length l).

Definition takeN (n : N) (l : bytes) : option (bytes * bytes) :=
  if n <=? lenN l then take_n (N.to_nat n) l else None.

Lemma takeN_app n l h t : takeN n l = Some (h, t) -> l = h ++ t /\ lenN h = n.
Proof.
  unfold takeN, lenN. destruct (N.leb_spec n (N.of_nat (length l))); [|discriminate].
  intros E. apply take_n_app in E. destruct E as [-> E]. split; [reflexivity|]. lia.
Qed.

Lemma takeN_exact h t : takeN (lenN h) (h ++ t) = Some (h, t).
Proof.
  unfold takeN, lenN. rewrite app_length.
  destruct (N.leb_spec (N.of_nat (length h)) (N.of_nat (length h + length t))); [|lia].
  rewrite Nat2N.id. apply take_n_exact.
Qed.

Lemma takeN_none n l : takeN n l = None <-> lenN l < n.
Proof.
  unfold takeN, lenN. destruct (N.leb_spec n (N.of_nat (length l))).
  - rewrite take_n_none. lia.
  - split; [intros _; exact H|reflexivity].
Qed.

(** unsigned little-endian reads of 1,2,4,8 bytes *)
Definition rd (n : nat) (l : bytes) : option (N * bytes) :=
  match take_n n l with
  | Some (h, t) => Some (le_dec h, t)
  | None => None
  end.

Lemma rd_enc n x t : x < 256 ^ N.of_nat n -> rd n (le_enc n x ++ t) = Some (x, t).
Proof.
  intros Hx. unfold rd.
  pose proof (take_n_exact (le_enc n x) t) as H. rewrite le_enc_length in H. rewrite H.
  now rewrite le_dec_enc.
Qed.

(** two's complement *)
Definition to_signed (bits : N) (x : N) : Z :=
  if x <? 2 ^ (bits - 1) then Z.of_N x else (Z.of_N x - Z.of_N (2 ^ bits))%Z.
Definition of_signed (bits : N) (z : Z) : N :=
  Z.to_N (z mod (Z.of_N (2 ^ bits)))%Z.

(** decimal digits, most significant first; fuel = number of bits is always enough *)
Fixpoint dec_aux (fuel : nat) (n : N) (acc : bytes) : bytes :=
  match fuel with
  | O => acc
  | S f => let acc' := (48 + n mod 10) :: acc in
           if n <? 10 then acc' else dec_aux f (n / 10) acc'
  end.
Definition dec (n : N) : bytes := dec_aux (S (N.to_nat (N.size n))) n [].
Definition decZ (z : Z) : bytes :=
  match z with
  | Zneg p => 45 :: dec (Npos p)
  | _ => dec (Z.to_N z)
  end.

(** ASCII helper: a Coq string literal as bytes *)
From Coq Require Import String Ascii.
Fixpoint str (s : string) : bytes :=
  match s with
  | EmptyString => []
  | String a r => N_of_ascii a :: str r
  end.
