// E1: EventFilter redefinition; E2: sorted printing with trailing truncated entry
#include <binlog/binlog.hpp>
#include <binlog/EventFilter.hpp>
#include <binlog/TextOutputStream.hpp>
#include <binlog/EntryStream.hpp>
#include <binlog/EventStream.hpp>
#include <binlog/PrettyPrinter.hpp>
#include <binlog/detail/VectorOutputStream.hpp>
#include <iostream>
#include <sstream>
#include "/repo/bin/printers.hpp"
using namespace binlog;
struct VS { std::string s; VS& write(const char* b, std::streamsize n){ s.append(b,n); return *this;} };
static void ev(VS& out, uint64_t id, uint64_t clock){
  std::uint32_t size = 16; out.write((char*)&size,4); out.write((char*)&id,8); out.write((char*)&clock,8);
}
int main(){
  VS in;
  EventSource a{1, Severity::info, "cat", "fn", "file", 1, "allowed-def", ""};
  EventSource b{1, Severity::trace, "cat", "fn", "file", 2, "disallowed-def", ""};
  serializeSizePrefixedTagged(a, in); ev(in,1,10);
  serializeSizePrefixedTagged(b, in); ev(in,1,20);
  EventFilter f([](const EventSource& s){ return s.severity >= Severity::info; });
  VS out; f.writeAllowed(in.s.data(), in.s.size(), out);
  std::ostringstream txt; TextOutputStream t(txt, "%S %m\n"); t.write(out.s.data(), out.s.size());
  std::cout << "E1 filtered output:\n" << txt.str();
  // E2
  VS log; serializeSizePrefixedTagged(a, log); ev(log,1,30); ev(log,1,10); log.s.append("\x10\0\0\0abc", 7);
  { std::istringstream is(log.s); std::ostringstream os; try { printEvents(is, os, "%r %m\n", ""); } catch (std::exception& e) { os << "EXC " << e.what() << "\n"; } std::cout << "E2 unsorted:\n" << os.str(); }
  { std::istringstream is(log.s); std::ostringstream os; try { printSortedEvents(is, os, "%r %m\n", ""); } catch (std::exception& e) { os << "EXC " << e.what() << "\n"; } std::cout << "E2 sorted:\n" << os.str(); }
}
