#include <binlog/binlog.hpp>
#include <binlog/TextOutputStream.hpp>
#include <iostream>
#include <sstream>
#include <climits>
using namespace binlog;
struct VS { std::string s; VS& write(const char* b, std::streamsize n){ s.append(b,n); return *this;} };
static std::string run(const ClockSync& cs, uint64_t clock, const char* fmt, const char* dfmt){
  VS log;
  serializeSizePrefixedTagged(cs, log);
  EventSource a{1, Severity::info, "c", "f", "file", 1, "m", ""};
  serializeSizePrefixedTagged(a, log);
  std::uint32_t size = 16; uint64_t id=1; log.write((char*)&size,4); log.write((char*)&id,8); log.write((char*)&clock,8);
  std::ostringstream txt; TextOutputStream ts(txt, fmt, dfmt);
  try { ts.write(log.s.data(), log.s.size()); } catch (std::exception& e) { return std::string("EXC ")+e.what(); }
  return txt.str();
}
int main(int argc, char** argv){
  int which = atoi(argv[1]);
  if (which == 1) // local time just before epoch with sub-second part: instant 1800.5s, tz -3600
    std::cout << run(ClockSync{0, 1000000000, 0, -3600, "XST"}, 1800500000000ull, "%d | %u\n", "%Y-%m-%d %H:%M:%S.%N %z") ;
  if (which == 2) // instant = 0.5 s, tz -1 s
    std::cout << run(ClockSync{0, 1000000000, 0, -1, "XST"}, 500000000ull, "%d | %u\n", "%Y-%m-%d %H:%M:%S.%N") ;
  if (which == 3) // %y with year < 1900: nsSinceEpoch as huge uint64 => negative
    std::cout << run(ClockSync{0, 1, uint64_t(-9000000000000000000ll), 0, "UTC"}, 0, "%u\n", "%Y %y") ;
  if (which == 4) // tz INT_MIN with %z
    std::cout << run(ClockSync{0, 1, 0, INT_MIN, "UTC"}, 0, "%d\n", "%z") ;
  if (which == 5) // year > 9999? max
    std::cout << run(ClockSync{0, 1, uint64_t(9223372036854775807ll), 0, "UTC"}, 0, "%u\n", "%Y-%m-%d %H:%M:%S.%N %y") ;
}
