#include <binlog/binlog.hpp>
#include <binlog/TextOutputStream.hpp>
#include <iostream>
#include <sstream>
#include <chrono>
using namespace binlog;
struct VS { std::string s; VS& write(const char* b, std::streamsize n){ s.append(b,n); return *this;} };
int main(int argc, char** argv){
  uint32_t n = strtoul(argv[1],0,10);
  std::string t = "({A`a'()}[{A})", args((char*)&n, 4);
  VS log;
  EventSource a{1, Severity::info, "c", "f", "file", 1, "{}", t};
  serializeSizePrefixedTagged(a, log);
  std::uint32_t size = 16 + args.size(); uint64_t id=1, clock=0; log.write((char*)&size,4); log.write((char*)&id,8); log.write((char*)&clock,8); log.write(args.data(), args.size());
  std::ostringstream txt; TextOutputStream ts(txt, "%m\n");
  auto t0 = std::chrono::steady_clock::now();
  try { ts.write(log.s.data(), log.s.size()); } catch (std::exception& e) { std::cout << "EXC " << std::string(e.what()).substr(0,60) << "\n"; }
  auto dt = std::chrono::duration<double>(std::chrono::steady_clock::now()-t0).count();
  std::cout << "n=" << n << " input=" << log.s.size() << " out=" << txt.str().size() << " time=" << dt << " " << txt.str().substr(0,60) << "\n";
}
