// D7 spike: real Session.hpp / SessionWriter.hpp executed over a release/acquire store-history machine.
#include <atomic>
#include <mutex>
#include <memory>
#include <cstring>
#include <vector>
#include <deque>
#include <string>
#include <cstdio>
#include <algorithm>
#include <chrono>
#include <ctime>
#include <ios>
#include <stdexcept>
#include <type_traits>
#include <iterator>
#include <utility>
#include <cassert>
#include <cstdint>
#include <cstddef>
#include <tuple>
#include <sstream>
#include <map>
#include <functional>
#include <set>

namespace ra {
using View = std::map<const void*, size_t>;           // location -> index of newest store known
static int tid = 0;                                    // current logical thread
static View tview[8];                                  // per-thread views
static std::deque<int> staleness;                      // script: how many stores older than newest to read (clipped to view)
static bool trace = true;
static void join(View& a, const View& b) { for (auto& kv : b) { auto& x = a[kv.first]; if (kv.second > x) x = kv.second; } }
static bool acq(std::memory_order o) { return o == std::memory_order_acquire || o == std::memory_order_acq_rel || o == std::memory_order_seq_cst || o == std::memory_order_consume; }
static bool rel(std::memory_order o) { return o == std::memory_order_release || o == std::memory_order_acq_rel || o == std::memory_order_seq_cst; }
static View pending_acq[8];                            // views of stores read by relaxed loads, claimed by a later acquire fence
inline void fence(std::memory_order o) { if (acq(o)) { join(tview[tid], pending_acq[tid]); } if (trace) printf("  T%d fence order=%d\n", tid, int(o)); }
}
namespace std {
template <class T> struct verif_atomic {
  struct Msg { T v; ra::View view; bool has_view; };
  mutable std::vector<Msg> hist; const char* name = "?";
  verif_atomic() { hist.push_back(Msg{T{}, {}, false}); }
  constexpr verif_atomic(T x) { hist.push_back(Msg{x, {}, false}); ra::tview[ra::tid][this] = 0; }
  T load(memory_order o = memory_order_seq_cst) const {
    size_t newest = hist.size()-1, lo = ra::tview[ra::tid][this];
    int st = 0; if (!ra::staleness.empty()) { st = ra::staleness.front(); ra::staleness.pop_front(); }
    size_t idx = newest >= size_t(st) ? newest - st : 0; if (idx < lo) idx = lo;
    ra::tview[ra::tid][this] = idx;
    if (hist[idx].has_view) { if (ra::acq(o)) ra::join(ra::tview[ra::tid], hist[idx].view); else ra::join(ra::pending_acq[ra::tid], hist[idx].view); }
    if (ra::trace) printf("  T%d load  %p order=%d reads store #%zu of %zu -> %lld\n", ra::tid, (void*)this, int(o), idx, newest, (long long)hist[idx].v);
    return hist[idx].v;
  }
  void store(T x, memory_order o = memory_order_seq_cst) {
    Msg m{x, {}, false}; ra::tview[ra::tid][this] = hist.size();
    if (ra::rel(o)) { m.view = ra::tview[ra::tid]; m.has_view = true; }
    hist.push_back(m);
    if (ra::trace) printf("  T%d store %p order=%d #%zu <- %lld\n", ra::tid, (void*)this, int(o), hist.size()-1, (long long)x);
  }
  T fetch_add(T d, memory_order o) {   // RMW reads the newest store; continues its release sequence
    Msg& last = hist.back(); T old = last.v;
    if (last.has_view) { if (ra::acq(o)) ra::join(ra::tview[ra::tid], last.view); else ra::join(ra::pending_acq[ra::tid], last.view); }
    Msg m{T(old + d), last.view, last.has_view}; ra::tview[ra::tid][this] = hist.size();
    if (ra::rel(o)) { ra::join(m.view, ra::tview[ra::tid]); m.has_view = true; }
    hist.push_back(m);
    if (ra::trace) printf("  T%d rmw   %p order=%d #%zu %lld -> %lld\n", ra::tid, (void*)this, int(o), hist.size()-1, (long long)old, (long long)(old+d));
    return old;
  }
  operator T() const { return load(); }
};
struct verif_mutex { ra::View v; void lock(){ ra::join(ra::tview[ra::tid], v); if (ra::trace) printf("  T%d lock\n", ra::tid); } void unlock(){ v = ra::tview[ra::tid]; if (ra::trace) printf("  T%d unlock\n", ra::tid); } };
template <class M> struct verif_lock_guard { M& m; explicit verif_lock_guard(M& mm):m(mm){ m.lock(); } ~verif_lock_guard(){ m.unlock(); } };
// stand-in for libstdc++ shared_ptr: add = relaxed RMW, release = acq_rel RMW, use_count = relaxed load
template <class T> struct verif_shared_ptr {
  struct CB { verif_atomic<long> count{1}; T* p; };
  CB* cb = nullptr;
  verif_shared_ptr() = default;
  verif_shared_ptr(const verif_shared_ptr& o) : cb(o.cb) { if (cb) cb->count.fetch_add(1, memory_order_relaxed); }
  verif_shared_ptr(verif_shared_ptr&& o) noexcept : cb(o.cb) { o.cb = nullptr; }
  verif_shared_ptr& operator=(verif_shared_ptr o) noexcept { std::swap(cb, o.cb); return *this; }
  ~verif_shared_ptr() { reset(); }
  void reset() { if (cb) { if (cb->count.fetch_add(-1, memory_order_acq_rel) == 1) { delete cb->p; delete cb; } cb = nullptr; } }
  long use_count() const { return cb ? cb->count.load(memory_order_relaxed) : 0; }
  T& operator*() const { return *cb->p; } T* operator->() const { return cb->p; }
  explicit operator bool() const { return cb != nullptr; }
};
inline void verif_fence(memory_order o){ ra::fence(o); }
template <class T, class... A> verif_shared_ptr<T> verif_make_shared(A&&... a) { verif_shared_ptr<T> r; r.cb = new typename verif_shared_ptr<T>::CB; r.cb->p = new T(std::forward<A>(a)...); return r; }
}
#define atomic verif_atomic
#define mutex verif_mutex
#define lock_guard verif_lock_guard
#define shared_ptr verif_shared_ptr
#define make_shared verif_make_shared
#define atomic_thread_fence verif_fence
#ifdef WITH_FENCE_FIX
#define BINLOG_SPIKE_FENCE ra::fence(std::memory_order_acquire);
#endif
#include <binlog/Session.hpp>
#include <binlog/SessionWriter.hpp>
#undef atomic
#undef mutex
#undef lock_guard
#undef shared_ptr
#undef make_shared
#undef atomic_thread_fence
struct VS { std::string s; VS& write(const char* b, std::streamsize n){ s.append(b,n); return *this;} };
int main(int argc, char** argv){
  bool stale = argc > 1 && atoi(argv[1]);
  ra::tid = 0; binlog::Session s;
  puts("T1: create writer, log one event, destroy writer");
  ra::tid = 1; { binlog::SessionWriter w(s, 128); bool ok = w.addEvent(7, 1, 42); printf("  addEvent returned %d\n", ok); }
  puts("T2: consume");
  ra::tid = 2;
  // consume's loads in order: use_count (relaxed), W (acquire), R (relaxed own)
  if (stale) ra::staleness = {0 /*use_count: newest (=1, closed)*/, 1 /*W: one store older than newest*/};
  VS out; auto r = s.consume(out);
  printf("consume: bytes=%zu channelsPolled=%zu channelsRemoved=%zu\n", r.bytesConsumed, r.channelsPolled, r.channelsRemoved);
  VS out2; auto r2 = s.consume(out2);
  printf("second consume: bytes=%zu channelsPolled=%zu\n", r2.bytesConsumed, r2.channelsPolled);
  bool has_event = out.s.find(std::string("\x07\0\0\0\0\0\0\0", 8)) != std::string::npos || out2.s.find(std::string("\x07\0\0\0\0\0\0\0", 8)) != std::string::npos;
  printf("event with source id 7 delivered: %s\n", has_event ? "yes" : "NO - LOST");
}
