// E3: DAG-shaped struct tag amplification
#include <binlog/binlog.hpp>
#include <binlog/TextOutputStream.hpp>
#include <iostream>
#include <sstream>
#include <chrono>
using namespace binlog;
struct VS { std::string s; VS& write(const char* b, std::streamsize n){ s.append(b,n); return *this;} };
int main(int argc, char** argv){
  int n = argc > 1 ? atoi(argv[1]) : 10;
  // A0 = {A0`a'()} ; Ak = {Ak`l'<A(k-1) full>`r'{A(k-1)}}
  std::string t = "{A0`a'()}";
  for (int k = 1; k <= n; ++k) {
    std::string name = "A" + std::to_string(k);
    t = "{" + name + "`l'" + t + "`r'{A" + std::to_string(k-1) + "}}";
  }
  VS log;
  EventSource a{1, Severity::info, "c", "f", "file", 1, "{}", t};
  serializeSizePrefixedTagged(a, log);
  std::uint32_t size = 16; uint64_t id=1, clock=0; log.write((char*)&size,4); log.write((char*)&id,8); log.write((char*)&clock,8);
  std::ostringstream txt; TextOutputStream ts(txt, "%m\n");
  auto t0 = std::chrono::steady_clock::now();
  try { ts.write(log.s.data(), log.s.size()); } catch (std::exception& e) { std::cout << "EXC " << e.what() << "\n"; }
  auto dt = std::chrono::duration<double>(std::chrono::steady_clock::now()-t0).count();
  std::cout << "n=" << n << " taglen=" << t.size() << " input=" << log.s.size() << " output=" << txt.str().size() << " time=" << dt << "\n";
  if (n <= 2) std::cout << t << "\n" << txt.str();
}
