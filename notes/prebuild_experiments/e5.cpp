#include <binlog/binlog.hpp>
#include <binlog/TextOutputStream.hpp>
#include <iostream>
#include <sstream>
using namespace binlog;
struct VS { std::string s; VS& write(const char* b, std::streamsize n){ s.append(b,n); return *this;} };
int main(int argc, char** argv){
  int depth = atoi(argv[1]); int kind = atoi(argv[2]);
  std::string t, args;
  if (kind == 0) { t = std::string(depth, '[') + "i"; for (int i=0;i<depth;i++){ uint32_t one=1; args.append((char*)&one,4);} int v=7; args.append((char*)&v,4); }
  if (kind == 1) { t = std::string(depth, '(') + std::string(depth, ')'); }
  if (kind == 2) { for (int i=0;i<depth;i++) t += "{S`f'"; t += "i"; t += std::string(depth,'}'); int v=7; args.append((char*)&v,4); }
  if (kind == 3) { for (int i=0;i<depth;i++) t += "<"; t += "i"; t += std::string(depth,'>'); args.append(std::string(depth,'\0')); int v=7; args.append((char*)&v,4); }
  VS log;
  EventSource a{1, Severity::info, "c", "f", "file", 1, "{}", t};
  serializeSizePrefixedTagged(a, log);
  std::uint32_t size = 16 + args.size(); uint64_t id=1, clock=0; log.write((char*)&size,4); log.write((char*)&id,8); log.write((char*)&clock,8); log.write(args.data(), args.size());
  std::ostringstream txt; TextOutputStream ts(txt, "%m\n");
  try { ts.write(log.s.data(), log.s.size()); } catch (std::exception& e) { std::cout << "EXC " << std::string(e.what()).substr(0,60) << "\n"; }
  std::cout << "depth=" << depth << " kind=" << kind << " out=" << txt.str().size() << " " << txt.str().substr(0,40) << "\n";
}
