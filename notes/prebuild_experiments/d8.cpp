// D8 spike: crash image taken inside RecoverableVectorOutputStream::write while it grows
#include <atomic>
#include <mutex>
#include <memory>
#include <cstring>
#include <vector>
#include <deque>
#include <string>
#include <cstdio>
#include <algorithm>
#include <chrono>
#include <ctime>
#include <ios>
#include <stdexcept>
#include <type_traits>
#include <iterator>
#include <utility>
#include <cassert>
#include <cstdint>
#include <cstddef>
#include <tuple>
#include <sstream>
#include <fstream>
#include <thread>
#include <functional>
#include <set>
#include <unistd.h>
#include <fcntl.h>
#include <sys/wait.h>

static int g_memcpy_no = 0;
static int g_snap_at = -1;
static void dump_image(const char* path) {
  std::ifstream maps("/proc/self/maps"); std::ofstream out(path, std::ios::binary);
  std::string line; int mem = open("/proc/self/mem", 0);
  while (std::getline(maps, line)) {
    unsigned long a, b; char perms[8];
    if (sscanf(line.c_str(), "%lx-%lx %7s", &a, &b, perms) != 3) continue;
    if (perms[0] != 'r' || perms[1] != 'w') continue;
    if (line.find("[vvar]") != std::string::npos || line.find("[vsyscall]") != std::string::npos) continue;
    std::vector<char> buf(1<<20);
    for (unsigned long p = a; p < b; ) { size_t n = std::min<unsigned long>(buf.size(), b-p); ssize_t r = pread(mem, buf.data(), n, p); if (r <= 0) break; out.write(buf.data(), r); p += r; }
  }
}
static void* verif_memcpy(void* d, const void* s, size_t n) {
  ++g_memcpy_no;
  if (g_memcpy_no == g_snap_at) { pid_t pid = fork(); if (pid == 0) { dump_image("image.bin"); _exit(0); } int st; waitpid(pid, &st, 0); }
  return std::memcpy(d, s, n);
}
#define memcpy verif_memcpy
#include <binlog/Session.hpp>
#include <binlog/SessionWriter.hpp>
#include <binlog/create_source_and_event.hpp>
#undef memcpy
struct VS { std::string s; VS& write(const char* b, std::streamsize n){ s.append(b,n); return *this;} };
int main(int argc, char** argv){
  int mode = atoi(argv[1]); // 0: count memcpys & report capacity growth points; N>0: snapshot at memcpy N
  g_snap_at = mode;
  binlog::Session s; binlog::SessionWriter w(s, 4096);
  // register a first source and commit two events (their add calls complete)
  std::uint64_t sid1 = s.addEventSource(binlog::EventSource{0, binlog::Severity::info, "main", "f", "file.cpp", 1, "first {}", "i"});
  w.addEvent(sid1, 100, 1); w.addEvent(sid1, 101, 2);
  int before = g_memcpy_no;
  // register more sources: some registration will reallocate _sources
  for (int i = 0; i < 6; ++i) {
    int b = g_memcpy_no;
    s.addEventSource(binlog::EventSource{0, binlog::Severity::info, "main", "g", "file.cpp", std::uint64_t(10+i), "other", ""});
    if (mode == 0) printf("registration %d used memcpy #%d..#%d\n", i, b+1, g_memcpy_no);
  }
  (void)before;
  return 0;
}
