(* Spike: two-thread release/acquire machine specialised to the SPSC queue; executable. *)
From Coq Require Import List NArith ZArith Lia Bool.
Import ListNotations.
Local Open Scope N_scope.

Definition byte := N.
Record cell := { cval : byte; wst : nat; rst : nat }.       (* value, write stamp, read stamp *)

Record st := {
  cap : N;
  Wh : list N;   (* store history of writeIndex, oldest first *)
  Rh : list N;
  pvR : nat;     (* producer's view of Rh *)
  cvW : nat;     (* consumer's view of Wh *)
  E : N; Ew : nat; Er : nat;   (* dataEnd, its write stamp and read stamp *)
  buf : list cell;
  wpos : N; wend : N;          (* producer private window *)
  rend : N;                    (* consumer private _readEnd *)
  race : bool
}.

Definition nthN {A} (l : list A) (i : nat) (d : A) := nth i l d.
Definition lastN (l : list N) := last l 0.

Definition init (c : N) : st :=
  {| cap := c; Wh := [0]; Rh := [0]; pvR := 0%nat; cvW := 0%nat; E := 0; Ew := 0%nat; Er := 0%nat;
     buf := repeat {| cval := 0; wst := 0%nat; rst := 0%nat |} (N.to_nat c);
     wpos := 0; wend := 0; rend := 0; race := false |}.

(* choose which store an acquire load reads: newest minus staleness, clipped to the view *)
Definition pick (len view stale : nat) : nat := Nat.max view (len - 1 - stale).

Definition set_race (s : st) (b : bool) : st :=
  {| cap := cap s; Wh := Wh s; Rh := Rh s; pvR := pvR s; cvW := cvW s; E := E s; Ew := Ew s; Er := Er s;
     buf := buf s; wpos := wpos s; wend := wend s; rend := rend s; race := race s || b |}.

(* producer: maximizeWriteCapacity with reads-from choice `stale` *)
Definition maximize (s : st) (stale : nat) : st :=
  let w := lastN (Wh s) in
  let j := pick (length (Rh s)) (pvR s) stale in
  let r := nthN (Rh s) j 0 in
  if w <? r then
    {| cap := cap s; Wh := Wh s; Rh := Rh s; pvR := j; cvW := cvW s; E := E s; Ew := Ew s; Er := Er s;
       buf := buf s; wpos := w; wend := r - 1; rend := rend s; race := race s |}
  else
    let right := Z.of_N (cap s - w) in
    let left := (Z.of_N r - 1)%Z in
    if (left <=? right)%Z then
      {| cap := cap s; Wh := Wh s; Rh := Rh s; pvR := j; cvW := cvW s; E := E s; Ew := Ew s; Er := Er s;
         buf := buf s; wpos := w; wend := cap s; rend := rend s; race := race s |}
    else
      (* dataEnd = w : non-atomic write, races unless all consumer reads of E are released and acquired *)
      {| cap := cap s; Wh := Wh s; Rh := Rh s; pvR := j; cvW := cvW s; E := w; Ew := length (Wh s); Er := Er s;
         buf := buf s; wpos := 0; wend := r - 1; rend := rend s;
         race := race s || negb (Nat.leb (Er s) j) |}.

Definition begin_write (s : st) (size : N) (stale : nat) : st * bool :=
  if size <=? wend s - wpos s then (s, true)
  else let s' := maximize s stale in (s', size <=? wend s' - wpos s').

Fixpoint write_cells (b : list cell) (pos : nat) (data : list byte) (stamp pv : nat) : list cell * bool :=
  match data with
  | [] => (b, false)
  | x :: xs =>
    let old := nth pos b {| cval := 0; wst := 0%nat; rst := 0%nat |} in
    let bad := negb (Nat.leb (rst old) pv) in
    let b' := firstn pos b ++ {| cval := x; wst := stamp; rst := rst old |} :: skipn (S pos) b in
    let '(b'', r) := write_cells b' (S pos) xs stamp pv in (b'', bad || r)
  end.

Definition write_buffer (s : st) (data : list byte) : st :=
  let '(b, bad) := write_cells (buf s) (N.to_nat (wpos s)) data (length (Wh s)) (pvR s) in
  {| cap := cap s; Wh := Wh s; Rh := Rh s; pvR := pvR s; cvW := cvW s; E := E s; Ew := Ew s; Er := Er s;
     buf := b; wpos := wpos s + N.of_nat (length data); wend := wend s; rend := rend s; race := race s || bad |}.

Definition end_write (s : st) : st :=
  {| cap := cap s; Wh := Wh s ++ [wpos s]; Rh := Rh s; pvR := pvR s; cvW := cvW s; E := E s; Ew := Ew s; Er := Er s;
     buf := buf s; wpos := wpos s; wend := wend s; rend := rend s; race := race s |}.

Fixpoint read_cells (b : list cell) (pos len : nat) (stamp cv : nat) : list cell * list byte * bool :=
  match len with
  | O => (b, [], false)
  | S n =>
    let old := nth pos b {| cval := 0; wst := 0%nat; rst := 0%nat |} in
    let bad := negb (Nat.leb (wst old) cv) in
    let b' := firstn pos b ++ {| cval := cval old; wst := wst old; rst := stamp |} :: skipn (S pos) b in
    let '(b'', out, r) := read_cells b' (S pos) n stamp cv in (b'', cval old :: out, bad || r)
  end.

(* consumer: beginRead + reading the bytes shown *)
Definition begin_read (s : st) (stale : nat) : st * list byte * list byte :=
  let i := pick (length (Wh s)) (cvW s) stale in
  let w := nthN (Wh s) i 0 in
  let r := lastN (Rh s) in
  let stamp := length (Rh s) in
  if r <=? w then
    let '(b, o, bad) := read_cells (buf s) (N.to_nat r) (N.to_nat (w - r)) stamp i in
    ({| cap := cap s; Wh := Wh s; Rh := Rh s; pvR := pvR s; cvW := i; E := E s; Ew := Ew s; Er := Er s;
        buf := b; wpos := wpos s; wend := wend s; rend := w; race := race s || bad |}, o, [])
  else
    let eb := negb (Nat.leb (Ew s) i) in          (* non-atomic read of dataEnd *)
    if r <? E s then
      let '(b1, o1, bad1) := read_cells (buf s) (N.to_nat r) (N.to_nat (E s - r)) stamp i in
      let '(b2, o2, bad2) := read_cells b1 0 (N.to_nat w) stamp i in
      ({| cap := cap s; Wh := Wh s; Rh := Rh s; pvR := pvR s; cvW := i; E := E s; Ew := Ew s; Er := stamp;
          buf := b2; wpos := wpos s; wend := wend s; rend := w; race := race s || eb || bad1 || bad2 |}, o1, o2)
    else
      let '(b2, o2, bad2) := read_cells (buf s) 0 (N.to_nat w) stamp i in
      ({| cap := cap s; Wh := Wh s; Rh := Rh s; pvR := pvR s; cvW := i; E := E s; Ew := Ew s; Er := stamp;
          buf := b2; wpos := wpos s; wend := wend s; rend := w; race := race s || eb || bad2 |}, o2, []).

Definition end_read (s : st) : st :=
  {| cap := cap s; Wh := Wh s; Rh := Rh s ++ [rend s]; pvR := pvR s; cvW := cvW s; E := E s; Ew := Ew s; Er := Er s;
     buf := buf s; wpos := wpos s; wend := wend s; rend := rend s; race := race s |}.

(* op-level driver *)
Inductive op := Commit (data : list byte) (stale : nat) | Poll (stale : nat).
Record obs := { granted : option bool; shown1 : list byte; shown2 : list byte }.

Definition step (s : st) (o : op) : st * obs :=
  match o with
  | Commit d stale =>
    let '(s1, ok) := begin_write s (N.of_nat (length d)) stale in
    if ok then (end_write (write_buffer s1 d), {| granted := Some true; shown1 := []; shown2 := [] |})
    else (s1, {| granted := Some false; shown1 := []; shown2 := [] |})
  | Poll stale =>
    let '(s1, o1, o2) := begin_read s stale in
    let s2 := match o1 ++ o2 with [] => s1 | _ => end_read s1 end in
    (s2, {| granted := None; shown1 := o1; shown2 := o2 |})
  end.

Fixpoint run (s : st) (ops : list op) : st * list obs :=
  match ops with [] => (s, []) | o :: os => let '(s1, ob) := step s o in let '(s2, obs) := run s1 os in (s2, ob :: obs) end.

Definition show (r : st * list obs) := (race (fst r), Wh (fst r), Rh (fst r), E (fst r), map (fun o => (granted o, shown1 o, shown2 o)) (snd r)).

(* cap 8: fill 6, consume, 4 more does not fit right (2) but left (5-? ) ... exercise wrap, stale W read, wrapped two-piece read *)
Eval vm_compute in show (run (init 8) [Commit [1;2;3;4;5;6] 0; Poll 0; Commit [7;8;9] 0; Commit [10] 0; Poll 1; Poll 0; Commit [11;12;13;14;15;16] 0; Commit [11;12] 0; Poll 0]).
