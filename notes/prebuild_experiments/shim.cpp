// feasibility spike: token-rename std::atomic / mutex / shared_ptr / memcpy inside binlog headers
#include <atomic>
#include <mutex>
#include <memory>
#include <cstring>
#include <vector>
#include <deque>
#include <string>
#include <cstdio>
#include <algorithm>
#include <chrono>
#include <ctime>
#include <ios>
#include <stdexcept>
#include <type_traits>
#include <iterator>
#include <utility>
#include <cassert>
#include <cstdint>
#include <cstddef>
#include <tuple>
#include <sstream>
#include <thread>
#include <functional>
#include <set>

static int g_events = 0;
namespace std {
template <class T> struct verif_atomic {
  T v;
  verif_atomic() = default;
  constexpr verif_atomic(T x) : v(x) {}
  T load(memory_order o = memory_order_seq_cst) const { ++g_events; printf("load  %p order=%d -> %llu\n", (void*)this, int(o), (unsigned long long)v); return v; }
  void store(T x, memory_order o = memory_order_seq_cst) { ++g_events; printf("store %p order=%d <- %llu\n", (void*)this, int(o), (unsigned long long)x); v = x; }
  operator T() const { return load(); }
};
struct verif_mutex { void lock(){ puts("lock"); } void unlock(){ puts("unlock"); } };
template <class M> struct verif_lock_guard { M& m; explicit verif_lock_guard(M& mm):m(mm){ m.lock(); } ~verif_lock_guard(){ m.unlock(); } };
}
static void* verif_memcpy(void* d, const void* s, size_t n) { printf("memcpy %p n=%zu\n", d, n); return std::memcpy(d, s, n); }
#define atomic verif_atomic
#define mutex verif_mutex
#define lock_guard verif_lock_guard
#define memcpy verif_memcpy
#include <binlog/Session.hpp>
#include <binlog/SessionWriter.hpp>
#undef atomic
#undef mutex
#undef lock_guard
#undef memcpy
struct VS { std::string s; VS& write(const char* b, std::streamsize n){ s.append(b,n); return *this;} };
int main(){
  binlog::Session s; binlog::SessionWriter w(s, 128);
  w.addEvent(1, 2, 3);
  VS out; s.consume(out);
  printf("events=%d out=%zu\n", g_events, out.s.size());
}
