(* Spike: index arithmetic of the queue with ghost laps, SC op-level; how heavy are the lia proofs? *)
From Coq Require Import ZArith Lia Bool List.
Import ListNotations.
Local Open Scope Z_scope.

Record st := { cap : Z; w : Z; r : Z; e : Z; wp : Z; we : Z;
               (* ghost *) T : Z; bW : Z; bR : Z; bp : Z }.

Definition maximize (s : st) : st :=
  if w s <? r s then
    {| cap := cap s; w := w s; r := r s; e := e s; wp := w s; we := r s - 1; T := T s; bW := bW s; bR := bR s; bp := bW s |}
  else
    let right := cap s - w s in let left := r s - 1 in
    if left <=? right then
      {| cap := cap s; w := w s; r := r s; e := e s; wp := w s; we := w s + right; T := T s; bW := bW s; bR := bR s; bp := bW s |}
    else
      {| cap := cap s; w := w s; r := r s; e := w s; wp := 0; we := left; T := T s; bW := bW s; bR := bR s; bp := T s |}.

Definition commit (s : st) (n : Z) : st * bool :=
  let s1 := if n <=? we s - wp s then s else maximize s in
  if n <=? we s1 - wp s1 then
    ({| cap := cap s1; w := wp s1 + n; r := r s1; e := e s1; wp := wp s1 + n; we := we s1;
        T := T s1 + n; bW := bp s1; bR := bR s1; bp := bp s1 |}, true)
  else (s1, false).

(* poll: returns the logical intervals shown, and the new state (endRead only if non-empty) *)
Definition poll (s : st) : st * list (Z * Z) :=
  let set_r (x : Z) (b : Z) := {| cap := cap s; w := w s; r := x; e := e s; wp := wp s; we := we s; T := T s; bW := bW s; bR := b; bp := bp s |} in
  if r s <=? w s then
    if w s - r s =? 0 then (s, []) else (set_r (w s) (bW s), [(bR s + r s, bR s + w s)])
  else if r s <? e s then
    (set_r (w s) (bW s), [(bR s + r s, bR s + e s); (bW s, bW s + w s)])
  else
    if w s =? 0 then (s, []) else (set_r (w s) (bW s), [(bW s, bW s + w s)]).

Definition Inv (s : st) : Prop :=
  0 <= cap s /\ 0 <= w s <= cap s /\ 0 <= r s <= cap s /\ 0 <= e s <= cap s /\
  0 <= wp s <= we s /\ we s <= cap s /\
  T s = bW s + w s /\ bR s + r s <= T s /\ 0 <= bR s <= bW s /\
  (* W one lap ahead of R *)
  (bW s <> bR s -> bW s = bR s + e s /\ w s <= r s - 1 /\ r s <= e s) /\
  (* producer position *)
  ((bp s = bW s /\ wp s = w s) \/ (bp s = T s /\ bp s <> bW s /\ wp s = 0 /\ e s = w s /\ bW s = bR s /\ we s <= r s - 1)) /\
  (* window never reaches unread data *)
  (bp s = bW s -> bW s <> bR s -> we s <= r s - 1) /\
  (bp s = bW s -> bW s = bR s -> r s <= w s).

Definition init (c : Z) : st := {| cap := c; w := 0; r := 0; e := 0; wp := 0; we := 0; T := 0; bW := 0; bR := 0; bp := 0 |}.

Lemma inv_init c : 0 <= c -> Inv (init c).
Proof. unfold Inv, init; cbn; intros; repeat split; try lia. all: try (left; lia). Qed.

Ltac brk := repeat match goal with
  | |- context [if ?b then _ else _] => destruct b eqn:?
  end.

Lemma inv_maximize s : Inv s -> Inv (maximize s).
Proof.
  unfold Inv, maximize. intros (Hc & Hw & Hr & He & Hwp & Hwe & HT & HR & Hb & Hlap & Hpos & Hwin1 & Hwin2).
  destruct (w s <? r s) eqn:E1; [|destruct (r s - 1 <=? cap s - w s) eqn:E2]; cbn [cap w r e wp we T bW bR bp];
  apply Z.ltb_lt in E1 || apply Z.ltb_ge in E1; try (apply Z.leb_le in E2 || apply Z.leb_gt in E2).
  - assert (bW s <> bR s) by (intro Q; destruct Hpos as [[? ?]|(?&?&?&?&?&?)]; [specialize (Hwin2 H Q); lia| lia]).
    specialize (Hlap H). repeat split; try lia.
  - destruct (Z.eq_dec (bW s) (bR s)) as [Q|Q]; [|specialize (Hlap Q)]; repeat split; try lia.
  - assert (bW s = bR s) by (destruct (Z.eq_dec (bW s) (bR s)) as [Q|Q]; [assumption|specialize (Hlap Q); lia]).
    repeat split; try lia.
Qed.

Lemma inv_commit s n : 0 <= n -> Inv s -> Inv (fst (commit s n)).
Proof.
  intros Hn HI. unfold commit.
  destruct (n <=? we s - wp s) eqn:E0.
  - rewrite E0. cbn [fst]. apply Z.leb_le in E0. unfold Inv in *. cbn [cap w r e wp we T bW bR bp].
    destruct HI as (Hc & Hw & Hr & He & Hwp & Hwe & HT & HR & Hb & Hlap & Hpos & Hwin1 & Hwin2).
    destruct Hpos as [[P1 P2]|(P1&P2&P3&P4&P5&P6)].
    + destruct (Z.eq_dec (bW s) (bR s)) as [Q|Q]; [specialize (Hwin2 P1 Q)|specialize (Hlap Q); specialize (Hwin1 P1 Q)];
      repeat split; try lia.
    + repeat split; try lia.
  - pose proof (inv_maximize s HI) as HM. set (m := maximize s) in *. clearbody m.
    destruct (n <=? we m - wp m) eqn:E1; cbn [fst]; [|exact HM].
    apply Z.leb_le in E1. unfold Inv in *. cbn [cap w r e wp we T bW bR bp].
    destruct HM as (Hc & Hw & Hr & He & Hwp & Hwe & HT & HR & Hb & Hlap & Hpos & Hwin1 & Hwin2).
    destruct Hpos as [[P1 P2]|(P1&P2&P3&P4&P5&P6)].
    + destruct (Z.eq_dec (bW m) (bR m)) as [Q|Q]; [specialize (Hwin2 P1 Q)|specialize (Hlap Q); specialize (Hwin1 P1 Q)];
      repeat split; try lia.
    + repeat split; try lia.
Qed.

(* what poll shows is exactly the unread logical range, in order, and afterwards nothing is unread *)
Fixpoint contiguous (lo : Z) (l : list (Z * Z)) (hi : Z) : Prop :=
  match l with
  | [] => lo = hi
  | (a, b) :: rest => a = lo /\ a <= b /\ contiguous b rest hi
  end.

Lemma poll_shows_unread s : Inv s ->
  let '(s', shown) := poll s in
  Inv s' /\ contiguous (bR s + r s) shown (T s) /\ bR s' + r s' = T s' /\ T s' = T s.
Proof.
  intros HI. unfold poll.
  destruct HI as (Hc & Hw & Hr & He & Hwp & Hwe & HT & HR & Hb & Hlap & Hpos & Hwin1 & Hwin2).
  destruct (Z.eq_dec (bW s) (bR s)) as [Q|Q]; [|specialize (Hlap Q)].
  all: destruct (r s <=? w s) eqn:E1; [apply Z.leb_le in E1|apply Z.leb_gt in E1].
  all: try (destruct (w s - r s =? 0) eqn:E2; [apply Z.eqb_eq in E2|apply Z.eqb_neq in E2]).
  all: try (destruct (r s <? e s) eqn:E3; [apply Z.ltb_lt in E3|apply Z.ltb_ge in E3]).
  all: try (destruct (w s =? 0) eqn:E4; [apply Z.eqb_eq in E4|apply Z.eqb_neq in E4]).
  all: unfold Inv; cbn [cap w r e wp we T bW bR bp contiguous].
  all: try (destruct Hpos as [[P1 P2]|(P1&P2&P3&P4&P5&P6)]).
  all: try (repeat split; lia).
  all: repeat split; try lia.
Qed.

(* every reachable state of any op sequence satisfies the invariant *)
Inductive op := Commit (n : Z) | Poll.
Definition step (s : st) (o : op) : st := match o with Commit n => fst (commit s n) | Poll => fst (poll s) end.
Definition op_ok (o : op) := match o with Commit n => 0 <= n | Poll => True end.

Theorem reachable_inv c ops : 0 <= c -> Forall op_ok ops -> Inv (fold_left step ops (init c)).
Proof.
  intros Hc. assert (HI : Inv (init c)) by (apply inv_init; exact Hc). revert HI. generalize (init c).
  induction ops as [|o ops IH]; intros s HI Hok; cbn [fold_left]; [exact HI|].
  inversion Hok as [|? ? Ho Hrest]; subst. apply IH; [|exact Hrest].
  destruct o as [n|]; cbn [step].
  - apply inv_commit; assumption.
  - pose proof (poll_shows_unread s HI) as P. destruct (poll s) as [s' shown]. cbn [fst]. tauto.
Qed.
Print Assumptions reachable_inv.
