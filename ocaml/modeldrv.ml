(* Trusted glue: reads one case per line "<mode> <hex> <hex> ...", calls the extracted
   Model.api, prints the resulting byte string as one line. "-" denotes an empty argument. *)
open Model

let rec pos_of_int n = if n = 1 then XH else if n land 1 = 1 then XI (pos_of_int (n lsr 1)) else XO (pos_of_int (n lsr 1))
let n_of_int n = if n = 0 then N0 else Npos (pos_of_int n)
let rec int_of_pos = function XH -> 1 | XO p -> 2 * int_of_pos p | XI p -> 2 * int_of_pos p + 1
let int_of_n = function N0 -> 0 | Npos p -> int_of_pos p

let z_of_int n = if n = 0 then Z0 else if n > 0 then Zpos (pos_of_int n) else Zneg (pos_of_int (-n))
let rec nat_of_int n = if n <= 0 then O else S (nat_of_int (n - 1))
let bytes_of_string s = List.init (String.length s) (fun i -> n_of_int (Char.code s.[i]))
let hexval c = match c with '0'..'9' -> Char.code c - 48 | 'a'..'f' -> Char.code c - 87 | _ -> failwith "hex"
let bytes_of_hex s =
  if s = "-" then [] else
  List.init (String.length s / 2) (fun i -> n_of_int (16 * hexval s.[2*i] + hexval s.[2*i+1]))
let string_of_bytes l = let b = Buffer.create 256 in List.iter (fun n -> Buffer.add_char b (Char.chr (int_of_n n land 255))) l; Buffer.contents b

let () =
  try
    while true do
      let line = input_line stdin in
      match String.split_on_char ' ' (String.trim line) with
      | [] | [""] -> print_endline ""
      | "queue" :: cap :: ops ->
        (* op tokens: w<k>:<hex> | b<k>:<n> | r<k> | e *)
        let parse t =
          let n = String.length t in
          match t.[0] with
          | 'e' -> OpEndRead
          | 'r' -> OpRead (nat_of_int (int_of_string (String.sub t 1 (n - 1))))
          | c ->
            let i = String.index t ':' in
            let k = nat_of_int (int_of_string (String.sub t 1 (i - 1))) in
            let rest = String.sub t (i + 1) (n - i - 1) in
            if c = 'w' then OpWrite (k, bytes_of_hex rest) else OpBegin (k, z_of_int (int_of_string rest)) in
        print_endline (string_of_bytes (api_queue (z_of_int (int_of_string cap)) (List.map parse ops)))
      | mode :: args ->
        let r = api (bytes_of_string mode) (List.map bytes_of_hex args) in
        print_endline (string_of_bytes r)
    done
  with End_of_file -> ()
