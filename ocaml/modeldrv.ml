(* Trusted glue: reads one case per line "<mode> <hex> <hex> ...", calls the extracted
   Model.api, prints the resulting byte string as one line. "-" denotes an empty argument. *)
open Model

let rec pos_of_int n = if n = 1 then XH else if n land 1 = 1 then XI (pos_of_int (n lsr 1)) else XO (pos_of_int (n lsr 1))
let n_of_int n = if n = 0 then N0 else Npos (pos_of_int n)
let rec int_of_pos = function XH -> 1 | XO p -> 2 * int_of_pos p | XI p -> 2 * int_of_pos p + 1
let int_of_n = function N0 -> 0 | Npos p -> int_of_pos p

let z_of_int n = if n = 0 then Z0 else if n > 0 then Zpos (pos_of_int n) else Zneg (pos_of_int (-n))
let rec nat_of_int n = if n <= 0 then O else S (nat_of_int (n - 1))
let bytes_of_string s = List.init (String.length s) (fun i -> n_of_int (Char.code s.[i]))
let hexval c = match c with '0'..'9' -> Char.code c - 48 | 'a'..'f' -> Char.code c - 87 | _ -> failwith "hex"
let bytes_of_hex s =
  if s = "-" then [] else
  List.init (String.length s / 2) (fun i -> n_of_int (16 * hexval s.[2*i] + hexval s.[2*i+1]))
let string_of_bytes l = let b = Buffer.create 256 in List.iter (fun n -> Buffer.add_char b (Char.chr (int_of_n n land 255))) l; Buffer.contents b

let () =
  try
    while true do
      let line = input_line stdin in
      match String.split_on_char ' ' (String.trim line) with
      | [] | [""] -> print_endline ""
      | "queue" :: cap :: ops ->
        (* op tokens: w<k>:<hex> | b<k>:<n> | r<k> | e *)
        let parse t =
          let n = String.length t in
          match t.[0] with
          | 'e' -> OpEndRead
          | 'r' -> OpRead (nat_of_int (int_of_string (String.sub t 1 (n - 1))))
          | c ->
            let i = String.index t ':' in
            let k = nat_of_int (int_of_string (String.sub t 1 (i - 1))) in
            let rest = String.sub t (i + 1) (n - i - 1) in
            if c = 'w' then OpWrite (k, bytes_of_hex rest) else OpBegin (k, z_of_int (int_of_string rest)) in
        print_endline (string_of_bytes (api_queue (z_of_int (int_of_string cap)) (List.map parse ops)))
      | "mser" :: toks ->
        (* prefix token grammar, see tools/gen_mser.py *)
        let toks = ref toks in
        let next () = match !toks with t :: r -> toks := r; t | [] -> failwith "eof" in
        let big s = (* decimal string -> N *)
          let n = ref N0 in
          String.iter (fun c -> n := N.add (N.mul !n (n_of_int 10)) (n_of_int (Char.code c - 48))) s; !n in
        let aty_of c = match c with
          | 'y' -> ABool | 'c' -> AChar | 'b' -> AI8 | 's' -> AI16 | 'i' -> AI32 | 'l' -> AI64
          | 'B' -> AU8 | 'S' -> AU16 | 'I' -> AU32 | 'L' -> AU64 | 'f' -> AF32 | 'd' -> AF64 | 'D' -> AF80 | _ -> failwith "aty" in
        let hexs s = if s = "" then [] else bytes_of_hex s in
        let rec pty () =
          let t = next () in
          let rest = String.sub t 1 (String.length t - 1) in
          match t.[0] with
          | 'A' -> TArith (aty_of rest.[0])
          | 'E' -> (match String.split_on_char ':' rest with
                    | [name; c; k] -> let k = int_of_string k in
                      let es = List.init k (fun _ -> match String.split_on_char ':' (next ()) with [raw; nm] -> (big raw, hexs nm) | _ -> failwith "enumerator") in
                      TEnum (hexs name, aty_of c.[0], es)
                    | _ -> failwith "enum")
          | 'Q' -> (match String.split_on_char ':' rest with
                    | [c; ext] -> let k = { sk_contig = (c = "c"); sk_extent = (if ext = "-" then None else Some (nat_of_int (int_of_string ext))) } in
                      let e = pty () in TSeq (k, e)
                    | _ -> failwith "seq")
          | 'T' -> let k = int_of_string rest in let ts = List.init k (fun _ -> 0) in TTuple (List.map (fun _ -> pty ()) ts)
          | 'O' -> TOpt (pty ())
          | 'V' -> let k = int_of_string rest in let ts = List.init k (fun _ -> 0) in TVariant (List.map (fun _ -> pty ()) ts)
          | 'U' -> TUnit
          | 'S' -> (match String.split_on_char ':' rest with
                    | [name; k] -> let k = int_of_string k in let ix = List.init k (fun _ -> 0) in
                      TStruct (hexs name, List.map (fun _ -> let l = next () in let lab = hexs (String.sub l 1 (String.length l - 1)) in let t = pty () in (lab, t)) ix)
                    | _ -> failwith "struct")
          | _ -> failwith ("ty " ^ t) in
        let rec pval () =
          let t = next () in
          let rest = String.sub t 1 (String.length t - 1) in
          match t.[0] with
          | 'r' -> VRaw (big rest)
          | 'q' -> let ix = List.init (int_of_string rest) (fun _ -> 0) in VSeq (List.map (fun _ -> pval ()) ix)
          | 't' -> let ix = List.init (int_of_string rest) (fun _ -> 0) in VTup (List.map (fun _ -> pval ()) ix)
          | 'n' -> VNone
          | 's' -> VSome (pval ())
          | 'a' -> let i = nat_of_int (int_of_string rest) in VAlt (i, pval ())
          | 'x' -> VValueless
          | 'u' -> VUnit
          | _ -> failwith ("val " ^ t) in
        let t = pty () in
        (match next () with "|" -> () | _ -> failwith "sep");
        let v = pval () in
        print_endline (string_of_bytes (api_mser t v))
      | ("session" | "session_nofence" | "sessstate") as m :: ops ->
        let n_of s = n_of_int (int_of_string s) in
        let hexs s = if s = "" then [] else bytes_of_hex s in
        let parse_act a =
          if a.[0] = 'c' then WClose (n_of (String.sub a 1 (String.length a - 1)))
          else (match String.split_on_char '.' (String.sub a 1 (String.length a - 1)) with
                | [w; k; h] -> WAdd (n_of w, nat_of_int (int_of_string k), hexs h)
                | _ -> failwith "act") in
        let parse_acts s = if s = "" then [] else List.map parse_act (String.split_on_char ',' s) in
        let parse_plan p = match String.split_on_char '|' p with
          | [k; a; b] -> { pl_before = parse_acts a; pl_between = parse_acts b; pl_k = nat_of_int (int_of_string k) }
          | _ -> failwith "plan" in
        let parse t =
          match String.split_on_char ':' t with
          | ["nw"; w; cap; id; name] -> SNewWriter (n_of w, z_of_int (int_of_string cap), n_of id, hexs name)
          | ["id"; w; id] -> SSetId (n_of w, n_of id)
          | ["nm"; w; name] -> SSetName (n_of w, hexs name)
          | ["ev"; w; k; p] -> SAddEvent (n_of w, nat_of_int (int_of_string k), hexs p)
          | ["lg"; w; k; site; sev; clock; args] ->
              SLog (n_of w, nat_of_int (int_of_string k),
                    { lg_site = n_of site; lg_sev = n_of sev; lg_src = site_source (n_of site) (n_of sev); lg_clock = n_of clock; lg_args = hexs args })
          | ["lx"; w; k; cond; clock; args] ->
              (* `if (cond) S8; else S9;`: the statement executed is S8 (debug) or S9 (error), both inside function "fx" *)
              let site, sev = if cond = "1" then 8, 64 else 9, 512 in
              let src = site_source (n_of_int site) (n_of_int sev) in
              SLog (n_of w, nat_of_int (int_of_string k),
                    { lg_site = n_of_int site; lg_sev = n_of_int sev; lg_src = { src with s_function = bytes_of_string "fx" }; lg_clock = n_of clock; lg_args = hexs args })
          | ["lgs"; w; k; site; sev; cat; fn; file; line; fmt; tags; clock; args] ->
              (* a log statement whose source fields are given explicitly (C08 state tie: the fields are read back from the real log) *)
              SLog (n_of w, nat_of_int (int_of_string k),
                    { lg_site = n_of site; lg_sev = n_of sev;
                      lg_src = { s_id = n_of_int 0; s_sev = n_of sev; s_category = hexs cat; s_function = hexs fn; s_file = hexs file; s_line = n_of line; s_format = hexs fmt; s_argtags = hexs tags };
                      lg_clock = n_of clock; lg_args = hexs args })
          | ["cl"; w] -> SClose (n_of w)
          | ["as"; n; sev] -> SAddSource (site_source (n_of n) (n_of sev))
          | ["cs"; c; f; ns; tz; name] -> SSetClockSync { cs_clock = n_of c; cs_freq = n_of f; cs_ns = n_of ns; cs_tz = n_of tz; cs_tzname = hexs name }
          | ["ms"; sev] | ["mw"; sev] -> SSetMinSev (n_of sev)
          | ["co"; plans] -> SConsume (if plans = "" then [] else List.map parse_plan (String.split_on_char ';' plans))
          | ["rc"] -> SReconsume
          | _ -> failwith ("op " ^ t) in
        if m = "sessstate" then
          (match ops with
           | cs0 :: rest ->
             (match String.split_on_char ':' cs0 with
              | [c; f; ns; tz; name] ->
                let cs = { cs_clock = n_of c; cs_freq = n_of f; cs_ns = n_of ns; cs_tz = n_of tz; cs_tzname = hexs name } in
                print_endline (string_of_bytes (api_session_state cs (List.map parse rest)))
              | _ -> failwith "sessstate cs")
           | [] -> failwith "sessstate")
        else
        print_endline (string_of_bytes (api_session (m = "session") (List.map parse ops)))
      | mode :: args ->
        let r = api (bytes_of_string mode) (List.map bytes_of_hex args) in
        print_endline (string_of_bytes r)
    done
  with End_of_file -> ()
