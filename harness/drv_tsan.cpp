// ThreadSanitizer scenario (C10): the UNMODIFIED headers, real threads. Every operation the Session / SessionWriter documentation
// lists as thread-safe runs concurrently: writers (each thread its own writer) logging through shared call sites, renaming themselves,
// being created, moved and destroyed, small queues so that channels wrap and get replaced; a consumer calling consume and
// reconsumeMetadata; a control thread calling setClockSync and setMinSeverity.
// usage: drv_tsan <seed> <milliseconds> <writer threads>
#include <binlog/binlog.hpp>

#include <atomic>
#include <chrono>
#include <cstdint>
#include <cstdio>
#include <cstdlib>
#include <random>
#include <string>
#include <thread>
#include <vector>

struct CountingStream
{
  std::size_t bytes = 0;
  CountingStream& write(const char* p, std::streamsize n) { if (n > 0) { bytes += std::size_t(n); sink ^= p[0] ^ p[n - 1]; } return *this; }
  char sink = 0;
};

static std::atomic<bool> stop{false};

static void site_a(binlog::SessionWriter& w, int i) { BINLOG_INFO_W(w, "a {}", i); }
static void site_b(binlog::SessionWriter& w, const std::string& s) { BINLOG_WARN_WC(w, net, "b {} {}", s, s.size()); }
static void site_c(binlog::SessionWriter& w, double d) { BINLOG_TRACE_W(w, "c {}", d); }
static void site_d(binlog::SessionWriter& w, const std::vector<int>& v) { BINLOG_ERROR_WC(w, db, "d {}", v); }

static void writer_thread(binlog::Session& session, unsigned seed, int id)
{
  std::mt19937 rng(seed * 7919u + unsigned(id));
  while (!stop.load(std::memory_order_relaxed))
  {
    binlog::SessionWriter w(session, std::size_t(128u << (rng() % 4)), std::uint64_t(id), "w" + std::to_string(id));
    const int n = int(rng() % 200);
    for (int i = 0; i < n && !stop.load(std::memory_order_relaxed); ++i)
    {
      switch (rng() % 8)
      {
      case 0: site_a(w, i); break;
      case 1: site_b(w, std::string(rng() % 300, 'x')); break;      // larger than small queues: forces channel replacement
      case 2: site_c(w, double(i) / 3); break;
      case 3: site_d(w, std::vector<int>(rng() % 20, i)); break;
      case 4: w.setName("renamed" + std::to_string(i)); break;
      case 5: w.setId(std::uint64_t(i)); break;
      case 6: { binlog::SessionWriter moved(std::move(w)); site_a(moved, -i); w = std::move(moved); break; }
      default: std::this_thread::yield();
      }
    }
  }
}

int main(int argc, char** argv)
{
  const unsigned seed = argc > 1 ? unsigned(std::atoi(argv[1])) : 1u;
  const int ms = argc > 2 ? std::atoi(argv[2]) : 2000;
  const int nw = argc > 3 ? std::atoi(argv[3]) : 3;
  binlog::Session session;
  std::vector<std::thread> threads;
  for (int i = 0; i < nw; ++i) threads.emplace_back(writer_thread, std::ref(session), seed, i + 1);
  std::size_t total = 0;
  threads.emplace_back([&]
  {
    std::mt19937 rng(seed + 17u); CountingStream out;
    while (!stop.load(std::memory_order_relaxed))
    {
      if (rng() % 10 == 0) session.reconsumeMetadata(out); else session.consume(out);
      if (rng() % 4 == 0) std::this_thread::yield();
    }
    session.consume(out); total = out.bytes;
  });
  threads.emplace_back([&]
  {
    std::mt19937 rng(seed + 99u);
    while (!stop.load(std::memory_order_relaxed))
    {
      if (rng() % 2) session.setMinSeverity(rng() % 3 ? binlog::Severity::trace : binlog::Severity::warning);
      else session.setClockSync(binlog::systemClockSync());
      std::this_thread::sleep_for(std::chrono::microseconds(rng() % 500));
    }
  });
  std::this_thread::sleep_for(std::chrono::milliseconds(ms));
  stop.store(true);
  for (auto& t : threads) t.join();
  std::printf("consumed %zu bytes\n", total);
  return 0;
}
