// Correspondence + race driver for the SPSC queue: runs the REAL Queue/QueueWriter/QueueReader headers of the
// tree it is compiled against over a store-history implementation of std::atomic (token renaming, no source
// change). A load of the other thread's variable reads the store chosen by the script: "the k-th store after
// the one this thread has already seen" (clipped to the newest) - the same reads-from choice as the Coq model.
// Non-atomic accesses to the queue buffer are stamped and checked against the happens-before the memory orders
// actually used in the source establish (a release store / acquire load pair transfers the view; anything
// weaker does not), so a weakened order in the source shows up as a reported race on a concrete script.
#include <algorithm>
#include <atomic>
#include <cassert>
#include <cstddef>
#include <cstdint>
#include <cstring>
#include <ios>
#include <iostream>
#include <sstream>
#include <string>
#include <vector>

namespace vq {
static int tid = 0;                    // 0 = producer, 1 = consumer
static std::size_t advance = 0;        // reads-from choice for the next load of the OTHER thread's variable
static std::string race;               // first race found in the current case
static char* qbuf = nullptr; static std::size_t qcap = 0;
static std::vector<std::size_t> wstamp, rstamp;   // per cell: #W stores / #R stores at the time of the last write / read
static bool acq(std::memory_order o) { return o == std::memory_order_acquire || o == std::memory_order_acq_rel || o == std::memory_order_seq_cst || o == std::memory_order_consume; }
static bool rel(std::memory_order o) { return o == std::memory_order_release || o == std::memory_order_acq_rel || o == std::memory_order_seq_cst; }
struct Hist
{
  std::vector<std::size_t> vals{0}; std::vector<bool> released{true};
  int owner = -1;
  std::size_t seen = 0;        // index of the newest store the other thread has read
  std::size_t synced = 0;      // index of the newest store the other thread has synchronized with (release/acquire pair)
};
static Hist* W = nullptr; static Hist* R = nullptr;
}

namespace std {
template <class T> struct verif_atomic
{
  mutable vq::Hist h;
  verif_atomic(T x) { h.vals[0] = std::size_t(x); }
  T load(memory_order o) const
  {
    if (h.owner == -1 || h.owner == vq::tid) { return T(h.vals.back()); }   // own variable: newest store (coherence)
    const std::size_t idx = std::min(h.seen + vq::advance, h.vals.size() - 1);
    h.seen = idx;
    if (vq::acq(o))
    {
      // synchronizes with the newest release store at or before idx (release sequences do not arise: plain stores only)
      for (std::size_t i = idx + 1; i-- > h.synced; ) { if (h.released[i]) { h.synced = std::max(h.synced, i); break; } }
    }
    return T(h.vals[idx]);
  }
  void store(T x, memory_order o)
  {
    h.owner = vq::tid;
    h.vals.push_back(std::size_t(x)); h.released.push_back(vq::rel(o));
  }
};
inline void* verif_memcpy(void* dst, const void* src, std::size_t n)
{
  char* d = static_cast<char*>(dst);
  if (vq::qbuf != nullptr && d >= vq::qbuf && d + n <= vq::qbuf + vq::qcap)
  {
    // producer writes cells: every earlier read of these cells must have been released by an R store the producer synchronized with
    for (std::size_t i = 0; i < n; ++i)
    {
      const std::size_t c = std::size_t(d - vq::qbuf) + i;
      if (vq::rstamp[c] > vq::R->synced && vq::race.empty())
      {
        std::ostringstream m; m << "race:write-cell-" << c << "-read-before-Rstore-" << vq::rstamp[c] << "-synced-" << vq::R->synced; vq::race = m.str();
      }
      vq::wstamp[c] = vq::W->vals.size();      // published by the next W store
    }
  }
  return ::memcpy(dst, src, n);
}
}
using std::verif_memcpy;
#define atomic verif_atomic
#define memcpy verif_memcpy
#define private public
#include <binlog/detail/Queue.hpp>
#include <binlog/detail/QueueReader.hpp>
#include <binlog/detail/QueueWriter.hpp>
#undef private
#undef memcpy
#undef atomic

static std::string hex(const char* p, std::size_t n)
{
  static const char* d = "0123456789abcdef"; std::string r;
  for (std::size_t i = 0; i < n; ++i) { unsigned char c = static_cast<unsigned char>(p[i]); r.push_back(d[c >> 4]); r.push_back(d[c & 15]); }
  return r;
}
static std::string unhex(const std::string& h)
{
  std::string r; auto v = [](char c) { return c <= '9' ? c - '0' : c - 'a' + 10; };
  for (std::size_t i = 0; i + 1 < h.size(); i += 2) r.push_back(char(v(h[i]) * 16 + v(h[i+1])));
  return r;
}

// consumer reads cells: each must have been published by a W store the consumer synchronized with
static std::string readCells(const char* p, std::size_t n)
{
  for (std::size_t i = 0; i < n; ++i)
  {
    const std::size_t c = std::size_t(p - vq::qbuf) + i;
    if (c < vq::qcap)
    {
      if (vq::wstamp[c] > vq::W->synced && vq::race.empty())
      {
        std::ostringstream m; m << "race:read-cell-" << c << "-written-before-Wstore-" << vq::wstamp[c] << "-synced-" << vq::W->synced; vq::race = m.str();
      }
      vq::rstamp[c] = vq::R->vals.size();       // released by the next R store
    }
  }
  return hex(p, n);
}

int main()
{
  std::string line;
  while (std::getline(std::cin, line))
  {
    std::istringstream is(line); std::string mode; is >> mode;
    if (mode != "queue") { std::cout << "unknown-mode\n"; continue; }
    std::size_t cap; is >> cap;
    std::vector<char> buffer(cap + 1, 0);
    binlog::detail::Queue q(buffer.data(), cap);
    vq::qbuf = buffer.data(); vq::qcap = cap; vq::wstamp.assign(cap + 1, 0); vq::rstamp.assign(cap + 1, 0); vq::race.clear();
    vq::W = &q.writeIndex.h; vq::R = &q.readIndex.h; vq::W->owner = 0; vq::R->owner = 1;
    binlog::detail::QueueWriter writer(q);
    binlog::detail::QueueReader reader(q);
    std::ostringstream res; bool first = true; std::string op;
    while (is >> op)
    {
      std::ostringstream out;
      if (op[0] == 'w' || op[0] == 'b')
      {
        vq::tid = 0;
        const std::size_t colon = op.find(':');
        vq::advance = std::stoull(op.substr(1, colon - 1));
        if (op[0] == 'w')
        {
          const std::string bytes = unhex(op.substr(colon + 1));
          const bool ok = writer.beginWrite(bytes.size());
          if (ok) { writer.writeBuffer(bytes.data(), bytes.size()); writer.endWrite(); }
          out << (ok ? "g1" : "g0");
        }
        else
        {
          const bool ok = writer.beginWrite(std::stoull(op.substr(colon + 1)));
          out << (ok ? "g1" : "g0");
        }
      }
      else if (op[0] == 'r')
      {
        vq::tid = 1; vq::advance = std::stoull(op.substr(1));
        const binlog::detail::QueueReader::ReadResult rr = reader.beginRead();
        out << 'B' << readCells(rr.buffer1, rr.size1) << ',' << (rr.size2 ? readCells(rr.buffer2, rr.size2) : std::string());
      }
      else { vq::tid = 1; reader.endRead(); out << '-'; }
      if (!first) res << ' '; first = false;
      res << out.str() << '/' << q.writeIndex.h.vals.back() << ',' << q.readIndex.h.vals.back() << ',' << q.dataEnd << ','
          << (writer._writePos - buffer.data()) << ',' << (writer._writeEnd - buffer.data());
      if (!vq::race.empty()) { res << ' ' << vq::race; break; }
    }
    std::cout << res.str() << "\n";
  }
  return 0;
}
