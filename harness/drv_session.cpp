// Correspondence driver for Session / SessionWriter / the log macros: the REAL headers of the tree it is
// compiled against run over stand-ins for std::atomic (store history + scripted reads-from choice), std::mutex
// (exclusion checked, never blocks), std::shared_ptr (reference count with the orders libstdc++ uses: relaxed
// increment, acq_rel decrement, relaxed use_count) and std::atomic_thread_fence - by token renaming, no source change.
// Lock-free writer actions scripted to happen INSIDE consume are run from hooks at the closed test
// (use_count) and at the consumer's acquire load of the write index.
#include <algorithm>
#include <atomic>
#include <cassert>
#include <chrono>
#include <cstddef>
#include <cstdint>
#include <cstring>
#include <ctime>
#include <deque>
#include <functional>
#include <ios>
#include <iostream>
#include <iterator>
#include <map>
#include <memory>
#include <mutex>
#include <sstream>
#include <stdexcept>
#include <string>
#include <thread>
#include <tuple>
#include <type_traits>
#include <utility>
#include <vector>
#include <sys/wait.h>
#include <unistd.h>

namespace vs {
static int tid = 0;                         // logical thread: 100 = consumer, otherwise the writer number
static std::size_t advance = 1000000;       // reads-from choice of the next load of another thread's variable
static bool in_consume = false;
static std::string problem;                 // mutex violation etc.
static bool try_inside = false;
static bool cas_spurious = false;           // the next compare_exchange_weak fails spuriously (C++11 allows it)             // an action of another thread is being attempted while the consumer holds the mutex
static std::function<void()> hookA;         // before the closed test of the next channel
static std::function<void()> hookB;         // before the consumer's load of the write index
struct Hist { std::vector<std::uint64_t> vals; int owner = -1; std::size_t seen = 0; };
static std::size_t pending_acquire_idx = 0; static Hist* pending_acquire_hist = nullptr;   // claimed by an acquire fence
static bool acq(std::memory_order o) { return o == std::memory_order_acquire || o == std::memory_order_acq_rel || o == std::memory_order_seq_cst || o == std::memory_order_consume; }
}

namespace std {
template <class T> struct verif_atomic
{
  mutable vs::Hist h;
  verif_atomic() { h.vals.push_back(0); }
  constexpr verif_atomic(T x) { h.vals.push_back(static_cast<std::uint64_t>(x)); }
  T load(memory_order o = memory_order_seq_cst) const
  {
    if (vs::in_consume && vs::tid == 100 && vs::acq(o) && h.owner != 100 && vs::hookB) { auto f = vs::hookB; vs::hookB = nullptr; f(); }
    if (h.owner == -1 || h.owner == vs::tid) { return static_cast<T>(h.vals.back()); }
    const std::size_t idx = std::min(h.seen + vs::advance, h.vals.size() - 1);
    h.seen = idx;
    return static_cast<T>(h.vals[idx]);
  }
  void store(T x, memory_order = memory_order_seq_cst) { h.owner = vs::tid; h.vals.push_back(static_cast<std::uint64_t>(x)); }
  // read-modify-write operations act on the newest store (they read the last value in modification order)
  bool compare_exchange_strong(T& expected, T desired, memory_order = memory_order_seq_cst, memory_order = memory_order_seq_cst)
  {
    const T cur = static_cast<T>(h.vals.back());
    if (cur == expected) { h.vals.push_back(static_cast<std::uint64_t>(desired)); return true; }
    expected = cur; return false;
  }
  bool compare_exchange_weak(T& expected, T desired, memory_order a = memory_order_seq_cst, memory_order b = memory_order_seq_cst)
  {
    if (vs::cas_spurious) { vs::cas_spurious = false; return false; }
    return compare_exchange_strong(expected, desired, a, b);
  }
  T fetch_add(T x, memory_order = memory_order_seq_cst) { const T cur = static_cast<T>(h.vals.back()); h.vals.push_back(static_cast<std::uint64_t>(cur + x)); return cur; }
  T exchange(T x, memory_order = memory_order_seq_cst) { const T cur = static_cast<T>(h.vals.back()); h.vals.push_back(static_cast<std::uint64_t>(x)); return cur; }
};
struct verif_would_block {};
struct verif_mutex
{
  bool held = false;
  void lock()
  {
    // a thread other than the consumer asking for the mutex while consume / reconsumeMetadata holds it would block: unwind it (nothing has been modified yet)
    if (held && vs::try_inside) throw verif_would_block{};
    if (held && vs::problem.empty()) vs::problem = "mutex-acquired-while-held"; held = true;
  }
  void unlock() { held = false; }
};
template <class M> struct verif_lock_guard { M& m; explicit verif_lock_guard(M& mm) : m(mm) { m.lock(); } ~verif_lock_guard() { m.unlock(); } };
// std::unique_lock as far as a changed tree may use it: blocking, try_to_lock, defer_lock
template <class M> struct verif_unique_lock
{
  M* m; bool owns = false;
  explicit verif_unique_lock(M& mm) : m(&mm) { m->lock(); owns = true; }
  verif_unique_lock(M& mm, std::try_to_lock_t) : m(&mm) { if (!m->held) { m->lock(); owns = true; } }
  verif_unique_lock(M& mm, std::defer_lock_t) : m(&mm) {}
  ~verif_unique_lock() { if (owns) m->unlock(); }
  void lock() { m->lock(); owns = true; }
  bool try_lock() { if (m->held) return false; m->lock(); owns = true; return true; }
  void unlock() { m->unlock(); owns = false; }
  bool owns_lock() const { return owns; }
  explicit operator bool() const { return owns; }
};

// what the writer that drops the last-but-one reference has published: set by the driver (it knows the channel type)
extern std::function<void(void*, vs::Hist*&, std::size_t&)> verif_release_view;

template <class T> struct verif_shared_ptr
{
  struct CB { long count = 1; T* p = nullptr; vs::Hist* rel_hist = nullptr; std::size_t rel_idx = 0; };
  CB* cb = nullptr;
  verif_shared_ptr() = default;
  verif_shared_ptr(const verif_shared_ptr& o) : cb(o.cb) { if (cb) ++cb->count; }                 // relaxed increment
  verif_shared_ptr(verif_shared_ptr&& o) noexcept : cb(o.cb) { o.cb = nullptr; }
  verif_shared_ptr& operator=(verif_shared_ptr o) noexcept { std::swap(cb, o.cb); return *this; }
  ~verif_shared_ptr() { reset(); }
  void reset()
  {
    if (cb)
    {
      // acq_rel decrement: a release operation of the dropping thread
      if (verif_release_view) verif_release_view(cb->p, cb->rel_hist, cb->rel_idx);
      if (--cb->count == 0) { delete cb->p; delete cb; }
      cb = nullptr;
    }
  }
  long use_count() const
  {
    if (vs::in_consume && vs::hookA) { auto f = vs::hookA; vs::hookA = nullptr; f(); }
    if (!cb) return 0;
    // relaxed load: reads the decrement; its release side is claimed only by a later acquire fence
    vs::pending_acquire_hist = cb->rel_hist; vs::pending_acquire_idx = cb->rel_idx;
    return cb->count;
  }
  T& operator*() const { return *cb->p; }
  T* operator->() const { return cb->p; }
  T* get() const { return cb ? cb->p : nullptr; }
  explicit operator bool() const { return cb != nullptr; }
};
template <class T, class... A> verif_shared_ptr<T> verif_make_shared(A&&... a)
{
  verif_shared_ptr<T> r; r.cb = new typename verif_shared_ptr<T>::CB; r.cb->p = new T(std::forward<A>(a)...); return r;
}
inline void verif_fence(memory_order o)
{
  if (vs::acq(o) && vs::pending_acquire_hist != nullptr)
  {
    vs::pending_acquire_hist->seen = std::max(vs::pending_acquire_hist->seen, vs::pending_acquire_idx);
  }
}
std::function<void(void*, vs::Hist*&, std::size_t&)> verif_release_view;
}
using std::verif_fence;
#define atomic verif_atomic
#define mutex verif_mutex
#define lock_guard verif_lock_guard
#define unique_lock verif_unique_lock
#define shared_ptr verif_shared_ptr
#define make_shared verif_make_shared
#define atomic_thread_fence verif_fence
#define private public
#include <binlog/Session.hpp>
#include <binlog/SessionWriter.hpp>
#include <binlog/create_source_and_event_if.hpp>
#undef private
#undef atomic_thread_fence
#undef make_shared
#undef shared_ptr
#undef unique_lock
#undef lock_guard
#undef mutex
#undef atomic

// raw bytes as a log argument
struct Raw { std::string bytes; };
namespace mserialize {
template <> struct CustomSerializer<Raw>
{
  template <typename OutputStream> static void serialize(const Raw& r, OutputStream& out) { out.write(r.bytes.data(), std::streamsize(r.bytes.size())); }
  static std::size_t serialized_size(const Raw& r) { return r.bytes.size(); }
};
}

static std::string hex(const std::string& s)
{
  static const char* d = "0123456789abcdef"; std::string r;
  for (unsigned char c : s) { r.push_back(d[c >> 4]); r.push_back(d[c & 15]); }
  return r;
}
static std::string unhex(const std::string& h)
{
  std::string r; auto v = [](char c) { return c <= '9' ? c - '0' : c - 'a' + 10; };
  for (std::size_t i = 0; i + 1 < h.size(); i += 2) r.push_back(char(v(h[i]) * 16 + v(h[i+1])));
  return r;
}
static std::vector<std::string> splitc(const std::string& s, char c)
{
  std::vector<std::string> r; std::string cur;
  for (char x : s) { if (x == c) { r.push_back(cur); cur.clear(); } else cur.push_back(x); }
  r.push_back(cur); return r;
}

struct RecOut
{
  std::vector<std::string> writes;
  std::size_t calls = 0, throw_at = 0, hook_at = 0;
  std::function<void()> hook;
  RecOut& write(const char* p, std::streamsize n)
  {
    ++calls;
    if (calls == throw_at) throw std::runtime_error("sink failure");      // before taking any byte
    if (calls == hook_at && hook) { auto f = hook; hook = nullptr; f(); }   // another thread acts while this write is in progress
    writes.emplace_back(p, std::size_t(n)); return *this;
  }
};

static int g_evals = 0;          // argument evaluations of log statements (C19)
static int arg_value(int v) { ++g_evals; return v; }

// log statement sites: category cat<n>, function fn<n>, file<n>.cpp, line 100+n, format "msg <n> {}", one int argument
#define SITE(n, sevname)                                                                                   \
  static void fn##n(binlog::SessionWriter& w, std::uint64_t clock, int arg) {                              \
    BINLOG_CREATE_SOURCE_AND_EVENT_IF(w, binlog::Severity::sevname, cat##n, clock, "msg " #n " {}", arg_value(arg)); }
#line 100 "file0.cpp"
SITE(0, trace)
#line 101 "file1.cpp"
SITE(1, debug)
#line 102 "file2.cpp"
SITE(2, info)
#line 103 "file3.cpp"
SITE(3, warning)
#line 104 "file4.cpp"
SITE(4, error)
#line 105 "file5.cpp"
SITE(5, critical)
#line 106 "file6.cpp"
SITE(6, info)
#line 107 "file7.cpp"
SITE(7, trace)
#line 300 "drv_session.cpp"
// a log statement as the unbraced then-branch of an if with an else (sites 8 and 9)
static void fx(binlog::SessionWriter& w, std::uint64_t clock, int arg, bool cond)
{
#line 108 "file8.cpp"
  if (cond) BINLOG_CREATE_SOURCE_AND_EVENT_IF(w, binlog::Severity::debug, cat8, clock, "msg 8 {}", arg_value(arg));
#line 109 "file9.cpp"
  else BINLOG_CREATE_SOURCE_AND_EVENT_IF(w, binlog::Severity::error, cat9, clock, "msg 9 {}", arg_value(arg));
}
#line 330 "drv_session.cpp"
typedef void (*SiteFn)(binlog::SessionWriter&, std::uint64_t, int);
static SiteFn g_sites[] = {fn0, fn1, fn2, fn3, fn4, fn5, fn6, fn7};

struct Runner
{
  binlog::Session session;
  std::map<int, std::unique_ptr<binlog::SessionWriter>> writers;
  std::vector<std::string> deferred;      // actions of writers blocked on the mutex during consume: "a<w>.0.<hex>" or "c<w>"
  bool blocked(int w) const
  {
    for (const std::string& a : deferred) { const int aw = a[0] == 'c' ? std::stoi(a.substr(1)) : std::stoi(a.substr(1, a.find('.') - 1)); if (aw == w) return true; }
    return false;
  }

  Runner()
  {
    // a fixed initial clock sync instead of systemClockSync()
    session._clockSync._vector.resize(24);
    session._clockSync.updateSize();
    binlog::serializeSizePrefixedTagged(binlog::ClockSync{0, 1000000000, 0, 0, "UTC"}, session._clockSync);
  }

  void addRaw(int w, std::size_t k, const std::string& payload)
  {
    auto it = writers.find(w); if (it == writers.end()) return;
    std::uint64_t id, clock; memcpy(&id, payload.data(), 8); memcpy(&clock, payload.data() + 8, 8);
    vs::tid = w; vs::advance = k;
    it->second->addEvent(id, clock, Raw{payload.substr(16)});
    vs::advance = 1000000;
  }
  // inside consume: only the lock-free part may run; a request that does not fit blocks in createChannel
  void addRawInside(int w, std::size_t k, const std::string& payloadHex)
  {
    const std::string payload = unhex(payloadHex);
    auto it = writers.find(w); if (it == writers.end()) return;
    const int savedTid = vs::tid; const std::size_t savedAdv = vs::advance;
    vs::tid = w; vs::advance = k;
    const bool fits = it->second->_qw.beginWrite(payload.size() + 4);
    vs::advance = 0;
    if (fits) { std::uint64_t id, clock; memcpy(&id, payload.data(), 8); memcpy(&clock, payload.data() + 8, 8); it->second->addEvent(id, clock, Raw{payload.substr(16)}); }
    else { deferred.push_back("a" + std::to_string(w) + ".0." + payloadHex); }
    vs::tid = savedTid; vs::advance = savedAdv;
  }
  void statement(const std::string& a)
  {
    const auto p = splitc(a.substr(1), '.');
    if (a[0] == 'r')
    {
      const std::string n = p[0]; vs::tid = 99;
      session.addEventSource(binlog::EventSource{0, binlog::Severity::info, "cat" + n, "fn" + n, "file" + n + ".cpp", 100 + std::stoull(n), "msg " + n + " {}", "i"});
      return;
    }
    auto it = writers.find(std::stoi(p[0])); if (it == writers.end()) return;
    vs::tid = it->first; vs::advance = 0;
    g_sites[std::stoul(p[1]) % 8](*it->second, std::stoull(p[2]), std::stoi(p[3]));
  }
  bool tryInside(const std::string& a)
  {
    const int savedTid = vs::tid; const std::size_t savedAdv = vs::advance; bool done = true;
    vs::try_inside = true;
    try { statement(a); } catch (const std::verif_would_block&) { done = false; }
    vs::try_inside = false; vs::tid = savedTid; vs::advance = savedAdv;
    return done;
  }
  void runActs(const std::string& acts)
  {
    if (acts.empty()) return;
    for (const std::string& a : splitc(acts, ','))
    {
      if (a[0] == 'c')
      {
        const int w = std::stoi(a.substr(1));
        if (blocked(w)) { deferred.push_back(a); continue; }
        const int savedTid = vs::tid; vs::tid = w; writers.erase(w); vs::tid = savedTid;
      }
      else if (a[0] == 's' || a[0] == 'r')
      {
        // s<w>.<site>.<clock>.<arg>: a log statement (first-time registration takes the mutex); r<n>: addEventSource of site n
        if (!tryInside(a)) deferred.push_back(a);
      }
      else
      {
        const auto p = splitc(a.substr(1), '.');
        if (blocked(std::stoi(p[0]))) { deferred.push_back("a" + p[0] + ".0." + p[2]); continue; }
        addRawInside(std::stoi(p[0]), std::stoull(p[1]), p[2]);
      }
    }
  }

  void runDeferred(const std::vector<std::string>& d)
  {
    for (const std::string& a : d)
    {
      if (a[0] == 'c') { const int w = std::stoi(a.substr(1)); vs::tid = w; writers.erase(w); }
      else if (a[0] == 's' || a[0] == 'r') { statement(a); vs::advance = 1000000; }
      else { const auto p = splitc(a.substr(1), '.'); addRaw(std::stoi(p[0]), 0, unhex(p[2])); }
    }
  }
  std::string consume(const std::string& planText, std::size_t throwAt = 0)
  {
    std::vector<std::vector<std::string>> plans;
    if (!planText.empty()) for (const std::string& p : splitc(planText, ';')) plans.push_back(splitc(p, '|'));
    RecOut out; out.throw_at = throwAt; std::size_t idx = 0;
    std::function<void()> armA;
    armA = [&]()
    {
      vs::hookA = [&]()
      {
        const std::size_t i = idx++;
        const std::vector<std::string> pl = i < plans.size() ? plans[i] : std::vector<std::string>{"1000", "", ""};
        runActs(pl[1]);
        vs::hookB = [&, pl]() { runActs(pl[2]); vs::advance = std::stoull(pl[0]); };
        armA();
      };
    };
    armA();
    vs::tid = 100; vs::in_consume = true; vs::pending_acquire_hist = nullptr;
    binlog::Session::ConsumeResult r; bool threw = false;
    try { r = session.consume(out); } catch (const std::runtime_error&) { threw = true; }
    vs::in_consume = false; vs::hookA = nullptr; vs::hookB = nullptr; vs::advance = 1000000;
    const std::vector<std::string> d = deferred; deferred.clear();
    runDeferred(d);
    std::ostringstream o; o << (threw ? 'X' : 'W');
    for (std::size_t i = 0; i < out.writes.size(); ++i) { if (i) o << ','; o << hex(out.writes[i]); }
    o << ';' << r.bytesConsumed << ',' << r.totalBytesConsumed << ',' << r.channelsPolled << ',' << r.channelsRemoved;
    return o.str();
  }

  std::string step(const std::string& t)
  {
    const std::vector<std::string> f = splitc(t, ':');
    const std::string& op = f[0];
    if (op == "nw")
    {
      const int w = std::stoi(f[1]); vs::tid = w;
      writers[w].reset(new binlog::SessionWriter(session, std::stoull(f[2]), std::stoull(f[3]), unhex(f[4])));
      return "-";
    }
    if (op == "id") { auto it = writers.find(std::stoi(f[1])); if (it != writers.end()) { vs::tid = it->first; it->second->setId(std::stoull(f[2])); } return "-"; }
    if (op == "nm") { auto it = writers.find(std::stoi(f[1])); if (it != writers.end()) { vs::tid = it->first; it->second->setName(unhex(f[2])); } return "-"; }
    if (op == "ev") { addRaw(std::stoi(f[1]), std::stoull(f[2]), unhex(f[3])); return "b1"; }
    if (op == "lg")
    {
      auto it = writers.find(std::stoi(f[1])); if (it == writers.end()) return "b0";
      vs::tid = it->first; vs::advance = 1000000;
      const std::string args = unhex(f[6]); int v = 0; memcpy(&v, args.data(), std::min<std::size_t>(4, args.size()));
      const int before = g_evals;
      // the reads-from choice k applies to the load of the read index inside addEvent; the severity load reads the newest store
      g_sites[std::stoul(f[3]) % 8](*it->second, std::stoull(f[5]), v);
      return g_evals != before ? "b1" : "b0";
    }
    if (op == "lx")
    {
      // lx:<w>:<k>:<cond>:<clock>:<args>
      auto it = writers.find(std::stoi(f[1])); if (it == writers.end()) return "b0";
      vs::tid = it->first; vs::advance = 1000000;
      const std::string args = unhex(f[5]); int v = 0; memcpy(&v, args.data(), std::min<std::size_t>(4, args.size()));
      const int before = g_evals;
      fx(*it->second, std::stoull(f[4]), v, f[3] == "1");
      return g_evals != before ? "b1" : "b0";
    }
    if (op == "cl") { const int w = std::stoi(f[1]); vs::tid = w; writers.erase(w); return "-"; }
    if (op == "as")
    {
      const std::string n = f[1]; vs::tid = 99;
      const std::uint64_t id = session.addEventSource(binlog::EventSource{0, static_cast<binlog::Severity>(std::stoul(f[2])), "cat" + n, "fn" + n, "file" + n + ".cpp",
                                                                          100 + std::stoull(n), "msg " + n + " {}", "i"});
      return "i" + std::to_string(id);
    }
    if (op == "cs") { vs::tid = 99; session.setClockSync(binlog::ClockSync{std::stoull(f[1]), std::stoull(f[2]), std::stoull(f[3]), std::int32_t(std::uint32_t(std::stoull(f[4]))), unhex(f[5])}); return "-"; }
    if (op == "ms") { vs::tid = 99; session.setMinSeverity(static_cast<binlog::Severity>(std::stoul(f[1]))); return "-"; }
    if (op == "mw") { vs::tid = 99; vs::cas_spurious = true; session.setMinSeverity(static_cast<binlog::Severity>(std::stoul(f[1]))); vs::cas_spurious = false; return "-"; }
    if (op == "co") { return consume(f.size() > 1 ? f[1] : std::string()); }
    if (op == "cf") { return consume(std::string(), std::stoull(f[1])); }       // consume into a sink whose f[1]-th write fails
    if (op == "cb")
    {
      // consume called at an instant when another thread holds the session mutex (inside createChannel / addEventSource / setClockSync):
      // the call must block until the mutex is free and then deliver; the stand-in unwinds the blocked attempt and repeats it after the release
      session._mutex.held = true; vs::try_inside = true; std::string r;
      bool blocked_ = false;
      try { r = consume(std::string()); } catch (const std::verif_would_block&) { blocked_ = true; }
      vs::try_inside = false; vs::in_consume = false; vs::hookA = nullptr; vs::hookB = nullptr;
      session._mutex.held = false;
      if (blocked_) r = consume(std::string());
      return r;
    }
    if (op == "rc" || op == "rs")
    {
      // rs:<k>:<acts>: other threads act while the k-th write of reconsumeMetadata is in progress
      RecOut out; vs::tid = 100;
      if (op == "rs") { out.hook_at = std::stoull(f[1]); const std::string acts = f[2]; out.hook = [this, acts]() { runActs(acts); }; }
      const binlog::Session::ConsumeResult r = session.reconsumeMetadata(out);
      if (op == "rs") { const std::vector<std::string> d = deferred; deferred.clear(); runDeferred(d); }
      std::ostringstream o; o << 'W';
      for (std::size_t i = 0; i < out.writes.size(); ++i) { if (i) o << ','; o << hex(out.writes[i]); }
      o << ';' << r.bytesConsumed << ',' << r.totalBytesConsumed << ',' << r.channelsPolled << ',' << r.channelsRemoved;
      return o.str();
    }
    return "?";
  }
};

static std::string runCase(const std::string& line)
{
  std::istringstream is(line); std::string mode; is >> mode;
  vs::problem.clear(); g_evals = 0;
  std::verif_release_view = [](void* p, vs::Hist*& h, std::size_t& idx)
  {
    binlog::Session::Channel* ch = static_cast<binlog::Session::Channel*>(p);
    h = &ch->queue().writeIndex.h; idx = h->vals.size() - 1;
  };
  std::ostringstream res; bool first = true;
  {
    Runner r; std::string t;
    while (is >> t) { if (!first) res << ' '; first = false; res << r.step(t); }
    std::verif_release_view = nullptr;    // teardown: no views needed
  }
  if (!vs::problem.empty()) res << ' ' << vs::problem;
  return res.str();
}

int main()
{
  std::string line;
  while (std::getline(std::cin, line))
  {
    if (line.find(" lg:") != std::string::npos || line.find(" lx:") != std::string::npos || line.find("|s") != std::string::npos || line.find(",s") != std::string::npos)
    {
      // log statement sites keep their source id in a function-local static: one process per case
      std::cout.flush();
      const pid_t pid = fork();
      if (pid == 0) { std::cout << runCase(line) << "\n"; std::cout.flush(); _exit(0); }
      int st = 0; waitpid(pid, &st, 0);
      if (!WIFEXITED(st) || WEXITSTATUS(st) != 0) { std::cout << "<child-crashed>\n"; }
    }
    else std::cout << runCase(line) << "\n";
  }
  return 0;
}
