// Crash-image driver (C08): runs a scripted scenario on the REAL Session / SessionWriter / queue headers of the tree it is
// compiled against, with layout-compatible stand-ins for std::atomic and memcpy (token renaming, no source change) that
// mark "points" before and after every atomic store/load/construction and every memcpy of the library. At chosen points
// the process writes all its writable mappings to a file (the memory image a crash at that instant would leave) together
// with the ground truth: which log calls had returned, which one was in flight, what consume had written to its output.
//
// usage: drv_crash <image-prefix> <points: comma separated | count> <op> <op> ...
//   nw<w>:<cap>:<id>:<hexname>   create writer        lg<w>:<site>:<len>   log one event (payload: u32 w, u32 seq, filler)
//   cl<w>  destroy writer        co  consume          cn<k>:<op>  consume, running <op> (a lock-free lg) at the k-th point inside it
//   cs  setClockSync             nm<w>:<hexname>  rename            rc  reconsumeMetadata
// output: one line "snap <point> <file> completed=<w.seq,...> inflight=<w.seq|-> out=<hex> after=<ops done, -1 inside an operation>" per image, then "points <n> <status>"
#include <algorithm>
#include <atomic>
#include <cstdint>
#include <cstdio>
#include <cstdlib>
#include <cstring>
#include <fcntl.h>
#include <functional>
#include <iostream>
#include <map>
#include <memory>
#include <mutex>
#include <set>
#include <sstream>
#include <string>
#include <unistd.h>
#include <vector>

namespace vc {
static long counter = 0;
static std::set<long> chosen;
static std::string prefix;
static bool in_consume = false, in_nested = false;
static long consume_points = 0, nested_at = -1;
static std::function<void()> nested;
static std::string problem;
static std::vector<std::pair<int,int>> completed;
static std::pair<int,int> inflight{-1, -1};
static std::string out;                      // what consume has written so far
static long boundary = -1;                   // >= 0: this point lies between two operations, after that many of them
static std::vector<long> bpoints;            // the numbers of the points that lie between two operations
static char mapsbuf[1 << 18];

static std::string hex(const std::string& s)
{
  static const char* d = "0123456789abcdef"; std::string r;
  for (unsigned char c : s) { r.push_back(d[c >> 4]); r.push_back(d[c & 15]); }
  return r;
}

static void dump(const char* path)
{
  const int mfd = open("/proc/self/maps", O_RDONLY);
  ssize_t n = 0, k;
  while ((k = read(mfd, mapsbuf + n, sizeof(mapsbuf) - 1 - std::size_t(n))) > 0) n += k;
  close(mfd); mapsbuf[n] = 0;
  const int fd = open(path, O_WRONLY | O_CREAT | O_TRUNC, 0644);
  char* line = mapsbuf;
  while (*line)
  {
    char* eol = strchr(line, '\n'); if (eol) *eol = 0;
    unsigned long a = 0, b = 0; char perms[8] = {0};
    if (sscanf(line, "%lx-%lx %7s", &a, &b, perms) == 3 && perms[0] == 'r' && perms[1] == 'w'
        && !strstr(line, "[vvar]") && !strstr(line, "[vsyscall]") && !strstr(line, "[vdso]") && (b - a) <= (64ul << 20))
    {
      if (reinterpret_cast<char*>(a) <= mapsbuf && mapsbuf < reinterpret_cast<char*>(b))
      {
        // the mapping holding this very buffer: skip the buffer itself (it is the dumper's, not the program's)
        const char* s = reinterpret_cast<char*>(a);
        if (write(fd, s, std::size_t(mapsbuf - s)) < 0) {}
        const char* e = mapsbuf + sizeof(mapsbuf);
        if (write(fd, e, std::size_t(reinterpret_cast<char*>(b) - e)) < 0) {}
      }
      else if (write(fd, reinterpret_cast<void*>(a), b - a) < 0) {}
    }
    if (!eol) break;
    line = eol + 1;
  }
  close(fd);
}

static bool active = true;
static void point()
{
  if (!active) return;                      // teardown of the session itself is not an instant the property speaks about
  const long me = ++counter;
  if (boundary >= 0) bpoints.push_back(me);
  if (in_consume && !in_nested)
  {
    ++consume_points;
    if (consume_points == nested_at && nested) { in_nested = true; auto f = nested; nested = nullptr; f(); in_nested = false; }
  }
  if (chosen.count(me))
  {
    const std::string path = prefix + std::to_string(me) + ".img";
    // ground truth first (strings built before the dump, so their buffers are part of the image like any other heap data)
    std::ostringstream t;
    t << "snap " << me << ' ' << path << " completed=";
    for (std::size_t i = 0; i < completed.size(); ++i) t << (i ? "," : "") << completed[i].first << '.' << completed[i].second;
    if (completed.empty()) t << '-';
    t << " inflight=";
    if (inflight.first >= 0) t << inflight.first << '.' << inflight.second; else t << '-';
    t << " out=" << (out.empty() ? std::string("-") : hex(out)) << " after=" << boundary;
    const std::string line = t.str();
    dump(path.c_str());
    std::cout << line << std::endl;
  }
}

inline void* hooked_memcpy(void* d, const void* s, std::size_t n) { point(); void* r = std::memcpy(d, s, n); point(); return r; }
}

namespace std {
// same size, alignment and representation as std::atomic<T>; every access is a point
template <class T> struct verif_hatomic
{
  std::atomic<T> a;
  verif_hatomic() noexcept : a() { vc::point(); }
  constexpr verif_hatomic(T x) noexcept : a(x) {}
  verif_hatomic(const verif_hatomic&) = delete;
  T load(memory_order o = memory_order_seq_cst) const noexcept { vc::point(); return a.load(o); }
  void store(T x, memory_order o = memory_order_seq_cst) noexcept { vc::point(); a.store(x, o); vc::point(); }
  operator T() const noexcept { return load(); }
};
struct verif_cmutex
{
  bool held = false;
  void lock() { if (held && vc::problem.empty()) vc::problem = "nested-lock"; held = true; }
  void unlock() { held = false; }
};
template <class M> struct verif_clock_guard { M& m; explicit verif_clock_guard(M& mm) : m(mm) { m.lock(); } ~verif_clock_guard() { m.unlock(); } };
}
#define atomic verif_hatomic
#define mutex verif_cmutex
#define lock_guard verif_clock_guard
#define memcpy vc::hooked_memcpy
#define private public
#include <binlog/Session.hpp>
#include <binlog/SessionWriter.hpp>
#include <binlog/create_source_and_event.hpp>
#undef private
#undef memcpy
#undef lock_guard
#undef mutex
#undef atomic

static_assert(sizeof(binlog::detail::Queue) == 40, "Queue layout");

struct Raw { std::string bytes; };
namespace mserialize {
template <> struct CustomSerializer<Raw>
{
  template <typename OutputStream> static void serialize(const Raw& r, OutputStream& out) { out.write(r.bytes.data(), std::streamsize(r.bytes.size())); }
  static std::size_t serialized_size(const Raw& r) { return r.bytes.size(); }
};
template <> struct CustomTag<Raw> { static constexpr auto tag_string() { return make_cx_string("[c"); } };
}

#define SITE(n, sevname)                                                                                   \
  static void fn##n(binlog::SessionWriter& w, std::uint64_t clock, const Raw& arg) {                       \
    BINLOG_CREATE_SOURCE_AND_EVENT(w, binlog::Severity::sevname, cat##n, clock, "msg " #n " {}", arg); }
SITE(0, trace) SITE(1, debug) SITE(2, info) SITE(3, warning) SITE(4, error) SITE(5, critical)
typedef void (*SiteFn)(binlog::SessionWriter&, std::uint64_t, const Raw&);
static SiteFn g_sites[] = {fn0, fn1, fn2, fn3, fn4, fn5};

struct OutAcc
{
  OutAcc& write(const char* p, std::streamsize n) { vc::out.append(p, std::size_t(n)); vc::point(); return *this; }
};

static std::string unhex(const std::string& h)
{
  std::string r; auto v = [](char c) { return c <= '9' ? c - '0' : c - 'a' + 10; };
  for (std::size_t i = 0; i + 1 < h.size(); i += 2) r.push_back(char(v(h[i]) * 16 + v(h[i+1])));
  return r;
}
static std::vector<std::string> splitc(const std::string& s, char c)
{
  std::vector<std::string> r; std::string cur;
  for (char x : s) { if (x == c) { r.push_back(cur); cur.clear(); } else cur.push_back(x); }
  r.push_back(cur); return r;
}

struct Runner
{
  std::unique_ptr<binlog::Session> session{new binlog::Session};
  std::map<int, std::unique_ptr<binlog::SessionWriter>> writers;
  std::map<int, int> seq;
  std::uint64_t clock = 100;
  int syncs = 0;

  void log(int w, int site, std::size_t len)
  {
    if (!writers.count(w)) return;
    const int s = ++seq[w];
    std::string payload(std::max<std::size_t>(len, 8), char('a' + s % 26));
    const std::uint32_t a = std::uint32_t(w), b = std::uint32_t(s);
    std::memcpy(&payload[0], &a, 4); std::memcpy(&payload[4], &b, 4);
    // the argument is a char sequence: u32 length + bytes
    Raw r; const std::uint32_t n = std::uint32_t(payload.size()); r.bytes.assign(reinterpret_cast<const char*>(&n), 4); r.bytes += payload;
    vc::inflight = {w, s};
    g_sites[site % 6](*writers[w], ++clock, r);
    vc::inflight = {-1, -1};
    vc::completed.emplace_back(w, s);
  }
  void run(const std::string& op)
  {
    const std::string k = op.substr(0, 2), rest = op.substr(2);
    const std::vector<std::string> f = splitc(rest, ':');
    if (k == "nw") { writers[std::stoi(f[0])].reset(new binlog::SessionWriter(*session, std::size_t(std::stoul(f[1])), std::stoull(f[2]), unhex(f.size() > 3 ? f[3] : ""))); }
    else if (k == "lg") { log(std::stoi(f[0]), std::stoi(f[1]), std::size_t(std::stoul(f[2]))); }
    else if (k == "cl") { writers.erase(std::stoi(f[0])); }
    else if (k == "nm") { if (writers.count(std::stoi(f[0]))) writers[std::stoi(f[0])]->setName(unhex(f.size() > 1 ? f[1] : "")); }
    else if (k == "cs") { ++syncs; session->setClockSync(binlog::ClockSync{std::uint64_t(syncs), 1000000000, std::uint64_t(1000 + syncs), 0, "Z" + std::to_string(syncs)}); }
    else if (k == "rc") { OutAcc o; session->reconsumeMetadata(o); }
    else if (k == "co" || k == "cn")
    {
      if (k == "cn")
      {
        const std::size_t c = rest.find(':');
        vc::nested_at = std::stol(rest.substr(0, c)); const std::string inner = rest.substr(c + 1);
        vc::nested = [this, inner]() { run(inner); };
      }
      OutAcc o; vc::consume_points = 0; vc::in_consume = true;
      session->consume(o);
      vc::in_consume = false; vc::nested = nullptr; vc::nested_at = -1;
    }
  }
};

int main(int argc, char** argv)
{
  if (argc < 3) return 2;
  vc::prefix = argv[1];
  for (const std::string& p : splitc(argv[2], ',')) { if (!p.empty() && p != "count") vc::chosen.insert(std::stol(p)); }
  {
    Runner r;
    for (int i = 3; i < argc; ++i) { r.run(argv[i]); vc::boundary = i - 2; vc::point(); vc::boundary = -1; }
    vc::point();
    vc::active = false;
  }
  std::cout << "boundaries";
  for (long b : vc::bpoints) std::cout << ' ' << b;
  std::cout << std::endl;
  std::cout << "points " << vc::counter << ' ' << (vc::problem.empty() ? "ok" : vc::problem) << std::endl;
  return 0;
}
