// Harness for generated logging programs (tools/gen_log.py, property C07): the program logs through the real macros,
// the session is consumed into a stream, and printEvents (bin/printers.cpp, what bread runs) prints it.
// One output line per case:  text=<hex of the printed text> stream=<hex of the consumed log>
#pragma once
#include "mser_case.hpp"

#include <binlog/binlog.hpp>
#include <binlog/advanced_log_macros.hpp>
#include <binlog/create_source_and_event.hpp>

#include <printers.hpp>

namespace lc {

inline void finish(std::stringstream& stream, const std::string& eventFormat, const std::string& dateFormat)
{
  const std::string raw = stream.str();
  std::ostringstream out;
  std::string status = "ok";
  try { printEvents(stream, out, eventFormat, dateFormat); }
  catch (const std::exception& ex) { status = std::string("err:") + ex.what(); }
  std::cout << "status=" << mc::hex(status) << " text=" << mc::hex(out.str()) << " stream=" << mc::hex(raw) << std::endl;
}

} // namespace lc
