// Harness for generated mserialize programs (tools/gen_mser.py): for one value of one type print, on one line,
//   wt=1 size=<n> bytes=<hex> tag=<hex> rt=<ok|bad|na> trunc=<ok|bad|na> visit=<callbacks>;<bytes left> text=<hex>
// in exactly the format ocaml/modeldrv prints for "mser" cases.
#pragma once
#include <binlog/Range.hpp>
#include <binlog/ToStringVisitor.hpp>
#include <binlog/detail/OstreamBuffer.hpp>
#include <binlog/adapt_stdoptional.hpp>
#include <binlog/adapt_stdtimepoint.hpp>
#include <binlog/adapt_stdvariant.hpp>
#include <mserialize/deserialize.hpp>
#include <mserialize/make_enum_tag.hpp>
#include <mserialize/make_struct_deserializable.hpp>
#include <mserialize/make_struct_serializable.hpp>
#include <mserialize/make_struct_tag.hpp>
#include <mserialize/serialize.hpp>
#include <mserialize/tag.hpp>
#include <mserialize/visit.hpp>

#include <array>
#include <cstdint>
#include <cstring>
#include <deque>
#include <forward_list>
#include <iostream>
#include <iterator>
#include <chrono>
#include <list>
#include <map>
#include <memory>
#include <optional>
#include <set>
#include <sstream>
#include <string>
#include <tuple>
#include <utility>
#include <variant>
#include <vector>

namespace mc {

inline std::string hex(const std::string& s)
{
  static const char* d = "0123456789abcdef"; std::string r;
  for (unsigned char c : s) { r.push_back(d[c >> 4]); r.push_back(d[c & 15]); }
  return r;
}
inline std::string hex(mserialize::string_view s) { return hex(std::string(s.data(), s.size())); }

template <typename T> T bits(unsigned long long lo, unsigned long long hi = 0)
{
  T t; unsigned char buf[16]; memcpy(buf, &lo, 8); memcpy(buf + 8, &hi, 8); memcpy(&t, buf, sizeof(T)); return t;
}

// a user-defined sequence whose iterator dereferences to a type R wider than its value_type T (a proxy/packed container)
template <typename T, typename R> struct ProxySeq
{
  using value_type = T;
  std::vector<T> v;
  struct const_iterator
  {
    using iterator_category = std::forward_iterator_tag;
    using value_type = T;
    using difference_type = std::ptrdiff_t;
    using pointer = const T*;
    using reference = R;
    const T* p = nullptr;
    R operator*() const { return R(*p); }
    const_iterator& operator++() { ++p; return *this; }
    const_iterator operator++(int) { const_iterator r(*this); ++p; return r; }
    bool operator!=(const const_iterator& o) const { return p != o.p; }
    bool operator==(const const_iterator& o) const { return p == o.p; }
  };
  using iterator = const_iterator;
  const_iterator begin() const { return const_iterator{v.data()}; }
  const_iterator end() const { return const_iterator{v.data() + v.size()}; }
  std::size_t size() const { return v.size(); }
};

// output stream that refuses to take more than the announced size
struct Bounded
{
  std::string data; std::size_t limit; bool overrun = false;
  explicit Bounded(std::size_t l) : limit(l) {}
  Bounded& write(const char* p, std::streamsize n)
  {
    if (data.size() + std::size_t(n) > limit) { overrun = true; }
    data.append(p, std::size_t(n)); return *this;
  }
};

template <typename T> std::string rawnum(T v)
{
  unsigned char b[16] = {0}; memcpy(b, &v, sizeof(T));
  // little-endian number of sizeof(T) bytes, printed in decimal (may exceed 64 bits for long double)
  unsigned __int128 n = 0; for (std::size_t i = sizeof(T); i-- > 0; ) { n = (n << 8) | b[i]; }
  if (n == 0) return "0";
  std::string r; while (n != 0) { r.insert(r.begin(), char('0' + int(n % 10))); n /= 10; }
  return r;
}

struct Recorder
{
  std::ostringstream o; bool first = true;
  void sep() { if (!first) o << ','; first = false; }
  template <typename T> void leaf(char c, T v) { sep(); o << 'A' << c << rawnum(v); }
  void visit(bool v) { leaf('y', v); } void visit(char v) { leaf('c', v); }
  void visit(std::int8_t v) { leaf('b', v); } void visit(std::int16_t v) { leaf('s', v); } void visit(std::int32_t v) { leaf('i', v); } void visit(std::int64_t v) { leaf('l', v); }
  void visit(std::uint8_t v) { leaf('B', v); } void visit(std::uint16_t v) { leaf('S', v); } void visit(std::uint32_t v) { leaf('I', v); } void visit(std::uint64_t v) { leaf('L', v); }
  void visit(float v) { leaf('f', v); } void visit(double v) { leaf('d', v); } void visit(long double v) { leaf('D', v); }
  template <typename In> bool visit(mserialize::Visitor::SequenceBegin sb, In&) { sep(); o << '[' << sb.size << ':' << hex(sb.tag); return false; }
  void visit(mserialize::Visitor::SequenceEnd) { sep(); o << ']'; }
  template <typename In> bool visit(mserialize::Visitor::TupleBegin tb, In&) { sep(); o << '(' << hex(tb.tag); return false; }
  void visit(mserialize::Visitor::TupleEnd) { sep(); o << ')'; }
  template <typename In> bool visit(mserialize::Visitor::VariantBegin vb, In&) { sep(); o << '<' << vb.discriminator << ':' << hex(vb.tag); return false; }
  void visit(mserialize::Visitor::VariantEnd) { sep(); o << '>'; }
  void visit(mserialize::Visitor::Null) { sep(); o << '0'; }
  template <typename In> bool visit(mserialize::Visitor::StructBegin sb, In&) { sep(); o << '{' << hex(sb.name) << ':' << hex(sb.tag); return false; }
  void visit(mserialize::Visitor::StructEnd) { sep(); o << '}'; }
  void visit(mserialize::Visitor::FieldBegin fb) { sep(); o << 'F' << hex(fb.name) << ':' << hex(fb.tag); }
  void visit(mserialize::Visitor::FieldEnd) { sep(); o << 'f'; }
  void visit(mserialize::Visitor::Enum e) { sep(); o << 'E' << hex(e.name) << ':' << hex(e.enumerator) << ':' << e.tag << ':' << hex(e.value); }
  void visit(mserialize::Visitor::RepeatBegin rb) { sep(); o << 'R' << rb.size; }
  void visit(mserialize::Visitor::RepeatEnd re) { sep(); o << 'r' << re.size; }
};

template <typename T> void roundtrip(const T& value, const std::string& bytes, std::true_type /* deserializable */)
{
  std::string rt = "bad";
  try
  {
    T dst{};
    binlog::Range in(bytes.data(), bytes.size());
    mserialize::deserialize(dst, in);
    Bounded again(bytes.size());
    mserialize::serialize(dst, again);
    if (in.size() == 0 && again.data == bytes && !again.overrun) { rt = "ok"; }
  }
  catch (const std::exception&) {}
  std::string tr = "ok";
  for (std::size_t k = 0; k < bytes.size(); ++k)
  {
    bool threw = false;
    try { T dst{}; binlog::Range in(bytes.data(), k); mserialize::deserialize(dst, in); }
    catch (const std::exception&) { threw = true; }
    if (!threw) { tr = "bad"; break; }
  }
  std::cout << " rt=" << rt << " trunc=" << tr;
  (void)value;
}
template <typename T> void roundtrip(const T&, const std::string&, std::false_type) { std::cout << " rt=na trunc=na"; }

template <bool Deser, typename T> std::string run_case(const T& value)
{
  const std::size_t size = mserialize::serialized_size(value);
  Bounded out(size);
  mserialize::serialize(value, out);
  const auto tag = mserialize::tag<T>();
  std::cout << "wt=1 size=" << size << " bytes=" << (out.overrun ? "OVERRUN" : "") << hex(out.data) << " tag=" << hex(mserialize::string_view(tag.data(), tag.size()));
  roundtrip(value, out.data, std::integral_constant<bool, Deser>{});
  {
    Recorder rec; binlog::Range in(out.data.data(), out.data.size());
    std::cout << " visit=";
    try { mserialize::visit(mserialize::string_view(tag.data(), tag.size()), rec, in); std::cout << rec.o.str() << ';' << in.size(); }
    catch (const std::exception&) { std::cout << "err"; }
  }
  {
    std::ostringstream text; binlog::Range in(out.data.data(), out.data.size());
    std::cout << " text=";
    bool ok = true;
    { binlog::detail::OstreamBuffer buf(text); binlog::ToStringVisitor v(buf);
      try { mserialize::visit(mserialize::string_view(tag.data(), tag.size()), v, in); } catch (const std::exception&) { ok = false; } }
    if (ok) std::cout << hex(text.str()); else std::cout << "err";
  }
  return out.data;
}

// the same bytes read into a tag-compatible destination type: must succeed, consume everything and re-serialize to the same bytes
template <typename D> void cross(const std::string& bytes)
{
  std::string r = "bad";
  try
  {
    D dst{}; binlog::Range in(bytes.data(), bytes.size());
    mserialize::deserialize(dst, in);
    Bounded again(bytes.size()); mserialize::serialize(dst, again);
    if (in.size() == 0 && again.data == bytes && !again.overrun) r = "ok";
  }
  catch (const std::exception&) {}
  std::cout << " xt=" << r;
}
// the same bytes read into a fixed-size destination of another extent: must be rejected
template <typename D> void mismatch(const std::string& bytes)
{
  std::string r = "bad";
  try { D dst{}; binlog::Range in(bytes.data(), bytes.size()); mserialize::deserialize(dst, in); }
  catch (const std::exception&) { r = "ok"; }
  std::cout << " fx=" << r;
}
inline void endcase() { std::cout << "\n"; }

} // namespace mc
