// Correspondence driver for the reader side: runs the real binlog code (from the /repo tree it is
// compiled against) on the case lines ocaml/modeldrv receives and prints the same one-line results.
#include <binlog/Entries.hpp>
#include <binlog/EntryStream.hpp>
#include <binlog/EventFilter.hpp>
#include <binlog/EventStream.hpp>
#include <binlog/PrettyPrinter.hpp>
#include <binlog/TextOutputStream.hpp>
#include <binlog/detail/SegmentedMap.hpp>
#include <binlog/ToStringVisitor.hpp>
#include <binlog/detail/OstreamBuffer.hpp>
#include <mserialize/visit.hpp>

#include <printers.hpp>

#include <cstdint>
#include <cstring>
#include <iostream>
#include <sstream>
#include <string>
#include <vector>

static std::string unhex(const std::string& h)
{
  if (h == "-") return {};
  std::string r; r.reserve(h.size()/2);
  auto v = [](char c) { return c <= '9' ? c - '0' : c - 'a' + 10; };
  for (std::size_t i = 0; i + 1 < h.size(); i += 2) r.push_back(char(v(h[i]) * 16 + v(h[i+1])));
  return r;
}
static std::string hex(const std::string& s)
{
  static const char* d = "0123456789abcdef";
  std::string r; r.reserve(2*s.size());
  for (unsigned char c : s) { r.push_back(d[c >> 4]); r.push_back(d[c & 15]); }
  return r;
}
static std::string hex(const char* p, std::size_t n) { return hex(std::string(p, n)); }

static std::string argsHex(binlog::Range r) { const std::size_t n = r.size(); return hex(r.view(n), n); }

#ifdef VERIF_ALLOC_LIMIT
// a memory-limited environment: allocations above the limit fail with std::bad_alloc (which the reader must report, not crash on),
// instead of zero-filling gigabytes for every hostile size field. malloc/free stay AddressSanitizer's.
#include <new>
#include <cstdlib>
void* operator new(std::size_t n) { if (n > std::size_t(VERIF_ALLOC_LIMIT)) throw std::bad_alloc(); void* p = std::malloc(n ? n : 1); if (!p) throw std::bad_alloc(); return p; }
void* operator new[](std::size_t n) { return operator new(n); }
void* operator new(std::size_t n, const std::nothrow_t&) noexcept { return n > std::size_t(VERIF_ALLOC_LIMIT) ? nullptr : std::malloc(n ? n : 1); }
void* operator new[](std::size_t n, const std::nothrow_t& t) noexcept { return operator new(n, t); }
void operator delete(void* p) noexcept { std::free(p); }
void operator delete[](void* p) noexcept { std::free(p); }
void operator delete(void* p, std::size_t) noexcept { std::free(p); }
void operator delete[](void* p, std::size_t) noexcept { std::free(p); }
#endif

static std::string rawnum(const void* p, std::size_t n)
{
  unsigned char b[16] = {0}; memcpy(b, p, n);
  unsigned __int128 v = 0; for (std::size_t i = n; i-- > 0; ) { v = (v << 8) | b[i]; }
  if (v == 0) return "0";
  std::string r; while (v != 0) { r.insert(r.begin(), char('0' + int(v % 10))); v /= 10; }
  return r;
}
struct VisitRecorder
{
  std::ostringstream o; bool first = true;
  void sep() { if (!first) o << ','; first = false; }
  template <typename T> void leaf(char c, T v) { sep(); o << 'A' << c << rawnum(&v, sizeof(T)); }
  void visit(bool v) { leaf('y', v); } void visit(char v) { leaf('c', v); }
  void visit(std::int8_t v) { leaf('b', v); } void visit(std::int16_t v) { leaf('s', v); } void visit(std::int32_t v) { leaf('i', v); } void visit(std::int64_t v) { leaf('l', v); }
  void visit(std::uint8_t v) { leaf('B', v); } void visit(std::uint16_t v) { leaf('S', v); } void visit(std::uint32_t v) { leaf('I', v); } void visit(std::uint64_t v) { leaf('L', v); }
  void visit(float v) { leaf('f', v); } void visit(double v) { leaf('d', v); } void visit(long double v) { sep(); o << 'A' << 'D' << rawnum(&v, 10); }  // 10 value bytes; the 6 padding bytes are indeterminate
  template <typename In> bool visit(mserialize::Visitor::SequenceBegin sb, In&) { sep(); o << '[' << sb.size << ':' << hex(std::string(sb.tag.data(), sb.tag.size())); return false; }
  void visit(mserialize::Visitor::SequenceEnd) { sep(); o << ']'; }
  template <typename In> bool visit(mserialize::Visitor::TupleBegin tb, In&) { sep(); o << '(' << hex(std::string(tb.tag.data(), tb.tag.size())); return false; }
  void visit(mserialize::Visitor::TupleEnd) { sep(); o << ')'; }
  template <typename In> bool visit(mserialize::Visitor::VariantBegin vb, In&) { sep(); o << '<' << vb.discriminator << ':' << hex(std::string(vb.tag.data(), vb.tag.size())); return false; }
  void visit(mserialize::Visitor::VariantEnd) { sep(); o << '>'; }
  void visit(mserialize::Visitor::Null) { sep(); o << '0'; }
  template <typename In> bool visit(mserialize::Visitor::StructBegin sb, In&) { sep(); o << '{' << hex(std::string(sb.name.data(), sb.name.size())) << ':' << hex(std::string(sb.tag.data(), sb.tag.size())); return false; }
  void visit(mserialize::Visitor::StructEnd) { sep(); o << '}'; }
  void visit(mserialize::Visitor::FieldBegin fb) { sep(); o << 'F' << hex(std::string(fb.name.data(), fb.name.size())) << ':' << hex(std::string(fb.tag.data(), fb.tag.size())); }
  void visit(mserialize::Visitor::FieldEnd) { sep(); o << 'f'; }
  void visit(mserialize::Visitor::Enum e) { sep(); o << 'E' << hex(std::string(e.name.data(), e.name.size())) << ':' << hex(std::string(e.enumerator.data(), e.enumerator.size())) << ':' << e.tag << ':' << hex(std::string(e.value.data(), e.value.size())); }
  void visit(mserialize::Visitor::RepeatBegin rb) { sep(); o << 'R' << rb.size; }
  void visit(mserialize::Visitor::RepeatEnd re) { sep(); o << 'r' << re.size; }
};

static std::string errToken(const std::exception& ex)
{
  const std::string w = ex.what();
  if (w.rfind("Failed to read entry size", 0) == 0) return "err:hdr";
  if (w.rfind("Failed to read entry payload", 0) == 0) return "err:payload";
  const std::string pfx = "Event has invalid source id: ";
  if (w.rfind(pfx, 0) == 0) return "err:src:" + w.substr(pfx.size());
  return "err:other";
}

static std::vector<std::string> split(const std::string& line)
{
  std::vector<std::string> r; std::istringstream is(line); std::string t;
  while (is >> t) r.push_back(t);
  return r;
}

struct RecStream
{
  std::vector<std::string> writes;
  RecStream& write(const char* p, std::streamsize n) { writes.emplace_back(p, std::size_t(n)); return *this; }
};

static std::function<bool(const binlog::EventSource&)> mkPred(const std::string& kind, const std::string& param)
{
  if (kind == "sevge") { const unsigned long long n = std::stoull(param.empty() ? "0" : param); return [n](const binlog::EventSource& s) { return static_cast<std::uint16_t>(s.severity) >= n; }; }
  if (kind == "cateq") return [param](const binlog::EventSource& s) { return s.category == param; };
  if (kind == "fneq") return [param](const binlog::EventSource& s) { return s.function == param; };
  if (kind == "linelt") { const unsigned long long n = std::stoull(param.empty() ? "0" : param); return [n](const binlog::EventSource& s) { return s.line < n; }; }
  if (kind == "idodd") return [](const binlog::EventSource& s) { return (s.id & 1) != 0; };
  if (kind == "none") return [](const binlog::EventSource&) { return false; };
  return [](const binlog::EventSource&) { return true; };
}

// RangeEntryStream wrapper remembering whether the entry stream itself threw
struct ProbeStream : binlog::EntryStream
{
  binlog::RangeEntryStream inner; bool entryError = false; std::string token;
  explicit ProbeStream(binlog::Range r) : inner(r) {}
  binlog::Range nextEntryPayload() override
  {
    try { return inner.nextEntryPayload(); }
    catch (const std::exception& ex) { entryError = true; throw; }
  }
};

static std::string srcText(const binlog::EventSource& s)
{
  std::ostringstream o;
  o << s.id << ',' << static_cast<std::uint16_t>(s.severity) << ',' << hex(s.category) << ',' << hex(s.function) << ',' << hex(s.file)
    << ',' << s.line << ',' << hex(s.formatString) << ',' << hex(s.argumentTags);
  return o.str();
}

int main()
{
  std::ios::sync_with_stdio(false);
  std::string line;
  while (std::getline(std::cin, line))
  {
    const std::vector<std::string> t = split(line);
    std::ostringstream res;
    if (t.empty()) { std::cout << "\n"; continue; }
    const std::string& mode = t[0];
    auto arg = [&](std::size_t i) { return i + 1 < t.size() ? unhex(t[i+1]) : std::string(); };

    if (mode == "print" || mode == "sorted")
    {
      std::istringstream in(arg(2));
      std::ostringstream out;
      std::string st = "ok";
      try
      {
        if (mode == "print") printEvents(in, out, arg(0), arg(1));
        else printSortedEvents(in, out, arg(0), arg(1));
      }
      catch (const std::exception& ex) { st = errToken(ex); }
      res << st << ' ' << hex(out.str());
    }
    else if (mode == "tos")
    {
      std::ostringstream out;
      binlog::TextOutputStream tos(out, arg(0), arg(1));
      for (std::size_t i = 3; i < t.size(); ++i)
      {
        const std::string chunk = unhex(t[i]);
        out.str({});
        std::string st = "ok";
        try { tos.write(chunk.data(), std::streamsize(chunk.size())); }
        catch (const std::exception& ex) { st = errToken(ex); }
        if (i != 3) res << ' ';
        res << st << '=' << hex(out.str());
      }
    }
    else if (mode == "filter")
    {
      binlog::EventFilter filter(mkPred(arg(0), arg(1)));
      for (std::size_t i = 3; i < t.size(); ++i)
      {
        const std::string chunk = unhex(t[i]);
        RecStream rec;
        std::string st = "ok";
        std::size_t ret = 0;
        try { ret = filter.writeAllowed(chunk.data(), chunk.size(), rec); }
        catch (const std::exception& ex) { st = "err:other"; for (auto& w : rec.writes) ret += w.size(); }
        if (i != 3) res << ' ';
        res << st << '=' << ret << '=';
        for (std::size_t k = 0; k < rec.writes.size(); ++k) { if (k) res << ','; res << hex(rec.writes[k]); }
      }
    }
    else if (mode == "filterprop")
    {
      // the property itself evaluated on the implementation: print(filter(stream)) vs filter(print(stream))
      const std::string fmt = arg(0), dfmt = arg(1);
      auto pred = mkPred(arg(2), arg(3));
      binlog::EventFilter filter(pred);
      std::ostringstream lhs, rhs;
      std::string stl = "ok", str_ = "ok";
      {
        binlog::TextOutputStream tos(lhs, fmt, dfmt);
        try
        {
          for (std::size_t i = 5; i < t.size(); ++i)
          {
            const std::string chunk = unhex(t[i]);
            filter.writeAllowed(chunk.data(), chunk.size(), tos);
          }
        }
        catch (const std::exception& ex) { stl = "err"; }
      }
      {
        std::string all;
        for (std::size_t i = 5; i < t.size(); ++i) all += unhex(t[i]);
        binlog::RangeEntryStream es(binlog::Range(all.data(), all.size()));
        binlog::EventStream evs;
        binlog::PrettyPrinter pp(fmt, dfmt);
        try
        {
          while (const binlog::Event* e = evs.nextEvent(es))
          {
            if (pred(*e->source)) pp.printEvent(rhs, *e, evs.writerProp(), evs.clockSync());
          }
        }
        catch (const std::exception& ex) { str_ = "err"; }
      }
      res << stl << ' ' << hex(lhs.str()) << ' ' << str_ << ' ' << hex(rhs.str());
    }
    else if (mode == "resume")
    {
      std::stringstream ss;
      binlog::IstreamEntryStream es(ss);
      binlog::EventStream evs;
      binlog::PrettyPrinter pp(arg(0), arg(1));
      for (std::size_t i = 3; i < t.size(); ++i)
      {
        const std::string piece = unhex(t[i]);
        ss.clear();
        ss.write(piece.data(), std::streamsize(piece.size()));
        std::ostringstream out;
        std::string st = "ok";
        try { while (const binlog::Event* e = evs.nextEvent(es)) { pp.printEvent(out, *e, evs.writerProp(), evs.clockSync()); } }
        catch (const std::exception& ex) { st = errToken(ex); }
        ss.clear();
        const long long pos = static_cast<long long>(ss.tellg());
        if (i != 3) res << ' ';
        res << st << '=' << hex(out.str()) << '=' << pos;
      }
    }
    else if (mode == "events")
    {
      const std::string log = arg(0);
      ProbeStream ps(binlog::Range(log.data(), log.size()));
      binlog::EventStream evs;
      std::string endtok = "ok";
      bool first = true;
      while (true)
      {
        try
        {
          const binlog::Event* e = evs.nextEvent(ps);
          if (e == nullptr) break;
          if (!first) res << ' '; first = false;
          const binlog::WriterProp& wp = evs.writerProp();
          const binlog::ClockSync& cs = evs.clockSync();
          res << "E(" << srcText(*e->source) << ';' << wp.id << ',' << hex(wp.name) << ',' << wp.batchSize << ';'
              << cs.clockValue << ',' << cs.clockFrequency << ',' << cs.nsSinceEpoch << ',' << std::uint32_t(cs.tzOffset) << ',' << hex(cs.tzName) << ';'
              << e->clockValue << ';' << argsHex(e->arguments) << ')';
        }
        catch (const std::exception& ex)
        {
          if (ps.entryError)
          {
            const std::string w = ex.what();
            // RangeEntryStream: <4 bytes left -> hdr, payload short -> payload
            endtok = (w.find("Range overflow 4 >") == 0) ? "err:hdr" : "err:payload";
            break;
          }
          if (!first) res << ' '; first = false;
          res << "X:" << errToken(ex).substr(4);
        }
      }
      if (!first) res << ' ';
      res << endtok;
    }
    else if (mode == "visit")
    {
      // mserialize::visit on an arbitrary (possibly hand-written or hostile) tag and arbitrary bytes
      const std::string tag = arg(0), bytes = arg(1);
      { VisitRecorder rec; binlog::Range in(bytes.data(), bytes.size());
        try { mserialize::visit(mserialize::string_view(tag.data(), tag.size()), rec, in); res << "ok " << rec.o.str() << ';' << in.size(); }
        catch (const std::exception&) { res << "err " << rec.o.str(); } }
      { std::ostringstream text; binlog::Range in(bytes.data(), bytes.size()); bool ok = true;
        { binlog::detail::OstreamBuffer buf(text); binlog::ToStringVisitor v(buf);
          try { mserialize::visit(mserialize::string_view(tag.data(), tag.size()), v, in); } catch (const std::exception&) { ok = false; } }
        res << (ok ? " ok " : " err ") << hex(text.str()); }
    }
    else if (mode == "segmap")
    {
      const std::string keys = arg(0), probes = arg(1);
      binlog::detail::SegmentedMap<std::uint64_t> m;
      std::uint64_t n = 0;
      for (std::size_t i = 0; i + 12 <= keys.size(); i += 12) { std::uint64_t k; memcpy(&k, keys.data() + i + 4, 8); m.emplace(k, n++); }
      bool first = true;
      for (std::size_t i = 0; i + 12 <= probes.size(); i += 12)
      {
        std::uint64_t k; memcpy(&k, probes.data() + i + 4, 8);
        const std::uint64_t* v = m.find(k);
        if (!first) res << ' '; first = false;
        if (v) res << *v; else res << '-';
      }
    }
    else res << "unknown-mode";
    std::cout << res.str() << "\n";
  }
  return 0;
}
