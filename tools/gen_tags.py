"""Hand-written tag universe (what MSERIALIZE_MAKE_STRUCT_TAG users and adapted recursive types produce): structs that refer
to themselves by name (`{Tree}` inside the definition of Tree), next to structs whose names share a prefix with them.
Renders a description as (tag string, bytes of a random value, expected visitor callbacks)."""
import random, struct

SIZES = {'y': 1, 'c': 1, 'b': 1, 's': 2, 'i': 4, 'l': 8, 'B': 1, 'S': 2, 'I': 4, 'L': 8}
def hx(s): return s.encode('latin1').hex() if isinstance(s, str) else s.hex()

def tag_of(t):
    k = t[0]
    if k == 'A': return t[1]
    if k == 'Q': return '[' + tag_of(t[1])
    if k == 'T': return '(' + ''.join(tag_of(x) for x in t[1]) + ')'
    if k == 'V': return '<' + ''.join(tag_of(x) for x in t[1]) + '>'
    if k == 'U': return '0'
    if k == 'S': return '{' + t[1] + fields_tag(t[2]) + '}'
    if k == 'R': return '{' + t[1] + '}'
def fields_tag(fs): return ''.join('`' + f + "'" + tag_of(x) for f, x in fs)

def gen_value(rng, t, env, depth):
    """returns (bytes, callbacks, documented text)"""
    k = t[0]
    if k == 'A':
        n = SIZES[t[1]]; v = rng.choice([0, 1, rng.randrange(1 << (8 * n)), (1 << (8 * n)) - 1])
        if t[1] == 'y': v = v & 1
        if t[1] == 'c': v = rng.choice(b'azAZ09_')
        sv = v - (1 << (8 * n)) if t[1] in 'bsil' and v >= 1 << (8 * n - 1) else v
        txt = ('true' if v else 'false') if t[1] == 'y' else chr(v) if t[1] == 'c' else str(sv)
        return v.to_bytes(n, 'little'), ['A%s%d' % (t[1], v)], txt
    if k == 'Q':
        n = 0 if depth <= 0 else rng.randrange(0, 4)
        bs, cbs, txts = struct.pack('<I', n), ['[%d:%s' % (n, hx(tag_of(t[1])))], []
        for _ in range(n):
            b, c, x = gen_value(rng, t[1], env, depth - 1); bs += b; cbs += c; txts.append(x)
        return bs, cbs + [']'], '[' + ', '.join(txts) + ']' 
    if k == 'T':
        bs, cbs, txts = b'', ['(' + hx(''.join(tag_of(x) for x in t[1]))], []
        for x in t[1]:
            b, c, tx = gen_value(rng, x, env, depth); bs += b; cbs += c; txts.append(tx)
        return bs, cbs + [')'], '(' + ', '.join(txts) + ')' 
    if k == 'V':
        nulls = [i for i, x in enumerate(t[1]) if x[0] == 'U']
        d = rng.choice(nulls) if (depth <= 0 and nulls) else rng.randrange(len(t[1]))
        o = t[1][d]
        if o[0] == 'U': return bytes([d]), ['<%d:30' % d, '0', '>'], '{null}'
        b, c, x = gen_value(rng, o, env, depth - 1)
        return bytes([d]) + b, ['<%d:%s' % (d, hx(tag_of(o)))] + c + ['>'], x
    if k in ('S', 'R'):
        fs = t[2] if k == 'S' else env[t[1]]
        bs, cbs, txts = b'', ['{%s:%s' % (hx(t[1]), hx(fields_tag(fs)))], []
        for f, x in fs:
            b, c, tx = gen_value(rng, x, env, depth); bs += b; cbs += ['F%s:%s' % (hx(f), hx(tag_of(x)))] + c + ['f']; txts.append(f + ': ' + tx)
        name = t[1].split('<')[0]
        return bs, cbs + ['}'], (name + '{ ' + ', '.join(txts) + ' }') if fs else name

BASES = ['Tree', 'Node', 'N', 'ns::List<int>', 'A_b', 'Expr']
def gen_doc(rng):
    """a document type: distractor structs whose names extend / are extended by the recursive struct's name, placed before and
    after the recursive definition, so that name resolution must match whole names and skip back-references."""
    name = rng.choice(BASES)
    self_ref = ('R', name)
    link = lambda: rng.choice([('V', [('U',), self_ref]), ('Q', self_ref), ('V', [('U',), ('T', [self_ref, ('A', 'c')])])])
    fields = [('value', ('A', rng.choice('ilsBc')))] if rng.random() < 0.8 else []
    fields += [(f, link()) for f in rng.sample(['left', 'right', 'next', 'kids'], rng.randrange(1, 3))]
    if rng.random() < 0.3: fields.append(('tail', ('A', rng.choice('cL'))))
    env = {name: fields}
    rec = ('S', name, fields)
    names = [name + 'Stats', name + '2', name + '_', name + name, name[:-1] or 'M', 'X' + name]; rng.shuffle(names)
    def distractor():
        dn = names.pop()                                                   # distinct names: one name, one definition
        k = rng.randrange(3)
        if k == 0: return ('S', dn, [('n', ('A', 'i'))])
        if k == 1: return ('S', dn, [])                                    # empty struct: `{Name}` is its whole tag
        return ('S', dn, [('a', ('A', 'B')), ('p', ('V', [('U',), ('A', 's')]))])
    before = [distractor() for _ in range(rng.randrange(0, 3))]
    after = [distractor() for _ in range(rng.randrange(0, 2))]
    # a later plain reference to the recursive struct (a second variable of the same type in the same argument list)
    again = [self_ref] if rng.random() < 0.4 else []
    parts = before + [rec] + after + again
    top = ('T', parts) if rng.random() < 0.7 else ('S', 'Top', [('f%d' % i, p) for i, p in enumerate(parts)])
    has_prefix_before = any(p[1].startswith(name) and p[1] != name for p in before)
    return top, env, has_prefix_before

def make_case(rng):
    t, env, interesting = gen_doc(rng)
    b, cbs, txt = gen_value(rng, t, env, rng.randrange(1, 4))
    recursed = sum(1 for c in cbs if c.startswith('{' + hx(list(env)[0]) + ':')) > 1
    make_case.last_text = txt
    return 'visit %s %s' % (hx(tag_of(t)), hx(b)), ','.join(cbs) + ';0', (interesting and recursed)

def mutate(rng, line):
    """hostile variant of a case: corrupt the tag or the bytes (correspondence only: the model must predict the outcome)"""
    _, th, bh = line.split(' '); tg, bs = bytearray(bytes.fromhex(th)), bytearray(bytes.fromhex(bh))
    k = rng.randrange(5)
    if k == 0 and tg: tg[rng.randrange(len(tg))] = rng.choice(b"{}`'[]()<>0/\\ilx")
    elif k == 1 and tg: del tg[rng.randrange(len(tg))]
    elif k == 2 and bs: del bs[rng.randrange(len(bs)):]
    elif k == 3 and bs: bs[rng.randrange(len(bs))] = rng.choice([0, 1, 2, 255])
    else: tg = tg[:rng.randrange(len(tg) + 1)]
    return 'visit %s %s' % (bytes(tg).hex() or '-', bytes(bs).hex() or '-')
