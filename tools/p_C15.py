"""C15 — Forward compatibility: unknown metadata and trailing fields are ignored."""
from vlib import *
from gen_reader import *
from runner import Run, generic_replay

DRIVERS = ['drv_reader']
DRIVER_OPTS = {'drv_reader': {'extra_src': ['$REPO/bin/printers.cpp']}}
TRUSTED = ['Coq 8.16.1 kernel incl. vm_compute', 'ExtrOcamlBasic extraction + ocaml/modeldrv.ml glue', 'harness/drv_reader.cpp',
           'tools/srcfacts.py (wire order of the three metadata structs, special tag values)']
ASSUMPTIONS = ['the renderer reads only the argument bytes its tags describe (hypothesis of the theorem; discharged for the message renderer in Render/ when present)']
RULE = ('well-formed logs of 3-40 entries; decoration = unknown special entries (top bit set, not one of the three tags; incl. tags whose low 32 bits '
        'equal a known tag) inserted at random positions with 0-40 payload bytes, and 1-1000 trailing bytes appended to random entries of every kind with '
        'the size prefix adjusted; (a) model vs implementation on original and decorated log (bread path and TextOutputStream); (b) implementation alone: '
        'text of decorated == text of original. non-trivial = at least one decoration applied to a log with at least one event')

def decorate(rng, entries):
    out, n = [], 0
    for e in entries:
        while rng.random() < 0.25:
            tag = rng.choice([(1 << 64) - 4, (1 << 63), (1 << 63) + rng.randrange(1 << 62), (1 << 64) - 100, 0x80000001FFFFFFFF,
                              0xFFFFFFFEFFFFFFFE, 0x8000000000000000 + 0xFFFFFFFD, 0xFFFFFFFF00000000 + rng.randrange(1 << 32)])
            if tag in (TAG_SRC, TAG_WP, TAG_CS): tag -= 16
            out.append(frame(u(8, tag) + rnd_bytes(rng, rng.choice([0, 1, 8, 40])))); n += 1
        if rng.random() < 0.3:
            extra = rnd_bytes(rng, rng.choice([1, 2, 8, 100, 1000])); p = e[4:] + extra
            out.append(frame(p)); n += 1
        else: out.append(e)
    return out, n

def oracle(outs):
    return True if outs[0] == outs[1] and outs[0].startswith('ok ') else 'text of the decorated log differs from the text of the original'

def run(ctx):
    rng, R = ctx.rng, Run(ctx)
    for line in corpus_lines(ctx.pid): R.add_corr(line, ('corpus',))
    for _ in range(ctx.n(1200, 30000)):
        g = StreamGen(rng, redefine=0.3)
        entries = g.valid_stream(rng.randrange(3, 40))
        dec, n = decorate(rng, entries)
        fmt = gen_format(rng)
        nev = len([e for e in entries if int.from_bytes(e[4:12], 'little') < (1 << 63)])
        mode = rng.choice(['print', 'print', 'sorted', 'tos'])
        l1 = '%s %s - %s' % (mode, hx(fmt), hx(b''.join(entries))); l2 = '%s %s - %s' % (mode, hx(fmt), hx(b''.join(dec)))
        tags = (mode, 'decorations_%s' % ('0' if n == 0 else '1-3' if n <= 3 else '4+'))
        R.add_corr(l1, tags, False); R.add_corr(l2, (), n > 0 and nev > 0)
        if mode != 'tos':
            R.add_prop([l1, l2], oracle, 'unknown special entries / trailing bytes changed the printed text', tags, n > 0 and nev > 0)
        else:
            R.add_prop([l1, l2], lambda o: True if o[0] == o[1] and o[0].startswith('ok=') else 'text differs (TextOutputStream)', 'unknown special entries / trailing bytes changed the printed text', tags, n > 0 and nev > 0)
    # the format bounds a decoration only by the 32-bit size field: a 17 MiB unknown entry and 17 MiB of trailing bytes (implementation only:
    # the extracted model is not run on lists of that length)
    g = StreamGen(rng, redefine=0.0); entries = g.valid_stream(8) + [g.event(), g.event()]
    big = 17 * (1 << 20) + rng.randrange(1000)
    last_ev = max(i for i, e in enumerate(entries) if int.from_bytes(e[4:12], 'little') < (1 << 63))
    for mode in ('print', 'sorted'):
        l1 = '%s %s - %s' % (mode, hx(b'%S %m\n'), hx(b''.join(entries)))
        d1 = entries[:2] + [frame(u(8, (1 << 64) - 100) + b'\xab' * big)] + entries[2:]
        d2 = entries[:last_ev] + [frame(entries[last_ev][4:] + b'\xcd' * big)] + entries[last_ev + 1:]
        for dname, d in (('unknown_entry', d1), ('trailing_bytes_on_event', d2)):
            R.add_prop([l1, '%s %s - %s' % (mode, hx(b'%S %m\n'), hx(b''.join(d)))], oracle, 'unknown special entries / trailing bytes changed the printed text', (mode, 'decoration_17MiB_' + dname), True)
    return R.execute()

def search(ctx):
    c2 = Ctx(ctx.pid, 'thorough', ctx.seed + 1, random.Random(ctx.seed + 99), ctx.drivers, True); c2.n = lambda q, t: 6000
    return [v for v in run(c2)['violations'] if v[1]]

def replay(ctx, rp): return generic_replay(ctx, rp, lambda lines: (oracle if not lines[0].startswith('tos') else (lambda o: True if o[0] == o[1] else 'differs')))
