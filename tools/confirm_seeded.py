#!/usr/bin/env python3
"""Confirm a sub-agent's seeded change independently and store it under /verif/seeded/<id>/.
usage: confirm_seeded.py <PROP> <n> <agent-mutant-dir> <seeded-id>
In a fresh scratch worktree of /repo HEAD: (1) demo passes on the clean tree, (2) patch applies, full build + ctest pass,
(3) demo fails with the patch. Removes the worktree afterwards."""
import json, os, shutil, subprocess, sys, glob
prop, n, src, sid = sys.argv[1:5]
V = os.path.dirname(os.path.dirname(os.path.abspath(__file__)))
wt = '/tmp/confirm-%s' % sid
def sh(cmd, cwd=None, timeout=1800):
    r = subprocess.run(cmd, shell=True, cwd=cwd, stdout=subprocess.PIPE, stderr=subprocess.STDOUT, universal_newlines=True, timeout=timeout)
    return r.returncode, r.stdout
log = []
def step(name, cmd, cwd=None):
    rc, out = sh(cmd, cwd); log.append({'step': name, 'cmd': cmd, 'rc': rc, 'tail': out[-600:]}); return rc, out
sh('git -C /repo worktree remove --force %s' % wt); shutil.rmtree(wt, ignore_errors=True)
rc, out = sh('git -C /repo worktree add --detach %s HEAD' % wt)
assert rc == 0, out
try:
    demos = [f for f in os.listdir(src) if f.startswith('demo')]
    cpp = [f for f in demos if f.endswith('.cpp')]
    extra = [f for f in os.listdir(src) if f.endswith('.hpp')]
    for f in demos + extra: shutil.copy(os.path.join(src, f), wt)
    def build_demo(tag):
        if not cpp: return 0, ''
        return step('build demo (%s)' % tag, 'g++ -std=' + os.environ.get('CONFIRM_STD', 'c++14') + ' -O1 -I%s/include -I%s/bin -I%s %s %s/bin/printers.cpp %s/include/binlog/*.cpp %s/include/binlog/detail/*.cpp -pthread -o %s/demo_%s' % (wt, wt, wt, os.path.join(wt, cpp[0]), wt, wt, wt, wt, tag), wt)
    def run_demo(tag):
        if cpp: return step('run demo (%s)' % tag, 'timeout 900 %s/demo_%s' % (wt, tag), wt)
        return step('run demo.sh (%s)' % tag, 'timeout 900 bash %s/demo.sh %s/_b' % (wt, wt), wt)
    ok = True
    rc, _ = build_demo('clean'); ok &= rc == 0
    if not cpp:
        rc, _ = step('build clean tree', 'cmake -G Ninja -S %s -B %s/_b -DCMAKE_BUILD_TYPE=RelWithDebInfo -DCMAKE_CXX_FLAGS=-Wno-error > /dev/null && cmake --build %s/_b -j8 2>&1 | tail -3' % (wt, wt, wt))
    rc_clean, _ = run_demo('clean')
    rc, _ = step('apply patch', 'git apply %s' % os.path.join(src, 'patch.diff'), wt); ok &= rc == 0
    rc, _ = step('build with patch', 'cmake -G Ninja -S %s -B %s/_b -DCMAKE_BUILD_TYPE=RelWithDebInfo -DCMAKE_CXX_FLAGS=-Wno-error > /dev/null && cmake --build %s/_b -j8 2>&1 | tail -3' % (wt, wt, wt)); ok &= rc == 0
    rc_t, out_t = step('ctest with patch', 'ctest --test-dir %s/_b -j8 --timeout 900 2>&1 | tail -6' % wt); ok &= rc_t == 0 and '100% tests passed' in out_t
    rc, _ = build_demo('mut'); ok &= rc == 0
    rc_mut, _ = run_demo('mut')
    confirmed = ok and rc_clean == 0 and rc_mut != 0
    print('%s/%s: clean demo rc=%d, patched build+ctest %s, patched demo rc=%d => %s' % (prop, n, rc_clean, 'ok' if ok else 'FAILED', rc_mut, 'CONFIRMED' if confirmed else 'NOT CONFIRMED'))
    if confirmed:
        d = os.path.join(V, 'seeded', sid); os.makedirs(d, exist_ok=True)
        shutil.copy(os.path.join(src, 'patch.diff'), d)
        for f in demos + extra: shutil.copy(os.path.join(src, f), d)
        readme = open(os.path.join(src, 'README.md')).read() if os.path.exists(os.path.join(src, 'README.md')) else ''
        open(os.path.join(d, 'README.agent.md'), 'w').write(readme)
        json.dump({'id': sid, 'property': prop, 'origin': 'sub-agent given only the property text and a scratch worktree',
                   'needs_to_manifest': '', 'confirmed_by': 'tools/confirm_seeded.py in a fresh scratch worktree of /repo HEAD', 'steps': log,
                   'detected_by': ''}, open(os.path.join(d, 'meta.json'), 'w'), indent=1)
finally:
    sh('git -C /repo worktree remove --force %s' % wt); shutil.rmtree(wt, ignore_errors=True)
