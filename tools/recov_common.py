"""Shared by C20 and C08: build the real brecovery binary from the current tree and run it on image files."""
import concurrent.futures, glob, shutil, tempfile
from vlib import *

def build_brecovery(workdir, sanitize=True):
    exe = os.path.join(workdir, 'brecovery')
    srcs = [REPO + '/bin/brecovery.cpp'] + sorted(glob.glob(REPO + '/include/binlog/*.cpp')) + sorted(glob.glob(REPO + '/include/binlog/detail/*.cpp'))
    flags = CXXFLAGS if sanitize else ['-std=c++14', '-O1', '-g', '-UNDEBUG']
    r = sh(['g++'] + flags + ['-I' + REPO + '/include', '-I' + REPO + '/bin'] + srcs + ['-o', exe, '-pthread'])
    return (exe if r.returncode == 0 else None), r.stdout

def run_brecovery(exe, workdir, images, timeout=60):
    """returns list of (rc, stdout bytes, stderr tail) per image"""
    env = dict(os.environ); env['ASAN_OPTIONS'] = 'detect_leaks=0'
    def one(k):
        f = os.path.join(workdir, 'img%d.bin' % k); o = os.path.join(workdir, 'out%d.bin' % k)
        open(f, 'wb').write(images[k])
        try: p = subprocess.run([exe, f, o], stdout=subprocess.PIPE, stderr=subprocess.PIPE, timeout=timeout, env=env)
        except subprocess.TimeoutExpired: return (None, b'', 'timeout')
        out = open(o, 'rb').read() if os.path.exists(o) else b''
        for x in (f, o):
            try: os.remove(x)
            except OSError: pass
        return (p.returncode, out, p.stderr[-3000:].decode('latin1'))
    with concurrent.futures.ThreadPoolExecutor(max_workers=16) as ex: return list(ex.map(one, range(len(images))))

def parses_as_entries(b):
    i = 0
    while i < len(b):
        if i + 4 > len(b): return False
        n = int.from_bytes(b[i:i + 4], 'little'); i += 4
        if i + n > len(b): return False
        i += n
    return True
