"""C14 — Reader state: latest definition wins; an invalid entry affects nothing else."""
from vlib import *
from gen_reader import *
from runner import Run, generic_replay

DRIVERS = ['drv_reader']
DRIVER_OPTS = {'drv_reader': {'extra_src': ['$REPO/bin/printers.cpp']}}
TRUSTED = ['Coq 8.16.1 kernel incl. vm_compute', 'ExtrOcamlBasic extraction + ocaml/modeldrv.ml glue', 'harness/drv_reader.cpp',
           'tools/srcfacts.py (special tag values)', 'std::vector growth / moved-from objects not modelled']
ASSUMPTIONS = ['Event::source pointer and the _event slot are not part of the reader state', 'keys < 2^64']
RULE = ('(a) SegmentedMap alone: 1-60 emplaces over key sets aimed at each emplace branch (ascending, descending, k then k+1 in opposite order, '
        'sparse/huge incl. 2^64-1, repeated) then 10-40 probes, model vs implementation; (b) entry sequences of 3-50 entries with invalid '
        'entries (7 kinds) inserted at random positions, nextEvent loop continuing after errors, model vs implementation; (c) on the '
        'implementation alone: events of the stream == events of the stream with the invalid entries removed, and each event carries the '
        'source/writer/clock-sync a python dict-based reference reader resolves. non-trivial = some id defined at least twice or an invalid entry present')

def keyset(rng):
    k = rng.randrange(7)
    if k == 0: base = list(range(rng.randrange(1, 12)))
    elif k == 1: base = list(range(12, 0, -1))
    elif k == 2: base = [5, 3, 4, 5, 2, 6, 4]
    elif k == 3: base = [0, (1 << 64) - 1, 1 << 63, (1 << 63) - 1, 1, (1 << 64) - 2]
    elif k == 4: base = [rng.randrange(0, 30) for _ in range(rng.randrange(1, 60))]
    elif k == 5: base = [rng.choice([0, 10, 20, 1000]) + rng.randrange(0, 4) for _ in range(rng.randrange(1, 40))]
    else: base = [rng.randrange(1 << 64) for _ in range(rng.randrange(1, 10))]
    if rng.random() < 0.5: rng.shuffle(base)
    return base

def ref_events(entries):
    """plain-dict reference reader: list of expected (src tuple, wp, cs, clock) per valid event"""
    src, wp, cs, out = {}, (0, b'', 0), (0, 0, 0, 0, b''), []
    def rstr(b, o):
        n = int.from_bytes(b[o:o+4], 'little'); assert o + 4 + n <= len(b); return b[o+4:o+4+n], o + 4 + n
    for e in entries:
        p = e[4:]
        if len(p) == 0: break
        if len(p) < 8: continue
        tag = int.from_bytes(p[:8], 'little'); b = p[8:]
        try:
            if tag == TAG_SRC:
                assert len(b) >= 10
                i, sev = int.from_bytes(b[:8], 'little'), int.from_bytes(b[8:10], 'little'); o = 10
                cat, o = rstr(b, o); fn, o = rstr(b, o); fl, o = rstr(b, o)
                assert o + 8 <= len(b); line = int.from_bytes(b[o:o+8], 'little'); o += 8
                fmt, o = rstr(b, o); tags, o = rstr(b, o)
                src[i] = (i, sev, cat, fn, fl, line, fmt, tags)
            elif tag == TAG_WP:
                assert len(b) >= 8; name, o = rstr(b, 8); assert o + 8 <= len(b)
                wp = (int.from_bytes(b[:8], 'little'), name, int.from_bytes(b[o:o+8], 'little'))
            elif tag == TAG_CS:
                assert len(b) >= 28; name, o = rstr(b, 28)
                cs = tuple(int.from_bytes(b[k:k+8], 'little') for k in (0, 8, 16)) + (int.from_bytes(b[24:28], 'little'), name)
            elif tag < (1 << 63):
                if tag in src and len(b) >= 8: out.append((src[tag], wp, cs, int.from_bytes(b[:8], 'little'), b[8:]))
        except AssertionError:
            pass
    return out

def fmt_event(s, wp, cs, clock, args):
    return 'E(%d,%d,%s,%s,%s,%d,%s,%s;%d,%s,%d;%d,%d,%d,%d,%s;%d;%s)' % (
        s[0], s[1], s[2].hex(), s[3].hex(), s[4].hex(), s[5], s[6].hex(), s[7].hex(), wp[0], wp[1].hex(), wp[2],
        cs[0], cs[1], cs[2], cs[3], cs[4].hex(), clock, args.hex())

def mk_oracle(entries, clean):
    exp = [fmt_event(*e) for e in ref_events(entries)]
    def oracle(outs):
        full = [t for t in outs[0].split(' ') if t.startswith('E(')]
        cl = [t for t in outs[1].split(' ') if t.startswith('E(')]
        if any(t.startswith('X:') for t in outs[1].split(' ')): return 'error reported on the stream without invalid entries'
        if full != cl: return 'events differ once the invalid entries are removed'
        if full != exp: return 'an event is not interpreted with the most recent source / writer / clock sync (reference reader disagrees)'
        return True
    return oracle

def mk_stream(rng):
    g = StreamGen(rng, redefine=rng.choice([0.2, 0.6]))
    entries = g.valid_stream(rng.randrange(3, 50))
    clean = list(entries)
    flags = 0
    # insert invalid entries; validity is judged against the ids defined *so far*, so rebuild progressively
    if rng.random() < 0.8:
        g2 = StreamGen(rng, idpool=g.ids); out, cl = [], []
        for e in entries:
            if rng.random() < 0.15:
                # what is defined so far = sources seen in `out`
                g2.defined = {s[0]: s for s in [x[0] for x in ref_events(out)]} if False else g2.defined
                out.append(g2.invalid_entry()); flags += 1
            out.append(e); cl.append(e)
            p = e[4:]
            if len(p) >= 16 and int.from_bytes(p[:8], 'little') == TAG_SRC: g2.defined[int.from_bytes(p[8:16], 'little')] = 1
        entries, clean = out, cl
    redefs = len([1 for e in clean if e[4:12] == u(8, TAG_SRC)]) > len(set(e[12:20] for e in clean if e[4:12] == u(8, TAG_SRC)))
    return entries, clean, flags, redefs

def run(ctx):
    rng, R = ctx.rng, Run(ctx)
    for line in corpus_lines(ctx.pid): R.add_corr(line, ('corpus',))
    for _ in range(ctx.n(1500, 40000)):
        keys = keyset(rng); probes = list(set(keys)) + [rng.choice(keys) + d for d in (-1, 1, 2)] + [rng.randrange(1 << 64)]
        probes = [p % (1 << 64) for p in probes]; rng.shuffle(probes)
        R.add_corr('segmap %s %s' % (hx(b''.join(frame(u(8, k)) for k in keys)), hx(b''.join(frame(u(8, k)) for k in probes))),
                   ('segmap',), len(set(keys)) < len(keys) or len(keys) > 3)
    for _ in range(ctx.n(1500, 40000)):
        entries, clean, flags, redefs = mk_stream(rng)
        l1, l2 = 'events ' + hx(b''.join(entries)), 'events ' + hx(b''.join(clean))
        tags = ('invalid_%s' % ('0' if flags == 0 else '1-2' if flags <= 2 else '3+'), 'redef' if redefs else 'noredef')
        R.add_corr(l1, tags, flags > 0 or redefs)
        R.add_prop([l1, l2], mk_oracle(entries, clean), 'reader state: an invalid entry changed the interpretation of other entries, or an event was not resolved to the latest definition', tags, flags > 0 or redefs)
    return R.execute()

def search(ctx):
    c2 = Ctx(ctx.pid, 'thorough', ctx.seed + 1, random.Random(ctx.seed + 99), ctx.drivers, True)
    c2.n = lambda q, t: 6000
    res = run(c2)
    return [v for v in res['violations'] if v[1]]

def replay(ctx, rp):
    def orc(lines):
        def split(b):
            es = []
            while b:
                n = int.from_bytes(b[:4], 'little'); es.append(b[:4+n]); b = b[4+n:]
            return es
        a = split(bytes.fromhex(lines[0].split(' ')[1])); c = split(bytes.fromhex(lines[1].split(' ')[1]))
        return mk_oracle(a, c)
    return generic_replay(ctx, rp, orc)
