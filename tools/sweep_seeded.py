#!/usr/bin/env python3
"""Apply each seeded change under /verif/seeded/<id>/patch.diff to /repo in turn, run the quick check of its property, undo it.
usage: sweep_seeded.py [--replay] <id> ...   (all ids if none given). Prints one line per change. Never commits to /repo."""
import json, os, re, subprocess, sys, time
V = os.path.dirname(os.path.dirname(os.path.abspath(__file__)))
args = sys.argv[1:]; do_replay = '--replay' in args; ids = [a for a in args if not a.startswith('--')] or sorted(os.listdir(os.path.join(V, 'seeded')))
def sh(cmd, timeout=7200):
    r = subprocess.run(cmd, shell=True, cwd=V, stdout=subprocess.PIPE, stderr=subprocess.STDOUT, universal_newlines=True, timeout=timeout); return r.returncode, r.stdout
assert sh('git -C /repo status --porcelain --untracked-files=no')[1].strip() == '', '/repo is not clean'
for sid in ids:
    prop = sid.split('-')[0]; patch = os.path.join(V, 'seeded', sid, 'patch.diff')
    rc, out = sh('git -C /repo apply %s' % patch)
    if rc != 0: print('%s patch does not apply: %s' % (sid, out[-200:])); continue
    try:
        t0 = time.time(); rc, out = sh('./check %s' % prop)
        vio = re.findall(r'^VIOLATION property=\S+ replay=(\S+)(.*)$', out, re.M)
        concrete = [v for v in vio if 'no-failing-input-found' not in v[1]]
        line = '%s exit=%d violations=%d concrete=%d %.0fs' % (sid, rc, len(vio), len(concrete), time.time() - t0)
        if do_replay and concrete:
            rrc, rout = sh('./check %s --replay %s' % (prop, concrete[0][0]))
            line += ' replay-on-mutant=%s' % ('fails' if rrc != 0 else 'passes')
            saved = open(concrete[0][0]).read()
    finally:
        sh('git -C /repo checkout -- .')
    if do_replay and concrete:
        p = os.path.join(V, '.work', 'sweep_replay.json'); open(p, 'w').write(saved)
        rrc, rout = sh('./check %s --replay %s' % (prop, p)); line += ' replay-on-clean=%s' % ('fails' if rrc != 0 else 'passes')
    print(line, flush=True)
assert sh('git -C /repo status --porcelain --untracked-files=no')[1].strip() == ''
