"""C17 — Timestamps: printed time denotes sync + (clock - syncClock)/frequency."""
import datetime
from fractions import Fraction
from vlib import *
from gen_reader import *
from runner import Run, generic_replay

DRIVERS = ['drv_reader']
DRIVER_OPTS = {'drv_reader': {'extra_src': ['$REPO/bin/printers.cpp'], 'flags': ['-fwrapv']}}
TRUSTED = ['Coq 8.16.1 kernel incl. vm_compute / vm_cast_no_check (era sweep of 146097 days)', 'ExtrOcamlBasic extraction + ocaml/modeldrv.ml glue',
           'harness/drv_reader.cpp compiled with -fwrapv (the model wraps int64 the same way outside the proved range)',
           'tools/srcfacts.py (shape of ticksToNanoseconds, clockToNsSinceEpoch, the floor, %y, %z, +tzOffset, the frequency test)',
           'gmtime_r (libc) modelled by civil_from_days + div/mod; tied by correspondence only', 'snprintf %.9d / PRId64 modelled by decimal printers']
ASSUMPTIONS = ['clock - syncClock read as the signed 64-bit wrap-around difference', 'syncTime < 2^63 ns', 'frequency in [1, 9223372036]',
               'instant in [0, 2^63) ns and zone-shifted instant in [-2^63+10^9, 2^63)']
RULE = ('clock syncs x clock values aimed at: f in {1,3,10^9,2.4e9,3e9,9223372036,random}, |d| near 2^63, remainders r*10^9 near 2^63, second/day/month/'
        'leap-year/century boundaries, 1970 +- zone offset (negative local time with sub-second part), 2262-04-11, zone offsets incl. -03:30, +05:45, +-14h; date '
        'formats over every placeholder; (a) model vs implementation text (also hostile syncs: f=0, 2^63, 2^64-1, tz=INT_MIN, syncTime>=2^63); (b) implementation '
        'alone for in-range cases: parsed %Y-%m-%d %H:%M:%S.%N equals an exact-rational reference (python Fraction + datetime) within 1 ns, %z and %Z as given. '
        'non-trivial = in-range case with d != 0; distinct by sha1')

EPOCH = datetime.datetime(1970, 1, 1)
TWO63 = 1 << 63
FREQS = [1, 3, 1000, 10**9, 2400000000, 3 * 10**9, 9223372036, 9223372035, 1000000007]
TZS = [0, 3600, -3600, -12600, 19800, 20700, 45900, -43200, 50400, -9000, 1, -1, 86399, -86399]
MOMENTS = [0, 1, 999999999, 10**9, 86400 * 10**9 - 1, 86400 * 10**9, 951782400 * 10**9 - 1, 951782400 * 10**9,       # 2000-02-29
           951868800 * 10**9 - 1, 4107542400 * 10**9 - 1, 4107542400 * 10**9,                                           # 2100-02-28/03-01
           1709164800 * 10**9, 1735689599 * 10**9 + 999999999, 1800500000000, TWO63 - 1, TWO63 - 86400 * 10**9, 946684800 * 10**9]

def wrap64(z): return (z + TWO63) % (1 << 64) - TWO63
def tquot(a, b): return abs(a) // abs(b) * (1 if (a >= 0) == (b > 0) else -1)

def mk_case(rng):
    f = rng.choice(FREQS) if rng.random() < 0.8 else rng.randrange(1, 9223372037)
    target = rng.choice(MOMENTS) if rng.random() < 0.7 else rng.randrange(0, TWO63)
    target = min(max(target + rng.choice([0, 0, 1, -1, 500000000, -500000000, rng.randrange(-10**10, 10**10)]), 0), TWO63 - 1)
    k = rng.random()
    if k < 0.3: sync = target
    elif k < 0.6: sync = rng.randrange(0, TWO63)
    elif k < 0.8: sync = rng.choice([0, TWO63 - 1, 10**18])
    else: sync = max(0, min(TWO63 - 1, target + rng.randrange(-10**12, 10**12)))
    # ticks so that sync + d*1e9/f ~ target, d within int64
    d = (target - sync) * f // 10**9 + rng.choice([0, 0, 1, -1])
    d = max(-TWO63, min(TWO63 - 1, d))
    if rng.random() < 0.1: d = rng.choice([TWO63 - 1, -TWO63, TWO63 - f, -TWO63 + f]) if f > 10**9 else d
    sclock = rng.choice([0, 1 << 63, (1 << 64) - 1, rng.randrange(1 << 64)])
    clock = (sclock + d) % (1 << 64)
    tz = rng.choice(TZS)
    name = rng.choice([b'UTC', b'CET', b'', b'NST', b'X\x00Y', b'+0545'])
    return sclock, f, sync, tz, name, clock

def reference(sclock, f, sync, tz, name, clock):
    """exact instant; returns None if outside the range the property quantifies over"""
    d = wrap64(clock - sclock)
    exact = Fraction(sync) + Fraction(d * 10**9, f)
    if not (0 <= exact < TWO63 - 1): return None
    if not (-TWO63 + 10**9 <= exact + tz * 10**9 < TWO63 - 1): return None
    if abs(Fraction(d * 10**9, f)) >= TWO63 - 1: return None
    return exact

def fields(ns):
    secs, nsec = ns // 10**9, ns % 10**9
    dt = EPOCH + datetime.timedelta(seconds=secs)
    return (dt.year, dt.month, dt.day, dt.hour, dt.minute, dt.second, nsec)

TF = b'%Y-%m-%d %H:%M:%S.%N %z %Z'
def mk_oracle(case):
    sclock, f, sync, tz, name, clock = case
    exact = reference(*case)
    def oracle(outs):
        t = outs[0].split(' ')
        if t[0] != 'ok': return 'error reported'
        txt = bytes.fromhex(t[1]).decode('latin1')
        loc, utc = txt.rstrip('\n').split('|')
        def parse(s):
            date, tm, rest = s.split(' ', 2)
            y, mo, dd = date.rsplit('-', 2); hh, mi, ss = tm.split(':'); ss, nn = ss.split('.')
            return (int(y), int(mo), int(dd), int(hh), int(mi), int(ss), int(nn)), rest
        try:
            lf, lrest = parse(loc); uf, urest = parse(utc)
        except Exception as ex: return 'unparsable time text %r' % txt
        cands = {int(exact // 1), -int((-exact) // 1)}      # floor and ceil: within one nanosecond
        if uf not in [fields(c) for c in cands]: return 'UTC time %s does not denote the instant %s ns' % (uf, float(exact))
        if lf not in [fields(c + tz * 10**9) for c in cands]: return 'producer-local time %s does not denote the instant + zone offset' % (lf,)
        sign = '+' if tz >= 0 else '-'; a = abs(tz)
        want = '%s%02d%02d %s' % (sign, a // 3600, a // 60 - 60 * (a // 3600), name.split(b'\x00')[0].decode('latin1'))
        if lrest != want: return 'zone text %r, expected %r' % (lrest, want)
        if urest != '+0000 UTC': return 'UTC zone text %r' % urest
        return True
    return oracle

def line_for(case, fmt, tf):
    sclock, f, sync, tz, name, clock = case
    log = e_cs(sclock, f, sync, tz % (1 << 32), name) + e_source(1, 128, b'', b'', b'', 0, b'', b'') + e_event(1, clock)
    return 'print %s %s %s' % (hx(fmt), hx(tf), hx(log))

def gen_tfmt(rng):
    out = b''
    for _ in range(rng.randrange(0, 8)):
        k = rng.random()
        if k < 0.7: out += b'%' + bytes([rng.choice(b'YymdHMSzZN')])
        elif k < 0.8: out += b'%' + bytes([rng.choice(b'xq%T')])
        else: out += rng.choice([b'-', b':', b' ', b'.', b'T'])
    if rng.random() < 0.1: out += b'%'
    return out

def run(ctx):
    rng, R = ctx.rng, Run(ctx)
    for line in corpus_lines(ctx.pid): R.add_corr(line, ('corpus',))
    for _ in range(ctx.n(4000, 100000)):
        case = mk_case(rng)
        inrange = reference(*case) is not None
        d = wrap64(case[5] - case[0])
        l = line_for(case, b'%d|%u\n', TF)
        tags = ('in_range' if inrange else 'out_of_range', 'f=%s' % ('1e9' if case[1] == 10**9 else 'max' if case[1] >= 9223372035 else 'small' if case[1] < 1000 else 'other'),
                'neg_local' if inrange and reference(*case) + case[3] * 10**9 < 0 else 'pos_local', 'd<0' if d < 0 else 'd>=0')
        R.add_corr(l, tags, inrange and d != 0)
        if inrange: R.add_prop([l], mk_oracle(case), 'printed time does not denote syncTime + (clock - syncClock)/frequency', (), d != 0)
        if rng.random() < 0.3:
            R.add_corr(line_for(case, rng.choice([b'%d\n', b'%u\n', b'%u %d %r\n']), gen_tfmt(rng)), ('random_date_format',))
    # two clock syncs in one log, the same clock value under both: each event is rendered with the sync in force when it was read
    for _ in range(ctx.n(300, 5000)):
        a = mk_case(rng)
        if reference(*a) is None: continue
        b = (a[0], a[1], min(TWO63 - 1, max(0, a[2] + rng.choice([1, -1]) * rng.choice([10**9, 86400 * 10**9, 31 * 86400 * 10**9, 3 * 10**17]))), rng.choice(TZS), rng.choice([b'UTC', b'EST', b'B']), a[5])
        if reference(*b) is None: continue
        log = (e_cs(a[0], a[1], a[2], a[3] % (1 << 32), a[4]) + e_source(1, 128, b'', b'', b'', 0, b'', b'') + e_event(1, a[5])
               + e_cs(b[0], b[1], b[2], b[3] % (1 << 32), b[4]) + e_event(1, b[5]))
        l = 'print %s %s %s' % (hx(b'%d|%u\n'), hx(TF), hx(log))
        oa, ob = mk_oracle(a), mk_oracle(b)
        def both(outs, oa=oa, ob=ob):
            t = outs[0].split(' ')
            if t[0] != 'ok': return 'error reported'
            ls = bytes.fromhex(t[1]).split(b'\n')
            if len(ls) != 3: return 'expected two lines'
            for o, x in ((oa, ls[0]), (ob, ls[1])):
                v = o(['ok ' + (x + b'\n').hex()])
                if v is not True: return v
            return True
        R.add_corr(l, ('two_syncs_same_clock',), True)
        R.add_prop([l], both, 'printed time does not denote syncTime + (clock - syncClock)/frequency (second clock sync in the log)', (), True)
    # hostile clock syncs: correspondence only (totality is C09's business; the text must still agree)
    for _ in range(ctx.n(400, 10000)):
        f = rng.choice([0, 1 << 63, (1 << 64) - 1, (1 << 63) - 1, 9223372037, 1])
        case = (rng.randrange(1 << 64), f, rng.choice([0, 1 << 63, (1 << 64) - 1, (1 << 64) - 9 * 10**18, rng.randrange(1 << 64)]),
                rng.choice([-(1 << 31), (1 << 31) - 1, 0, -360000, 360000]), b'Z', rng.randrange(1 << 64))
        R.add_corr(line_for(case, b'%d|%u\n', rng.choice([TF, b'%y %z', gen_tfmt(rng)])), ('hostile_sync',))
    return R.execute()

def search(ctx):
    c2 = Ctx(ctx.pid, 'thorough', ctx.seed + 1, random.Random(ctx.seed + 99), ctx.drivers, True); c2.n = lambda q, t: q * 5
    return [v for v in run(c2)['violations'] if v[1]]

def replay(ctx, rp):
    def orc(lines):
        log = bytes.fromhex(lines[0].split(' ')[3])
        ents, i = [], 0
        while i < len(log):
            n = int.from_bytes(log[i:i + 4], 'little'); ents.append(log[i + 4:i + 4 + n]); i += 4 + n
        def cs_of(p):
            sclock, f, sync = (int.from_bytes(p[8 + 8 * k:16 + 8 * k], 'little') for k in range(3))
            tz = int.from_bytes(p[32:36], 'little', signed=True); n = int.from_bytes(p[36:40], 'little')
            return sclock, f, sync, tz, p[40:40 + n]
        cases, cur = [], None
        for p in ents:
            tag = int.from_bytes(p[:8], 'little')
            if tag == TAG_CS: cur = cs_of(p)
            elif tag < (1 << 63) and cur is not None: cases.append(cur + (int.from_bytes(p[8:16], 'little'),))
        if len(cases) == 1: return mk_oracle(cases[0])
        def both(outs):
            t = outs[0].split(' ')
            if t[0] != 'ok': return 'error reported'
            ls = bytes.fromhex(t[1]).split(b'\n')
            for c, x in zip(cases, ls):
                v = mk_oracle(c)(['ok ' + (x + b'\n').hex()])
                if v is not True: return v
            return True
        return both
    return generic_replay(ctx, rp, orc)
