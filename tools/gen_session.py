"""Generator of session histories (op tokens shared by ocaml/modeldrv and harness/drv_session)."""
import random
from vlib import *

SEVS = [32, 64, 128, 256, 512, 1024]

def payload(rng, sid, clock=None, n=None):
    n = rng.choice([0, 1, 4, 8, 20, 40]) if n is None else n
    clock = rng.randrange(1 << 20) if clock is None else clock
    return u(8, sid) + u(8, clock) + bytes(rng.randrange(256) for _ in range(n))

class SessGen:
    def __init__(self, rng, caps=(24, 40, 64, 100, 128, 256), use_log=False, plans=True, rotate=False):
        self.rng, self.caps, self.use_log, self.plans, self.rotate = rng, caps, use_log, plans, rotate
        self.live, self.next_w, self.nsrc, self.ops = [], 1, 0, []
        self.stats = {}
    def bump(self, k): self.stats[k] = self.stats.get(k, 0) + 1
    def new_writer(self):
        w = self.next_w; self.next_w += 1; self.live.append(w)
        r = self.rng
        self.ops.append('nw:%d:%d:%d:%s' % (w, r.choice(self.caps), r.choice([0, 0, w, 77]), r.choice([b'', b'', b'wr%d' % w]).hex()))
        self.bump('new_writer')
    def act(self, inside=False):
        r = self.rng
        w = r.choice(self.live)
        if r.random() < 0.12 and len(self.live) > 0:
            self.live.remove(w); self.bump('close_inside' if inside else 'close')
            return 'c%d' % w if inside else 'cl:%d' % w
        k = r.choice([0, 0, 1, 9])
        sid = r.randrange(1, max(2, self.nsrc + 1))
        p = payload(r, sid)
        self.bump('add_inside' if inside else 'add')
        return ('a%d.%d.%s' % (w, k, p.hex())) if inside else ('ev:%d:%d:%s' % (w, k, p.hex()))
    def consume(self):
        r = self.rng
        plans = []
        if self.plans and r.random() < 0.6:
            for _ in range(r.randrange(0, 5)):
                before = ','.join(self.act(True) for _ in range(r.randrange(0, 3)) if self.live)
                between = ','.join(self.act(True) for _ in range(r.randrange(0, 3)) if self.live)
                plans.append('%d|%s|%s' % (r.choice([0, 1, 1000, 1000]), before, between))
        self.ops.append('co:' + ';'.join(plans)); self.bump('consume_with_plan' if plans else 'consume')
    def step(self):
        r = self.rng
        x = r.random()
        if not self.live or x < 0.08: self.new_writer()
        elif self.nsrc == 0: self.nsrc += 1; self.ops.append('as:%d:%d' % (r.randrange(8), r.choice(SEVS))); self.bump('add_source')
        elif x < 0.16: self.nsrc += 1; self.ops.append('as:%d:%d' % (r.randrange(8), r.choice(SEVS))); self.bump('add_source')
        elif x < 0.20: self.ops.append('cs:%d:%d:%d:%d:%s' % (r.randrange(1 << 30), r.choice([1, 10**9, 3 * 10**9]), r.randrange(1 << 40), r.choice([0, 3600, 2**32 - 3600]), r.choice([b'UTC', b'CET']).hex())); self.bump('clock_sync')
        elif x < 0.25: w = r.choice(self.live); self.ops.append(r.choice(['id:%d:%d' % (w, r.randrange(100)), 'nm:%d:%s' % (w, (b'n%d' % r.randrange(9)).hex())])); self.bump('rename')
        elif x < 0.45: self.consume()
        elif x < 0.50 and self.rotate: self.ops.append('rc'); self.bump('rotate')
        elif x < 0.55 and self.use_log: self.ops.append('%s:%d' % (r.choice(['ms', 'ms', 'mw']), r.choice(SEVS + [0, 32768, 129]))); self.bump('set_min_sev')
        elif self.use_log and x < 0.8:
            w = r.choice(self.live); site = r.randrange(8)
            if r.random() < 0.2:      # a statement used as the unbraced then-branch of an if/else
                self.ops.append('lx:%d:%d:%d:%d:%s' % (w, 1000, r.randrange(2), r.randrange(1 << 20), u(4, r.randrange(1 << 31)).hex())); self.bump('log_stmt_if_else')
            else:
                self.ops.append('lg:%d:%d:%d:%d:%d:%s' % (w, 1000, site, [32, 64, 128, 256, 512, 1024, 128, 32][site], r.randrange(1 << 20), u(4, r.randrange(1 << 31)).hex())); self.bump('log_stmt')
        else: self.ops.append(self.act())
    def history(self, n):
        for _ in range(n): self.step()
        if self.rng.random() < 0.7:
            for w in list(self.live):
                if self.rng.random() < 0.5: self.ops.append('cl:%d' % w); self.live.remove(w)
            self.ops.append('co:'); self.ops.append('co:')
        return self.ops
