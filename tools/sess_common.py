"""Shared runner + property oracles for the session properties (C02 C03 C11 C13 C19)."""
import collections
from vlib import *
from gen_session import *
from runner import Run, generic_replay

DRIVERS = ['drv_session']
DRIVER_OPTS = {'drv_session': {}}
TRUSTED_COMMON = ['Coq 8.16.1 kernel incl. vm_compute', 'ExtrOcamlBasic extraction + ocaml/modeldrv.ml glue (parses op tokens into extracted constructors)',
                  'harness/drv_session.cpp: stand-ins for std::atomic / std::mutex / std::shared_ptr (libstdc++ orders: relaxed increment, acq_rel decrement, relaxed use_count) / '
                  'atomic_thread_fence installed by token renaming over the unmodified headers; writer actions inside consume run from hooks at the closed test and at the poll',
                  'tools/srcfacts.py (lock_guards, order of the writes in consume, fence after the closed test, shapes of addEvent/replaceChannel/reconsumeMetadata, macro structure)',
                  'the queue of each channel is the model proved in C01']

def split_entries(b):
    out = []
    while b:
        if len(b) < 4: return None
        n = int.from_bytes(b[:4], 'little')
        if len(b) < 4 + n: return None
        out.append(b[4:4 + n]); b = b[4 + n:]
    return out

def parse_out(tok):
    """'W<hex>,<hex>;b,t,p,r' -> (writes, counters)"""
    body, cnt = tok[1:].split(';')
    writes = [bytes.fromhex(x) for x in body.split(',')] if body != '' else []
    if body == '' : writes = []
    return writes, tuple(int(x) for x in cnt.split(','))

class Oracle:
    """python reference semantics of what the properties demand, evaluated on the implementation's outputs"""
    def __init__(self, ops, check):
        self.ops, self.check = ops, check
    def __call__(self, outs):
        toks = outs[0].split(' ')
        if toks and toks[-1] in ('mutex-acquired-while-held',): return 'mutual exclusion violated: ' + toks[-1]
        if len(toks) != len(self.ops): return 'output length %d vs %d ops' % (len(toks), len(self.ops))
        ck = self.check
        wprops, accepted, owner = {}, collections.defaultdict(list), {}       # writer -> (id, name); writer -> payloads in order; payload -> writer
        hist, live = collections.defaultdict(set), set()                      # every (id, name) a writer ever had; writers not yet closed
        nsrc, min_sev, sites, cs_list = 0, 32, {}, [None]
        outputs = [[]]                                                          # list of outputs, each a list of entries (payload bytes)
        consume_only = []                                                       # what consume (not reconsumeMetadata) wrote, as one stream
        delivered = []
        src_ids = []
        for op, tok in zip(self.ops, toks):
            f = op.split(':')
            for w_, pr in wprops.items(): hist[w_].add(tuple(pr))
            if f[0] == 'nw': wprops[int(f[1])] = [int(f[3]), bytes.fromhex(f[4])]; live.add(int(f[1])); hist[int(f[1])].add((0, b'')); hist[int(f[1])].add((int(f[3]), b''))
            elif f[0] == 'id' and int(f[1]) in live: wprops[int(f[1])][0] = int(f[2])
            elif f[0] == 'nm' and int(f[1]) in live: wprops[int(f[1])][1] = bytes.fromhex(f[2])
            elif f[0] == 'ev':
                w, p = int(f[1]), bytes.fromhex(f[3])
                if w in live: accepted[w].append(p); owner[p] = w
            elif f[0] == 'cl': live.discard(int(f[1]))
            elif f[0] == 'as':
                nsrc += 1
                if tok != 'i%d' % nsrc: return 'addEventSource returned %s, expected the next distinct id %d' % (tok, nsrc)
            elif f[0] == 'cs': cs_list.append(tuple(f[1:]))
            elif f[0] in ('ms', 'mw'): min_sev = int(f[1])
            elif f[0] in ('lg', 'lx'):
                if f[0] == 'lx': w, site, sev, clock, args = int(f[1]), (8 if f[3] == '1' else 9), (64 if f[3] == '1' else 512), int(f[4]), bytes.fromhex(f[5])
                else: w, site, sev, clock, args = int(f[1]), int(f[3]), int(f[4]), int(f[5]), bytes.fromhex(f[6])
                enabled = sev >= min_sev and w in live
                if 'sev' in ck and (tok == 'b1') != enabled: return 'log statement at severity %d with minimum %d: arguments %sevaluated' % (sev, min_sev, '' if tok == 'b1' else 'not ')
                if enabled:
                    if site not in sites: nsrc += 1; sites[site] = nsrc
                    p = u(8, sites[site]) + u(8, clock) + args[:4]
                    accepted[w].append(p); owner[p] = w
            elif f[0] in ('co', 'rc', 'cf', 'rs', 'cb'):
                writes, cnt = parse_out(tok)
                def act(a):
                    nonlocal nsrc
                    if a[0] == 'a':
                        w, k, h = a[1:].split('.'); w = int(w); p = bytes.fromhex(h)
                        if w in live: accepted[w].append(p); owner[p] = w
                    elif a[0] == 'c': live.discard(int(a[1:]))
                    elif a[0] == 'r': nsrc += 1
                    elif a[0] == 's':         # a log statement attempted while the consumer holds the mutex (search stage only)
                        w, site, clock, arg = [int(x) for x in a[1:].split('.')]
                        if w in live:
                            if site not in sites: nsrc += 1; sites[site] = nsrc
                            p = u(8, sites[site]) + u(8, clock) + u(4, arg)
                            accepted[w].append(p); owner[p] = w
                if f[0] == 'co' and len(f) > 1 and f[1]:
                    for plan in f[1].split(';')[:cnt[2]]:      # only the plans of channels that exist are executed
                        for part in plan.split('|')[1:]:
                            for a in [x for x in part.split(',') if x]: act(a)
                if f[0] == 'rs':
                    for a in [x for x in f[2].split(',') if x]: act(a)
                if f[0] in ('rc', 'rs'): outputs.append([])
                if tok[0] == 'X': cnt = (sum(len(w) for w in writes),) + cnt[1:]      # the sink failed: counters were not returned
                if 'framing' in ck:
                    if cnt[0] != sum(len(w) for w in writes): return 'bytesConsumed %d but %d bytes written' % (cnt[0], sum(len(w) for w in writes))
                    for w in writes:
                        if split_entries(w) is None: return 'a single write is not a whole number of entries'
                # walk the writes: metadata, then batches
                i = 0
                while i < len(writes):
                    ents = split_entries(writes[i]) or []
                    is_wp = len(ents) == 1 and int.from_bytes(ents[0][:8], 'little') == TAG_WP
                    if is_wp and f[0] in ('co', 'cf', 'cb'):
                        p = ents[0]; wid = int.from_bytes(p[8:16], 'little'); nl = int.from_bytes(p[16:20], 'little'); name = p[20:20 + nl]
                        batch = int.from_bytes(p[20 + nl:28 + nl], 'little')
                        j, got, evs = i + 1, 0, []
                        while j < len(writes) and got < batch:
                            got += len(writes[j]); evs += split_entries(writes[j]) or []; j += 1
                        if 'framing' in ck:
                            if got != batch: return 'batch size %d but the run of events that follows has %d bytes' % (batch, got)
                            if j - i - 1 > 2: return 'a batch delivered in more than two pieces'
                            ws = set(owner.get(e) for e in evs)
                            if len(ws) == 1 and None not in ws:
                                w = ws.pop()
                                if (wid, name) not in hist[w] and (wid, name) != tuple(wprops[w]): return 'batch attributed to writer (%d,%r) but its events were produced by writer %d = %r' % (wid, name, w, tuple(wprops[w]))
                            elif len(ws) > 1: return 'one batch mixes events of several writers'
                        outputs[-1].append(p); outputs[-1] += evs; delivered += evs; consume_only += [p] + evs
                        i = j
                    else:
                        if 'framing' in ck and f[0] in ('co', 'cf', 'cb') and any(len(e) >= 8 and int.from_bytes(e[:8], 'little') < (1 << 63) for e in ents):
                            return 'event entries written without an immediately preceding writer-properties entry whose batch size covers them'
                        outputs[-1] += ents; i += 1
                        if f[0] in ('co', 'cf', 'cb'): consume_only += ents
                if 'once' in ck and (f[0] == 'cb' or (f[0] == 'co' and (len(f) < 2 or f[1] == ''))) and tok[0] == 'W':
                    # a consume that starts after every add returned and reads the newest stores delivers everything accepted so far
                    dl = collections.Counter(delivered)
                    for w_, ps in accepted.items():
                        for p_ in ps:
                            if dl[p_] == 0: return 'an accepted event of writer %d was not delivered by the first consume that started after its add returned' % w_
        # ---- end of history
        if 'once' in ck:
            cnt = collections.Counter(delivered)
            for w, ps in accepted.items():
                for p in ps:
                    if cnt[p] > 1: return 'an accepted event was delivered %d times' % cnt[p]
            if getattr(self, 'quiescent_end', False):
                for w, ps in accepted.items():
                    got = [e for e in delivered if owner.get(e) == w]
                    if got != ps: return 'events of writer %d: accepted %d, delivered %d%s' % (w, len(ps), len(got), '' if sorted(got) != sorted(ps) else ' (reordered)')
        if 'meta' in ck:
            for oi, ents in list(enumerate(outputs)) + [('of consume alone', consume_only)]:
                seen_src, seen_cs = set(), False
                for e in ents:
                    tag = int.from_bytes(e[:8], 'little')
                    if tag == TAG_SRC:
                        sid = int.from_bytes(e[8:16], 'little')
                        if sid in seen_src: return 'source %d written twice to output %s' % (sid, oi)
                        seen_src.add(sid)
                    elif tag == TAG_CS: seen_cs = True
                    elif tag < (1 << 63):
                        if not seen_cs: return 'an event precedes every clock sync in output %s' % oi
                        if e in owner and tag not in seen_src and 1 <= tag <= nsrc: return 'event with source id %d is not preceded by its source entry in output %s' % (tag, oi)
        return True

def make_case(rng, **kw):
    g = SessGen(rng, **kw)
    n = rng.randrange(5, 45)
    g.history(n)
    ops = g.ops
    quiescent = len(ops) >= 2 and ops[-1] == 'co:' and ops[-2] == 'co:' and not g.live
    return ops, g.stats, quiescent

def run_session_property(ctx, checks, gen_kw, what, n_quick=1200, n_thorough=30000, extra_cases=(), inside=False):
    rng, R = ctx.rng, Run(ctx, 'drv_session')
    for line in corpus_lines(ctx.pid):
        R.add_corr(line, ('corpus',))
        o = Oracle(line.split(' ')[1:], checks); R.add_prop([line], o, what)
    for ops in extra_cases:
        line = 'session ' + ' '.join(ops); R.add_corr(line, ('directed',), True)
        o = Oracle(ops, checks); o.quiescent_end = False; R.add_prop([line], o, what, (), True)
    if inside:
        # implementation-only histories (the model has no such operations): statements attempted while consume holds the mutex,
        # a failing sink with retry, registrations during a write of reconsumeMetadata, consume while another thread holds the mutex
        for ops in inside_cases(random.Random(ctx.seed * 977 + 3), ctx.n(300, 6000)):
            o = Oracle(ops, checks); o.quiescent_end = False
            R.add_prop(['session ' + ' '.join(ops)], o, what, ('inside',), True)
    for i in range(ctx.n(n_quick, n_thorough)):
        kw = dict(gen_kw); 
        if callable(kw.get('vary')): kw = kw['vary'](i, rng)
        ops, stats, quiescent = make_case(rng, **kw)
        line = 'session ' + ' '.join(ops)
        for k, v in stats.items(): R.stats['ops_' + k] += v
        nt = any(o.startswith('co:') and len(o) > 3 for o in ops) or any(o.startswith('rc') for o in ops) or len(ops) > 12
        R.add_corr(line, ('quiescent_end' if quiescent else 'open_end',), nt)
        o = Oracle(ops, checks); o.quiescent_end = quiescent
        R.add_prop([line], o, what, (), nt)
    return R.execute()

def session_replay(ctx, rp, checks):
    def orc(lines):
        ops = lines[0].split(' ')[1:]; o = Oracle(ops, checks); o.quiescent_end = len(ops) >= 2 and ops[-1] == 'co:' and ops[-2] == 'co:'
        return o
    return generic_replay(ctx, rp, orc, drv='drv_session')


def inside_search(ctx, checks, what, n=400):
    """Search stage on the implementation alone (the model has no such operations): histories in which (a) a log statement is executed for the
    first time by another thread while consume holds the mutex (the real code must block it: the driver unwinds the attempt and runs it after consume),
    (b) the sink fails at the k-th write of a consume and the application consumes again, (c) sources are registered while a write of reconsumeMetadata is in progress."""
    R = Run(ctx, 'drv_session')
    for ops in inside_cases(random.Random(ctx.seed * 977 + 3), n):
        line = 'session ' + ' '.join(ops)
        o = Oracle(ops, checks); o.quiescent_end = False
        R.add_prop([line], o, what, ('inside',), True)
    return [v for v in R.execute()['violations'] if v[1]]

def inside_cases(rng, n):
    out = []
    for i in range(n):
        ops = ['nw:1:4096:1:77']; clock = 10; used = set()
        if rng.random() < 0.5: ops.append('nw:2:4096:2:78')
        nwr = 2 if len(ops) == 2 else 1
        for _ in range(rng.randrange(2, 9)):
            k = rng.random(); clock += 1
            w = rng.randrange(1, nwr + 1)
            if k < 0.3:
                site = rng.randrange(8); sev = [32, 64, 128, 256, 512, 1024, 128, 32][site]; used.add(site)
                ops.append('lg:%d:0:%d:%d:%d:%s' % (w, site, sev, clock, u(4, clock).hex()))
            elif k < 0.55:
                site = rng.randrange(8)
                ops.append('co:1000|s%d.%d.%d.%d|%s' % (w, site, clock, clock, ';1000|s%d.%d.%d.%d|' % (nwr, (site + 1) % 8, clock + 100, clock + 100) if rng.random() < 0.4 else ''))
            elif k < 0.62: ops.append('cb')                       # consume while another thread holds the session mutex
            elif k < 0.7: ops.append('cf:%d' % rng.randrange(1, 4)); ops.append('co:')
            elif k < 0.8: ops.append('cs:%d:1000000000:%d:0:5554' % (clock, clock))
            elif k < 0.95: ops.append('rs:%d:%s' % (rng.randrange(1, 3), ','.join('r%d' % rng.randrange(100) for _ in range(rng.randrange(1, 8)))))
            else: ops.append('co:')
        ops += ['co:', 'co:']
        out.append(ops)
    return out
