"""C10 — Thread safety: documented-concurrent use is free of data races."""
import collections, concurrent.futures, glob, shutil, tempfile
from vlib import *

DRIVERS = []
TRUSTED = ['Coq 8.16.1 kernel incl. vm_compute', 'tools/srcfacts.py: the access table (function, shared member, under lock_guard or not) and the memory orders are extracted from Session.hpp / SessionWriter.hpp / Queue*.hpp by regular expressions',
           'the release/acquire machine of Queue/QueueModel.v as the meaning of the C++11 memory model for two single-writer atomics (tied to the headers by the C01 correspondence)',
           'ThreadSanitizer (g++ 12) as the observer of races on real threads; it does not model std::atomic_thread_fence (the fence in consume is covered by C02_closed_channel_drained instead)']
ASSUMPTIONS = ['lockset reading of "data race" for the mutex-protected state: two accesses conflict unless both hold the session mutex, the member is atomic, or one thread is the only one ever touching the field',
               'each SessionWriter is used by one thread at a time (the documentation\'s precondition)']
RULE = ('theorems on every run (Props/Properties_C10.v) + ThreadSanitizer runs of harness/drv_tsan.cpp built from the unmodified headers: 3-6 writer threads (create / log through 4 shared call sites / rename / setId / move / destroy, queues of 128-1024 bytes '
        'so that they wrap and are replaced), one consumer (consume, reconsumeMetadata), one control thread (setClockSync, setMinSeverity); seeds x durations; any ThreadSanitizer report is a violation, the report is the replay. '
        'The queue under every reads-from choice is the C01 driver (store-history atomics with happens-before stamps on buffer cells).')

def run(ctx):
    stats = collections.Counter(); violations = []
    work = tempfile.mkdtemp(prefix='c10_', dir=WORK)
    try:
        exe = os.path.join(work, 'drv_tsan')
        srcs = [os.path.join(VERIF, 'harness', 'drv_tsan.cpp')] + sorted(glob.glob(REPO + '/include/binlog/*.cpp')) + sorted(glob.glob(REPO + '/include/binlog/detail/*.cpp'))
        r = sh(['g++', '-std=c++14', '-O1', '-g', '-fsanitize=thread', '-Wno-tsan', '-I' + REPO + '/include'] + srcs + ['-o', exe, '-pthread'])
        if r.returncode != 0:
            return {'evaluations': 0, 'distinct': 0, 'samples': [], 'stats': {}, 'validated': 0, 'broken_what': ['TSan driver does not build'],
                    'violations': [(write_replay(ctx.pid, 'build', 'drv_tsan', '', r.stdout[-2000:], 'the ThreadSanitizer scenario does not build from the current tree', found=False), False)]}
        runs = [(ctx.seed * 100 + i, ctx.n(2500, 20000), 3 + i % 4) for i in range(ctx.n(6, 24))]
        env = dict(os.environ); env['TSAN_OPTIONS'] = 'halt_on_error=0 report_signal_unsafe=0 history_size=4'
        def one(cfg):
            seed, ms, nw = cfg
            try: p = subprocess.run([exe, str(seed), str(ms), str(nw)], stdout=subprocess.PIPE, stderr=subprocess.PIPE, universal_newlines=True, timeout=ms / 1000 * 20 + 120, env=env, errors='replace')
            except subprocess.TimeoutExpired: return cfg, None, 'timeout'
            return cfg, p.returncode, p.stderr
        with concurrent.futures.ThreadPoolExecutor(max_workers=4) as ex: results = list(ex.map(one, runs))
        bad = []
        for cfg, rc, err in results:
            stats['tsan_runs'] += 1; stats['thread_seconds'] += cfg[1] * (cfg[2] + 2) // 1000
            if rc is None: bad.append(('drv_tsan %d %d %d' % cfg, 'timeout', 'terminates')); continue
            if 'ThreadSanitizer' in err or rc != 0:
                m = err.find('WARNING: ThreadSanitizer'); bad.append(('drv_tsan %d %d %d' % cfg, err[m if m >= 0 else 0:][:3500], 'no ThreadSanitizer report, exit 0'))
        violations += report_smallest(ctx.pid, 'prop', bad, 'ThreadSanitizer reports a data race between documented-concurrent operations')
        return {'evaluations': len(runs), 'distinct': len(runs), 'samples': ['drv_tsan %d %d %d' % c for c in runs[:3]], 'stats': dict(stats), 'validated': len(runs) - len(bad), 'violations': violations, 'broken_what': []}
    finally:
        shutil.rmtree(work, ignore_errors=True)

def search(ctx):
    c2 = Ctx(ctx.pid, 'thorough', ctx.seed + 1, random.Random(ctx.seed + 5), ctx.drivers, True)
    return [v for v in run(c2)['violations'] if v[1]]
def replay(ctx, rp):
    c2 = Ctx(ctx.pid, 'quick', ctx.seed, random.Random(1), ctx.drivers, True)
    return bool(run(c2)['violations']) or not ctx.obligations_ok
