"""C04 — mserialize property (see DESIGN.md section 4/C04)."""
from mser_common import *
TRUSTED = TRUSTED_COMMON
ASSUMPTIONS = ['sequence lengths < 2^32 and total event size < 2^32 (the code asserts / documents this)', 'getters are pure during one call',
               'user containers whose data() element type differs from value_type are outside the universe', 'valueless_by_exception variants are in the model only']
RULE = ('random type descriptions of depth <= 4 (thorough 6) over: 13 arithmetic kinds, plain and adapted enums, vector/deque/list/forward_list/array/C array/string/vector<bool>/set/multiset, '
        'tuple/pair, raw/unique/shared pointers and std::optional, std::variant with monostate, adapted structs; values incl. empty containers, nulls, extremes, 33-40 element sequences; every '
        'description is rendered as C++ with the real macros and containers, 40 per translation unit, 16 compiled in parallel; (a) model vs program: serialized_size, bytes; '
        '(b) program alone: size == bytes written, no write beyond the announced size, bytes == an independent python rendering of the documented format. '
        'non-trivial = at least two different constructors in the type; distinct by sha1')
def oracle(c):
    i = c['impl']
    if i['bytes'].startswith('OVERRUN'): return 'serialize wrote beyond serialized_size'
    if int(i['size']) * 2 != len(i['bytes']): return 'serialized_size %s but %d bytes written' % (i['size'], len(i['bytes']) // 2)
    if i['bytes'] != ref_enc(c['info']['t'], c['info']['v']).hex(): return 'bytes are not the documented encoding'
    return True
def run(ctx): return run_mser_property(ctx, ['size', 'bytes'], oracle, 'encoded size / wire format violated on the implementation', floats=True)
def search(ctx):
    c2 = Ctx(ctx.pid, 'quick', ctx.seed + 1, random.Random(ctx.seed + 99), ctx.drivers, True); c2.n = lambda q, t: 2560 if q > 10 else q
    return [v for v in run(c2)['violations'] if v[1]]
def replay(ctx, rp): return mser_replay(ctx, rp, ['wt', 'size', 'bytes'])
