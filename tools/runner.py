"""Generic case runner: correspondence cases (model vs implementation, same line) and property cases
(lines run on the implementation only, judged by an oracle that states the property itself)."""
import collections
from vlib import *

class Run:
    def __init__(self, ctx, drv='drv_reader'):
        self.ctx, self.drv = ctx, drv
        self.corr = []      # (line, tags)
        self.props = []     # (lines, oracle, what, tags)
        self.stats = collections.Counter()
        self.nontrivial = set()
    def add_corr(self, line, tags=(), nontrivial=False):
        self.corr.append((line, tags))
        for t in tags: self.stats[t] += 1
        if nontrivial: self.nontrivial.add(case_hash(line))
    def add_prop(self, lines, oracle, what, tags=(), nontrivial=False, shrink=None):
        self.props.append((lines, oracle, what, tags, shrink))
        for t in tags: self.stats['prop_' + t] += 1
        if nontrivial: self.nontrivial.add(case_hash('\n'.join(lines)))
    def execute(self, known=None, same=None):
        """known: optional function (line, model_out, impl_out) -> finding text | None"""
        ctx, exe = self.ctx, self.ctx.drivers[self.drv]
        violations, broken, known_hits = [], [], []
        lines = [l for l, _ in self.corr]
        m, i, problems = run_both(exe, lines) if lines else ([], [], [])
        mism = []
        for k in range(len(lines)):
            if (m[k] != i[k]) if same is None else (not same(m[k], i[k])):
                kf = known(lines[k], m[k], i[k]) if known else None
                if kf: known_hits.append(kf)
                else: mism.append((k, m[k], i[k]))
        for pr in problems:
            if pr[0] == 'impl-crash':
                k, err = isolate_crash(exe, lines, pr[1])
                violations.append((write_replay(ctx.pid, 'corr', lines[k] if k is not None else '', 'no crash', err or pr[2],
                                                'implementation crashed / sanitizer report / assertion'), True))
            else:
                broken.append('model driver failed: ' + pr[2][:300])
        # property cases
        flat, index = [], []
        for pi, (ls, _, _, _, _) in enumerate(self.props):
            index.append((len(flat), len(ls))); flat += ls
        pout = []
        for c0 in range(0, len(flat), 2000):                      # chunks, each under its own time limit
            part = flat[c0:c0 + 2000]
            po, perr, prc = run_lines(exe, part)
            if po is None or prc != 0 or len(po) != len(part):
                k, err = isolate_crash(exe, part, len(po or []))
                if len(violations) < 3:
                    violations.append((write_replay(ctx.pid, 'prop', part[k] if k is not None else '', 'no crash', err or (perr or '')[-2000:],
                                                    'implementation crashed / sanitizer report / assertion'), True))
                po = (po or []) + [''] * (len(part) - len(po or []))
            pout += po
        bad = collections.defaultdict(list)
        for pi, (ls, oracle, what, tags, shrink) in enumerate(self.props):
            s, n = index[pi]
            outs = pout[s:s+n]
            if any(o == '' for o in outs) and not all(o == '' for o in outs): continue
            if all(o == '' for o in outs) and n: continue
            verdict = oracle(outs)
            if verdict is not True:
                bad[what].append(('\n'.join(ls), '\n'.join(outs), str(verdict), shrink))
        self.stats['property_oracle_failures'] = sum(len(v) for v in bad.values())
        for what, items in bad.items():
            items.sort(key=lambda b: len(b[0]))
            for n, (c, o, e, shrink) in enumerate(items[:3]):
                if shrink and n == 0:
                    try: c, o = shrink(exe, c, o)
                    except Exception: pass
                violations.append((write_replay(ctx.pid, 'prop', c, e, o, what), True))
        res = {'evaluations': len(lines) + len(flat), 'distinct': len(self.nontrivial),
               'samples': [l[:500] for l in lines[:2]] + [l[:500] for l in flat[:2]],
               'stats': dict(self.stats), 'validated': len(lines) - len(mism), 'violations': violations,
               'broken_what': broken, 'known': sorted(set(known_hits))}
        if mism:
            k, mo, io = mism[0]
            res['corr_broken'] = True
            res['first_mismatch'] = {'case': lines[k], 'model': mo, 'impl': io}
            res['broken_what'] = broken + ['%d/%d correspondence cases differ; first: %s' % (len(mism), len(lines), lines[k][:200])]
            print('CORRESPONDENCE-BROKEN: %d cases differ; first case: %s\n  model: %s\n  impl:  %s' % (len(mism), lines[k][:300], mo[:300], io[:300]))
            self.mismatches = mism
        return res

def generic_replay(ctx, rp, oracle_for=None, drv='drv_reader'):
    exe = ctx.drivers[drv]
    lines = rp['case'].split('\n')
    if rp['kind'] == 'corr':
        m, i, problems = run_both(exe, lines)
        for a, b in zip(m, i): print('model:', a[:400]); print('impl: ', b[:400])
        return m != i or bool(problems)
    if rp['kind'] == 'prop':
        o, e, rc = run_lines(exe, lines, 120)
        print('impl:', '\n'.join(o or [])[:800], (e or '')[-500:])
        if o is None or rc != 0 or len(o) != len(lines): return True
        if oracle_for: return oracle_for(lines)(o) is not True
        # no oracle can be rebuilt from the kept lines: the implementation ran to completion; compare it with the model on the same lines
        m, i, problems = run_both(exe, lines)
        for a, b in zip(m, i): print('model:', a[:400]); print('impl: ', b[:400])
        return m != i or bool(problems)
    return not ctx.obligations_ok
