"""Generated logging programs for C07: log statements of every macro family over random argument types/values, several named
writers, consumed into a stream and printed by printEvents of the current tree. The same case is rendered as
(a) C++ using the real macros and (b) the pieces the model needs (one 'mser' line per argument + metadata)."""
import random
from gen_mser import Gen, no_inner_carray, ARITH

SEV = [('TRACE', 32), ('DEBUG', 64), ('INFO', 128), ('WARN', 256), ('ERROR', 512), ('CRITICAL', 1024)]
SEVNAME = {32: 'trace', 64: 'debug', 128: 'info', 256: 'warning', 512: 'error', 1024: 'critical'}
CATEGORIES = ['main', 'net', 'db_io', 'x']
FILES = ['src/app.cpp', '/abs/dir/file.cc', 'f.cpp', 'a\\b.cpp']
WNAMES = ['', 'w1', 'writer two', 'net-thread', 'W']
FORMAT_PIECES = ['', 'v=', ' and ', 'x ', ' [', '] ', ': ', '}', '%d ']

def make_log_case(rng, idx, floats=True):
    """one session, 1-2 writers, 1-3 statements (call sites); returns a dict"""
    g = Gen(rng, 'L%d_' % idx, floats=floats, max_depth=3)
    cs = (rng.randrange(0, 1 << 40), rng.choice([1, 1000, 1000000, 1000000000, 2500000000]), rng.randrange(0, 1 << 61), rng.choice([0, 3600, -3600, 19800, -34200]), rng.choice(['UTC', 'CET', 'X', '']))
    stmts = []
    for s in range(rng.randrange(1, 4)):
        args = []
        for _ in range(rng.randrange(0, 4)):
            while True:
                t = g.ty(carray_ok=True)
                if no_inner_carray(g, t): break
            args.append((t, g.val(t)))
        fmt = rng.choice(FORMAT_PIECES) + ''.join('{}' + rng.choice(FORMAT_PIECES) for _ in args)
        explicit_clock = rng.random() < 0.5
        sevname, sev = rng.choice(SEV)
        stmts.append({'args': args, 'fmt': fmt, 'sev': sev, 'sevname': sevname, 'cat': rng.choice(CATEGORIES), 'file': rng.choice(FILES), 'line': rng.randrange(1, 100000),
                      'func': 'L%d_stmt%d' % (idx, s), 'explicit': explicit_clock, 'family': rng.choice(['W', 'WC']) if not explicit_clock else 'ADV'})
    for st in stmts:
        if st['family'] == 'W': st['cat'] = 'main'      # BINLOG_<SEVERITY>_W: the category is documented to be "main"
    # execution plan: writers come and go, consumes in between:
    #   ('new', w) ('log', stmt, w, clock) ('del', w) ('consume',)
    nw = rng.randrange(1, 4)
    writers = [(rng.randrange(0, 1 << rng.choice([4, 32, 63])), rng.choice(WNAMES) + (str(i) if rng.random() < 0.8 else '')) for i in range(nw)]
    ops, live, made = [], [], 0
    for _ in range(rng.randrange(2, 10)):
        k = rng.random()
        if (not live and made < nw) or (k < 0.2 and made < nw): ops.append(('new', made)); live.append(made); made += 1
        elif not live: break
        elif k < 0.7: ops.append(('log', rng.randrange(len(stmts)), rng.choice(live), rng.choice([cs[0], cs[0] + rng.randrange(1 << 36), rng.randrange(1 << 41)])))
        elif k < 0.85: w = rng.choice(live); live.remove(w); ops.append(('del', w)); ops.append(('consume',)) if rng.random() < 0.7 else None
        else: ops.append(('consume',))
    churn = nw >= 2 and rng.random() < 0.3
    if churn:
        # writers that follow one another: each logs, is destroyed, and a consume removes its channel before the next one is created
        # (the allocator then hands the freed channel block to the next writer: what is printed for it must still be ITS id and name)
        ops = []
        for i in range(nw):
            ops.append(('new', i))
            for _ in range(rng.randrange(1, 3)): ops.append(('log', rng.randrange(len(stmts)), i, rng.choice([cs[0], cs[0] + rng.randrange(1 << 36), rng.randrange(1 << 41)])))
            if rng.random() < 0.4: ops.append(('consume',))
            if i + 1 < nw or rng.random() < 0.5: ops.append(('del', i)); ops.append(('consume',))
    ops.append(('consume',))
    logs = [o for o in ops if o[0] == 'log']
    has_time = all(stmts[o[1]]['explicit'] for o in logs)
    evfmt = rng.choice(['%S %C [%M] %F|%G:%L %n(%t) %P | %m', '%n %t %m'] if churn else ['%S %C [%M] %F|%G:%L %n(%t) %P | %m', '%m', '%S %m [%C]', '%I %T %m', '%n %t %m']) + (rng.choice([' %r %d %u', ' %d', ' %u %r']) if has_time else '')
    tfmt = rng.choice(['%Y-%m-%d %H:%M:%S.%N %z %Z', '%d/%m/%y %H:%M', '%S.%N'])
    return {'idx': idx, 'g': g, 'writers': writers, 'cs': cs, 'stmts': stmts, 'ops': ops, 'evfmt': evfmt + '\n', 'tfmt': tfmt}

def cstr(s): return '"' + s.replace('\\', '\\\\').replace('"', '\\"').replace('\n', '\\n') + '"'

def cpp_of_case(c):
    """(namespace-scope definitions, body lines for main)"""
    g = c['g']; defs = []; idx = c['idx']
    for si, st in enumerate(c['stmts']):
        body = []
        for ai, (t, v) in enumerate(st['args']):
            ctype, name, suffix = g.cpp_decl(t, 'x%d' % ai)
            body.append('  %s %s%s{};' % (ctype, name, suffix))
            g.build(t, v, 'x%d' % ai, body, '  ')
        argl = ''.join(', x%d' % ai for ai in range(len(st['args'])))
        body.append('#line %d %s' % (st['line'], cstr(st['file'])))
        if st['family'] == 'ADV':
            body.append('  BINLOG_CREATE_SOURCE_AND_EVENT(w, binlog::Severity::%s, %s, clock, %s%s);' % (SEVNAME[st['sev']], st['cat'], cstr(st['fmt']), argl))
        elif st['family'] == 'WC':
            body.append('  BINLOG_%s_WC(w, %s, %s%s);' % (st['sevname'], st['cat'], cstr(st['fmt']), argl))
        else:
            body.append('  BINLOG_%s_W(w, %s%s);' % (st['sevname'], cstr(st['fmt']), argl))
        body.append('#line 1 "generated.cpp"')
        defs.append('static void %s(binlog::SessionWriter& w, std::uint64_t clock)\n{\n  (void)clock;\n%s\n}' % (st['func'], '\n'.join(body)))
    main = ['  {', '    binlog::Session session;',
            '    session.setClockSync(binlog::ClockSync{%dull, %dull, %dull, %d, %s});' % (c['cs'][0], c['cs'][1], c['cs'][2], c['cs'][3], cstr(c['cs'][4]))]
    main.append('    std::stringstream stream;')
    for wi in range(len(c['writers'])): main.append('    std::unique_ptr<binlog::SessionWriter> w%d;' % wi)
    for o in c['ops']:
        if o[0] == 'new': main.append('    w%d.reset(new binlog::SessionWriter(session, 1 << 16, %dull, %s));' % (o[1], c['writers'][o[1]][0], cstr(c['writers'][o[1]][1])))
        elif o[0] == 'log': main.append('    %s(*w%d, %dull);' % (c['stmts'][o[1]]['func'], o[2], o[3]))
        elif o[0] == 'del': main.append('    w%d.reset();' % o[1])
        else: main.append('    session.consume(stream);')
    main += ['    lc::finish(stream, %s, %s);' % (cstr(c['evfmt']), cstr(c['tfmt'])), '  }']
    return g.defs + defs, main

def program(cases):
    src = ['#include "log_case.hpp"', '']
    mains = []
    for c in cases:
        d, m = cpp_of_case(c); src += d; mains += m
    src += ['', 'int main() {'] + mains + ['  return 0;', '}']
    return '\n'.join(src) + '\n'

def mser_lines(c):
    """one model line per argument of each statement"""
    g = c['g']; out = []
    for st in c['stmts']:
        for t, v in st['args']:
            out.append('mser ' + ' '.join(g.ty_tokens(t)) + ' | ' + ' '.join(g.val_tokens(v)))
    return out
