#!/usr/bin/env python3
"""Writes MANIFEST.json from the table below (kept in one place so it stays valid and current)."""
import json, os
V = os.path.dirname(os.path.dirname(os.path.abspath(__file__)))
PROPS = [json.loads(l)['id'] for l in open(os.path.join(V, 'properties.jsonl'))]
NOTE_COMMON = ('Trusted: Coq 8.16.1 kernel (vm_compute, no native_compute); ExtrOcamlBasic extraction and ocaml/modeldrv.ml glue; '
               'tools/srcfacts.py (source facts the theorems are instantiated with); the C++ driver; ')
CLAIMS = {
 'C16': dict(
   text='Theorem C16_filter_commutes (Coq, closed under the global context): for every predicate, renderer, well-formed stream and '
        'whole-entry chunking, reading the filter output yields exactly the lines of the unfiltered read whose resolved source '
        'satisfies the predicate, same text and final reader state, all special entries pass. Proved on Filter.v/EventStream.v/SegMap.v, '
        'instantiated with the erase-on-redefinition fact read off EventFilter.hpp on every run; the model is tied to the code by '
        'write-by-write differential execution against EventFilter::writeAllowed, and the property itself is evaluated on the implementation.',
   note=NOTE_COMMON + 'std::set modelled as duplicate-free list; predicate pure; well-formedness as stated in Props/Properties_C16.v.',
   design='4/C16', technique='Coq proof by induction over entry lists + refinement of SegmentedMap to a finite map; differential correspondence'),
}
REASON_NOT_BUILT = 'not built yet in this round: no theorem/correspondence for it is registered; not claimed at a lower level by another technique'
m = {'version': 1, 'setup_cmd': './setup.sh',
     'hooks': {'guard': 'BINLOG_VERIF', 'enable': 'none needed: drivers observe the unmodified headers (token renaming in harness/); no hook commits exist',
               'baseline_off_cmd': 'cmake --build /repo/_build && ctest --test-dir /repo/_build -j8 --timeout 900', 'source_commits': [], 'add_only': True},
     'engines': [{'name': 'coq-model+correspondence', 'path': 'check', 'serves_properties': sorted(CLAIMS), 'kind_free_text': 'Coq 8.16 theorems over an executable model; model extracted to OCaml and run against C++ drivers compiled from /repo on every run'}],
     'checks': [], 'not_applicable': [],
     'notes': 'See DESIGN.md. fix: commits in /repo are listed in known_findings.json.'}
for p in PROPS:
    if p in CLAIMS:
        c = CLAIMS[p]
        m['checks'].append({'property_id': p, 'quick_cmd': './check %s --tier quick' % p, 'thorough_cmd': './check %s --tier thorough' % p,
                            'evidence_file': 'evidence/%s.json' % p, 'replay_cmd_template': './check %s --replay {path}' % p,
                            'engine': 'coq-model+correspondence',
                            'level_claimed': {'category': 'proof', 'text': c['text'], 'design_ref': c['design']},
                            'level_note': c['note'], 'technique': c['technique']})
    else:
        m['not_applicable'].append({'property_id': p, 'reason': REASON_NOT_BUILT})
json.dump(m, open(os.path.join(V, 'MANIFEST.json'), 'w'), indent=1)
print('MANIFEST.json: %d checks, %d not claimed' % (len(m['checks']), len(m['not_applicable'])))
