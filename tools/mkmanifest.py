#!/usr/bin/env python3
"""Writes MANIFEST.json from the table below (kept in one place so it stays valid and current)."""
import json, os
V = os.path.dirname(os.path.dirname(os.path.abspath(__file__)))
PROPS = [json.loads(l)['id'] for l in open(os.path.join(V, 'properties.jsonl'))]
NOTE_COMMON = ('Trusted: Coq 8.16.1 kernel (vm_compute, no native_compute); ExtrOcamlBasic extraction and ocaml/modeldrv.ml glue; '
               'tools/srcfacts.py (source facts the theorems are instantiated with); the C++ driver; ')
CLAIMS = {
 'C16': dict(
   text='Theorem C16_filter_commutes (Coq, closed under the global context): for every predicate, renderer, well-formed stream and '
        'whole-entry chunking, reading the filter output yields exactly the lines of the unfiltered read whose resolved source '
        'satisfies the predicate, same text and final reader state, all special entries pass. Proved on Filter.v/EventStream.v/SegMap.v, '
        'instantiated with the erase-on-redefinition fact read off EventFilter.hpp on every run; the model is tied to the code by '
        'write-by-write differential execution against EventFilter::writeAllowed, and the property itself is evaluated on the implementation.',
   note=NOTE_COMMON + 'std::set modelled as duplicate-free list; predicate pure; well-formedness as stated in Props/Properties_C16.v.',
   design='4/C16', technique='Coq proof by induction over entry lists + refinement of SegmentedMap to a finite map; differential correspondence'),
 'C18': dict(
   text='Theorems C18_sorted_is_stable_sort_of_unsorted and C18_stable_sort_spec (Coq, closed): for every renderer and every input byte string '
        '(incl. logs ending in an invalid or truncated entry) sorted printing prints stable_sort of exactly the lines unsorted printing completes, same end '
        'status; stable_sort is sorted by clock, a permutation, and order-preserving among equal clocks. Instantiated with facts read off printers.cpp '
        '(std::stable_sort, strict < comparator, buffer flushed before an exception propagates); model tied by differential runs of printEvents / '
        'printSortedEvents and by the property evaluated on the implementation (also under an address-space limit in the thorough tier).',
   note=NOTE_COMMON + 'std::stable_sort modelled as stable insertion sort; partial text of an event whose rendering throws is outside "lines".',
   design='4/C18', technique='Coq proof (insertion-sort stability, Permutation, Sorted) + differential correspondence'),
 'C14': dict(
   text='Theorems C14_segmap_is_map (SegmentedMap refines a finite map for every key sequence), C14_latest_definition_wins (the reader refines a reader over a '
        'plain function id->source with override), C14_invalid_entry_isolated and C14_invalid_entries_absent (an entry reported as an error leaves the state '
        'unchanged; all other entries are interpreted as if it were absent) — Coq, closed, unbounded. Tied by differential runs of SegmentedMap and of the '
        'nextEvent loop, plus the property evaluated on the implementation against a dict-based reference.',
   note=NOTE_COMMON + 'zero-length entry = end marker (stated as an Example, pinned by the unit tests); vector growth not modelled.',
   design='4/C14', technique='Coq refinement proof (SegmentedMap -> finite map; EventStream -> abstract reader) + differential correspondence'),
 'C15': dict(
   text='Theorem C15_decoration_invisible (Coq, closed): for every renderer that ignores bytes behind the decoded arguments and every log whose read completes, '
        'inserting unknown special entries anywhere and appending arbitrary bytes to any entry leaves text, sources and final state unchanged. Decoders are '
        'instantiated with the wire orders and tags read off Entries.hpp. Tied by differential runs (bread path, sorted path, TextOutputStream) on original '
        'and decorated logs and by text equality on the implementation.',
   note=NOTE_COMMON + 'the renderer hypothesis (argument suffix ignored) is a stated premise until the message renderer is in the model.',
   design='4/C15', technique='Coq proof by induction over a decoration relation + suffix-stability lemmas of the decoders; differential correspondence'),
 'C12': dict(
   text='Theorems C12_scan_cut, C12_status_at_cut, C12_prefix_prints_whole_entries, C12_resume_equals_uninterrupted (Coq, closed): for every well-formed log and '
        'every cut offset exactly the entries wholly inside the prefix are read, the status is ok iff the cut is a boundary, the remaining input is the incomplete '
        'entry, and any piecewise delivery with retry reads the same lines and state as an uninterrupted read. Tied by runs at EVERY cut offset of generated '
        'logs and by resume scripts on std::stringstream (text, status, tellg).',
   note=NOTE_COMMON + 'std::istream (read/gcount/clear/seekg/tellg) is modelled as bytes + remaining suffix and tied by correspondence only.',
   design='4/C12', technique='Coq proof over an explicit prefix/cut function + resume invariant; exhaustive-cut differential correspondence'),
 'C17': dict(
   text='Theorems C17_ticks_exact, C17_civil_from_days_correct (for EVERY integer day number; era sweep of 146097 days inside the kernel + shift lemmas), '
        'C17_utc_time_denotes_instant, C17_local_time_denotes_instant, C17_no_sync_placeholder (Coq, closed): for every clock sync with f in [1, 9223372036], syncTime < 2^63 '
        'and every clock value whose instant lies in [0, 2^63) ns, no intermediate overflow occurs, the value computed is the exact instant truncated to ns (< 1 ns error), and '
        'the broken-down time printed (UTC, and zone-shifted incl. negative local times) denotes it exactly in the proleptic Gregorian calendar. Instantiated with the shape of '
        'the arithmetic read off Time.cpp/PrettyPrinter.cpp on every run; model tied by differential runs aimed at the overflow and calendar boundaries and by an exact-rational '
        'reference evaluated on the implementation.',
   note=NOTE_COMMON + 'gmtime_r and snprintf are libc: modelled (civil_from_days, decimal printers) and tied by correspondence only; drivers compiled with -fwrapv.',
   design='4/C17', technique='Coq proof (Z arithmetic with explicit int64 wrap, finite sweep lifted by lemma for the calendar) + differential correspondence'),
 'C01': dict(
   text='Theorems C01_invariant_reachable, C01_queue_refines_fifo, C01_quiescent_delivers_all, C01_window_disjoint_unreleased, C01_wrap_excludes_dataEnd_reader (Coq, closed): '
        'on a release/acquire machine in which every load of the other thread\'s index may read ANY store not older than the newest already seen, for every capacity, every sequence '
        'of producer/consumer operations and every reads-from choice, the queue refines a FIFO log: granted writes append one commit, failed requests change nothing, every batch is the '
        'committed bytes from the released offset to a commit boundary, both pieces are runs of whole commits, no unreleased byte lies in the granted window, and dataEnd is never '
        'rewritten while a reader could read it. Instantiated with the memory orders and branch structure read off the three headers; tied by running the REAL headers over a '
        'store-history std::atomic with the same reads-from choices (value correspondence after every operation) and happens-before stamps on buffer cells.',
   note=NOTE_COMMON + 'the memory-model fragment (two single-writer atomics, views monotone) and the second implementation of it in harness/drv_queue.cpp; plain accesses to dataEnd are covered by theorem + value correspondence, not observed.',
   design='4/C01 + Appendix A', technique='Coq invariant proof over an executable release/acquire machine with ghost laps; refinement to a FIFO spec; differential correspondence on the real headers'),
 'C11': dict(
   text='Theorems C11_session_framing and C11_pieces_are_whole_entries (Coq, closed): for every history of session operations - incl. channel replacement, writer actions inside consume and every reads-from choice - every single out.write of consume / reconsumeMetadata is a whole number of entries; the channel part is a list of batches, each a writer description with that channel\'s id and name and batchSize = byte length of the one or two pieces that follow; bytes reported = bytes written. Built on C01 (pieces are runs of whole commits). Tied by write-by-write differential runs of the real Session/SessionWriter headers and by the framing oracle on the implementation.',
   note=NOTE_COMMON + 'the stand-ins of harness/drv_session.cpp (atomic, mutex, shared_ptr with libstdc++ orders, fence); the session model keeps one source id per statement site; per-channel delivery is C01.', design='4/C11', technique='Coq invariant proof over the session model layered on the C01 queue refinement; differential correspondence with in-consume interleaving hooks'),
 'C02': dict(
   text='Theorems C02_channels_refine_fifo (every channel of every reachable session state satisfies the C01 invariant, so every poll delivers exactly-once/in-order per channel), C02_closed_channel_drained (with the acquire fence after the closed test, the poll of a channel found closed delivers everything ever committed to it: removal loses nothing) C02_no_event_lost_at_removal (for EVERY history and EVERY schedule of lock-free writer actions inside the next consume, each channel that consume removes has released offset = committed length: no accepted event leaves the session undelivered), C02_timely_delivery (a consume during which no writer acts and which sees the writers\' last commits leaves nothing undelivered in any channel) and C02_removal_without_fence_refuted (the same model without the fence loses an accepted event - the D7 finding, fixed) - Coq, closed. C02_channels_polled_in_creation_order + C02_replacement_channel_is_last: in every reachable state the channels are listed (hence polled) in creation order and a replacement channel is created last. C02_abandoned_queue_drained_by_next_consume + C02_abandoned_queue_gone_after_next_consume (Session/SessionReplace.v): for every history and every schedule of writer actions inside the consume, a channel that is closed when a consume starts (abandoned for a larger queue, or its writer destroyed) is found closed, marked at its own position in the polling order, has handed out every committed byte when the channel loop ends, and its uid is not in the session afterwards. C02_consume_writes_channels_in_creation_order (Session/SessionPieces.v): the output of one consume is metadata ++ the concatenation of one piece per polled channel, the uids of the pieces strictly increase and piece j belongs to position j of the channel list. C02_abandoned_queue_never_written_again (Session/SessionGone.v): after any further operations, no later consume writes a piece for a channel that was closed before an earlier consume. C02_replacement_closes_the_old_channel: the slow path of addEvent leaves the old channel closed with a uid below the replacement\'s. PARTIAL: the assembly of these statements into one sentence about one writer\'s events in the concatenation of all consume outputs is not a single theorem (the model has no per-byte writer attribution); it is checked on the implementation by the exactly-once/in-order oracle.',
   note=NOTE_COMMON + 'the stand-ins of harness/drv_session.cpp (atomic, mutex, shared_ptr with libstdc++ orders, fence); the session model keeps one source id per statement site; per-channel delivery is C01.', design='4/C02', technique='Coq proof (queue refinement lifted to sessions, drained-before-removal theorem, refutation witness by vm_compute) + differential correspondence incl. the stale-read schedule'),
 'C03': dict(
   text='Theorems C03_metadata_first (every consume writes pending clock syncs and all unconsumed sources before polling any channel; nothing inside a consume can register a source), C03_source_ids_distinct, C03_sources_once_per_output, C03_events_follow_their_sources + C03_sources_cover_the_ids (for every history and every schedule inside consume: after the metadata part a consume writes only writer descriptions and whole events whose source ids are below next_sid at its start, and the sources buffer - completely in the output by then - holds exactly one source per such id) (Coq, closed), instantiated with the lock_guard / write-order / store-after-registration facts read off Session.hpp and the macro header. The interleavings considered are those the mutex permits: lock-free writer actions anywhere inside consume. Two threads racing on one statement site are not in the model (one id per site) - observed only.',
   note=NOTE_COMMON + 'the stand-ins of harness/drv_session.cpp (atomic, mutex, shared_ptr with libstdc++ orders, fence); the session model keeps one source id per statement site; per-channel delivery is C01.', design='4/C03', technique='Coq proof over the session model with mutex-atomic operations and in-consume plans; source-derived lock facts; differential correspondence'),
 'C13': dict(
   text='Theorems C13_rotation_metadata_complete, C13_consume_metadata_first and C13_current_output_self_contained (the tracked current output holds a source for every id carried by an event written to it) (Coq, closed): an invariant over every history tracks what the CURRENT output holds; after reconsumeMetadata and after every consume the output holds exactly the consumed prefix of the sources (all of them after a consume) and every clock sync set so far, before any event of that consume - for rotations twice in a row, before any consume, and with unconsumed events or sources pending. Tied by differential runs with rotations and an oracle that parses each output on its own.',
   note=NOTE_COMMON + 'the stand-ins of harness/drv_session.cpp (atomic, mutex, shared_ptr with libstdc++ orders, fence); the session model keeps one source id per statement site; per-channel delivery is C01.', design='4/C13', technique='Coq invariant proof with a ghost tracker of the current output; differential correspondence'),
 'C19': dict(
   text='Theorems C19_disabled_statement_is_noop, C19_enabled_statement_one_event, C19_change_takes_effect (Coq, closed) on the statement model, instantiated with facts read off the macro headers: all 24 named macros expand to BINLOG_CREATE_SOURCE_AND_EVENT_IF whose comparison encloses source creation, argument evaluation and the event; the minimum is an atomic stored with release / loaded with acquire. Tied by the exhaustive product 8 sites x 9 thresholds x {first, repeated} on the real macros with evaluation counters, plus random histories.',
   note=NOTE_COMMON + 'the stand-ins of harness/drv_session.cpp (atomic, mutex, shared_ptr with libstdc++ orders, fence); the session model keeps one source id per statement site; per-channel delivery is C01.', design='4/C19', technique='Coq proof on the log-statement model + source-derived macro structure; exhaustive differential product'),
 'C04': dict(
   text='Theorems C04_encode_is_documented (the recursive serializer of the model emits exactly the documented wire format spec_enc for every well-typed value of every type of the universe: arithmetic, enums, '
        'sequences incl. strings/arrays/maps-as-pairs, tuples, optionals/pointers, variants, structs, nested to any depth), C04_size_exact (serialized_size equals the number of bytes written, for all of them) and '
        'C04_event_within_reservation (an event written by addEvent stays inside the queue reservation computed from serialized_size) - Coq, closed, unbounded. Tied on every run by GENERATED C++ programs: random type '
        'descriptions are rendered both as model terms and as real C++ types (MSERIALIZE_MAKE_STRUCT_* over members and over getters, std containers, a user container with a proxy iterator, smart pointers, optional, variant), compiled against /repo, and bytes / sizes compared with the extracted model; '
        'the implementation alone is also compared with an independent python rendering of the documented format.',
   note=NOTE_COMMON + 'tools/gen_mser.py (renders one description two ways); template dispatch is the compiler\'s; floating point values are carried as raw bit patterns; user-defined CustomSerializer specialisations other than those shipped are outside the universe.',
   design='4/C04', technique='Coq proof by induction over a type/value universe (custom nested induction principle) + generated-program differential correspondence'),
 'C05': dict(
   text='Theorems C05_decode_encode (deserialize(serialize(v)) = v with the rest of the input untouched, every deserializable type), C05_decode_compatible (a value serialized as one type deserializes as any tag-compatible type: '
        'vector/deque/list/array/set of the same element, pair/tuple, optional/pointer), C05_truncated_input_fails (EVERY proper prefix of a serialization is rejected with an error, never a value), '
        'C05_fixed_size_mismatch_fails (a sequence whose size differs from a fixed-extent destination is rejected) - Coq, closed, unbounded. Tied by the same generated programs: round trip, every truncation point of every case, '
        'cross-type deserialization, on the implementation and on the model.',
   note=NOTE_COMMON + 'as C04; destination containers with set semantics (std::set/map) are compared after canonicalisation; nested maps are serialize-only (the library does not compile their deserializer).',
   design='4/C05', technique='Coq round-trip proof over the type/value universe, prefix-rejection lemma by induction; generated-program differential correspondence'),
 'C06': dict(
   text='Theorems C06_tag_wellformed (tag<T>() of every type of the universe is a well-formed tag of the documented grammar), C06_tag_pop_tag / C06_tag_pop_concat (the tag tokenizer splits a concatenation of tags exactly at '
        'the boundaries, names with balanced brackets included) - Coq, closed, unbounded - and C06_visit_agrees_partial / C06_visit_agrees_any_visitor: for every value of every SIMPLE type (arithmetic, adapted enums over integral types, sequences of ANY length incl. the collapsing of more than 32 zero-size elements, tuples, optionals, variants, structs (an empty struct under the hypothesis that the complete tag holds no definition of its name); '
        'PARTIAL: enums over bool and recursive hand-written tags are not in the theorem), for a plain visitor and for one that takes whole strings / has a printStruct hook,, visit(tag(t), bytes(v)) with recursion budget 2048 reports exactly callbacks(t, v) and consumes exactly the value; C06_enumerator_is_found_by_value: the enumerator reported is the first whose value is the value visited; C06_singular_is_zero_size: the singular check answers "zero bytes per value" exactly. '
        'The parts outside the theorem are tied by correspondence only: generated programs (tag, full callback sequence, ToString text) and hand-written recursive tags with prefix-related struct names, plus corrupted tags/bytes, run through mserialize::visit and the model.',
   note=NOTE_COMMON + 'as C04; the visit theorem is partial as stated; string-level name resolution of recursive struct references is modelled (resolve_recursive) and executed against the code but not covered by a theorem.',
   design='4/C06', technique='Coq proof on string-level tag tokenizer and visitor interpreter (fuelled, fuel = the code\'s recursion limit) + generated-program and hand-written-tag differential correspondence'),
 'C09': dict(
   text='PARTIAL by theorem, the rest by observation tied to the model. Theorems (Coq, closed): C09_entries_tile_the_input (for EVERY byte string the payloads the reader interprets, with their size fields, tile a prefix of the input and the remainder is the '
        'reported incomplete tail: no entry reaches outside the input), C09_time_assertions_never_fire (for every clock sync, clock value, time zone offset and date format no printTwoDigits / printTimeZoneOffset assertion can fire; instantiated with the %y and '
        'offset arithmetic read off the sources), C09_singular_sequence_collapsed (more than 32 zero-size elements are visited once whatever count the input claims), instances for nesting beyond 2048 and self-referential structs. '
        'C09_callbacks_bounded_without_backrefs: for ARBITRARY tag bytes and ARBITRARY input the visitor callbacks (incl. those made before an error) number at most 4|tag| + 16|tag|^2|input| unless a struct back-reference is resolved while visiting (computable predicate noback; recursion limit and the >32 singular guard read off the sources), and C09_callbacks_bounded_for_every_loggable_type (every tag of the C06 type universe satisfies it). C09_no_amplification_refuted proves on the faithful model that the bound does NOT hold once a back-reference is resolved (recorded finding D6, reported as KNOWN-FINDING for its two inputs; any other amplification is a violation). '
        'Memory safety, stack depth, termination time and the size of the printed text of the real code are outside what a Coq model can exhibit: they are observed under ASan+UBSan with assertions on, on hostile inputs aimed at the guards, while the model must predict status and text of every one of them '
        '(message rendering incl. %.16g floats, time formatting, error isolation), and a sample runs through the real bread binary (exit status 0/3).',
   note=NOTE_COMMON + 'sanitizers as observers; operator new limited to 256 MiB in the line driver (bread stage unlimited); invalid-bool loads and multi-GB allocations for hostile size fields are recorded observations, not counted as violations (DESIGN.md).',
   design='4/C09', technique='Coq proofs on the reader/visitor model for the parts that are logic (bounds of entries, assertion-freedom of time formatting, collapse rule) + refutation witness; model-vs-code differential execution on hostile inputs under sanitizers'),
 'C07': dict(
   text='Theorems (Coq, closed): C07_source_read_back / C07_writer_read_back / C07_clock_sync_read_back (every metadata field serialized by the writer side is recovered exactly by the reader, any trailing bytes ignored), '
        'C07_event_read_back (an event is presented with the source registered under its id, the current writer properties, its clock and its argument bytes verbatim), C07_message_of_arithmetic_arguments and C07_message_of_simple_arguments (for EVERY format string and every list of arguments of the simple universe - arithmetic, adapted enums, strings, sequences of any length, tuples, optionals, variants, structs - '
        'matching its {} count, the message is the format with each {} replaced in order by text_of(value): the composition of C04 bytes, C06 visit and the ToString state machine), C07_value_text_is_documented_notation (the state machine prints strings verbatim, [a, b], (a, b), Name{ f: v }, {null}, enumerator or 0xHEX from any state), '
        'C07_float_digits_nearest (the 16 digits printed are the exact binary value rounded half-to-even). '
        'PARTIAL: the special struct renderings, enums over bool, recursive tags and the chain through the real macros and session are not theorems here (they rest on C04/C06/C03/C11/C14/C17 and on execution): '
        'generated C++ programs log through BINLOG_<SEV>_W/_WC and BINLOG_CREATE_SOURCE_AND_EVENT with random argument types, writers that come and go, consumes in between; printEvents of the current tree must print exactly the text the '
        'model reader+renderer gives for the log the program denotes; an independent python rendering of the documented notation is compared with code and model on typed wire-level logs.',
   note=NOTE_COMMON + 'tools/gen_log.py, gen_mser.py, gen_wire.py; python framing of entries; the programs are built with UBSan only so that allocator reuse of freed channels is observable; named-macro clocks (clockNow) are not compared.',
   design='4/C07', technique='Coq round-trip and substitution proofs on the reader/renderer model + generated-program differential execution + independent reference rendering'),
 'C20': dict(
   text='Theorems (Coq, closed): C20_output_is_whole_entries (for EVERY byte string given as the image, what the tool writes is a sequence of complete size-prefixed entries - scanning, both block readers, the wrap-around read, sorting and concatenation), '
        'C20_inconsistent_queue_rejected (write index, data end or read index above the capacity: the queue contributes nothing, whatever follows), C20_oversized_metadata_rejected (a size field beyond the rest of the image: nothing is read or allocated), '
        'instantiated with the checks and magic numbers read off brecovery.cpp / Session.hpp on every run. Termination of the model is structural (each step consumes input). Memory safety and exit status of the real binary are observed: '
        'the brecovery binary built from the tree with ASan+UBSan and assertions runs on every generated image (genuine blocks, hostile fields 0..2^64-1, truncations, nested magics, junk) and its output file must equal the model\'s bytes.',
   note=NOTE_COMMON + 'std::ifstream semantics (ignore/read/seekg/tellg/clear after failure) are modelled as list operations and tied by correspondence only; std::sort modelled as stable insertion sort (images hold <= 12 blocks).',
   design='4/C20', technique='Coq proof over a functional model of brecovery (inductive whole-entries predicate, permutation of the sort) + differential execution of the real binary under sanitizers'),
 'C08': dict(
   text='PARTIAL by theorem, completed by execution on real memory images. Theorems (Coq, closed): C08_queue_image_recovers_committed (for EVERY capacity, operation sequence and reads-from history the channel memory, as Session::Channel lays it out, '
        'is read by the tool as exactly the committed bytes from the released offset to the last commit), C08_recovered_range_is_whole_commits (both ends are commit boundaries), C08_partial_event_invisible (any bytes of an event in flight anywhere in the granted window change nothing), '
        'C08_metadata_recoverable_in_every_write_state + C08_good_block_recovered (in every memory state of RecoverableVectorOutputStream::write, growth included, a block with its magic set holds exactly the completed entries and is read by the tool), '
        'C08_scan_finds_the_blocks + C08_recovered_log_of_an_image (for any image made of arbitrary bytes without a stray magic number, metadata blocks and channel blocks in any order the tool finds exactly the blocks and writes what the block theorems say) and C08_metadata_before_data (per session all recovered metadata precede all recovered data); '
        'built on the C01 invariant and the C20 model of brecovery, instantiated with the growth protocol / single-write / magic facts read off the sources. C08_session_state_recovered: for EVERY history of the session model (log statements, raw events carrying handed-out ids, writers created/destroyed, queue replacement, consumes with lock-free writer actions inside) the memory of the resulting state - clock-sync buffer, sources buffer and every channel, woven with any magic-free memory - is read back as clock syncs, sources, then the unreleased events of every channel, and every recovered event carries an id whose source is among the recovered sources (at least one clock sync is there); the model state is tied to real memory at points between operations (the blocks the real tool recovered must equal the model state after the same operations). Not a theorem: the combination of the blocks at instants inside a session operation / inside several operations at once: '
        'the real headers run scripted scenarios (sources registered, buffers growing, queues wrapping, writers logging inside consume) and dump all writable mappings at points before/after every atomic access and memcpy of the library; the real brecovery '
        'must recover every completed event, printable, nothing uncommitted, per-queue order, and equal the model on every image.',
   note=NOTE_COMMON + 'harness/drv_crash.cpp stand-ins (layout-compatible atomic, memcpy, mutex); points are boundaries of atomic accesses and memcpy calls (not inside memmove); teardown of the session excluded; an image is assumed to show all completed stores.',
   design='4/C08', technique='Coq proof composing the queue invariant (C01) with the functional model of brecovery (C20) + protocol state enumeration for the metadata buffer; real-process memory images through the real tool as correspondence and oracle'),
 'C10': dict(
   text='Theorems (Coq, closed): C10_producer_never_writes_readable_bytes (in every reachable state of the release/acquire queue machine - every capacity, operation sequence and reads-from choice, i.e. every C++11 execution and not only x86 ones - no committed byte the consumer may still read lies in the window the producer may write), '
        'C10_consumer_reads_only_published_bytes (every batch is a slice of the stream committed before the store it acquired), C10_dataEnd_not_written_while_readable, C10_orders (the release/acquire orders, atomic severity, atomic source id, fence in consume as they stand in the sources), and '
        'C10_lock_discipline: the table of all accesses to shared Session/Channel members (function, member, under lock_guard or not), regenerated from Session.hpp and SessionWriter.hpp on every run, satisfies the lockset rule (under the session mutex, or atomic, or constructor, or the writer reading the two WriterProp fields only it writes). '
        'PARTIAL: the lockset rule is decided on a regex-extracted table (trusted translator), not on a semantics of C++; real threads are observed: ThreadSanitizer runs of the unmodified headers with writers created/moved/renamed/destroyed, channel replacement, consume, reconsumeMetadata, setClockSync, setMinSeverity.',
   note=NOTE_COMMON + 'ThreadSanitizer as observer (does not model atomic_thread_fence; that path is C02). The queue part rests on the C01 model and its correspondence (store-history atomics with happens-before stamps).',
   design='4/C10', technique='Coq proof on the release/acquire queue machine (race freedom as ownership of cells) + kernel-evaluated lockset check over a source-derived access table; ThreadSanitizer runs as supporting observation'),
}
REASON_NOT_BUILT = 'not built yet in this round: no theorem/correspondence for it is registered; not claimed at a lower level by another technique'
m = {'version': 1, 'setup_cmd': './setup.sh',
     'hooks': {'guard': 'BINLOG_VERIF', 'enable': 'none needed: drivers observe the unmodified headers (token renaming in harness/); no hook commits exist',
               'baseline_off_cmd': 'cmake --build /repo/_build && ctest --test-dir /repo/_build -j8 --timeout 900', 'source_commits': [], 'add_only': True},
     'engines': [{'name': 'coq-model+correspondence', 'path': 'check', 'serves_properties': sorted(CLAIMS), 'kind_free_text': 'Coq 8.16 theorems over an executable model; model extracted to OCaml and run against C++ drivers compiled from /repo on every run'}],
     'checks': [], 'not_applicable': [],
     'notes': 'See DESIGN.md. fix: commits in /repo are listed in known_findings.json.'}
for p in PROPS:
    if p in CLAIMS:
        c = CLAIMS[p]
        m['checks'].append({'property_id': p, 'quick_cmd': './check %s --tier quick' % p, 'thorough_cmd': './check %s --tier thorough' % p,
                            'evidence_file': 'evidence/%s.json' % p, 'replay_cmd_template': './check %s --replay {path}' % p,
                            'engine': 'coq-model+correspondence',
                            'level_claimed': {'category': 'proof', 'text': c['text'], 'design_ref': c['design']},
                            'level_note': c['note'], 'technique': c['technique']})
    else:
        m['not_applicable'].append({'property_id': p, 'reason': REASON_NOT_BUILT})
json.dump(m, open(os.path.join(V, 'MANIFEST.json'), 'w'), indent=1)
print('MANIFEST.json: %d checks, %d not claimed' % (len(m['checks']), len(m['not_applicable'])))
