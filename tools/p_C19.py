"""C19 — session property (see DESIGN.md section 4/C19)."""
from sess_common import *
PID = 'C19'
TRUSTED = TRUSTED_COMMON + ['the log statement sites of harness/drv_session.cpp expand BINLOG_CREATE_SOURCE_AND_EVENT_IF (what all 24 named macros expand to - fact macro_families_use_if); their argument expression counts its evaluations']
ASSUMPTIONS = ['"after the change returns" needs a happens-before edge to the statement; the driver runs them in program order of one OS thread',
               'the 24 named macros are tied to BINLOG_CREATE_SOURCE_AND_EVENT_IF by source facts, not executed individually (they stamp events with clockNow())']
RULE = ('exhaustive product: 8 statement sites (severities trace..critical) x 9 minimum severities (the 7 enumerators, 0 and 129) x {first execution, repeated execution}, plus random histories '
        'interleaving setMinSeverity with statements of several writers and consumes; (a) model vs real macros: arguments evaluated or not, every byte consumed; (b) implementation alone: '
        'arguments evaluated iff severity >= current minimum, disabled statements register no source and add no event (source and event entries counted in the consumed stream). '
        'non-trivial = at least one disabled and one enabled statement')
CHECKS = ('sev', 'meta', 'once')
SITE_SEV = [32, 64, 128, 256, 512, 1024, 128, 32]
def product():
    out = []
    for m in [0, 32, 64, 128, 129, 256, 512, 1024, 32768]:
        for site in range(8):
            for rep in (1, 2):
                ops = ['nw:1:256:0:', 'ms:%d' % m] + ['lg:1:1000:%d:%d:%d:%s' % (site, SITE_SEV[site], 10 + r, u(4, 40 + r).hex()) for r in range(rep)] + ['co:', 'ms:0'] + \
                      ['lg:1:1000:%d:%d:%d:%s' % (site, SITE_SEV[site], 20, u(4, 50).hex()), 'co:', 'co:']
                out.append(ops)
    return out
def run(ctx): return run_session_property(ctx, CHECKS, dict(use_log=True, plans=False), 'severity control violated on the implementation', n_quick=500, n_thorough=15000, extra_cases=product())
def search(ctx):
    c2 = Ctx(ctx.pid, 'quick', ctx.seed + 1, random.Random(ctx.seed + 99), ctx.drivers, True); c2.n = lambda q, t: 3000
    return [v for v in run(c2)['violations'] if v[1]]
def replay(ctx, rp): return session_replay(ctx, rp, CHECKS)
