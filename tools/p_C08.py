"""C08 — Crash recovery: committed-but-unconsumed events are recoverable at any instant."""
import collections, re, shutil, tempfile
from vlib import *
from recov_common import *

DRIVERS = []
TRUSTED = ['Coq 8.16.1 kernel incl. vm_compute', 'ExtrOcamlBasic extraction + ocaml/modeldrv.ml glue', 'tools/srcfacts.py (growth protocol of RecoverableVectorOutputStream::write, single write of metadata entries, magic numbers, channel destructor, queue memory orders)',
           'harness/drv_crash.cpp: the real headers over layout-compatible stand-ins for std::atomic / memcpy / std::mutex that mark a point before and after every atomic access and memcpy of the library; at chosen points the process writes all its writable mappings (/proc/self/maps) to a file',
           'the real brecovery binary built from the tree (ASan+UBSan) run on those images; python parser of the recovered log']
ASSUMPTIONS = ['an image shows every store completed in program order by every thread (threads are stopped and their store buffers drained before memory is dumped)',
               'instants inside std::vector::insert / memmove (a copy half done) are covered by the theorems (W_copy, W_append, scribble) but cannot be sampled by the driver: points are the boundaries of atomic accesses and memcpy calls',
               'two threads both in the middle of an operation are produced by running a lock-free writer action at a point inside consume; other thread combinations are sequential interleavings at operation granularity',
               'teardown of the session object itself is excluded']
RULE = ('scenarios of 6-40 operations (writers with queue capacities 128..4096 created / renamed / destroyed, events of 8..120 payload bytes through 6 call sites so that sources are registered, metadata buffers grow and queues wrap and get replaced, '
        'consume, reconsumeMetadata, setClockSync, consume with a writer logging at the k-th point inside it); per scenario the points are counted and 6 (thorough: 25) of them chosen, incl. points inside source registration, buffer growth, '
        'commit, wrap and consume; each image goes through the real brecovery; oracle on its output together with what consume had written: whole entries, every event printable (its source and a clock sync precede it in the recovered log), '
        'every completed log call present, nothing that was never committed, per recovered queue block increasing sequence numbers per writer; the model recover(image) must equal the tool\'s output byte for byte; at points BETWEEN two operations the blocks the tool wrote (from its own log) must equal, as a multiset, the clock-sync buffer, the sources buffer and the per-channel unreleased bytes of the Coq session model after the same operations (state tie for C08_session_state_recovered; stats: state_tie_images). non-trivial = image with at least one completed unconsumed event')

def gen_scenario(rng):
    ops, writers, used_sites, cap = [], {}, set(), {}
    n = rng.randrange(6, 40); nextw = 1
    pending = collections.Counter()
    for _ in range(n):
        k = rng.random()
        if not writers or (k < 0.08 and len(writers) < 3):
            c = rng.choice([128, 160, 256, 512, 4096]); writers[nextw] = True; cap[nextw] = c
            ops.append('nw%d:%d:%d:%s' % (nextw, c, rng.choice([0, nextw, 1 << 40]), rng.choice(['', '7731', '6e616d65']))); nextw += 1
        elif k < 0.62:
            w = rng.choice(list(writers)); site = rng.randrange(6); ln = rng.choice([8, 8, 12, 30, 60, 120])
            ops.append('lg%d:%d:%d' % (w, site, ln)); used_sites.add(site); pending[w] += ln + 28
        elif k < 0.75: ops.append('co'); pending.clear()
        elif k < 0.83 and used_sites:
            w = rng.choice(list(writers)); site = rng.choice(sorted(used_sites))
            if pending[w] + 80 < cap[w] // 2:            # the nested action must stay lock-free: known source, room in the queue
                ops.append('cn%d:lg%d:%d:%d' % (rng.randrange(1, 60), w, site, rng.choice([8, 20, 40]))); pending.clear()
            else: ops.append('co'); pending.clear()
        elif k < 0.88: ops.append('cs')
        elif k < 0.92: ops.append('nm%d:%s' % (rng.choice(list(writers)), rng.choice(['6162', '', '78797a'])))
        elif k < 0.95: ops.append('rc')
        elif len(writers) > 1: w = rng.choice(list(writers)); del writers[w]; ops.append('cl%d' % w)
    return ops

def parse_log(b):
    """entries of a binlog stream: list of ('src', id) | ('cs',) | ('wp',) | ('ev', srcid, payload) | ('other',); None if not whole entries"""
    out, i = [], 0
    while i < len(b):
        if i + 4 > len(b): return None
        n = int.from_bytes(b[i:i + 4], 'little'); p = b[i + 4:i + 4 + n]; i += 4 + n
        if len(p) != n: return None
        if n < 8: out.append(('other',)); continue
        tag = int.from_bytes(p[:8], 'little')
        if tag == TAG_SRC: out.append(('src', int.from_bytes(p[8:16], 'little')))
        elif tag == TAG_CS: out.append(('cs',))
        elif tag == TAG_WP: out.append(('wp',))
        elif tag >> 63: out.append(('other',))
        else: out.append(('ev', tag, p[16:]))
    return out

def event_id(args):
    """(writer, seq, intact) of an event logged by the driver: u32 length, u32 writer, u32 seq, filler"""
    if len(args) < 12: return None
    n = int.from_bytes(args[:4], 'little'); w = int.from_bytes(args[4:8], 'little'); s = int.from_bytes(args[8:12], 'little')
    intact = (n == len(args) - 4) and all(c == ord('a') + s % 26 for c in args[12:])
    return (w, s, intact)

def judge(snap, recovered, stderr):
    """the property on one image; returns True or a message"""
    rec = parse_log(recovered)
    if rec is None: return 'recovered log is not a sequence of complete entries'
    outp = parse_log(snap['out'])
    if outp is None: return 'harness: consumed output does not parse'     # consume writes whole entries (C11)
    srcs, have_cs, seen = set(), False, set()
    for e in rec:
        if e[0] == 'src': srcs.add(e[1])
        elif e[0] == 'cs': have_cs = True
        elif e[0] == 'ev':
            ident = event_id(e[2])
            if ident is None or not ident[2]: return 'recovered event is damaged or partially written: %s' % e[2].hex()[:80]
            if e[1] not in srcs: return 'recovered event %d.%d is not printable: its source %d does not precede it in the recovered log' % (ident[0], ident[1], e[1])
            if not have_cs: return 'recovered event %d.%d is not printable: no clock sync precedes it in the recovered log' % (ident[0], ident[1])
            if (ident[0], ident[1]) not in snap['completed'] and (ident[0], ident[1]) != snap['inflight']: return 'recovered event %d.%d was never committed' % (ident[0], ident[1])
            seen.add((ident[0], ident[1]))
    for e in outp:
        if e[0] == 'ev':
            ident = event_id(e[2])
            if ident: seen.add((ident[0], ident[1]))
    missing = [c for c in snap['completed'] if c not in seen]
    if missing: return 'completed event(s) neither in the output nor in the recovered log: %s' % missing[:5]
    # order inside each recovered data block
    off = 0
    for m in re.finditer(r'Write (\d+) bytes of recovered (\w+) to output at offset (\d+)', stderr):
        size, typ, o = int(m.group(1)), m.group(2), int(m.group(3))
        if typ == 'Data':
            last = {}
            for e in parse_log(recovered[o:o + size]) or []:
                if e[0] == 'ev':
                    w, s, _ = event_id(e[2])
                    if w in last and s <= last[w]: return 'events of writer %d out of order inside one recovered queue: %d after %d' % (w, s, last[w])
                    last[w] = s
    return True

def decode_strs(p, i, n):
    out = []
    for _ in range(n):
        k = int.from_bytes(p[i:i + 4], 'little'); out.append(p[i + 4:i + 4 + k]); i += 4 + k
    return out, i

def metadata_of(recovered):
    """(initial clock sync fields, {site: source fields}) read back from a recovered log"""
    cs0, srcs, i = None, {}, 0
    while i + 4 <= len(recovered):
        n = int.from_bytes(recovered[i:i + 4], 'little'); p = recovered[i + 4:i + 4 + n]; i += 4 + n
        if len(p) < 8: continue
        tag = int.from_bytes(p[:8], 'little')
        if tag == TAG_CS and cs0 is None:
            (name,), _ = decode_strs(p, 36, 1)
            cs0 = (int.from_bytes(p[8:16], 'little'), int.from_bytes(p[16:24], 'little'), int.from_bytes(p[24:32], 'little'), int.from_bytes(p[32:36], 'little'), name)
        elif tag == TAG_SRC:
            sev = int.from_bytes(p[16:18], 'little'); (cat, fn, fl), j = decode_strs(p, 18, 3)
            line = int.from_bytes(p[j:j + 8], 'little'); (fmt, tags), _ = decode_strs(p, j + 8, 2)
            if cat.startswith(b'cat'): srcs[int(cat[3:])] = (sev, cat, fn, fl, line, fmt, tags)
    return cs0, srcs

def model_ops(ops, srcs):
    """the scenario prefix in the vocabulary of the session model (None if it has an action inside a consume, or a source not read back)"""
    out, writers, seq, clock, syncs = [], set(), collections.Counter(), 100, 0
    for op in ops:
        k, f = op[:2], op[2:].split(':')
        if k == 'nw': writers.add(f[0]); out.append('nw:%s:%s:%s:%s' % (f[0], f[1], f[2], f[3] if len(f) > 3 else ''))
        elif k == 'lg':
            if f[0] not in writers: continue
            site = int(f[1]) % 6
            if site not in srcs: return None
            seq[f[0]] += 1; sq = seq[f[0]]; clock += 1
            payload = bytearray([ord('a') + sq % 26]) * max(int(f[2]), 8)
            payload[0:4] = int(f[0]).to_bytes(4, 'little'); payload[4:8] = sq.to_bytes(4, 'little')
            args = len(payload).to_bytes(4, 'little') + bytes(payload)
            sev, cat, fn, fl, line, fmt, tags = srcs[site]
            out.append('lgs:%s:99:%d:%d:%s:%s:%s:%d:%s:%s:%d:%s' % (f[0], site, sev, cat.hex(), fn.hex(), fl.hex(), line, fmt.hex(), tags.hex(), clock, args.hex()))
        elif k == 'cl': writers.discard(f[0]); out.append('cl:' + f[0])
        elif k == 'nm':
            if f[0] in writers: out.append('nm:%s:%s' % (f[0], f[1] if len(f) > 1 else ''))
        elif k == 'cs': syncs += 1; out.append('cs:%d:1000000000:%d:0:%s' % (syncs, 1000 + syncs, ('Z%d' % syncs).encode().hex()))
        elif k == 'rc': out.append('rc')
        elif k == 'co': out.append('co:')
        else: return None
    return out

def state_tie(ops, snap, recovered, stderr):
    """between two operations: the blocks the real tool recovered from the real memory vs the state of the session model after the same
    operations (the state C08_session_state_recovered speaks about). Returns None (not applicable), True, or (model, impl) texts"""
    if snap['after'] < 0: return None
    cs0, srcs = metadata_of(recovered)
    if cs0 is None: return None
    mops = model_ops(ops[:snap['after']], srcs)
    if mops is None: return None
    mo, merr, mrc = run_lines(MODELDRV, ['sessstate %d:%d:%d:%d:%s %s' % (cs0[0], cs0[1], cs0[2], cs0[3], cs0[4].hex(), ' '.join(mops))], 60)
    if not mo or mrc != 0: return ('model driver failed: %s' % (merr or '')[-300:], '')
    t = [('' if x == '-' else x) for x in mo[0].split(' ')]
    model = sorted([('Metadata', x) for x in t[:2] if x] + [('Data', x) for x in t[2:] if x])
    impl = sorted((m.group(2), recovered[int(m.group(3)):int(m.group(3)) + int(m.group(1))].hex())
                  for m in re.finditer(r'Write (\d+) bytes of recovered (\w+) to output at offset (\d+)', stderr) if int(m.group(1)) > 0)
    return True if model == impl else (str(model)[:900], str(impl)[:900])

def run(ctx):
    rng = ctx.rng; stats = collections.Counter(); violations = []; broken = []; bad = []; mism = []; nontriv = set(); n_img = 0
    work = tempfile.mkdtemp(prefix='c08_', dir=WORK)
    try:
        exe, log = build_brecovery(work)
        drv, dlog = build_driver('drv_crash', sanitize=False)
        if exe is None or drv is None:
            return {'evaluations': 0, 'distinct': 0, 'samples': [], 'stats': {}, 'validated': 0, 'broken_what': ['build failed'],
                    'violations': [(write_replay(ctx.pid, 'build', 'brecovery/drv_crash', '', (log if exe is None else dlog)[-2000:], 'brecovery or the crash driver does not build from the current tree', found=False), False)]}
        scenarios = [l.split(' ') for l in corpus_lines('C08')] + [gen_scenario(rng) for _ in range(ctx.n(40, 400))]
        per = ctx.n(6, 25)
        samples = []
        for si, ops in enumerate(scenarios):
            pre = os.path.join(work, 's%d_' % si)
            r = subprocess.run([drv, pre, 'count'] + ops, stdout=subprocess.PIPE, stderr=subprocess.PIPE, universal_newlines=True, timeout=120)
            m = re.search(r'points (\d+) (\S+)', r.stdout)
            if r.returncode != 0 or not m:
                bad.append((' '.join(ops), 'driver exit %d %s' % (r.returncode, r.stderr[-800:]), 'scenario runs')); continue
            if m.group(2) != 'ok': stats['scenario_discarded_' + m.group(2)] += 1; continue
            total = int(m.group(1)); stats['scenarios'] += 1; stats['points_total'] += total
            pts = sorted(set(rng.randrange(1, total + 1) for _ in range(per)))
            mb = re.search(r'boundaries((?: \d+)*)', r.stdout); bnd = [int(x) for x in mb.group(1).split()] if mb else []
            pts = sorted(set(pts) | set(rng.sample(bnd, min(len(bnd), max(2, per // 3)))))
            r = subprocess.run([drv, pre, ','.join(map(str, pts))] + ops, stdout=subprocess.PIPE, stderr=subprocess.PIPE, universal_newlines=True, timeout=300)
            snaps = []
            for l in r.stdout.split('\n'):
                t = l.split(' ')
                if t[0] != 'snap': continue
                f = dict(x.split('=', 1) for x in t[3:])
                comp = [tuple(map(int, c.split('.'))) for c in f['completed'].split(',')] if f['completed'] != '-' else []
                infl = tuple(map(int, f['inflight'].split('.'))) if f['inflight'] != '-' else None
                snaps.append({'point': int(t[1]), 'file': t[2], 'completed': comp, 'inflight': infl, 'out': bytes.fromhex(f['out']) if f['out'] != '-' else b'', 'after': int(f.get('after', '-1'))})
            images = [open(s['file'], 'rb').read() for s in snaps]
            for s in snaps: os.remove(s['file'])
            outs = run_brecovery(exe, work, images, timeout=120)
            mlines = ['recover ' + hx(i) for i in images]
            mo, merr, mrc = run_lines(MODELDRV, mlines, 600)
            if mo is None or mrc != 0 or len(mo) != len(mlines): broken.append('model driver failed on an image'); mo = [''] * len(mlines)
            for s, img, (rc, out, err), mline in zip(snaps, images, outs, mo):
                n_img += 1; case = 'point %d of: %s' % (s['point'], ' '.join(ops))
                if len(samples) < 3: samples.append(case[:300])
                if rc != 0 or 'Sanitizer' in err or 'runtime error' in err:
                    bad.append((case, 'brecovery exit %s %s' % (rc, err[-1000:]), 'exit 0')); continue
                v = judge(s, out, err)
                if v is not True: bad.append((case, v + ' | recovered ' + out.hex()[:1200], 'see the property')); continue
                unconsumed = [c for c in s['completed']]
                if any(e[0] == 'ev' for e in (parse_log(out) or [])): nontriv.add(case_hash(case))
                stats['images_mid_log' if s['inflight'] else 'images_between_logs'] += 1
                if (mline or '-') != (out.hex() or '-') and not (mline == '' and out == b''): mism.append((case, mline[:600], out.hex()[:600]))
                tie = state_tie(ops, s, out, err)
                if tie is not None:
                    stats['state_tie_images'] += 1
                    if tie is not True: mism.append((case + ' [session state]', tie[0], tie[1]))
        violations += report_smallest(ctx.pid, 'prop', bad, 'a completed event is not recoverable / not printable from the memory image, or the recovered log holds something never committed')
        res = {'evaluations': n_img, 'distinct': len(nontriv), 'samples': samples, 'stats': dict(stats), 'validated': n_img - len(mism), 'violations': violations, 'broken_what': broken}
        if mism:
            c, mo_, io_ = sorted(mism, key=lambda x: len(x[0]))[0]
            res['corr_broken'] = True; res['first_mismatch'] = {'case': c, 'model': mo_, 'impl': io_}
            res['broken_what'].append('%d/%d real images: model recover and brecovery disagree; first: %s' % (len(mism), n_img, c[:200]))
            print('CORRESPONDENCE-BROKEN: %d images differ; first: %s\n  model: %s\n  impl:  %s' % (len(mism), c[:300], mo_[:300], io_[:300]))
        return res
    finally:
        shutil.rmtree(work, ignore_errors=True)
        try: os.remove(drv)
        except Exception: pass

def search(ctx):
    c2 = Ctx(ctx.pid, 'thorough', ctx.seed + 1, random.Random(ctx.seed + 5), ctx.drivers, True); c2.n = lambda q, t: 3 * q
    return [v for v in run(c2)['violations'] if v[1]]
def replay(ctx, rp):
    m = re.match(r'point (\d+) of: (.*)', rp['case'])
    if not m: return not ctx.obligations_ok
    work = tempfile.mkdtemp(prefix='c08r_', dir=WORK)
    try:
        exe, _ = build_brecovery(work); drv, _ = build_driver('drv_crash', sanitize=False)
        pre = os.path.join(work, 'r_'); ops = m.group(2).split(' ')
        r = subprocess.run([drv, pre, m.group(1)] + ops, stdout=subprocess.PIPE, universal_newlines=True, timeout=300)
        for l in r.stdout.split('\n'):
            t = l.split(' ')
            if t[0] != 'snap': continue
            f = dict(x.split('=', 1) for x in t[3:])
            s = {'completed': [tuple(map(int, c.split('.'))) for c in f['completed'].split(',')] if f['completed'] != '-' else [], 'inflight': tuple(map(int, f['inflight'].split('.'))) if f['inflight'] != '-' else None,
                 'out': bytes.fromhex(f['out']) if f['out'] != '-' else b''}
            (rc, out, err), = run_brecovery(exe, work, [open(t[2], 'rb').read()], timeout=120)
            v = judge(s, out, err); print('exit', rc, v)
            return rc != 0 or v is not True
        return False
    finally:
        shutil.rmtree(work, ignore_errors=True)
