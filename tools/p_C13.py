"""C13 — session property (see DESIGN.md section 4/C13)."""
from sess_common import *
PID = 'C13'
TRUSTED = TRUSTED_COMMON
ASSUMPTIONS = ['a rotation = switching the output and calling reconsumeMetadata on the new one before the next consume (the documented protocol)',
               'reading each output alone with the real reader is exercised in the thorough tier through the C07 path when present; here each output is parsed entry by entry']
RULE = ('histories with rotations (incl. twice in a row, before any consume, with unconsumed events and unconsumed sources pending), log statements of several writers, clock-sync changes; '
        '(a) model vs real headers; (b) implementation alone: each output on its own has, before every event, the source entry of its id and a clock sync; no source twice in one output; '
        'with a quiescent end no event lost or duplicated across all outputs. non-trivial = at least one rotation')
CHECKS = ('meta', 'once')
DIRECTED = [['nw:1:128:0:', 'rc', 'rc', 'lg:1:1000:2:128:5:01000000', 'co:', 'rc', 'lg:1:1000:2:128:6:02000000', 'lg:1:1000:3:256:7:03000000', 'co:', 'co:'],
            ['nw:1:128:0:', 'co:', 'rc', 'lg:1:1000:2:128:5:01000000', 'co:', 'co:'],
            ['nw:1:128:0:', 'lg:1:1000:2:128:5:01000000', 'cs:5:1000000000:77:0:434554', 'rc', 'co:', 'rc', 'co:', 'lg:1:1000:4:512:9:01000000', 'co:']]
def run(ctx): return run_session_property(ctx, CHECKS, dict(vary=lambda i, rng: dict(use_log=(i % 2 == 0), rotate=True)), 'a rotated output is not self-contained / events lost or duplicated across outputs', extra_cases=DIRECTED, inside=True)
def search(ctx):
    c2 = Ctx(ctx.pid, 'quick', ctx.seed + 1, random.Random(ctx.seed + 99), ctx.drivers, True); c2.n = lambda q, t: 6000
    found = [v for v in run(c2)['violations'] if v[1]]
    return found or inside_search(ctx, CHECKS, 'a rotated output is not self-contained / metadata handling is not safe against concurrent registration')
def replay(ctx, rp): return session_replay(ctx, rp, CHECKS)
